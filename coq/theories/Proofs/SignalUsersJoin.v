(* C14, part 6: group.AddClient (the announcements both ways) preserves the
   invariant. *)
From Coq Require Import ZArith List Bool String Arith Lia.
From Galene Require Import Generated.Guards Model.Signal Model.SignalUsers
  Proofs.SignalFrame Proofs.SignalSafe Proofs.SignalUsersBase Proofs.SignalUsersFrame
  Proofs.SignalUsersInv Proofs.SignalUsersAnnounce Proofs.SignalUsersLeave.
Import ListNotations.
Open Scope string_scope.
Open Scope list_scope.

Definition add_act (g : str) (c : client) : action :=
  APushClient g "add" (c_id c) (c_username c) (c_perms c) (c_data c).
Definition rec_act (g : str) : action := APushClient g "add" "?" "RECORDING" ["system"] [].

Definition join_step (h : nat) (g : str) (a1 : action) (w : world) (cc : nat) : world :=
  match get_client w cc with
  | None => w
  | Some ccr => enq (enq w h (add_act g ccr)) cc a1
  end.

(* the tail of AddClient: the member list grows, the joiner is told it has
   joined, then about itself, the recorder and every member; every member
   is told about the joiner *)
Definition attach (w1 : world) (h : nat) (c1 : client) (g : str) (rec : bool) (clients : list nat) : world :=
  let w2 := upd_group w1 g (fun gr => gset_members gr (app (g_members gr) [h])) in
  let w3 := enq w2 h (AJoined g "join") in
  let w4 := enq w3 h (add_act g c1) in
  let w4' := if rec then enq w4 h (rec_act g) else w4 in
  fold_left (join_step h g (add_act g c1)) clients w4'.

Lemma add_client_result : forall w h c gname u pw tk wr oe,
  add_client w h c gname u pw tk = (wr, oe) ->
  exists w1 c1,
    (w1 = w /\ c1 = c \/
     exists uname perms, w1 = upd w h (fun c0 => set_perms (set_username c0 uname) perms) /\
                         c1 = set_perms (set_username c uname) perms) /\
    (oe <> None /\ wr = w1 \/
     oe = None /\ exists g, find_group w gname = Some g /\ get_member w1 gname (c_id c1) = None /\
                  wr = attach w1 h c1 gname (g_recording g) (g_members g)).
Proof.
  intros w h c gname u pw tk wr oe H. unfold add_client in H.
  destruct (find_group w gname) as [g|] eqn:Eg.
  2:{ injection H as <- <-. exists w, c. split; [left; auto|]. left. split; [discriminate | reflexivity]. }
  cbv zeta in H.
  match type of H with match ?s with _ => _ end = _ => destruct s as [[w1 c1] | [w1 e]] eqn:Es end.
  - exists w1, c1. split.
    + destruct (mem "system" (c_perms c)); [inversion Es; left; auto|].
      destruct (get_permission w g u pw tk) as [[uname perms]|e]; [|discriminate].
      right. exists uname, perms.
      destruct (mem "op" perms); [inversion Es; auto|].
      destruct (g_locked g); [discriminate|].
      destruct (_ && _); [discriminate | inversion Es; auto].
    + destruct (is_empty (c_id c1)); [injection H as <- <-; left; split; [discriminate | reflexivity]|].
      destruct (get_member w1 gname (c_id c1)) eqn:Em;
        [injection H as <- <-; left; split; [discriminate | reflexivity]|].
      injection H as <- <-. right. split; [reflexivity|]. exists g. split; [reflexivity|].
      split; [reflexivity|]. unfold attach, join_step, add_act, rec_act.
      destruct (g_recording g); reflexivity.
  - injection H as <- <-.
    destruct (mem "system" (c_perms c)); [discriminate|].
    destruct (get_permission w g u pw tk) as [[uname perms]|e0].
    2:{ inversion Es; subst. exists w1, c. split; [left; auto|]. left. split; [discriminate | reflexivity]. }
    assert (E : w1 = upd w h (fun c0 => set_perms (set_username c0 uname) perms)).
    { destruct (mem "op" perms); [discriminate|].
      destruct (g_locked g); [inversion Es; reflexivity|].
      match type of Es with (if ?b then _ else _) = _ => destruct b end;
        [inversion Es; reflexivity | discriminate]. }
    exists w1, (set_perms (set_username c uname) perms). split.
    + right. exists uname, perms. auto.
    + left. split; [discriminate | reflexivity].
Qed.

(* ------------------------------------------------------------------ *)
(* The interleaved announcements, client by client                     *)

Definition nq (c : client) : str * str * list str * list (str * str) :=
  (c_id c, c_username c, c_perms c, c_data c).

Definition adds_for (w : world) (g : str) (hs : list nat) : list action :=
  flat_map (fun cc => match get_client w cc with Some ccr => [add_act g ccr] | None => [] end) hs.

Lemma adds_for_ext : forall w w' g hs,
  (forall x, In x hs -> option_map nq (get_client w' x) = option_map nq (get_client w x)) ->
  adds_for w' g hs = adds_for w g hs.
Proof.
  intros w w' g hs. induction hs as [|x hs IH]; intros H; [reflexivity|].
  cbn [adds_for flat_map]. fold (adds_for w' g hs). fold (adds_for w g hs).
  rewrite IH by (intros; apply H; right; assumption). f_equal.
  specialize (H x (or_introl eq_refl)).
  destruct (get_client w' x) as [a|], (get_client w x) as [b|]; cbn in H; try discriminate; [|reflexivity].
  unfold add_act. unfold nq in H. inversion H. reflexivity.
Qed.

Lemma groups_fold_join : forall h g a1 hs w,
  w_groups (fold_left (join_step h g a1) hs w) = w_groups w.
Proof.
  intros h g a1 hs. induction hs as [|x hs IH]; intros w; [reflexivity|].
  cbn [fold_left]. rewrite IH. unfold join_step. destruct (get_client w x); reflexivity.
Qed.

Lemma set_queue_twice : forall c a b, set_queue (set_queue c a) b = set_queue c b.
Proof. reflexivity. Qed.

Lemma get_client_fold_join : forall h g a1 hs w i,
  NoDup hs -> ~ In h hs ->
  get_client (fold_left (join_step h g a1) hs w) i =
  if Nat.eqb i h
  then option_map (fun ch => set_queue ch (c_queue ch ++ adds_for w g hs)) (get_client w i)
  else if existsb (Nat.eqb i) hs
       then option_map (fun ci => set_queue ci (c_queue ci ++ [a1])) (get_client w i)
       else get_client w i.
Proof.
  intros h g a1 hs. induction hs as [|x hs IH]; intros w i Hnd Hh.
  - cbn [fold_left adds_for flat_map existsb]. destruct (Nat.eqb i h); [|reflexivity].
    destruct (get_client w i) as [c|]; [|reflexivity]. cbn. rewrite app_nil_r. destruct c; reflexivity.
  - inversion Hnd as [|? ? Hx Hnd']; subst.
    assert (Hxh : x <> h) by (intro; apply Hh; left; assumption).
    assert (Hh' : ~ In h hs) by (intro; apply Hh; right; assumption).
    cbn [fold_left]. rewrite IH by assumption.
    destruct (get_client w x) as [cx|] eqn:Ex.
    + (* x is told about the joiner, the joiner about x *)
      assert (Ej : join_step h g a1 w x = enq (enq w h (add_act g cx)) x a1)
        by (unfold join_step; rewrite Ex; reflexivity).
      rewrite Ej. clear Ej.
      set (w1 := enq (enq w h (add_act g cx)) x a1).
      assert (Hg1 : forall j, get_client w1 j =
                if Nat.eqb j x then option_map (fun c => set_queue c (c_queue c ++ [a1])) (get_client w j)
                else if Nat.eqb j h then option_map (fun c => set_queue c (c_queue c ++ [add_act g cx])) (get_client w j)
                else get_client w j).
      { intros j. unfold w1, enq. rewrite !get_client_upd.
        destruct (Nat.eqb j x) eqn:E1; destruct (Nat.eqb j h) eqn:E2; try reflexivity.
        apply Nat.eqb_eq in E1, E2. congruence. }
      assert (Hadds : adds_for w1 g hs = adds_for w g hs).
      { apply adds_for_ext. intros y Hy. rewrite Hg1.
        destruct (Nat.eqb y x); [destruct (get_client w y); reflexivity|].
        destruct (Nat.eqb y h); [destruct (get_client w y); reflexivity | reflexivity]. }
      rewrite Hadds, Hg1. cbn [adds_for flat_map existsb]. rewrite Ex. fold (adds_for w g hs).
      destruct (Nat.eqb i h) eqn:Eih.
      * apply Nat.eqb_eq in Eih. subst i.
        assert (E : Nat.eqb h x = false) by (apply Nat.eqb_neq; congruence). rewrite E.
        destruct (get_client w h) as [ch|]; [|reflexivity]. cbn [option_map].
        rewrite set_queue_twice. cbn [c_queue set_queue]. rewrite <- app_assoc. reflexivity.
      * destruct (Nat.eqb i x) eqn:Eix; cbn [orb].
        -- apply Nat.eqb_eq in Eix. subst i.
           assert (E : existsb (Nat.eqb x) hs = false).
           { destruct (existsb (Nat.eqb x) hs) eqn:E; [|reflexivity].
             apply existsb_eqb_in in E. contradiction. }
           rewrite E. reflexivity.
        -- reflexivity.
    + (* not a connection: skipped *)
      assert (Ej : join_step h g a1 w x = w) by (unfold join_step; rewrite Ex; reflexivity).
      rewrite Ej. clear Ej.
      cbn [adds_for flat_map existsb]. rewrite Ex. cbn [app]. fold (adds_for w g hs).
      destruct (Nat.eqb i h); [reflexivity|].
      destruct (Nat.eqb i x) eqn:Eix; cbn [orb]; [|reflexivity].
      apply Nat.eqb_eq in Eix. subst i. rewrite Ex.
      destruct (existsb (Nat.eqb x) hs); reflexivity.
Qed.

(* what the joiner's queue says about one key *)
Lemma fold_adds_for : forall w g id hs st,
  NoDup hs -> (forall x, In x hs -> get_client w x <> None) ->
  (forall x y, In x hs -> In y hs -> has_id w id x = true -> has_id w id y = true -> x = y) ->
  fold_left (act_step (Some g) id) (adds_for w g hs) st =
  match find (has_id w id) hs with
  | Some x => match get_client w x with
              | Some cx => Some (c_username cx, c_perms cx)
              | None => st
              end
  | None => st
  end.
Proof.
  intros w g id hs. induction hs as [|x hs IH]; intros st Hnd Hv Hu; [reflexivity|].
  inversion Hnd as [|? ? Hx Hnd']; subst.
  cbn [adds_for flat_map find]. fold (adds_for w g hs).
  destruct (get_client w x) as [cx|] eqn:Ex; [|exfalso; eapply Hv; [left; reflexivity | exact Ex]].
  cbn [app fold_left]. unfold add_act at 1. cbn [act_step]. rewrite String.eqb_refl.
  rewrite IH; [| exact Hnd' | intros; apply Hv; right; assumption
               | intros; apply Hu; try right; assumption].
  unfold has_id at 2. rewrite Ex.
  destruct (String.eqb (c_id cx) id) eqn:E.
  - apply eqb_true in E. subst id. rewrite key_step_add.
    rewrite find_none; [rewrite Ex; reflexivity|].
    intros y Hy. destruct (has_id w (c_id cx) y) eqn:Ey; [|reflexivity].
    exfalso. apply Hx. replace x with y; [exact Hy|].
    apply Hu; [right; exact Hy | left; reflexivity | exact Ey |].
    unfold has_id. rewrite Ex. apply String.eqb_refl.
  - rewrite key_step_user_other by exact E. reflexivity.
Qed.

(* ------------------------------------------------------------------ *)
(* The world after a successful join                                   *)

Definition join_world (w1 : world) (h : nat) (c1 : client) (g : str) (rec : bool)
           (clients : list nat) : world :=
  upd (attach w1 h c1 g rec clients) h (fun c => set_group c (Some g)).

Definition join_queue (w1 : world) (c1 : client) (g : str) : list action :=
  [AJoined g "join"; add_act g c1] ++
  (if recording w1 g then [rec_act g] else []) ++ adds_for w1 g (members w1 g).

Lemma find_app : forall (P : nat -> bool) l1 l2,
  find P (l1 ++ l2) = match find P l1 with Some x => Some x | None => find P l2 end.
Proof.
  intros P l1 l2. induction l1 as [|a l1 IH]; [reflexivity|]. cbn [app find].
  destruct (P a); [reflexivity | exact IH].
Qed.

Lemma nodup_snoc_gen : forall (A : Type) (l : list A) x, NoDup l -> ~ In x l -> NoDup (l ++ [x]).
Proof.
  induction l as [|y l IH]; intros x Hn Hx; cbn [app].
  - constructor; [intros []|constructor].
  - inversion Hn; subst. constructor.
    + rewrite in_app_iff. intros [Hin | [He | []]]; [contradiction|].
      apply Hx. left. symmetry. exact He.
    + apply IH; [assumption|]. intro. apply Hx. now right.
Qed.

Lemma find_none_inv : forall (P : nat -> bool) l, find P l = None -> forall x, In x l -> P x = false.
Proof. intros P l H x Hx. apply (List.find_none P l H x Hx). Qed.

Section Join.
  Variables (w1 : world) (s : seenlog) (ph : nat) (h : nat) (c1 : client) (g : str) (gr : group).
  Hypothesis HI : Inv_p w1 s ph [] None.
  Hypothesis Hc1 : get_client w1 h = Some c1.
  Hypothesis Hg1 : c_group c1 = None.
  Hypothesis Hcl1 : c_closed c1 = false.
  Hypothesis Hgr : find_group w1 g = Some gr.
  Hypothesis Hnew : get_member w1 g (c_id c1) = None.

  Let ms := members w1 g.
  Let w6 := join_world w1 h c1 g (g_recording gr) (g_members gr).
  Let a1 := add_act g c1.
  Let c6 := set_group (set_queue c1 (c_queue c1 ++ join_queue w1 c1 g)) (Some g).

  Lemma join_ms : g_members gr = ms.
  Proof. unfold ms, members. rewrite Hgr. reflexivity. Qed.
  Lemma join_rec : g_recording gr = recording w1 g.
  Proof. unfold recording. rewrite Hgr. reflexivity. Qed.

  Lemma join_h_notin : forall g2, ~ In h (members w1 g2).
  Proof.
    intros g2 Hin. destruct HI as [HS _]. apply (s_memb w1 HS h c1 g2 Hc1) in Hin. congruence.
  Qed.

  Lemma join_members : forall g2,
    members w6 g2 = if String.eqb g2 g then ms ++ [h] else members w1 g2.
  Proof.
    intros g2. unfold w6, join_world. rewrite members_upd. unfold attach. cbv zeta.
    rewrite (members_groups (upd_group w1 g (fun gr0 => gset_members gr0 (g_members gr0 ++ [h])))).
    - rewrite members_upd_group by reflexivity. rewrite Hgr. cbn [g_members gset_members].
      rewrite join_ms. reflexivity.
    - rewrite groups_fold_join. destruct (g_recording gr); reflexivity.
  Qed.

  Lemma join_recording : forall g2, recording w6 g2 = recording w1 g2.
  Proof.
    intros g2. unfold w6, join_world. rewrite recording_upd. unfold attach. cbv zeta.
    rewrite (recording_groups (upd_group w1 g (fun gr0 => gset_members gr0 (g_members gr0 ++ [h])))).
    - apply recording_upd_group; reflexivity.
    - rewrite groups_fold_join. destruct (g_recording gr); reflexivity.
  Qed.

  Lemma join_names : map g_name (w_groups w6) = map g_name (w_groups w1).
  Proof.
    unfold w6, join_world, attach. cbv zeta. cbn [w_groups upd wset_clients].
    rewrite groups_fold_join.
    transitivity (map g_name (w_groups (upd_group w1 g (fun gr0 => gset_members gr0 (g_members gr0 ++ [h]))))).
    - destruct (g_recording gr); reflexivity.
    - apply names_upd_group. reflexivity.
  Qed.

  Lemma join_clients : forall i,
    get_client w6 i =
    if Nat.eqb i h then Some c6
    else if existsb (Nat.eqb i) ms
         then option_map (fun ci => set_queue ci (c_queue ci ++ [a1])) (get_client w1 i)
         else get_client w1 i.
  Proof.
    intros i. destruct HI as [HS _].
    unfold w6, join_world. rewrite get_client_upd. unfold attach. cbv zeta.
    rewrite join_ms. rewrite get_client_fold_join;
      [| apply (s_nodup w1 HS) | apply join_h_notin].
    set (w2 := upd_group w1 g (fun gr0 => gset_members gr0 (g_members gr0 ++ [h]))).
    set (w4 := enq (enq w2 h (AJoined g "join")) h (add_act g c1)).
    set (w4' := if g_recording gr then enq w4 h (rec_act g) else w4).
    assert (Ho : forall j, j <> h -> get_client w4' j = get_client w1 j).
    { intros j Hj. unfold w4'. destruct (g_recording gr); unfold w4;
        rewrite ?get_client_enq_other by exact Hj; reflexivity. }
    assert (Hh4 : get_client w4' h =
              Some (set_queue c1 (c_queue c1 ++ [AJoined g "join"; add_act g c1] ++
                                  (if recording w1 g then [rec_act g] else [])))).
    { unfold w4'. rewrite <- join_rec.
      assert (E4 : get_client w4 h = Some (set_queue c1 (c_queue c1 ++ [AJoined g "join"; add_act g c1]))).
      { unfold w4.
        rewrite (get_client_enq_self _ h _ (set_queue c1 (c_queue c1 ++ [AJoined g "join"]))).
        - cbn [c_queue set_queue]. rewrite set_queue_twice, <- app_assoc. reflexivity.
        - apply get_client_enq_self. exact Hc1. }
      destruct (g_recording gr).
      - rewrite (get_client_enq_self _ h _ _ E4). cbn [c_queue set_queue].
        rewrite set_queue_twice, <- app_assoc. reflexivity.
      - rewrite E4, app_nil_r. reflexivity. }
    assert (Hadds : adds_for w4' g ms = adds_for w1 g ms).
    { apply adds_for_ext. intros x Hx. rewrite Ho; [reflexivity|].
      intros ->. eapply join_h_notin. exact Hx. }
    rewrite Hadds.
    destruct (Nat.eqb i h) eqn:Eih.
    - apply Nat.eqb_eq in Eih. subst i. rewrite Hh4. cbn [option_map c_queue set_queue].
      unfold c6, join_queue. rewrite set_queue_twice, <- !app_assoc. reflexivity.
    - apply Nat.eqb_neq in Eih. rewrite (Ho i Eih).
      destruct (existsb (Nat.eqb i) ms); [|reflexivity].
      destruct (get_client w1 i); reflexivity.
  Qed.

  Lemma join_client_h : get_client w6 h = Some c6.
  Proof. rewrite join_clients, Nat.eqb_refl. reflexivity. Qed.

  Lemma join_client_inv : forall i c', i <> h -> get_client w6 i = Some c' ->
    exists c, get_client w1 i = Some c /\ core c' = core c /\ c_out c' = c_out c /\
      ((In i ms /\ c_queue c' = c_queue c ++ [a1]) \/ (~ In i ms /\ c' = c)).
  Proof.
    intros i c' Hne E. rewrite join_clients in E.
    apply Nat.eqb_neq in Hne. rewrite Hne in E.
    destruct (existsb (Nat.eqb i) ms) eqn:Eb.
    - apply existsb_eqb_in in Eb. destruct (get_client w1 i) as [c|]; cbn in E; [|discriminate].
      inversion E; subst c'. exists c. repeat split. left. split; [exact Eb | reflexivity].
    - exists c'. repeat split; try exact E. right. split; [|reflexivity].
      intro Hin. apply existsb_eqb_in in Hin. congruence.
  Qed.

  Lemma join_has_id : forall id x, has_id w6 id x = has_id w1 id x.
  Proof.
    intros id x. unfold has_id. rewrite join_clients.
    destruct (Nat.eqb x h) eqn:E.
    - apply Nat.eqb_eq in E. subst x. rewrite Hc1. reflexivity.
    - destruct (existsb (Nat.eqb x) ms); [|reflexivity]. destruct (get_client w1 x); reflexivity.
  Qed.

  Lemma join_entry : forall x, x <> h ->
    option_map (fun c => (c_id c, c_username c, c_perms c)) (get_client w6 x) =
    option_map (fun c => (c_id c, c_username c, c_perms c)) (get_client w1 x).
  Proof.
    intros x Hne. rewrite join_clients. apply Nat.eqb_neq in Hne. rewrite Hne.
    destruct (existsb (Nat.eqb x) ms); [|reflexivity]. destruct (get_client w1 x); reflexivity.
  Qed.

  Lemma join_sinv : Sinv w6.
  Proof.
    destruct HI as [HS _]. constructor.
    - rewrite join_names. apply (s_names w1 HS).
    - intros i ci g2 Hi. rewrite join_members. destruct (Nat.eq_dec i h) as [->|Hne].
      + rewrite join_client_h in Hi. inversion Hi; subst ci. cbn [c_group c6 set_group].
        destruct (String.eqb g2 g) eqn:E.
        * apply eqb_true in E. subst g2. split; [intros _; apply in_or_app; right; left; reflexivity | reflexivity].
        * split; [intros E2; inversion E2; subst; rewrite String.eqb_refl in E; discriminate|].
          intros Hin. exfalso. eapply join_h_notin; eauto.
      + destruct (join_client_inv i ci Hne Hi) as (c & Hc & Hco & _).
        replace (c_group ci) with (c_group c) by (unfold core in Hco; congruence).
        rewrite (s_memb w1 HS i c g2 Hc). destruct (String.eqb g2 g) eqn:E; [|tauto].
        apply eqb_true in E. subst g2. fold ms. rewrite in_app_iff. cbn [In]. intuition congruence.
    - intros g2 x Hx. rewrite join_members in Hx.
      assert (Hx' : x = h \/ In x (members w1 g2)).
      { destruct (String.eqb g2 g) eqn:E; [|auto]. apply eqb_true in E. subst g2.
        apply in_app_or in Hx. destruct Hx as [Hx | [Hx | []]]; auto. }
      destruct Hx' as [-> | Hx']; [rewrite join_client_h; eauto|].
      destruct (s_valid w1 HS g2 x Hx') as (c & Hc). rewrite join_clients.
      destruct (Nat.eqb x h); [eauto|]. rewrite Hc. destruct (existsb _ _); cbn; eauto.
    - intros g2. rewrite join_members. destruct (String.eqb g2 g); [|apply (s_nodup w1 HS)].
      apply nodup_snoc_gen; [apply (s_nodup w1 HS) | apply join_h_notin].
    - intros i ci Hi Hcl. destruct (Nat.eq_dec i h) as [->|Hne].
      + rewrite join_client_h in Hi. inversion Hi; subst ci. cbn in Hcl. congruence.
      + destruct (join_client_inv i ci Hne Hi) as (c & Hc & Hco & _).
        replace (c_group ci) with (c_group c) by (unfold core in Hco; congruence).
        apply (s_closed w1 HS i c Hc). unfold core in Hco. congruence.
    - intros g2 h1 h2 k1 k2 H1 H2 E1 E2 Hid.
      assert (Hnoid : forall x kx, In x ms -> get_client w6 x = Some kx -> c_id kx <> c_id c1).
      { intros x kx Hx Ex Heq. rewrite get_member_unfold in Hnew.
        assert (Hf : has_id w1 (c_id c1) x = true).
        { rewrite <- join_has_id. unfold has_id. rewrite Ex. rewrite Heq. apply String.eqb_refl. }
        fold ms in Hnew. pose proof (find_none_inv _ _ Hnew x Hx) as Hf'. congruence. }
      rewrite join_members in H1, H2.
      destruct (String.eqb g2 g) eqn:E.
      + apply eqb_true in E. subst g2. apply in_app_or in H1, H2.
        destruct H1 as [H1 | [<- | []]], H2 as [H2 | [<- | []]].
        * assert (N1 : h1 <> h) by (intros ->; eapply join_h_notin; eauto).
          assert (N2 : h2 <> h) by (intros ->; eapply join_h_notin; eauto).
          destruct (join_client_inv h1 k1 N1 E1) as (d1 & D1 & Co1 & _).
          destruct (join_client_inv h2 k2 N2 E2) as (d2 & D2 & Co2 & _).
          eapply (s_ids w1 HS g h1 h2 d1 d2); eauto. unfold core in *. congruence.
        * exfalso. rewrite join_client_h in E2. inversion E2; subst k2.
          eapply (Hnoid h1 k1 H1 E1). exact Hid.
        * exfalso. rewrite join_client_h in E1. inversion E1; subst k1.
          eapply (Hnoid h2 k2 H2 E2). symmetry. exact Hid.
        * reflexivity.
      + assert (N1 : h1 <> h) by (intros ->; eapply join_h_notin; eauto).
        assert (N2 : h2 <> h) by (intros ->; eapply join_h_notin; eauto).
        destruct (join_client_inv h1 k1 N1 E1) as (d1 & D1 & Co1 & _).
        destruct (join_client_inv h2 k2 N2 E2) as (d2 & D2 & Co2 & _).
        eapply (s_ids w1 HS g2 h1 h2 d1 d2); eauto. unfold core in *. congruence.
    - intros i ci Hi. destruct (Nat.eq_dec i h) as [->|Hne].
      + rewrite join_client_h in Hi. inversion Hi; subst ci. cbn. apply (s_noq w1 HS h c1 Hc1).
      + destruct (join_client_inv i ci Hne Hi) as (c & Hc & Hco & _).
        replace (c_id ci) with (c_id c) by (unfold core in Hco; congruence).
        apply (s_noq w1 HS i c Hc).
  Qed.

  Definition entry_of (w : world) (x : nat) : kstate :=
    match get_client w x with Some c => Some (c_username c, c_perms c) | None => None end.

  Lemma truth_unfold : forall w g0 id,
    truth w g0 id = match find (has_id w id) (members w g0) with
                    | Some x => entry_of w x
                    | None => if recording w g0 && String.eqb id rec_id then Some rec_entry else None
                    end.
  Proof. reflexivity. Qed.

  Lemma join_entry_of : forall x, x <> h -> entry_of w6 x = entry_of w1 x.
  Proof.
    intros x Hne. unfold entry_of. pose proof (join_entry x Hne) as E.
    destruct (get_client w6 x), (get_client w1 x); cbn in E; try discriminate; [|reflexivity].
    inversion E. reflexivity.
  Qed.

  Lemma join_truth_g : forall id,
    truth w6 g id =
    match find (has_id w1 id) ms with
    | Some x => entry_of w1 x
    | None => if String.eqb (c_id c1) id then Some (c_username c1, c_perms c1)
              else if recording w1 g && String.eqb id rec_id then Some rec_entry else None
    end.
  Proof.
    intros id. rewrite truth_unfold, join_members, String.eqb_refl, find_app.
    rewrite (find_ext_eq _ _ _ ms (join_has_id id)).
    destruct (find (has_id w1 id) ms) as [x|] eqn:E.
    - apply join_entry_of. apply find_some in E. destruct E as [Hx _].
      intros ->. eapply join_h_notin. exact Hx.
    - cbn [find]. rewrite join_has_id. unfold has_id at 1. rewrite Hc1.
      destruct (String.eqb (c_id c1) id).
      + unfold entry_of. rewrite join_client_h. reflexivity.
      + rewrite join_recording. reflexivity.
  Qed.

  Lemma join_view_h : forall id,
    key_view id (Some g) (sentof s h c6) (c_queue c6) = truth w6 g id.
  Proof.
    intros id. destruct HI as [HS HV].
    assert (Hs : sentof s h c6 = sentof s h c1) by reflexivity.
    assert (Hq : c_queue c6 = c_queue c1 ++ join_queue w1 c1 g) by reflexivity.
    rewrite Hs, Hq, key_view_app.
    assert (H0 : key_view id (Some g) (sentof s h c1) (c_queue c1) = None).
    { apply nm_ok_view. rewrite <- (effq_nil ph h c1). apply (v_nm _ _ _ _ _ HV h c1 id Hc1 Hcl1 Hg1). }
    rewrite H0, join_truth_g. unfold join_queue. rewrite !fold_left_app.
    rewrite fold_adds_for.
    2:{ apply (s_nodup w1 HS). }
    2:{ intros x Hx E. destruct (s_valid w1 HS g x Hx) as (cx & Ex). congruence. }
    2:{ intros x y Hx Hy Px Py. unfold has_id in Px, Py.
        destruct (get_client w1 x) as [cx|] eqn:Ex; [|discriminate].
        destruct (get_client w1 y) as [cy|] eqn:Ey; [|discriminate].
        apply eqb_true in Px, Py. eapply (s_ids w1 HS g x y cx cy); eauto. congruence. }
    fold ms. destruct (find (has_id w1 id) ms) as [x|] eqn:Ef.
    { apply find_some in Ef. destruct Ef as [Hx _]. destruct (s_valid w1 HS g x Hx) as (cx & Ex).
      unfold entry_of. rewrite Ex. reflexivity. }
    cbn [fold_left app]. unfold add_act at 1. cbn [act_step]. rewrite String.eqb_refl.
    assert (Hj : key_step id None (out_joined "join" g "" [] "" "" false) = None) by reflexivity.
    rewrite Hj.
    assert (Hnq : String.eqb (c_id c1) rec_id = false)
      by (apply String.eqb_neq; apply (s_noq w1 HS h c1 Hc1)).
    destruct (String.eqb (c_id c1) id) eqn:E1.
    - apply eqb_true in E1. subst id. rewrite key_step_add.
      destruct (recording w1 g); [|reflexivity]. cbn [fold_left]. unfold rec_act. cbn [act_step].
      rewrite String.eqb_refl. rewrite key_step_user_other; [reflexivity|].
      fold rec_id. rewrite String.eqb_sym. exact Hnq.
    - rewrite key_step_user_other by exact E1.
      destruct (recording w1 g); [|reflexivity]. cbn [fold_left andb]. unfold rec_act. cbn [act_step].
      rewrite String.eqb_refl. fold rec_id.
      destruct (String.eqb id rec_id) eqn:E2.
      + apply eqb_true in E2. subst id. unfold rec_id. rewrite key_step_add. reflexivity.
      + rewrite key_step_user_other; [reflexivity|]. rewrite String.eqb_sym. exact E2.
  Qed.

  Lemma inv_join : Inv_p w6 s ph [] None.
  Proof.
    pose proof join_sinv as HS6. destruct HI as [HS HV]. split; [exact HS6|]. constructor.
    - intros i Hi. apply (v_seen _ _ _ _ _ HV). rewrite join_clients in Hi.
      destruct (Nat.eqb i h); [discriminate|].
      destruct (existsb (Nat.eqb i) ms); [|exact Hi].
      destruct (get_client w1 i); [discriminate | reflexivity].
    - intros i c' id Hi Hcl Hgrp. destruct (Nat.eq_dec i h) as [->|Hne].
      { rewrite join_client_h in Hi. inversion Hi; subst c'. discriminate Hgrp. }
      destruct (join_client_inv i c' Hne Hi) as (c & Hc & Hco & Hout & Hq).
      assert (Hg0 : c_group c = None) by (unfold core in Hco; congruence).
      destruct Hq as [[Hin _] | [_ ->]].
      + apply (s_memb w1 HS i c g Hc) in Hin. congruence.
      + apply (v_nm _ _ _ _ _ HV i c id Hc Hcl Hg0).
    - intros i c' g2 id Hi Hgrp. rewrite effq_nil. destruct (Nat.eq_dec i h) as [->|Hne].
      { rewrite join_client_h in Hi. inversion Hi; subst c'. cbn in Hgrp. inversion Hgrp; subst g2.
        left. apply join_view_h. }
      destruct (join_client_inv i c' Hne Hi) as (c & Hc & Hco & Hout & Hq).
      assert (Hg0 : c_group c = Some g2) by (unfold core in Hco; congruence).
      pose proof (v_view _ _ _ _ _ HV i c g2 id Hc Hg0) as Hold. rewrite effq_nil in Hold.
      destruct Hq as [[Hin Hqq] | [Hnin ->]].
      + assert (g2 = g) by (apply (s_memb w1 HS i c g Hc) in Hin; congruence). subst g2.
        rewrite Hqq, key_view_app. unfold sentof. rewrite Hout. fold (sentof s i c).
        cbn [fold_left]. unfold a1 at 1, add_act. cbn [act_step]. rewrite String.eqb_refl.
        rewrite join_truth_g.
        destruct (String.eqb (c_id c1) id) eqn:E1.
        * apply eqb_true in E1. subst id. left. rewrite key_step_add.
          rewrite get_member_unfold in Hnew. fold ms in Hnew. rewrite Hnew. reflexivity.
        * rewrite key_step_user_other by exact E1.
          destruct Hold as [H | [H | H]]; [left | right; left | discriminate H].
          -- rewrite H, truth_unfold. fold ms. reflexivity.
          -- destruct H as (x & cx & Hx1 & Hx2 & Hx3 & Hx4). rewrite effq_nil in Hx4.
             assert (Hxh : x <> h) by (intros ->; eapply join_h_notin; eauto).
             assert (Ex6 : get_client w6 x = Some (set_queue cx (c_queue cx ++ [a1]))).
             { rewrite join_clients. apply Nat.eqb_neq in Hxh. rewrite Hxh.
               assert (Eb : existsb (Nat.eqb x) ms = true) by (apply existsb_eqb_in; exact Hx1).
               rewrite Eb, Hx2. reflexivity. }
             exists x, (set_queue cx (c_queue cx ++ [a1])). rewrite join_members, String.eqb_refl.
             split; [apply in_or_app; left; exact Hx1|]. split; [exact Ex6|]. split; [exact Hx3|].
             rewrite effq_nil. cbn [c_queue set_queue]. apply in_or_app. left. exact Hx4.
      + assert (Hg2 : String.eqb g2 g = false).
        { apply String.eqb_neq. intros ->. apply Hnin. apply (s_memb w1 HS i c g Hc). exact Hg0. }
        assert (Ht : truth w6 g2 id = truth w1 g2 id).
        { apply truth_ext.
          - rewrite join_members, Hg2. reflexivity.
          - apply join_recording.
          - intros x Hx. apply join_entry. intros ->. eapply join_h_notin. exact Hx. }
        rewrite Ht. destruct Hold as [H | [H | H]]; [left; exact H | right; left | discriminate H].
        destruct H as (x & cx & Hx1 & Hx2 & Hx3 & Hx4). rewrite effq_nil in Hx4.
        assert (Hxh : x <> h) by (intros ->; eapply join_h_notin; eauto).
        assert (Hxm : ~ In x ms).
        { intros Hx. apply (s_memb w1 HS x cx g Hx2) in Hx. apply (s_memb w1 HS x cx g2 Hx2) in Hx1.
          rewrite Hx in Hx1. inversion Hx1; subst. rewrite String.eqb_refl in Hg2. discriminate. }
        exists x, cx. rewrite join_members, Hg2. split; [exact Hx1|]. split.
        * rewrite join_clients. apply Nat.eqb_neq in Hxh. rewrite Hxh.
          assert (Eb : existsb (Nat.eqb x) ms = false).
          { destruct (existsb (Nat.eqb x) ms) eqn:Eb; [|reflexivity].
            apply existsb_eqb_in in Eb. contradiction. }
          rewrite Eb. exact Hx2.
        * split; [exact Hx3|]. rewrite effq_nil. exact Hx4.
  Qed.
End Join.

(* The chat history inside Model/Signal.v (hist_add, hist_clear,
   out_chathistory) is a second copy of what Model/History.v models
   statement by statement.  Here: the two agree on the fields they share
   (Signal has no time field and Coq strings instead of byte lists), and the
   history of every group in every reachable state of the signalling model
   is the history of a run of the History state machine, so that the
   theorems of Proofs/History.v (bound, FIFO, clearing) transfer. *)
From Coq Require Import ZArith List Bool String Ascii Arith Lia.
From Galene Require Import Generated.HistoryConsts.
From Galene Require Model.History Proofs.History.
From Galene Require Import Model.Signal Proofs.SignalFrame Proofs.SignalChatFrame
  Proofs.SignalChatInv Proofs.SignalChat.
Import ListNotations.
Open Scope list_scope.

Module H := Galene.Model.History.
Module HP := Galene.Proofs.History.

(* a Coq string as the byte list Model/History.v uses *)
Fixpoint enc (s : string) : list Z :=
  match s with
  | EmptyString => []
  | String a r => Z.of_nat (nat_of_ascii a) :: enc r
  end.

Lemma enc_inj : forall a b, enc a = enc b -> a = b.
Proof.
  induction a as [|x a IH]; intros [|y b] H; cbn in H; try discriminate; [reflexivity|].
  inversion H as [[Hx Ht]]. apply Nat2Z.inj in Hx.
  assert (x = y).
  { rewrite <- (ascii_nat_embedding x), <- (ascii_nat_embedding y). congruence. }
  subst. f_equal. apply IH. exact Ht.
Qed.

Lemma bytes_eqb_enc : forall a b, H.bytes_eqb (enc a) (enc b) = String.eqb a b.
Proof.
  intros a b. destruct (String.eqb a b) eqn:E.
  - apply String.eqb_eq in E. subst. apply HP.bytes_eqb_eq. reflexivity.
  - apply HP.bytes_eqb_neq. intro Heq. apply enc_inj in Heq. apply String.eqb_neq in E. contradiction.
Qed.

Lemma is_empty_enc : forall s, H.is_empty (enc s) = Signal.is_empty s.
Proof. intros [|a s]; reflexivity. Qed.

(* all fields but the time *)
Definition rel (e : chatentry) (E : H.entry) : Prop :=
  H.e_id E = enc (h_id e) /\ H.e_source E = enc (h_source e) /\
  H.e_user E = option_map enc (h_user e) /\ H.e_kind E = enc (h_kind e) /\
  H.e_value E = enc (h_value e).

Definition hrel (hs : list chatentry) (Hs : list H.entry) : Prop := Forall2 rel hs Hs.

Definition enc_entry (t : Z) (e : chatentry) : H.entry :=
  H.mkEntry (enc (h_id e)) (enc (h_source e)) (option_map enc (h_user e)) t
            (enc (h_kind e)) (enc (h_value e)).

Lemma rel_enc_entry : forall t e, rel e (enc_entry t e).
Proof. intros. repeat split. Qed.

Lemma Forall2_len : forall (A B : Type) (R : A -> B -> Prop) l1 l2,
  Forall2 R l1 l2 -> List.length l1 = List.length l2.
Proof. intros A B R l1 l2 HR. induction HR; cbn; congruence. Qed.

(* AddToChatHistory *)
Lemma hist_add_agrees : forall hs Hs e E, hrel hs Hs -> rel e E ->
  exists Hs', H.add_to_history Hs E = H.Ok Hs' /\ hrel (hist_add hs e) Hs'.
Proof.
  intros hs Hs e E HR He. rewrite HP.add_to_history_spec. unfold hist_add.
  pose proof (Forall2_len _ _ _ _ _ HR) as Hlen.
  assert (Hc : (HistoryConsts.maxChatHistory <=? H.zlen Hs)%Z =
               Nat.leb Signal.maxChatHistory (List.length hs)).
  { rewrite HP.maxChatHistory_value. unfold H.zlen, Signal.maxChatHistory. rewrite <- Hlen.
    destruct (Nat.leb_spec 50 (List.length hs)); [apply Z.leb_le | apply Z.leb_gt]; lia. }
  rewrite Hc. destruct (Nat.leb Signal.maxChatHistory (List.length hs)) eqn:Ef.
  - destruct HR as [|x X t T Hx Ht].
    + cbn in Ef. discriminate.
    + eexists. split; [reflexivity|]. cbn [tl]. apply Forall2_app; [exact Ht | constructor; auto].
  - eexists. split; [reflexivity|]. apply Forall2_app; [exact HR | constructor; auto].
Qed.

Lemma Forall2_filter : forall (A B : Type) (R : A -> B -> Prop) f g l1 l2,
  Forall2 R l1 l2 -> (forall a b, R a b -> f a = g b) ->
  Forall2 R (filter f l1) (filter g l2).
Proof.
  intros A B R f g l1 l2 HR Hfg. induction HR as [|a b l1 l2 Hab _ IH]; cbn; [constructor|].
  rewrite (Hfg a b Hab). destruct (g b); [constructor; auto | exact IH].
Qed.

(* ClearChatHistory(id, userId) *)
Lemma hist_clear_agrees : forall hs Hs id uid, hrel hs Hs ->
  hrel (hist_clear hs id uid) (H.clear_history (enc id) (enc uid) Hs).
Proof.
  intros hs Hs id uid HR. unfold hist_clear, H.clear_history. rewrite !is_empty_enc.
  destruct (Signal.is_empty id && Signal.is_empty uid); [constructor|].
  rewrite HP.delete_func_filter. apply Forall2_filter; [exact HR|].
  intros e E (Hid & Hsrc & _). unfold H.clear_match. rewrite Hid, Hsrc, !bytes_eqb_enc, is_empty_enc.
  reflexivity.
Qed.

(* the replay: one chathistory message per entry, field by field *)
Lemma replay_agrees : forall hs Hs, hrel hs Hs ->
  Forall2 (fun (o : outmsg) (M : H.hist_msg) =>
             o_type o = "chathistory"%string /\
             H.m_id M = enc (o_id o) /\ H.m_source M = enc (o_source o) /\
             H.m_username M = option_map enc (o_user o) /\
             H.m_kind M = enc (o_kind o) /\ H.m_value M = enc (o_value o))
          (map out_chathistory hs) (map H.chathistory_msg Hs).
Proof.
  intros hs Hs HR. induction HR as [|e E hs Hs (A & B & C & D & F) _ IH]; cbn [map]; constructor; auto.
  cbn. repeat split; assumption.
Qed.

(* the argument check of clearchat *)
Lemma clearchat_accepted_agrees : forall l,
  H.clearchat_accepted (enc (map_get l "id")) (enc (map_get l "userId")) =
  match clearchat_args (VMap l) with Some _ => true | None => false end.
Proof.
  intros l. unfold H.clearchat_accepted, clearchat_args. rewrite !is_empty_enc.
  destruct (Signal.is_empty (map_get l "userId") && negb (Signal.is_empty (map_get l "id"))); reflexivity.
Qed.

(* ------------------------------------------------------------------ *)
(* Transfer: the history of every group in every reachable state is a  *)
(* run of the History state machine (adds and clears only)             *)

Definition add_or_clear (o : H.op) : Prop :=
  match o with H.OAdd _ | H.OClear _ _ => True | _ => False end.

Theorem hist_refines : forall ops w, reach ops w -> forall g n,
  exists hops, Forall add_or_clear hops /\
               hrel (hist_of w g) (H.st_hist (H.run (H.init n) hops)).
Proof.
  induction ops as [|o ops IH] using rev_ind; intros w Hr g n.
  - unfold reach in Hr. cbn in Hr. inversion Hr; subst. exists []. split; constructor.
  - apply reach_snoc in Hr. destruct Hr as (w0 & r & H0 & Hs).
    destruct (IH w0 H0 g n) as (hops & Hf & HR).
    destruct (step_prov w0 o w r (reach_minv _ _ H0) Hs) as [_ Sh].
    destruct (Sh g) as [Eq | [(e & _ & Eq) | (id & uid & Eq)]]; rewrite Eq.
    + exists hops. auto.
    + destruct (hist_add_agrees _ _ e (enc_entry 0 e) HR (rel_enc_entry 0 e)) as (Hs' & Ha & HR').
      exists (hops ++ [H.OAdd (enc_entry 0 e)]). split.
      * apply Forall_app. split; [exact Hf | repeat constructor].
      * rewrite HP.run_snoc. cbn [H.step]. rewrite Ha. exact HR'.
    + exists (hops ++ [H.OClear (enc id) (enc uid)]). split.
      * apply Forall_app. split; [exact Hf | repeat constructor].
      * rewrite HP.run_snoc. cbn [H.step fst H.st_hist]. apply hist_clear_agrees. exact HR.
Qed.

(* first transferred theorem: never more than 50 entries, in any group, in
   any reachable state of the signalling model *)
Theorem signal_history_bound : forall ops w g, reach ops w ->
  (List.length (hist_of w g) <= 50)%nat.
Proof.
  intros ops w g Hr. destruct (hist_refines ops w Hr g 0%Z) as (hops & _ & HR).
  pose proof (HP.history_bound 0%Z hops) as Hb. rewrite HP.maxChatHistory_value in Hb.
  apply Forall2_len in HR. unfold H.zlen in Hb. lia.
Qed.

(* Round trips for Model/Flags.v: the flags that PacketFlags computes from a
   packet built from a payload descriptor (RFC 7741 for VP8, the VP9 RTP
   payload format) are the fields of that descriptor, for every descriptor,
   every RTP header without extension, every payload.  This is what gives the
   words "temporal layer", "start of a frame", "keyframe" and "up-switch point"
   of C04 their meaning in terms of the bytes on the wire. *)
From Coq Require Import ZArith List Bool Lia.
From Coq Require Import ZifyBool.
From Galene Require Import Lib.Word Model.Layers Model.Rewrite Model.Flags.
Import ListNotations.
Open Scope Z_scope.
Ltac Zify.zify_post_hook ::= Z.div_mod_to_equations.

Lemma blen_cons x l : blen (x :: l) = 1 + blen l.
Proof. unfold blen. cbn [length]. lia. Qed.
Lemma blen_nonneg l : 0 <= blen l.
Proof. unfold blen. lia. Qed.

Lemma rd_cons0 x l : rd (x :: l) 0 = Some x.
Proof. unfold rd. rewrite blen_cons. pose proof (blen_nonneg l). 
  replace ((0 <=? 0) && (0 <? 1 + blen l)) with true by lia. reflexivity. Qed.

Lemma rd_consS x l i : 0 < i -> rd (x :: l) i = rd l (i - 1).
Proof.
  intros Hi. unfold rd. rewrite blen_cons.
  destruct ((0 <=? i) && (i <? 1 + blen l)) eqn:E.
  - replace ((0 <=? i - 1) && (i - 1 <? blen l)) with true by lia.
    replace (Z.to_nat i) with (S (Z.to_nat (i - 1))) by lia. reflexivity.
  - replace ((0 <=? i - 1) && (i - 1 <? blen l)) with false by lia. reflexivity.
Qed.

Lemma drop_0 l : drop l 0 = l.
Proof. reflexivity. Qed.
Lemma drop_consS x l i : 0 < i -> drop (x :: l) i = drop l (i - 1).
Proof. intros Hi. unfold drop. replace (Z.to_nat i) with (S (Z.to_nat (i - 1))) by lia. reflexivity. Qed.

Definition b2z (b : bool) : Z := if b then 1 else 0.

Lemma bit_spec b k : 0 <= k -> bit b k = ((b / 2 ^ k) mod 2 =? 1).
Proof. reflexivity. Qed.

(* ---- VP8 ---- *)
Record v8desc := mkV8d {
  e_n : bool; e_s : bool; e_partid : Z;
  e_r6 : bool; e_r3 : bool;                       (* reserved bits of the first byte *)
  e_rx : Z;                                       (* reserved bits of the extension byte *)
  e_pic : option (bool * Z);                      (* 15-bit? , picture id *)
  e_tl0 : option Z;
  e_tid : option (Z * bool);                      (* tid, Y *)
  e_key : option Z }.

Definition is_some {A} (o : option A) : bool := match o with Some _ => true | None => false end.

Definition v8_wf (d : v8desc) : Prop :=
  0 <= e_partid d < 8 /\ 0 <= e_rx d < 16 /\
  match e_pic d with
  | Some (true, p) => 0 <= p < 32768
  | Some (false, p) => 0 <= p < 128
  | None => True
  end /\
  match e_tl0 d with Some t => 0 <= t < 256 | None => True end /\
  match e_tid d with Some (t, _) => 0 <= t < 4 | None => True end /\
  match e_key d with Some k => 0 <= k < 32 | None => True end.

Definition v8_has_ext (d : v8desc) : bool :=
  is_some (e_pic d) || is_some (e_tl0 d) || is_some (e_tid d) || is_some (e_key d).

(* the bits the sender does not use are free: tid/Y bits when T = 0 (junk_t),
   key index bits when K = 0 (junk_k) *)
Definition vp8_encode (d : v8desc) (junk_t junk_k : Z) : list Z :=
  [ b2z (v8_has_ext d) * 128 + b2z (e_r6 d) * 64 + b2z (e_n d) * 32 + b2z (e_s d) * 16
    + b2z (e_r3 d) * 8 + e_partid d ]
  ++ (if v8_has_ext d then
        [ b2z (is_some (e_pic d)) * 128 + b2z (is_some (e_tl0 d)) * 64
          + b2z (is_some (e_tid d)) * 32 + b2z (is_some (e_key d)) * 16 + e_rx d ]
      else [])
  ++ match e_pic d with
     | Some (true, p) => [128 + p / 256; p mod 256]
     | Some (false, p) => [p]
     | None => []
     end
  ++ match e_tl0 d with Some t => [t] | None => [] end
  ++ (if is_some (e_tid d) || is_some (e_key d) then
        [ match e_tid d with Some (t, y) => t * 64 + b2z y * 32 | None => junk_t * 32 end
          + match e_key d with Some k => k | None => junk_k end ]
      else []).

Definition v8_view (d : v8desc) (rest : list Z) : vp8d :=
  mkVp8 (e_n d) (e_s d) (e_partid d)
        (match e_pic d with Some (_, p) => p | None => 0 end)
        (match e_tid d with Some (t, _) => t | None => 0 end)
        (match e_tid d with Some (_, y) => y | None => false end)
        rest.

Ltac rd_step :=
  repeat first [ rewrite rd_cons0
               | rewrite rd_consS by lia
               | rewrite drop_consS by lia
               | progress (cbn [Z.sub Z.add Z.pos_sub Pos.pred_double Z.opp Pos.add Pos.succ Z.succ_double Z.pred_double Z.double]) ].

Lemma bit_byte b k : 0 <= k -> bit b k = ((b / 2 ^ k) mod 2 =? 1).
Proof. reflexivity. Qed.

Theorem vp8_parse_encode d jt jk rest :
  v8_wf d -> 0 <= jt < 8 -> 0 <= jk < 32 ->
  vp8_parse (vp8_encode d jt jk ++ rest) = Some (v8_view d rest).
Proof.
  intros (Hp & Hrx & Hpic & Htl & Htid & Hkey) Hjt Hjk.
  destruct d as [n s partid r6 r3 rx pic tl0 tid key].
  cbn [e_n e_s e_partid e_r6 e_r3 e_rx e_pic e_tl0 e_tid e_key] in *.
  unfold vp8_encode, v8_view, v8_has_ext, vp8_parse.
  cbn [e_n e_s e_partid e_r6 e_r3 e_rx e_pic e_tl0 e_tid e_key].
  destruct pic as [[[|] p]|]; destruct tl0 as [t0|]; destruct tid as [[t y]|]; destruct key as [k|];
    cbn [is_some orb app b2z]; rd_step.
  all: unfold bit, bits; change (2 ^ 7) with 128; change (2 ^ 6) with 64; change (2 ^ 5) with 32;
    change (2 ^ 4) with 16; change (2 ^ 3) with 8; change (2 ^ 2) with 4; change (2 ^ 0) with 1.
  all: destruct n, s, r6, r3; cbn [b2z].
Abort.

(* Round trips for Model/Flags.v: the flags that PacketFlags computes from a
   packet built from a payload descriptor (RFC 7741 for VP8, the VP9 RTP
   payload format) are the fields of that descriptor, for every descriptor,
   every RTP header without extension, every payload.  This is what gives the
   words "temporal layer", "start of a frame", "keyframe" and "up-switch point"
   of C04 their meaning in terms of the bytes on the wire. *)
From Coq Require Import ZArith List Bool Lia.
From Coq Require Import ZifyBool.
From Galene Require Import Lib.Word Model.Layers Model.Rewrite Model.Flags.
Import ListNotations.
Open Scope Z_scope.
Ltac Zify.zify_post_hook ::= Z.div_mod_to_equations.

Lemma blen_cons x l : blen (x :: l) = 1 + blen l.
Proof. unfold blen. cbn [length]. lia. Qed.
Lemma blen_nonneg l : 0 <= blen l.
Proof. unfold blen. lia. Qed.

Lemma rd_cons0 x l : rd (x :: l) 0 = Some x.
Proof. unfold rd. rewrite blen_cons. pose proof (blen_nonneg l). 
  replace ((0 <=? 0) && (0 <? 1 + blen l)) with true by lia. reflexivity. Qed.

Lemma rd_consS x l i : 0 < i -> rd (x :: l) i = rd l (i - 1).
Proof.
  intros Hi. unfold rd. rewrite blen_cons.
  destruct ((0 <=? i) && (i <? 1 + blen l)) eqn:E.
  - replace ((0 <=? i - 1) && (i - 1 <? blen l)) with true by lia.
    replace (Z.to_nat i) with (S (Z.to_nat (i - 1))) by lia. reflexivity.
  - replace ((0 <=? i - 1) && (i - 1 <? blen l)) with false by lia. reflexivity.
Qed.

Lemma drop_0 l : drop l 0 = l.
Proof. reflexivity. Qed.
Lemma drop_consS x l i : 0 < i -> drop (x :: l) i = drop l (i - 1).
Proof. intros Hi. unfold drop. replace (Z.to_nat i) with (S (Z.to_nat (i - 1))) by lia. reflexivity. Qed.

Definition b2z (b : bool) : Z := if b then 1 else 0.

Lemma bit_spec b k : 0 <= k -> bit b k = ((b / 2 ^ k) mod 2 =? 1).
Proof. reflexivity. Qed.

(* ---- VP8 ---- *)
Record v8desc := mkV8d {
  e_n : bool; e_s : bool; e_partid : Z;
  e_r6 : bool; e_r3 : bool;                       (* reserved bits of the first byte *)
  e_rx : Z;                                       (* reserved bits of the extension byte *)
  e_pic : option (bool * Z);                      (* 15-bit? , picture id *)
  e_tl0 : option Z;
  e_tid : option (Z * bool);                      (* tid, Y *)
  e_key : option Z }.

Definition is_some {A} (o : option A) : bool := match o with Some _ => true | None => false end.

Definition v8_wf (d : v8desc) : Prop :=
  0 <= e_partid d < 8 /\ 0 <= e_rx d < 16 /\
  match e_pic d with
  | Some (true, p) => 0 <= p < 32768
  | Some (false, p) => 0 <= p < 128
  | None => True
  end /\
  match e_tl0 d with Some t => 0 <= t < 256 | None => True end /\
  match e_tid d with Some (t, _) => 0 <= t < 4 | None => True end /\
  match e_key d with Some k => 0 <= k < 32 | None => True end.

Definition v8_has_ext (d : v8desc) : bool :=
  is_some (e_pic d) || is_some (e_tl0 d) || is_some (e_tid d) || is_some (e_key d).

(* the bits the sender does not use are free: tid/Y bits when T = 0 (junk_t),
   key index bits when K = 0 (junk_k) *)
Definition vp8_encode (d : v8desc) (junk_t junk_k : Z) : list Z :=
  [ b2z (v8_has_ext d) * 128 + b2z (e_r6 d) * 64 + b2z (e_n d) * 32 + b2z (e_s d) * 16
    + b2z (e_r3 d) * 8 + e_partid d ]
  ++ (if v8_has_ext d then
        [ b2z (is_some (e_pic d)) * 128 + b2z (is_some (e_tl0 d)) * 64
          + b2z (is_some (e_tid d)) * 32 + b2z (is_some (e_key d)) * 16 + e_rx d ]
      else [])
  ++ match e_pic d with
     | Some (true, p) => [128 + p / 256; p mod 256]
     | Some (false, p) => [p]
     | None => []
     end
  ++ match e_tl0 d with Some t => [t] | None => [] end
  ++ (if is_some (e_tid d) || is_some (e_key d) then
        [ match e_tid d with Some (t, y) => t * 64 + b2z y * 32 | None => junk_t * 32 end
          + match e_key d with Some k => k | None => junk_k end ]
      else []).

Definition v8_view (d : v8desc) (rest : list Z) : vp8d :=
  mkVp8 (e_n d) (e_s d) (e_partid d)
        (match e_pic d with Some (_, p) => p | None => 0 end)
        (match e_tid d with Some (t, _) => t | None => 0 end)
        (match e_tid d with Some (_, y) => y | None => false end)
        rest.

Ltac pows :=
  change (2 ^ 7) with 128 in *; change (2 ^ 6) with 64 in *; change (2 ^ 5) with 32 in *;
  change (2 ^ 4) with 16 in *; change (2 ^ 3) with 8 in *; change (2 ^ 2) with 4 in *;
  change (2 ^ 1) with 2 in *; change (2 ^ 0) with 1 in *.

(* decoding the fields of composed bytes *)
Lemma byte0_fields x r6 n s r3 p : 0 <= p < 8 ->
  let b := b2z x * 128 + b2z r6 * 64 + b2z n * 32 + b2z s * 16 + b2z r3 * 8 + p in
  bit b 7 = x /\ bit b 5 = n /\ bit b 4 = s /\ bits b 0 3 = p.
Proof.
  intros Hp. cbv zeta. unfold bit, bits. pows.
  destruct x, r6, n, s, r3; cbn [b2z]; repeat split; lia.
Qed.

Lemma byte1_fields i l t k rx : 0 <= rx < 16 ->
  let b := b2z i * 128 + b2z l * 64 + b2z t * 32 + b2z k * 16 + rx in
  bit b 7 = i /\ bit b 6 = l /\ bit b 5 = t /\ bit b 4 = k.
Proof.
  intros Hp. cbv zeta. unfold bit. pows.
  destruct i, l, t, k; cbn [b2z]; repeat split; lia.
Qed.

Lemma pic15_fields p : 0 <= p < 32768 ->
  bit (128 + p / 256) 7 = true /\ ((128 + p / 256) mod 128) * 256 + p mod 256 = p.
Proof. intros Hp. unfold bit. pows. split; lia. Qed.

Lemma pic7_fields p : 0 <= p < 128 -> bit p 7 = false.
Proof. intros Hp. unfold bit. pows. lia. Qed.

Lemma tk_fields t y k : 0 <= t < 4 -> 0 <= k < 32 ->
  let b := t * 64 + b2z y * 32 + k in bits b 6 2 = t /\ bit b 5 = y.
Proof.
  intros Ht Hk. cbv zeta. unfold bit, bits. pows. destruct y; cbn [b2z]; split; lia.
Qed.

(* closed index arithmetic *)
Ltac closed_z i :=
  lazymatch i with
  | Z0 => idtac | Zpos _ => idtac | Zneg _ => idtac
  | ?a + ?b => closed_z a; closed_z b
  | ?a - ?b => closed_z a; closed_z b
  | _ => fail
  end.
Ltac norm_one i :=
  lazymatch i with
  | Z0 => fail | Zpos _ => fail
  | _ => closed_z i; let i' := eval vm_compute in i in progress (change i with i')
  end.
Ltac norm_idx :=
  repeat match goal with
         | |- context [rd ?l ?i] => norm_one i
         | |- context [drop ?l ?i] => norm_one i
         | |- context [Some (_, ?i)] => norm_one i
         end.

Ltac rd_step :=
  repeat (norm_idx;
          first [ rewrite rd_cons0
                | rewrite rd_consS by reflexivity
                | rewrite drop_consS by reflexivity
                | rewrite drop_0 ]).

Lemma bit_byte b k : 0 <= k -> bit b k = ((b / 2 ^ k) mod 2 =? 1).
Proof. reflexivity. Qed.

Theorem vp8_parse_encode d jt jk rest :
  v8_wf d -> 0 <= jt < 8 -> 0 <= jk < 32 ->
  vp8_parse (vp8_encode d jt jk ++ rest) = Some (v8_view d rest).
Proof.
  intros (Hp & Hrx & Hpic & Htl & Htid & Hkey) Hjt Hjk.
  destruct d as [n s partid r6 r3 rx pic tl0 tid key].
  cbn [e_n e_s e_partid e_r6 e_r3 e_rx e_pic e_tl0 e_tid e_key] in *.
  unfold vp8_encode, v8_view, v8_has_ext, vp8_parse.
  cbn [e_n e_s e_partid e_r6 e_r3 e_rx e_pic e_tl0 e_tid e_key].
  destruct pic as [[[|] p]|]; destruct tl0 as [t0|]; destruct tid as [[t y]|]; destruct key as [k|];
    cbn [is_some orb app]; cbv zeta.
  all: match goal with
       | |- context [b2z ?x * 128 + b2z ?a * 64 + b2z ?b * 32 + b2z ?c * 16 + b2z ?e * 8 + ?pp] =>
         destruct (byte0_fields x a b c e pp Hp) as (B07 & B05 & B04 & B03)
       end.
  all: try match goal with
       | |- context [b2z ?i * 128 + b2z ?l * 64 + b2z ?t * 32 + b2z ?k * 16 + ?rr] =>
         destruct (byte1_fields i l t k rr Hrx) as (B17 & B16 & B15 & B14)
       end.
  all: try (destruct (pic15_fields p Hpic) as (P7 & Pv)).
  all: try (pose proof (pic7_fields p Hpic) as P7).
  all: try match goal with
       | |- context [?t * 64 + b2z ?y * 32 + ?k] =>
         destruct (tk_fields t y k ltac:(lia) ltac:(lia)) as (T6 & T5)
       end.
  all: repeat (progress (rd_step; cbv beta iota;
               rewrite ?B07, ?B05, ?B04, ?B03, ?B17, ?B16, ?B15, ?B14, ?P7, ?Pv, ?T6, ?T5;
               cbn [andb orb negb])).
  all: reflexivity.
Qed.

(* ---- the RTP header (no extension, no padding) ---- *)
Lemma drop_app_blen (h x : list Z) : drop (h ++ x) (blen h) = x.
Proof.
  unfold drop, blen. rewrite Nat2Z.id. rewrite skipn_app, skipn_all, Nat.sub_diag. reflexivity.
Qed.

Lemma blen_app (a b : list Z) : blen (a ++ b) = blen a + blen b.
Proof. unfold blen. rewrite app_length. lia. Qed.

(* b0: version, P = 0, X = 0, CC = cc; b1: marker and payload type *)
Definition hdr_ok (b0 cc : Z) (tail : list Z) : Prop :=
  0 <= cc < 16 /\ bits b0 0 4 = cc /\ bit b0 4 = false /\ bit b0 5 = false /\ blen tail = 8 + 4 * cc.

Lemma rtp_payload_hdr b0 b1 b2 b3 cc tail x :
  hdr_ok b0 cc tail -> rtp_payload (b0 :: b1 :: b2 :: b3 :: tail ++ x) = Some x.
Proof.
  intros (Hcc & Hb & _ & Hp & Hl). unfold rtp_payload.
  assert (Hlen : blen (b0 :: b1 :: b2 :: b3 :: tail ++ x) = (12 + 4 * cc + blen x)%Z).
  { rewrite !blen_cons, blen_app. lia. }
  pose proof (blen_nonneg x) as Hx.
  rewrite Hlen. replace (12 + 4 * cc + blen x <? 12) with false by lia.
  rewrite rd_cons0. rewrite Hb, Hp.
  replace (12 + 4 * cc + blen x <? 12 + cc * 4) with false by lia.
  f_equal.
  change (b0 :: b1 :: b2 :: b3 :: tail ++ x) with ((b0 :: b1 :: b2 :: b3 :: tail) ++ x).
  replace (12 + cc * 4) with (blen (b0 :: b1 :: b2 :: b3 :: tail)) by (rewrite !blen_cons; lia).
  apply drop_app_blen.
Qed.

(* the flags of a VP8 packet are the fields of its payload descriptor *)
Theorem packet_flags_vp8 b0 b1 b2 b3 cc tail d jt jk pl :
  hdr_ok b0 cc tail -> v8_wf d -> 0 <= jt < 8 -> 0 <= jk < 32 ->
  let start := e_s d && (e_partid d =? 0) in
  let kf := start && match pl with [] => false | h :: _ => negb (bit h 0) end in
  packet_flags CVP8 (b0 :: b1 :: b2 :: b3 :: tail ++ vp8_encode d jt jk ++ pl) =
  FOk (mkFlags (b2 * 256 + b3) (bit b1 7) start (bit b1 7) kf
               (match e_pic d with Some (_, p) => p | None => 0 end)
               (match e_tid d with Some (t, _) => t | None => 0 end) 0
               (kf || match e_tid d with Some (_, y) => y | None => false end) kf false)
      (e_n d).
Proof.
  intros Hh Hd Hjt Hjk. cbv zeta. unfold packet_flags.
  pose proof (rtp_payload_hdr b0 b1 b2 b3 cc tail (vp8_encode d jt jk ++ pl) Hh) as Hpl.
  destruct Hh as (Hcc & Hb & Hx & Hp & Hl).
  assert (Hlen : (blen (b0 :: b1 :: b2 :: b3 :: tail ++ vp8_encode d jt jk ++ pl) <? 4) = false).
  { rewrite !blen_cons. pose proof (blen_nonneg (tail ++ vp8_encode d jt jk ++ pl)). lia. }
  rewrite Hlen. rd_step. cbv beta iota. rewrite Hx. rewrite Hpl.
  rewrite (vp8_parse_encode d jt jk pl Hd Hjt Hjk).
  unfold v8_view. cbn [v8_s v8_partid v8_payload v8_picid v8_tid v8_y v8_n].
  reflexivity.
Qed.



(* ---- VP9 (descriptor without scalability structure) ---- *)
Record v9desc := mkV9d {
  n_p : bool; n_f : bool; n_b : bool; n_e : bool; n_z : bool;
  n_pic : option (bool * Z);                        (* 15-bit?, picture id *)
  n_layer : option (Z * bool * Z * bool * Z);       (* tid, U, sid, D, TL0PICIDX (non-flexible mode) *)
  n_refs : list Z }.                                (* P_DIFFs, used when F and P *)

Definition v9_wf (d : v9desc) : Prop :=
  match n_pic d with
  | Some (true, p) => 0 <= p < 32768
  | Some (false, p) => 0 <= p < 128
  | None => True
  end /\
  match n_layer d with
  | Some (t, _, s, _, tl0) => 0 <= t < 8 /\ 0 <= s < 5 /\ 0 <= tl0 < 256
  | None => True
  end /\
  (1 <= Z.of_nat (length (n_refs d)) <= 3) /\ Forall (fun r => 0 <= r < 128) (n_refs d).

Fixpoint enc_refs (l : list Z) : list Z :=
  match l with
  | [] => []
  | [r] => [r * 2]
  | r :: l' => (r * 2 + 1) :: enc_refs l'
  end.

Definition vp9_encode (d : v9desc) : list Z :=
  [ b2z (is_some (n_pic d)) * 128 + b2z (n_p d) * 64 + b2z (is_some (n_layer d)) * 32
    + b2z (n_f d) * 16 + b2z (n_b d) * 8 + b2z (n_e d) * 4 + 0 * 2 + b2z (n_z d) ]
  ++ match n_pic d with
     | Some (true, p) => [128 + p / 256; p mod 256]
     | Some (false, p) => [p]
     | None => []
     end
  ++ match n_layer d with
     | Some (t, u, s, dd, tl0) =>
       (t * 32 + b2z u * 16 + s * 2 + b2z dd) :: (if n_f d then [] else [tl0])
     | None => []
     end
  ++ (if n_f d && n_p d then enc_refs (n_refs d) else []).

Definition v9_view (d : v9desc) (rest : list Z) : vp9d :=
  mkVp9 (n_p d) (n_b d) (n_e d)
        (match n_layer d with Some (t, _, _, _, _) => t | None => 0 end)
        (match n_layer d with Some (_, u, _, _, _) => u | None => false end)
        (match n_layer d with Some (_, _, s, _, _) => s | None => 0 end)
        rest.

Lemma byte9_fields i p l f b e z :
  let x := b2z i * 128 + b2z p * 64 + b2z l * 32 + b2z f * 16 + b2z b * 8 + b2z e * 4 + 0 * 2 + b2z z in
  bit x 7 = i /\ bit x 6 = p /\ bit x 5 = l /\ bit x 4 = f /\ bit x 3 = b /\ bit x 2 = e /\
  bit x 1 = false /\ bit x 0 = z.
Proof.
  cbv zeta. unfold bit. pows. destruct i, p, l, f, b, e, z; cbn [b2z]; repeat split; lia.
Qed.

Lemma layer_fields t u s dd : 0 <= t < 8 -> 0 <= s < 5 ->
  let x := t * 32 + b2z u * 16 + s * 2 + b2z dd in
  bits x 5 3 = t /\ bit x 4 = u /\ bits x 1 3 = s.
Proof.
  intros Ht Hs. cbv zeta. unfold bit, bits. pows. destruct u, dd; cbn [b2z]; repeat split; lia.
Qed.

Lemma ref_last r : 0 <= r < 128 -> bit (r * 2) 0 = false.
Proof. intros H. unfold bit. pows. lia. Qed.
Lemma ref_more r : 0 <= r < 128 -> bit (r * 2 + 1) 0 = true.
Proof. intros H. unfold bit. pows. lia. Qed.

Lemma refs_parse (l : list Z) (pre rest : list Z) pos :
  1 <= Z.of_nat (length l) <= 3 -> Forall (fun r => 0 <= r < 128) l ->
  pos = blen pre ->
  vp9_refs (pre ++ enc_refs l ++ rest) pos = Some (pos + Z.of_nat (length l)).
Proof.
  intros Hn Hf Hpos.
  assert (Hrd : forall k x, 0 <= k -> rd (pre ++ x) (pos + k) = rd x k).
  { intros k x Hk. unfold rd. rewrite blen_app. subst pos. pose proof (blen_nonneg pre).
    destruct ((0 <=? k) && (k <? blen x)) eqn:E.
    - replace ((0 <=? blen pre + k) && (blen pre + k <? blen pre + blen x)) with true by lia.
      rewrite nth_error_app2 by (unfold blen; lia).
      f_equal. unfold blen. lia.
    - replace ((0 <=? blen pre + k) && (blen pre + k <? blen pre + blen x)) with false by lia.
      reflexivity. }
  unfold vp9_refs.
  replace pos with (pos + 0) at 1 by lia. rewrite Hrd by lia.
  rewrite (Hrd 1), (Hrd 2) by lia.
  destruct l as [|r1 [|r2 [|r3 [|r4 l]]]]; cbn [length] in Hn; try lia.
  - inversion Hf as [|? ? H1 _]; subst. cbn [enc_refs app]. rd_step.
    rewrite (ref_last r1 H1). cbn [negb length]. f_equal.
  - inversion Hf as [|? ? H1 Hf2]; subst. inversion Hf2 as [|? ? H2 _]; subst.
    cbn [enc_refs app]. rd_step. rewrite (ref_more r1 H1). cbn [negb]. rd_step.
    rewrite (ref_last r2 H2). cbn [negb length]. f_equal.
  - inversion Hf as [|? ? H1 Hf2]; subst. inversion Hf2 as [|? ? H2 Hf3]; subst.
    inversion Hf3 as [|? ? H3 _]; subst.
    cbn [enc_refs app]. rd_step. rewrite (ref_more r1 H1). cbn [negb]. rd_step.
    rewrite (ref_more r2 H2). cbn [negb]. rd_step.
    rewrite (ref_last r3 H3). cbn [negb length]. f_equal.
Qed.

Lemma enc_refs_length l : length (enc_refs l) = length l.
Proof.
  induction l as [|r [|r2 l] IH]; [reflexivity|reflexivity|].
  change (enc_refs (r :: r2 :: l)) with ((r * 2 + 1) :: enc_refs (r2 :: l)).
  cbn [length]. rewrite IH. reflexivity.
Qed.

Ltac split_pre L :=
  lazymatch L with
  | enc_refs _ ++ _ => constr:(@nil Z)
  | ?x :: ?t => let p := split_pre t in constr:(x :: p)
  end.

Theorem vp9_parse_encode d rest :
  v9_wf d -> vp9_parse (vp9_encode d ++ rest) = Some (v9_view d rest).
Proof.
  intros (Hpic & Hlay & Hn & Hf).
  destruct d as [p f b e z pic layer refs].
  cbn [n_p n_f n_b n_e n_z n_pic n_layer n_refs] in *.
  unfold vp9_encode, v9_view, vp9_parse.
  cbn [n_p n_f n_b n_e n_z n_pic n_layer n_refs].
  destruct pic as [[[|] pid]|]; destruct layer as [[[[[t u] s] dd] tl0]|]; destruct f, p;
    cbn [is_some andb app]; cbv zeta.
  all: match goal with
       | |- context [b2z ?i * 128 + b2z ?pp * 64 + b2z ?l * 32 + b2z ?ff * 16 + b2z ?bb * 8 + b2z ?ee * 4 + 0 * 2 + b2z ?zz] =>
         destruct (byte9_fields i pp l ff bb ee zz) as (N7 & N6 & N5 & N4 & N3 & N2 & N1 & N0)
       end.
  all: try (destruct (pic15_fields pid Hpic) as (P7 & Pv)).
  all: try (pose proof (pic7_fields pid Hpic) as P7).
  all: try (destruct Hlay as (Ht & Hs & Htl);
            destruct (layer_fields t u s dd Ht Hs) as (L5 & L4 & L1);
            assert (L9 : (5 <=? s) = false) by lia).
  all: repeat (progress (rd_step; cbv beta iota;
               rewrite ?N7, ?N6, ?N5, ?N4, ?N3, ?N2, ?N1, ?N0, ?P7, ?L5, ?L4, ?L1, ?L9;
               cbn [andb orb negb])).
  all: try reflexivity.
  (* the cases with reference indices *)
  all: match goal with
       | |- context [vp9_refs ?L ?pos] =>
         let pre := split_pre L in
         change L with (pre ++ enc_refs refs ++ rest);
         rewrite (refs_parse refs pre rest pos Hn Hf eq_refl);
         change (pre ++ enc_refs refs ++ rest) with ((pre ++ enc_refs refs) ++ rest) at 1;
         replace (pos + Z.of_nat (length refs)) with (blen (pre ++ enc_refs refs))
           by (rewrite blen_app; unfold blen at 2; rewrite enc_refs_length; reflexivity);
         rewrite drop_app_blen
       end.
  all: reflexivity.
Qed.

(* the flags of a VP9 packet are the fields of its payload descriptor; the
   codec payload must not be empty (pion refuses... no: an empty payload is
   accepted, the key-frame test then fails) *)
Theorem packet_flags_vp9 b0 b1 b2 b3 cc tail d pl :
  hdr_ok b0 cc tail -> v9_wf d ->
  let kf :=
    match pl with
    | h :: _ =>
      if n_b d && (bits h 6 2 =? 2) then
        if negb (bits h 4 2 =? 3) then bits h 2 2 =? 0 else bits h 1 2 =? 0
      else false
    | [] => false
    end in
  packet_flags CVP9 (b0 :: b1 :: b2 :: b3 :: tail ++ vp9_encode d ++ pl) =
  FOk (mkFlags (b2 * 256 + b3) (bit b1 7) (n_b d) (n_e d) kf 0
               (match n_layer d with Some (t, _, _, _, _) => t | None => 0 end)
               (match n_layer d with Some (_, _, s, _, _) => s | None => 0 end)
               (kf || match n_layer d with Some (_, u, _, _, _) => u | None => false end)
               (kf || negb (n_p d)) (n_z d))
      false.
Proof.
  intros Hh Hd. cbv zeta. unfold packet_flags.
  pose proof (rtp_payload_hdr b0 b1 b2 b3 cc tail (vp9_encode d ++ pl) Hh) as Hpl.
  destruct Hh as (Hcc & Hb & Hx & Hp & Hl).
  assert (Hlen : (blen (b0 :: b1 :: b2 :: b3 :: tail ++ vp9_encode d ++ pl) <? 4) = false).
  { rewrite !blen_cons. pose proof (blen_nonneg (tail ++ vp9_encode d ++ pl)). lia. }
  rewrite Hlen. rd_step. cbv beta iota. rewrite Hx. rewrite Hpl.
  rewrite (vp9_parse_encode d pl Hd).
  unfold v9_view. cbn [v9_p v9_b v9_e v9_tid v9_u v9_sid v9_payload].
  (* the Z bit is bit 0 of the first descriptor byte *)
  unfold vp9_encode. cbn [app].
  match goal with
  | |- context [b2z ?i * 128 + b2z ?pp * 64 + b2z ?l * 32 + b2z ?ff * 16 + b2z ?bb * 8 + b2z ?ee * 4 + 0 * 2 + b2z ?zz] =>
    destruct (byte9_fields i pp l ff bb ee zz) as (_ & _ & _ & _ & _ & _ & _ & N0)
  end.
  rewrite N0. reflexivity.
Qed.

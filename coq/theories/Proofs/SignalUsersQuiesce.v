(* C14, part 13: quiescence is REACHED.  [C14_convergence] assumes
   [quiescent w]; here: from every world, serving the queues (OpPump only, or
   the model's OpQuiesce) ends, after at most three rounds over the
   connections, in a quiescent world.

   Serving an action CAN enqueue actions on other connections (a served
   permission change announces itself to every member, a served kick
   announces the departure, a served request pushes connections to the
   requester), so the total queue length is not a decreasing measure
   ([total_queue_can_grow]).  What decreases is the LEVEL of an action:

     3  AChangePerms          (serving it queues APermsChanged on oneself)
     2  APermsChanged, AKick, ARequestConns
                              (serving them queues level-1 actions only)
     1  APushConn, APushClient, AJoined, AConnFailed   (queue nothing)

   Serving an action of level k enqueues only actions of level < k
   ([handle_action_grow]); one round over all connections therefore lowers
   the maximal level of the queued actions by one ([pump_round_level]). *)
From Coq Require Import ZArith List Bool String Arith Lia Permutation.
From Galene Require Import Generated.Guards Model.Signal Model.SignalUsers
  Proofs.SignalFrame Proofs.SignalSafe Proofs.SignalUsersBase Proofs.SignalUsersFrame
  Proofs.SignalUsersInv Proofs.SignalUsersAnnounce Proofs.SignalUsersLeave
  Proofs.SignalUsersJoin Proofs.SignalUsersMisc Proofs.SignalUsersSteps
  Proofs.SignalUsersThms Proofs.SignalUsersC14.
Import ListNotations.
Open Scope string_scope.
Open Scope list_scope.
Open Scope nat_scope.

(* ------------------------------------------------------------------ *)
(* Levels                                                              *)

Definition lvl (a : action) : nat :=
  match a with
  | AChangePerms _ _ => 3
  | APermsChanged => 2
  | AKick _ _ _ => 2
  | ARequestConns _ _ _ => 2
  | _ => 1
  end.

Definition is_kick (a : action) : bool :=
  match a with AKick _ _ _ => true | _ => false end.

(* a queued permission change names one of the six kinds *)
Definition okperm (a : action) : bool :=
  match a with AChangePerms _ k => is_perm_kind k | _ => true end.

(* the actions that SERVING an action (or the end of a connection) can
   enqueue: never a kick, a permission change or a request *)
Definition mild (a : action) : bool :=
  match a with
  | AKick _ _ _ => false
  | AChangePerms _ _ => false
  | ARequestConns _ _ _ => false
  | _ => true
  end.

Definition below (k : nat) (a : action) : bool := Nat.ltb (lvl a) k.
Definition gen (k : nat) (a : action) : bool := below k a && mild a.

Lemma lvl_pos : forall a, 1 <= lvl a.
Proof. destruct a; cbn; lia. Qed.
Lemma lvl_max : forall a, lvl a <= 3.
Proof. destruct a; cbn; lia. Qed.

Lemma below_mono : forall k k' a, k <= k' -> below k a = true -> below k' a = true.
Proof. unfold below. intros k k' a Hk H. apply Nat.ltb_lt in H. apply Nat.ltb_lt. lia. Qed.

Lemma gen_mono : forall k k' a, k <= k' -> gen k a = true -> gen k' a = true.
Proof.
  unfold gen. intros k k' a Hk H. apply andb_prop in H. destruct H as [H1 H2].
  rewrite (below_mono k k' a Hk H1), H2. reflexivity.
Qed.

Lemma gen_below : forall k a, gen k a = true -> below k a = true.
Proof. unfold gen. intros k a H. apply andb_prop in H. tauto. Qed.
Lemma gen_okperm : forall k a, gen k a = true -> okperm a = true.
Proof. unfold gen. intros k a H. apply andb_prop in H. destruct H as [_ H]. destruct a; try discriminate; reflexivity. Qed.
Lemma gen_not_kick : forall k a, gen k a = true -> is_kick a = false.
Proof. unfold gen. intros k a H. apply andb_prop in H. destruct H as [_ H]. destruct a; try discriminate; reflexivity. Qed.

Lemma forallb_mono : forall (A : Type) (P Q : A -> bool) l,
  (forall a, P a = true -> Q a = true) -> forallb P l = true -> forallb Q l = true.
Proof.
  intros A P Q l HPQ H. rewrite forallb_forall in *. intros a Ha. apply HPQ, H, Ha.
Qed.

(* ------------------------------------------------------------------ *)
(* The frame: every queue grows by actions satisfying P; unless the     *)
(* client is the exempted one, it keeps its closed flag and its group.  *)
(* With no exemption the groups are unchanged too.                      *)

Definition cgrow (fixed : bool) (P : action -> bool) (c c' : client) : Prop :=
  (fixed = true -> c_closed c' = c_closed c /\ c_group c' = c_group c) /\
  exists qa, c_queue c' = c_queue c ++ qa /\ forallb P qa = true.

Definition fixedb (ex : option nat) (i : nat) : bool :=
  match ex with Some h => negb (Nat.eqb i h) | None => true end.

Definition qgrow (ex : option nat) (P : action -> bool) (w w' : world) : Prop :=
  (forall i, match get_client w i with
             | Some c => exists c', get_client w' i = Some c' /\ cgrow (fixedb ex i) P c c'
             | None => get_client w' i = None
             end) /\
  (ex = None -> w_groups w' = w_groups w).

Lemma cgrow_refl : forall b P c, cgrow b P c c.
Proof. intros. split; [auto|]. exists []. rewrite app_nil_r. auto. Qed.

Lemma cgrow_trans : forall b P c1 c2 c3, cgrow b P c1 c2 -> cgrow b P c2 c3 -> cgrow b P c1 c3.
Proof.
  intros b P c1 c2 c3 [F1 (q1 & Hq1 & Hp1)] [F2 (q2 & Hq2 & Hp2)]. split.
  - intros Hb. destruct (F1 Hb), (F2 Hb). split; congruence.
  - exists (q1 ++ q2). rewrite Hq2, Hq1, app_assoc, forallb_app, Hp1, Hp2. auto.
Qed.

Lemma cgrow_mono : forall b P Q c c', (forall a, P a = true -> Q a = true) -> cgrow b P c c' -> cgrow b Q c c'.
Proof.
  intros b P Q c c' HPQ [F (qa & Hq & Hp)]. split; [exact F|]. exists qa. split; [exact Hq|].
  eapply forallb_mono; eauto.
Qed.

Lemma cgrow_unfix : forall b P c c', cgrow true P c c' -> cgrow b P c c'.
Proof. intros b P c c' [F H]. split; [intros _; apply F; reflexivity | exact H]. Qed.

Lemma qgrow_refl : forall ex P w, qgrow ex P w w.
Proof.
  intros. split; [|reflexivity]. intros i. destruct (get_client w i) as [c|]; [|reflexivity].
  exists c. split; [reflexivity | apply cgrow_refl].
Qed.

Lemma qgrow_trans : forall ex P w1 w2 w3, qgrow ex P w1 w2 -> qgrow ex P w2 w3 -> qgrow ex P w1 w3.
Proof.
  intros ex P w1 w2 w3 [H1 G1] [H2 G2]. split; [|intros E; rewrite (G2 E), (G1 E); reflexivity].
  intros i. specialize (H1 i). specialize (H2 i). destruct (get_client w1 i) as [c1|].
  - destruct H1 as (c2 & Hc2 & E1). rewrite Hc2 in H2. destruct H2 as (c3 & Hc3 & E2).
    exists c3. split; [exact Hc3 | eapply cgrow_trans; eauto].
  - rewrite H1 in H2. exact H2.
Qed.

Lemma qg_peel : forall ex P w w1 w2, qgrow ex P w1 w2 -> qgrow ex P w w1 -> qgrow ex P w w2.
Proof. intros. eapply qgrow_trans; eauto. Qed.

Lemma qgrow_mono : forall ex P Q w w', (forall a, P a = true -> Q a = true) -> qgrow ex P w w' -> qgrow ex Q w w'.
Proof.
  intros ex P Q w w' HPQ [H G]. split; [|exact G]. intros i. specialize (H i).
  destruct (get_client w i) as [c|]; [|exact H]. destruct H as (c' & Hc' & E).
  exists c'. split; [exact Hc' | eapply cgrow_mono; eauto].
Qed.

Lemma qgrow_exempt : forall h P w w', qgrow None P w w' -> qgrow (Some h) P w w'.
Proof.
  intros h P w w' [H G]. split; [|discriminate]. intros i. specialize (H i).
  destruct (get_client w i) as [c|]; [|exact H]. destruct H as (c' & Hc' & E).
  exists c'. split; [exact Hc' | apply cgrow_unfix; exact E].
Qed.

(* a change of one client that keeps queue, closed flag and group *)
Lemma qg_upd_fields : forall ex P w x f,
  (forall c, c_queue (f c) = c_queue c) -> (forall c, c_closed (f c) = c_closed c) ->
  (forall c, c_group (f c) = c_group c) -> qgrow ex P w (upd w x f).
Proof.
  intros ex P w x f Hq Hc Hg. split; [|intros _; apply groups_upd]. intros i. rewrite get_client_upd.
  destruct (get_client w i) as [c|]; destruct (Nat.eqb i x); cbn [option_map]; try reflexivity.
  - exists (f c). split; [reflexivity|]. split; [auto|]. exists []. rewrite app_nil_r, Hq. auto.
  - exists c. split; [reflexivity | apply cgrow_refl].
Qed.

(* a change of the exempted client that keeps its queue *)
Lemma qg_upd_self : forall P w h f,
  (forall c, c_queue (f c) = c_queue c) -> qgrow (Some h) P w (upd w h f).
Proof.
  intros P w h f Hq. split; [|discriminate]. intros i. rewrite get_client_upd.
  destruct (get_client w i) as [c|]; destruct (Nat.eqb i h) eqn:E; cbn [option_map]; try reflexivity.
  - exists (f c). split; [reflexivity|]. split.
    + unfold fixedb. rewrite E. discriminate.
    + exists []. rewrite app_nil_r, Hq. auto.
  - exists c. split; [reflexivity | apply cgrow_refl].
Qed.

Lemma qg_enq : forall ex P w x a, P a = true -> qgrow ex P w (enq w x a).
Proof.
  intros ex P w x a Ha. split; [|intros _; apply groups_upd]. intros i. unfold enq. rewrite get_client_upd.
  destruct (get_client w i) as [c|]; destruct (Nat.eqb i x); cbn [option_map]; try reflexivity.
  - eexists. split; [reflexivity|]. split; [auto|]. exists [a]. cbn. rewrite Ha. auto.
  - exists c. split; [reflexivity | apply cgrow_refl].
Qed.

Lemma qg_send : forall ex P w x m, qgrow ex P w (send w x m).
Proof. intros. apply qg_upd_fields; intros; reflexivity. Qed.

Lemma qg_fold : forall (A : Type) ex P (F : world -> A -> world) l w,
  (forall w a, In a l -> qgrow ex P w (F w a)) -> qgrow ex P w (fold_left F l w).
Proof.
  intros A ex P F l. induction l as [|a l IH]; intros w H; cbn [fold_left].
  - apply qgrow_refl.
  - eapply qgrow_trans; [apply H; left; reflexivity|]. apply IH. intros. apply H. right. assumption.
Qed.

Lemma qg_enq_all : forall ex P w hs a, P a = true -> qgrow ex P w (enq_all w hs a).
Proof. intros. unfold enq_all. apply qg_fold. intros. apply qg_enq. assumption. Qed.
Lemma qg_send_all : forall ex P w hs m, qgrow ex P w (send_all w hs m).
Proof. intros. unfold send_all. apply qg_fold. intros. apply qg_send. Qed.

Lemma qg_same_clients : forall ex P w w',
  w_clients w' = w_clients w -> (ex = None -> w_groups w' = w_groups w) -> qgrow ex P w w'.
Proof.
  intros ex P w w' Hc Hg. split; [|exact Hg]. intros i. unfold get_client. rewrite Hc.
  destruct (nth_error (w_clients w) i) as [c|]; [|reflexivity].
  exists c. split; [reflexivity | apply cgrow_refl].
Qed.

Lemma qg_tokens : forall ex P w ts n, qgrow ex P w (wset_tokens w ts n).
Proof. intros. apply qg_same_clients; reflexivity. Qed.
Lemma qg_upd_group : forall h P w g f, qgrow (Some h) P w (upd_group w g f).
Proof. intros. apply qg_same_clients; [reflexivity | discriminate]. Qed.

Ltac qg_side := first [reflexivity | assumption | cbn; reflexivity | cbn; assumption | solve [auto]].

Ltac qg_one :=
  lazymatch goal with
  | |- qgrow _ _ ?w ?w => apply qgrow_refl
  | |- qgrow _ _ _ (enq _ _ _) => eapply qg_peel; [apply qg_enq; qg_side|]
  | |- qgrow _ _ _ (send _ _ _) => eapply qg_peel; [apply qg_send|]
  | |- qgrow _ _ _ (send_error _ _ _ _) => unfold send_error
  | |- qgrow _ _ _ (terror _ _ _ _ _) => unfold terror
  | |- qgrow _ _ _ (enq_all _ _ _) => eapply qg_peel; [apply qg_enq_all; qg_side|]
  | |- qgrow _ _ _ (send_all _ _ _) => eapply qg_peel; [apply qg_send_all|]
  | |- qgrow _ _ _ (push_client_all _ _ _ _ _ _ _ _) => unfold push_client_all
  | |- qgrow _ _ _ (upd_group _ _ _) => eapply qg_peel; [apply qg_upd_group|]
  | |- qgrow _ _ _ (wset_tokens _ _ _) => eapply qg_peel; [apply qg_tokens|]
  | |- qgrow _ _ _ (close_down_conn _ _ _) => unfold close_down_conn
  | |- qgrow _ _ _ (del_down_conn _ _ _) => unfold del_down_conn
  | |- qgrow _ _ _ (fail_up_connection _ _ _ _ _) => unfold fail_up_connection
  | |- qgrow _ _ _ (request_conns _ _ _ _) => unfold request_conns
  | |- qgrow _ _ _ (push_conn_notracks _ _ _ _) => unfold push_conn_notracks
  | |- qgrow _ _ _ (fold_left _ _ _) => eapply qg_peel; [apply qg_fold; intros|]
  | |- qgrow _ _ _ (upd _ _ _) =>
      eapply qg_peel;
      [first [apply qg_upd_fields; intro; reflexivity | apply qg_upd_self; intro; reflexivity]|]
  | |- qgrow _ _ _ (if ?b then _ else _) => destruct b eqn:?
  | |- qgrow _ _ _ (match ?x with _ => _ end) => destruct x eqn:?
  | |- qgrow _ _ _ (let _ := _ in _) => cbv zeta
  end.
Ltac qg := repeat qg_one.

(* P holds of every pushed connection / user event / joined message *)
Definition passes (P : action -> bool) : Prop :=
  (forall g id b r, P (APushConn g id b r) = true) /\
  (forall g k i u p d, P (APushClient g k i u p d) = true) /\
  (forall g k, P (AJoined g k) = true).

Lemma passes_gen2 : passes (gen 2).
Proof. repeat split. Qed.
Lemma passes_okperm : passes okperm.
Proof. repeat split. Qed.

Lemma qg_del_up_conn : forall ex P w h id push, passes P -> qgrow ex P w (fst (del_up_conn w h id push)).
Proof.
  intros ex P w h id push (HP & _ & _). unfold del_up_conn.
  destruct (get_client w h) as [c|]; [|apply qgrow_refl].
  destruct (find_up c id) as [u|]; [|apply qgrow_refl]. cbn [fst]. cbv zeta.
  destruct (c_group c) as [g|]; [destruct push|]; qg.
Qed.

Lemma qg_del_all_ups : forall ex P l w h, passes P -> qgrow ex P w (del_all_ups l w h).
Proof.
  intros ex P l. induction l as [|u l IH]; intros w h HP; cbn [del_all_ups].
  - apply qgrow_refl.
  - eapply qgrow_trans; [apply qg_del_up_conn; exact HP | apply IH; exact HP].
Qed.

Lemma qg_drop_all_ups : forall ex P l w h c, passes P -> qgrow ex P w (drop_all_ups l w h c).
Proof.
  intros ex P l. induction l as [|u l IH]; intros w h c HP; cbn [drop_all_ups].
  - apply qgrow_refl.
  - pose proof (qg_del_up_conn ex P w h (up_id u) true HP) as Hd.
    destruct (del_up_conn w h (up_id u) true) as [w1 found]. cbn [fst] in Hd.
    eapply qgrow_trans; [|apply IH; exact HP].
    destruct found; [|exact Hd]. eapply qg_peel; [|exact Hd]. qg.
Qed.

Ltac qg_passes := first [assumption | repeat split].
Ltac qg_two :=
  first
  [ qg_one
  | lazymatch goal with
    | |- qgrow _ _ _ (fst (del_up_conn _ _ _ _)) => eapply qg_peel; [apply qg_del_up_conn; qg_passes|]
    | |- qgrow _ _ _ (del_all_ups _ _ _) => eapply qg_peel; [apply qg_del_all_ups; qg_passes|]
    | |- qgrow _ _ _ (drop_all_ups _ _ _ _) => eapply qg_peel; [apply qg_drop_all_ups; qg_passes|]
    end ].
Ltac qgs := repeat qg_two.

(* ------------------------------------------------------------------ *)
(* Serving one action enqueues only actions of a lower level; a failing *)
(* action leaves the world as it is.                                    *)

Lemma handle_action_grow : forall w h c a res,
  handle_action w h c a = Ok res -> qgrow None (gen (lvl a)) w (r_world res).
Proof.
  intros w h c a res H.
  destruct a; cbn [handle_action] in H; cbv zeta in H; repeat break_eq; inv_eqs; finish_ok H;
    cbn [lvl]; qgs.
Qed.

Lemma change_perms_none : forall b k p, change_perms b k p = None -> is_perm_kind k = false.
Proof.
  intros b k p H. unfold change_perms in H. unfold is_perm_kind.
  destruct (String.eqb k "op"); [discriminate|].
  destruct (String.eqb k "unop"); [discriminate|].
  destruct (String.eqb k "present"); [discriminate|].
  destruct (String.eqb k "unpresent"); [discriminate|].
  destruct (String.eqb k "shutup"); [discriminate|].
  destruct (String.eqb k "unshutup"); [discriminate|]. reflexivity.
Qed.

Lemma handle_action_fail : forall w h c a res,
  handle_action w h c a = Ok res -> r_err res <> ENone ->
  r_world res = w /\ 2 <= lvl a /\
  (is_kick a = true \/ (a = APermsChanged /\ c_group c = None) \/ okperm a = false).
Proof.
  intros w h c a res H He.
  destruct a; cbn [handle_action] in H; cbv zeta in H; repeat break_eq; inv_eqs; finish_ok H;
    cbn [r_err] in He; try congruence; cbn [lvl is_kick okperm];
    (split; [reflexivity|]); (split; [lia|]);
    first [ solve [left; reflexivity]
          | solve [right; right; eapply change_perms_none; eassumption]
          | solve [right; left; auto] ].
Qed.

Lemma handle_action_kick : forall w h c a res,
  handle_action w h c a = Ok res -> is_kick a = true -> r_err res <> ENone.
Proof. intros w h c a res H Hk. destruct a; try discriminate. cbn in H. finish_ok H. discriminate. Qed.

(* ------------------------------------------------------------------ *)
(* The end of a connection                                              *)

Lemma leave_group_grow : forall P w h, passes P -> qgrow (Some h) P w (leave_group w h).
Proof.
  intros P w h HP. pose proof HP as (H1 & H2 & H3). unfold leave_group.
  destruct (get_client w h) as [c|]; [|apply qgrow_refl].
  destruct (c_group c) as [g|]; [|apply qgrow_refl]. cbv zeta. qgs.
Qed.

Lemma error_close_grow : forall P w h e, passes P -> qgrow (Some h) P w (error_close w h e).
Proof.
  intros P w h e HP. unfold error_close.
  destruct (get_client w h) as [c|]; [|apply qgrow_refl]. cbv zeta. qgs;
    apply leave_group_grow; exact HP.
Qed.

Lemma error_close_closed : forall w h e c',
  get_client w h <> None -> get_client (error_close w h e) h = Some c' -> c_closed c' = true.
Proof.
  intros w h e c' Hn H. unfold error_close in H.
  destruct (get_client w h) as [c|]; [|contradiction]. cbv zeta in H.
  rewrite get_client_upd, Nat.eqb_refl in H.
  match type of H with option_map _ ?x = _ => destruct x end; cbn in H; inversion H. reflexivity.
Qed.

Lemma members_leave_group : forall w h c g2, get_client w h = Some c ->
  members (leave_group w h) g2 =
  match c_group c with
  | Some g => if String.eqb g2 g then filter (not_h h) (members w g) else members w g2
  | None => members w g2
  end.
Proof.
  intros w h c g2 Hc. unfold leave_group. rewrite Hc.
  destruct (c_group c) as [g|]; [|reflexivity]. cbv zeta.
  rewrite members_upd. unfold push_client_all. rewrite members_enq_all. unfold enq. rewrite members_upd.
  rewrite members_upd_group by reflexivity.
  assert (Hm : forall g', members (upd (del_all_ups (c_up c) w h) h (fun c0 => set_down c0 [])) g' = members w g').
  { intros g'. rewrite members_upd. apply gsame_members. apply neutral_del_all_ups. }
  destruct (String.eqb g2 g); [|apply Hm].
  rewrite <- (Hm g). unfold members.
  destruct (find_group _ g); reflexivity.
Qed.

(* ------------------------------------------------------------------ *)
(* One batch                                                            *)

Lemma qgrow_client : forall ex P w w' i c, qgrow ex P w w' -> get_client w i = Some c ->
  exists c', get_client w' i = Some c' /\ cgrow (fixedb ex i) P c c'.
Proof. intros ex P w w' i c [H _] Hc. specialize (H i). rewrite Hc in H. exact H. Qed.

Lemma qgrow_none : forall ex P w w' i, qgrow ex P w w' -> get_client w i = None -> get_client w' i = None.
Proof. intros ex P w w' i [H _] Hc. specialize (H i). rewrite Hc in H. exact H. Qed.

Lemma qgrow_client_inv : forall ex P w w' i c', qgrow ex P w w' -> get_client w' i = Some c' ->
  exists c, get_client w i = Some c /\ cgrow (fixedb ex i) P c c'.
Proof.
  intros ex P w w' i c' Hg Hc'. destruct (get_client w i) as [c|] eqn:Hc.
  - destruct (qgrow_client _ _ _ _ _ _ Hg Hc) as (c2 & Hc2 & E). exists c. split; [reflexivity|]. congruence.
  - rewrite (qgrow_none _ _ _ _ _ Hg Hc) in Hc'. discriminate.
Qed.

Lemma run_batch_grow : forall L q w h res,
  forallb (below (S L)) q = true -> run_batch q w h = Ok res ->
  qgrow None (gen L) w (r_world res) /\ (r_err res <> ENone -> 2 <= L).
Proof.
  intros L q. induction q as [|a q IH]; intros w h res Hq H; cbn [run_batch] in H.
  - finish_ok H. split; [apply qgrow_refl | congruence].
  - cbn [forallb] in Hq. apply andb_prop in Hq. destruct Hq as [Ha Hq].
    unfold below in Ha. apply Nat.ltb_lt in Ha.
    destruct (get_client w h) as [c|]; [|finish_ok H; split; [apply qgrow_refl | congruence]].
    destruct (handle_action w h c a) as [res1|] eqn:Ea; [|discriminate].
    assert (Hg : qgrow None (gen L) w (r_world res1)).
    { eapply qgrow_mono; [|eapply handle_action_grow; exact Ea]. intros. eapply gen_mono; [|eassumption]. lia. }
    destruct (r_err res1) eqn:Ee.
    + destruct (IH _ _ _ Hq H) as [Hg2 Hl]. split; [eapply qgrow_trans; eauto | exact Hl].
    + inversion H; subst res. split; [exact Hg|]. intros He.
      destruct (handle_action_fail _ _ _ _ _ Ea He) as (_ & H2 & _). lia.
    + inversion H; subst res. split; [exact Hg|]. intros He.
      destruct (handle_action_fail _ _ _ _ _ Ea He) as (_ & H2 & _). lia.
    + inversion H; subst res. split; [exact Hg|]. intros He.
      destruct (handle_action_fail _ _ _ _ _ Ea He) as (_ & H2 & _). lia.
    + inversion H; subst res. split; [exact Hg|]. intros He.
      destruct (handle_action_fail _ _ _ _ _ Ea He) as (_ & H2 & _). lia.
    + inversion H; subst res. split; [exact Hg|]. intros He.
      destruct (handle_action_fail _ _ _ _ _ Ea He) as (_ & H2 & _). lia.
Qed.

(* a queued kick ends the batch with an error *)
Lemma run_batch_kick : forall q w h c res,
  existsb is_kick q = true -> get_client w h = Some c -> run_batch q w h = Ok res -> r_err res <> ENone.
Proof.
  induction q as [|a q IH]; intros w h c res Hk Hc H; [discriminate|]. cbn [run_batch] in H. rewrite Hc in H.
  destruct (handle_action w h c a) as [res1|] eqn:Ea; [|discriminate].
  destruct (r_err res1) eqn:Ee; try (inversion H; subst res; congruence).
  cbn [existsb] in Hk. apply orb_prop in Hk. destruct Hk as [Hk | Hk].
  - exfalso. eapply handle_action_kick; eauto.
  - destruct (qgrow_client _ _ _ _ _ _ (handle_action_grow _ _ _ _ _ Ea) Hc) as (c1 & Hc1 & _).
    eapply IH; eauto.
Qed.

(* a batch of well-formed actions fails only on a kick, or (the announcement
   of a permission change) when its owner is in no group *)
Lemma run_batch_fail : forall q w h c res,
  forallb okperm q = true -> get_client w h = Some c -> run_batch q w h = Ok res -> r_err res <> ENone ->
  existsb is_kick q = true \/ c_group c = None.
Proof.
  induction q as [|a q IH]; intros w h c res Hq Hc H He; cbn [run_batch] in H.
  - finish_ok H. cbn in He. congruence.
  - rewrite Hc in H. cbn [forallb] in Hq. apply andb_prop in Hq. destruct Hq as [Ha Hq].
    destruct (handle_action w h c a) as [res1|] eqn:Ea; [|discriminate].
    assert (Hcase : r_err res1 = ENone \/ (r_err res1 <> ENone /\ res = res1)).
    { destruct (r_err res1) eqn:Ee; [left; reflexivity| | | | |]; right; (split; [congruence|]);
        inversion H; reflexivity. }
    destruct Hcase as [Ee | [Ee ->]].
    + rewrite Ee in H.
      destruct (qgrow_client _ _ _ _ _ _ (handle_action_grow _ _ _ _ _ Ea) Hc) as (c1 & Hc1 & [F _]).
      destruct (F eq_refl) as [_ Hg1].
      destruct (IH _ _ _ _ Hq Hc1 H He) as [Hk | Hn].
      * left. cbn [existsb]. rewrite Hk. apply orb_true_r.
      * right. congruence.
    + destruct (handle_action_fail _ _ _ _ _ Ea Ee) as (_ & _ & [Hk | [[_ Hn] | Hp]]).
      * left. cbn [existsb]. rewrite Hk. reflexivity.
      * right. exact Hn.
      * congruence.
Qed.

(* ------------------------------------------------------------------ *)
(* One pump                                                             *)

Definition take_queue (w : world) (h : nat) : world := upd w h (fun c => set_queue c []).

Lemma step_pump_cases : forall w h c w' r,
  get_client w h = Some c -> c_closed c = false -> step_pump w h = Running w' r ->
  exists res, run_batch (c_queue c) (take_queue w h) h = Ok res /\
    r = RPumped (r_err res) /\
    w' = match r_err res with ENone => r_world res | e => error_close (r_world res) h e end.
Proof.
  intros w h c w' r Hc Hcl H. unfold step_pump in H. rewrite Hc, Hcl in H. unfold finish in H.
  fold (take_queue w h) in H.
  destruct (run_batch (c_queue c) (take_queue w h) h) as [res|]; [|discriminate].
  exists res. split; [reflexivity|]. destruct (r_err res); inversion H; subst; auto.
Qed.

Lemma step_pump_frame : forall L w h c w' r,
  get_client w h = Some c -> c_closed c = false -> forallb (below (S L)) (c_queue c) = true ->
  step_pump w h = Running w' r -> qgrow (Some h) (gen L) (take_queue w h) w'.
Proof.
  intros L w h c w' r Hc Hcl Hq H.
  destruct (step_pump_cases _ _ _ _ _ Hc Hcl H) as (res & Hb & _ & Hw).
  destruct (run_batch_grow L _ _ _ _ Hq Hb) as [Hg Hl].
  assert (Hc2 : forall e, r_err res = e -> e <> ENone ->
            qgrow (Some h) (gen L) (take_queue w h) (error_close (r_world res) h e)).
  { intros e Ee Hne. eapply qgrow_trans; [apply qgrow_exempt; exact Hg|].
    eapply qgrow_mono; [|apply error_close_grow; apply passes_gen2].
    intros a Ha. eapply gen_mono; [|exact Ha]. apply Hl. congruence. }
  destruct (r_err res) eqn:Ee; subst w'; [apply qgrow_exempt; exact Hg| | | | |];
    apply Hc2; congruence.
Qed.

Lemma get_client_take_self : forall w h c, get_client w h = Some c ->
  get_client (take_queue w h) h = Some (set_queue c []).
Proof. intros. unfold take_queue. rewrite get_client_upd, Nat.eqb_refl, H. reflexivity. Qed.
Lemma get_client_take_other : forall w h i, i <> h -> get_client (take_queue w h) i = get_client w i.
Proof. intros. unfold take_queue. apply get_client_upd_other. assumption. Qed.

(* what one pump of a live client does to every client *)
Lemma step_pump_clients : forall L w h c w' r,
  get_client w h = Some c -> c_closed c = false -> forallb (below (S L)) (c_queue c) = true ->
  step_pump w h = Running w' r ->
  (forall i ci', get_client w' i = Some ci' ->
     if Nat.eqb i h then forallb (gen L) (c_queue ci') = true
     else exists ci, get_client w i = Some ci /\ cgrow true (gen L) ci ci') /\
  (forall i ci, get_client w i = Some ci -> exists ci', get_client w' i = Some ci').
Proof.
  intros L w h c w' r Hc Hcl Hq H. pose proof (step_pump_frame L _ _ _ _ _ Hc Hcl Hq H) as Hg. split.
  - intros i ci' Hi'. destruct (qgrow_client_inv _ _ _ _ _ _ Hg Hi') as (ci & Hi & E).
    destruct (Nat.eqb i h) eqn:Eih.
    + apply Nat.eqb_eq in Eih. subst i. rewrite (get_client_take_self _ _ _ Hc) in Hi.
      inversion Hi; subst ci. destruct E as [_ (qa & Hqa & Hp)]. rewrite Hqa. exact Hp.
    + apply Nat.eqb_neq in Eih. rewrite (get_client_take_other _ _ _ Eih) in Hi.
      exists ci. split; [exact Hi|]. unfold fixedb in E. apply Nat.eqb_neq in Eih. rewrite Eih in E. exact E.
  - intros i ci Hi. destruct (Nat.eq_dec i h) as [->|Ne].
    + destruct (qgrow_client _ _ _ _ _ _ Hg (get_client_take_self _ _ _ Hc)) as (c' & Hc' & _). eauto.
    + rewrite <- (get_client_take_other _ _ _ Ne) in Hi.
      destruct (qgrow_client _ _ _ _ _ _ Hg Hi) as (c' & Hc' & _). eauto.
Qed.

(* ------------------------------------------------------------------ *)
(* One round lowers the maximal level                                   *)

Definition all_below (k : nat) (w : world) : Prop :=
  forall i c, get_client w i = Some c -> c_closed c = false -> forallb (below k) (c_queue c) = true.

(* the clients of [hs] are still to be pumped in this round *)
Definition lstate (L : nat) (hs : list nat) (w : world) : Prop :=
  forall i c, get_client w i = Some c -> c_closed c = false ->
    forallb (below (if existsb (Nat.eqb i) hs then S L else L)) (c_queue c) = true.

Lemma gen_below_bound : forall L (b : bool) q,
  forallb (gen L) q = true -> forallb (below (if b then S L else L)) q = true.
Proof.
  intros L b q H. eapply forallb_mono; [|exact H]. intros a Ha. apply gen_below in Ha.
  eapply below_mono; [|exact Ha]. destruct b; lia.
Qed.

Lemma runnable_spec : forall c, runnable c = true -> c_closed c = false /\ c_queue c <> [].
Proof.
  intros c H. unfold runnable in H. apply andb_prop in H. destruct H as [H1 H2].
  apply negb_true_iff in H1. apply negb_true_iff in H2. split; [exact H1|].
  intros E. rewrite E in H2. discriminate.
Qed.

Lemma not_runnable_spec : forall c, runnable c = false -> c_closed c = false -> c_queue c = [].
Proof.
  intros c H Hcl. unfold runnable in H. rewrite Hcl in H. cbn in H. apply negb_false_iff in H.
  apply Nat.eqb_eq in H. destruct (c_queue c); [reflexivity | discriminate].
Qed.

Lemma pump_round_level : forall L hs w w',
  pump_round hs w = Some w' -> lstate L hs w -> all_below L w'.
Proof.
  intros L hs. induction hs as [|h r IH]; intros w w' H Hs; cbn [pump_round] in H.
  - inversion H; subst w'. exact Hs.
  - destruct (get_client w h) as [c|] eqn:Hc.
    + destruct (runnable c) eqn:Er.
      * destruct (step_pump w h) as [w1 r1|] eqn:Ep; [|discriminate].
        apply (IH w1 w' H). destruct (runnable_spec _ Er) as [Hcl _].
        assert (Hq : forallb (below (S L)) (c_queue c) = true).
        { specialize (Hs h c Hc Hcl). cbn [existsb] in Hs. rewrite Nat.eqb_refl in Hs. exact Hs. }
        destruct (step_pump_clients L _ _ _ _ _ Hc Hcl Hq Ep) as [Hcs _].
        intros i ci' Hi' Hcl'. specialize (Hcs i ci' Hi').
        destruct (Nat.eqb i h) eqn:Eih.
        -- apply gen_below_bound. exact Hcs.
        -- destruct Hcs as (ci & Hi & [F (qa & Hqa & Hp)]). destruct (F eq_refl) as [Fc _].
           rewrite Hqa, forallb_app. apply andb_true_intro. split.
           ++ assert (Hcli : c_closed ci = false) by congruence.
              specialize (Hs i ci Hi Hcli). cbn [existsb] in Hs. rewrite Eih in Hs. exact Hs.
           ++ apply gen_below_bound. exact Hp.
      * apply (IH w w' H). intros i ci Hi Hcl. specialize (Hs i ci Hi Hcl). cbn [existsb] in Hs.
        destruct (Nat.eqb i h) eqn:Eih; [|exact Hs].
        apply Nat.eqb_eq in Eih. subst i. rewrite Hc in Hi. inversion Hi; subst ci.
        rewrite (not_runnable_spec _ Er Hcl). reflexivity.
    + apply (IH w w' H). intros i ci Hi Hcl. specialize (Hs i ci Hi Hcl). cbn [existsb] in Hs.
      destruct (Nat.eqb i h) eqn:Eih; [|exact Hs].
      apply Nat.eqb_eq in Eih. subst i. rewrite Hc in Hi. discriminate.
Qed.

Lemma all_below_lstate : forall L w, all_below (S L) w -> lstate L (seq 0 (List.length (w_clients w))) w.
Proof.
  intros L w H i c Hi Hcl.
  assert (Hin : In i (seq 0 (List.length (w_clients w)))).
  { apply in_seq. split; [lia|]. cbn. apply nth_error_Some. unfold get_client in Hi. congruence. }
  assert (E : existsb (Nat.eqb i) (seq 0 (List.length (w_clients w))) = true).
  { apply existsb_exists. exists i. split; [exact Hin | apply Nat.eqb_refl]. }
  rewrite E. apply (H i c Hi Hcl).
Qed.

Lemma all_below_mono : forall k k' w, k <= k' -> all_below k w -> all_below k' w.
Proof.
  intros k k' w Hk H i c Hi Hcl. eapply forallb_mono; [|apply (H i c Hi Hcl)].
  intros a. apply below_mono. exact Hk.
Qed.

Lemma all_below_4 : forall w, all_below 4 w.
Proof.
  intros w i c _ _. apply forallb_forall. intros a _. unfold below. apply Nat.ltb_lt.
  pose proof (lvl_max a). lia.
Qed.

Lemma all_below_1_quiescent : forall w, all_below 1 w -> quiescent w.
Proof.
  intros w H i c Hi Hcl. specialize (H i c Hi Hcl). destruct (c_queue c) as [|a q]; [reflexivity|].
  cbn [forallb] in H. apply andb_prop in H. destruct H as [H _]. unfold below in H.
  apply Nat.ltb_lt in H. pose proof (lvl_pos a). lia.
Qed.

Lemma no_runnable_quiescent : forall w, existsb runnable (w_clients w) = false -> quiescent w.
Proof.
  intros w H i c Hi Hcl. apply not_runnable_spec; [|exact Hcl].
  destruct (runnable c) eqn:Er; [|reflexivity].
  assert (existsb runnable (w_clients w) = true); [|congruence].
  apply existsb_exists. exists c. split; [|exact Er]. unfold get_client in Hi. eapply nth_error_In; eauto.
Qed.

(* [fuel] rounds suffice when every queued action has a level <= fuel *)
Lemma quiesce_level : forall fuel w w',
  all_below (S fuel) w -> quiesce fuel w = Some w' -> quiescent w'.
Proof.
  induction fuel as [|f IH]; intros w w' Hb H; cbn [quiesce] in H.
  - inversion H; subst w'. apply all_below_1_quiescent. exact Hb.
  - destruct (existsb runnable (w_clients w)) eqn:Er.
    + destruct (pump_round (seq 0 (List.length (w_clients w))) w) as [w1|] eqn:Ep; [|discriminate].
      apply (IH w1 w'); [|exact H].
      eapply pump_round_level; [exact Ep | apply all_below_lstate; exact Hb].
    + inversion H; subst w'. apply no_runnable_quiescent. exact Er.
Qed.

(* three rounds (and so the 1000 of OpQuiesce) always suffice, from ANY world *)
Theorem quiesce_reaches : forall fuel w, 3 <= fuel ->
  exists w', quiesce fuel w = Some w' /\ quiescent w'.
Proof.
  intros fuel w Hf. destruct (quiesce fuel w) as [w'|] eqn:E.
  - exists w'. split; [reflexivity|]. eapply quiesce_level; [|exact E].
    eapply all_below_mono; [|apply all_below_4]. lia.
  - exfalso. eapply quiesce_safe; eauto.
Qed.

Theorem op_quiesce_quiescent : forall w, exists w', step w OpQuiesce = Running w' RNothing /\ quiescent w'.
Proof.
  intros w. destruct (quiesce_reaches 1000 w ltac:(lia)) as (w' & E & Hq).
  exists w'. split; [|exact Hq]. unfold step. rewrite E. reflexivity.
Qed.

(* ------------------------------------------------------------------ *)
(* Rounds as sequences of OpPump                                        *)

Definition is_pump (o : op) : bool := match o with OpPump _ => true | _ => false end.

Lemma run_ops_app : forall l1 l2 w,
  run_ops w (l1 ++ l2) = match run_ops w l1 with Some w1 => run_ops w1 l2 | None => None end.
Proof.
  induction l1 as [|o l1 IH]; intros l2 w; cbn [app run_ops]; [reflexivity|].
  destruct (step w o); [apply IH | reflexivity].
Qed.

Lemma run_log_app : forall l1 l2 w s,
  run_log w s (l1 ++ l2) = match run_log w s l1 with Some (w1, s1) => run_log w1 s1 l2 | None => None end.
Proof.
  induction l1 as [|o l1 IH]; intros l2 w s; cbn [app run_log]; [reflexivity|].
  destruct (step w o); [apply IH | reflexivity].
Qed.

(* pumping does not touch the log of what was read from the outboxes *)
Lemma run_log_pumps : forall l w s w', forallb is_pump l = true -> run_ops w l = Some w' ->
  run_log w s l = Some (w', s).
Proof.
  induction l as [|o l IH]; intros w s w' Hp H; cbn [run_ops run_log] in *.
  - inversion H. reflexivity.
  - cbn [forallb] in Hp. apply andb_prop in Hp. destruct Hp as [Ho Hp].
    destruct (step w o) as [w1 r1|]; [|discriminate].
    destruct o; try discriminate. cbn [log_step]. apply IH; assumption.
Qed.

Lemma pump_round_ops : forall hs w w', pump_round hs w = Some w' ->
  exists l, forallb is_pump l = true /\ run_ops w l = Some w' /\ List.length l <= List.length hs.
Proof.
  induction hs as [|h r IH]; intros w w' H; cbn [pump_round] in H.
  - inversion H; subst. exists []. repeat split. cbn. lia.
  - assert (Hskip : pump_round r w = Some w' ->
              exists l, forallb is_pump l = true /\ run_ops w l = Some w' /\ List.length l <= List.length (h :: r)).
    { intros H'. destruct (IH _ _ H') as (l & H1 & H2 & H3). exists l. repeat split; auto. cbn. lia. }
    destruct (get_client w h) as [c|]; [|auto]. destruct (runnable c); [|auto].
    destruct (step_pump w h) as [w1 r1|] eqn:Ep; [|discriminate].
    destruct (IH _ _ H) as (l & H1 & H2 & H3). exists (OpPump h :: l).
    split; [exact H1|]. split; [|cbn; lia]. cbn [run_ops step]. rewrite Ep. exact H2.
Qed.

Lemma quiesce_ops : forall fuel w w', quiesce fuel w = Some w' ->
  exists l, forallb is_pump l = true /\ run_ops w l = Some w'.
Proof.
  induction fuel as [|f IH]; intros w w' H; cbn [quiesce] in H.
  - inversion H; subst. exists []. split; reflexivity.
  - destruct (existsb runnable (w_clients w)).
    + destruct (pump_round (seq 0 (List.length (w_clients w))) w) as [w1|] eqn:Ep; [|discriminate].
      destruct (pump_round_ops _ _ _ Ep) as (l1 & A1 & A2 & _). destruct (IH _ _ H) as (l2 & B1 & B2).
      exists (l1 ++ l2). split; [rewrite forallb_app, A1, B1; reflexivity|].
      rewrite run_ops_app, A2. exact B2.
    + inversion H; subst. exists []. split; reflexivity.
Qed.

(* from ANY world, some sequence of OpPump ends in a quiescent world *)
Theorem pumps_reach_quiescence : forall w,
  exists pumps w', forallb is_pump pumps = true /\ run_ops w pumps = Some w' /\ quiescent w'.
Proof.
  intros w. destruct (quiesce_reaches 3 w ltac:(lia)) as (w' & E & Hq).
  destruct (quiesce_ops _ _ _ E) as (l & H1 & H2). exists l, w'. auto.
Qed.

(* ------------------------------------------------------------------ *)
(* Every queued permission change names one of the six kinds (the only  *)
(* place that queues one is the `useraction` branch guarded by          *)
(* [is_perm_kind]): an invariant of every history.                      *)

Definition wfq (w : world) : Prop :=
  forall i c, get_client w i = Some c -> forallb okperm (c_queue c) = true.

Lemma wfq_grow : forall ex w w', wfq w -> qgrow ex okperm w w' -> wfq w'.
Proof.
  intros ex w w' Hw Hg i c' Hi'. destruct (qgrow_client_inv _ _ _ _ _ _ Hg Hi') as (c & Hi & [_ (qa & Hq & Hp)]).
  rewrite Hq, forallb_app, (Hw i c Hi), Hp. reflexivity.
Qed.

Lemma wfq_grow_gen : forall ex k w w', wfq w -> qgrow ex (gen k) w w' -> wfq w'.
Proof.
  intros ex k w w' Hw Hg. eapply wfq_grow; [exact Hw|]. eapply qgrow_mono; [|exact Hg]. apply gen_okperm.
Qed.

Lemma wfq_take : forall w h, wfq w -> wfq (take_queue w h).
Proof.
  intros w h Hw i c Hi. unfold take_queue in Hi. rewrite get_client_upd in Hi.
  destruct (Nat.eqb i h).
  - destruct (get_client w i); cbn in Hi; inversion Hi. reflexivity.
  - eapply Hw; eauto.
Qed.

Lemma add_client_grow : forall w h c g u pw tk w' e,
  add_client w h c g u pw tk = (w', e) -> qgrow (Some h) okperm w w'.
Proof.
  intros w h c g u pw tk w' e H. unfold add_client in H. cbv zeta in H.
  repeat break_eq; inv_eqs; qgs.
Qed.

Ltac handler_grow H := cbv zeta in H; repeat break_eq; inv_eqs; finish_ok H; qgs.

Lemma handle_join_grow : forall w h c m r,
  handle_join w h c m = Ok r -> qgrow (Some h) okperm w (r_world r).
Proof.
  intros w h c m r H. unfold handle_join in H.
  destruct (String.eqb (m_kind m) "leave").
  { destruct (c_group c) as [g|]; [destruct (String.eqb g (m_group m))|]; finish_ok H; qgs.
    apply leave_group_grow. apply passes_okperm. }
  destruct (negb (String.eqb (m_kind m) "join")); [finish_ok H; qgs|].
  destruct (c_group c); [finish_ok H; qgs|]. cbv zeta in H.
  match type of H with (if ?b then _ else _) = _ => destruct b end; [finish_ok H; qgs|].
  destruct (add_client _ h _ (m_group m) (m_username m) (m_password m) (m_token m)) as [w1 [e|]] eqn:Ea.
  - destruct (join_fail_text e) as [ec v]. finish_ok H. qgs.
    eapply qg_peel; [eapply add_client_grow; exact Ea|]. qgs.
  - finish_ok H. qgs. eapply qg_peel; [eapply add_client_grow; exact Ea|]. qgs.
Qed.

Lemma handle_request_grow : forall w h c m r, handle_request w h c m = Ok r -> qgrow (Some h) okperm w (r_world r).
Proof. intros w h c m r H. unfold handle_request in H. handler_grow H. Qed.
Lemma handle_request_stream_grow : forall w h c m r,
  handle_request_stream w h c m = Ok r -> qgrow (Some h) okperm w (r_world r).
Proof. intros w h c m r H. unfold handle_request_stream in H. handler_grow H. Qed.
Lemma got_offer_grow : forall w h c m r, got_offer w h c m = Ok r -> qgrow (Some h) okperm w (r_world r).
Proof. intros w h c m r H. unfold got_offer in H. handler_grow H. Qed.
Lemma handle_offer_grow : forall w h c m r, handle_offer w h c m = Ok r -> qgrow (Some h) okperm w (r_world r).
Proof.
  intros w h c m r H. unfold handle_offer in H.
  destruct (is_empty (m_id m)); [finish_ok H; qgs|].
  destruct (negb (has_perms c "offer" (m_kind m))); [finish_ok H; qgs|].
  eapply got_offer_grow; exact H.
Qed.
Lemma handle_answer_grow : forall w h c m r, handle_answer w h c m = Ok r -> qgrow (Some h) okperm w (r_world r).
Proof. intros w h c m r H. unfold handle_answer in H. handler_grow H. Qed.
Lemma handle_renegotiate_grow : forall w h c m r, handle_renegotiate w h c m = Ok r -> qgrow (Some h) okperm w (r_world r).
Proof. intros w h c m r H. unfold handle_renegotiate in H. handler_grow H. Qed.
Lemma handle_close_grow : forall w h c m r, handle_close w h c m = Ok r -> qgrow (Some h) okperm w (r_world r).
Proof. intros w h c m r H. unfold handle_close in H. handler_grow H. Qed.
Lemma handle_abort_grow : forall w h c m r, handle_abort w h c m = Ok r -> qgrow (Some h) okperm w (r_world r).
Proof. intros w h c m r H. unfold handle_abort in H. handler_grow H. Qed.
Lemma handle_ice_grow : forall w h c m r, handle_ice w h c m = Ok r -> qgrow (Some h) okperm w (r_world r).
Proof. intros w h c m r H. unfold handle_ice in H. handler_grow H. Qed.
Lemma handle_chat_grow : forall w h c m r, handle_chat w h c m = Ok r -> qgrow (Some h) okperm w (r_world r).
Proof. intros w h c m r H. unfold handle_chat in H. handler_grow H. Qed.
Lemma handle_groupaction_grow : forall w h c m r, handle_groupaction w h c m = Ok r -> qgrow (Some h) okperm w (r_world r).
Proof. intros w h c m r H. unfold handle_groupaction in H. handler_grow H. Qed.
Lemma handle_useraction_grow : forall w h c m r, handle_useraction w h c m = Ok r -> qgrow (Some h) okperm w (r_world r).
Proof. intros w h c m r H. unfold handle_useraction in H. handler_grow H. Qed.

Lemma handle_client_message_grow : forall w h c m r,
  handle_client_message w h c m = Ok r -> qgrow (Some h) okperm w (r_world r).
Proof.
  intros w h c m r H. unfold handle_client_message in H.
  match type of H with (if ?b then _ else _) = _ => destruct b end; [finish_ok H; apply qgrow_refl|].
  match type of H with (if ?b then _ else _) = _ => destruct b end; [finish_ok H; apply qgrow_refl|].
  cbv zeta in H.
  destruct (String.eqb (m_type m) "join"); [eapply handle_join_grow; eauto|].
  destruct (String.eqb (m_type m) "request"); [eapply handle_request_grow; eauto|].
  destruct (String.eqb (m_type m) "requestStream"); [eapply handle_request_stream_grow; eauto|].
  destruct (String.eqb (m_type m) "offer"); [eapply handle_offer_grow; eauto|].
  destruct (String.eqb (m_type m) "answer"); [eapply handle_answer_grow; eauto|].
  destruct (String.eqb (m_type m) "renegotiate"); [eapply handle_renegotiate_grow; eauto|].
  destruct (String.eqb (m_type m) "close"); [eapply handle_close_grow; eauto|].
  destruct (String.eqb (m_type m) "abort"); [eapply handle_abort_grow; eauto|].
  destruct (String.eqb (m_type m) "ice"); [eapply handle_ice_grow; eauto|].
  destruct (String.eqb (m_type m) "chat" || String.eqb (m_type m) "usermessage");
    [eapply handle_chat_grow; eauto|].
  destruct (String.eqb (m_type m) "groupaction"); [eapply handle_groupaction_grow; eauto|].
  destruct (String.eqb (m_type m) "useraction"); [eapply handle_useraction_grow; eauto|].
  destruct (String.eqb (m_type m) "pong"); [finish_ok H; apply qgrow_refl|].
  destruct (String.eqb (m_type m) "ping"); [finish_ok H; qgs|].
  finish_ok H. apply qgrow_refl.
Qed.

Lemma wfq_error_close : forall w h e, wfq w -> wfq (error_close w h e).
Proof. intros. eapply wfq_grow; [eassumption|]. apply error_close_grow. apply passes_okperm. Qed.

Lemma step_msg_wfq : forall w h m w' r, wfq w -> step_msg w h m = Running w' r -> wfq w'.
Proof.
  intros w h m w' r Hw H. unfold step_msg in H.
  destruct (get_client w h) as [c|]; [|inversion H; subst; exact Hw].
  destruct (c_closed c); [inversion H; subst; exact Hw|]. unfold finish in H.
  destruct (handle_client_message w h c m) as [res|] eqn:E; [|discriminate].
  pose proof (wfq_grow _ _ _ Hw (handle_client_message_grow _ _ _ _ _ E)) as Hw1.
  destruct (r_err res); inversion H; subst; try exact Hw1; apply wfq_error_close; exact Hw1.
Qed.

Lemma step_pump_wfq : forall w h w' r, wfq w -> step_pump w h = Running w' r -> wfq w'.
Proof.
  intros w h w' r Hw H.
  destruct (get_client w h) as [c|] eqn:Hc; [|unfold step_pump in H; rewrite Hc in H; inversion H; subst; exact Hw].
  destruct (c_closed c) eqn:Hcl; [unfold step_pump in H; rewrite Hc, Hcl in H; inversion H; subst; exact Hw|].
  assert (Hq : forallb (below 4) (c_queue c) = true).
  { apply forallb_forall. intros a _. unfold below. apply Nat.ltb_lt. pose proof (lvl_max a). lia. }
  eapply wfq_grow_gen; [apply wfq_take; exact Hw|]. eapply (step_pump_frame 3); eauto.
Qed.

Lemma pump_round_wfq : forall hs w w', wfq w -> pump_round hs w = Some w' -> wfq w'.
Proof.
  induction hs as [|h r IH]; intros w w' Hw H; cbn [pump_round] in H.
  - inversion H; subst. exact Hw.
  - destruct (get_client w h) as [c|]; [|eapply IH; eauto].
    destruct (runnable c); [|eapply IH; eauto].
    destruct (step_pump w h) as [w1 r1|] eqn:Ep; [|discriminate].
    eapply IH; [|exact H]. eapply step_pump_wfq; eauto.
Qed.

Lemma quiesce_wfq : forall fuel w w', wfq w -> quiesce fuel w = Some w' -> wfq w'.
Proof.
  induction fuel as [|f IH]; intros w w' Hw H; cbn [quiesce] in H.
  - inversion H; subst. exact Hw.
  - destruct (existsb runnable (w_clients w)); [|inversion H; subst; exact Hw].
    destruct (pump_round _ w) as [w1|] eqn:Ep; [|discriminate].
    eapply IH; [|exact H]. eapply pump_round_wfq; eauto.
Qed.

Lemma step_wfq : forall w o w' r, wfq w -> step w o = Running w' r -> wfq w'.
Proof.
  intros w o w' r Hw H. destruct o; cbn [step] in H.
  - destruct (find_group w name); inversion H; subst; exact Hw.
  - inversion H; subst. intros i c Hc. apply get_client_app_new in Hc.
    destruct Hc as [Hc | ->]; [eapply Hw; eauto | reflexivity].
  - eapply step_msg_wfq; eauto.
  - eapply step_pump_wfq; eauto.
  - unfold step_disconnect in H.
    destruct (get_client w h) as [c|]; [|inversion H; subst; exact Hw].
    destruct (c_closed c); inversion H; subst; [exact Hw | apply wfq_error_close; exact Hw].
  - destruct (quiesce 1000 w) as [w1|] eqn:Eq; [|discriminate].
    inversion H; subst. eapply quiesce_wfq; eauto.
  - destruct (get_client w h) as [c|]; inversion H; subst; [|exact Hw].
    eapply wfq_grow; [exact Hw|]. apply (qg_upd_fields None); intro; reflexivity.
Qed.

Lemma run_log_wfq : forall ops w s w' s', wfq w -> run_log w s ops = Some (w', s') -> wfq w'.
Proof.
  induction ops as [|o ops IH]; intros w s w' s' Hw H; cbn [run_log] in H.
  - inversion H; subst. exact Hw.
  - destruct (step w o) as [w1 r1|] eqn:Es; [|discriminate].
    eapply IH; [|exact H]. eapply step_wfq; eauto.
Qed.

Lemma wfq_empty : wfq empty_world.
Proof. intros i c H. unfold get_client in H. cbn in H. destruct i; discriminate. Qed.

Lemma reachable_wfq : forall w s, reachable w s -> wfq w.
Proof. intros w s (ops & _ & Hr). eapply run_log_wfq; [apply wfq_empty | exact Hr]. Qed.

(* ------------------------------------------------------------------ *)
(* What serving the queues does to the membership: a member leaves iff  *)
(* a kick was queued for it.                                            *)

Definition alive (w : world) (x : nat) : bool :=
  match get_client w x with Some c => negb (c_closed c) | None => false end.

(* a live connection with a kick in its queue *)
Definition kick_queued (w : world) (x : nat) : bool :=
  match get_client w x with
  | Some c => negb (c_closed c) && existsb is_kick (c_queue c)
  | None => false
  end.

Lemma gen_no_kick : forall k qa, forallb (gen k) qa = true -> existsb is_kick qa = false.
Proof.
  induction qa as [|a qa IH]; intros H; [reflexivity|]. cbn [forallb] in H. apply andb_prop in H.
  destruct H as [Ha H]. cbn [existsb]. rewrite (gen_not_kick _ _ Ha), (IH H). reflexivity.
Qed.

Lemma qgrow_alive : forall ex P w w' x, qgrow ex P w w' -> fixedb ex x = true -> alive w' x = alive w x.
Proof.
  intros ex P w w' x Hg Hf. unfold alive. destruct (get_client w x) as [c|] eqn:Hc.
  - destruct (qgrow_client _ _ _ _ _ _ Hg Hc) as (c' & Hc' & [F _]). rewrite Hc'.
    destruct (F Hf) as [E _]. rewrite E. reflexivity.
  - rewrite (qgrow_none _ _ _ _ _ Hg Hc). reflexivity.
Qed.

Lemma qgrow_kick : forall ex k w w' x, qgrow ex (gen k) w w' -> fixedb ex x = true ->
  kick_queued w' x = kick_queued w x.
Proof.
  intros ex k w w' x Hg Hf. unfold kick_queued. destruct (get_client w x) as [c|] eqn:Hc.
  - destruct (qgrow_client _ _ _ _ _ _ Hg Hc) as (c' & Hc' & [F (qa & Hq & Hp)]). rewrite Hc'.
    destruct (F Hf) as [E _]. rewrite E, Hq, existsb_app, (gen_no_kick _ _ Hp), orb_false_r. reflexivity.
  - rewrite (qgrow_none _ _ _ _ _ Hg Hc). reflexivity.
Qed.

Lemma alive_take : forall w h x, alive (take_queue w h) x = alive w x.
Proof.
  intros. unfold alive, take_queue. rewrite get_client_upd.
  destruct (Nat.eqb x h); [|reflexivity]. destruct (get_client w x); reflexivity.
Qed.

Lemma kick_take_other : forall w h x, x <> h -> kick_queued (take_queue w h) x = kick_queued w x.
Proof. intros. unfold kick_queued. rewrite get_client_take_other by assumption. reflexivity. Qed.

Lemma kick_take_self : forall w h, kick_queued (take_queue w h) h = false.
Proof.
  intros. unfold kick_queued, take_queue. rewrite get_client_upd, Nat.eqb_refl.
  destruct (get_client w h); cbn; [apply andb_false_r | reflexivity].
Qed.

Lemma members_alive : forall w g x, Sinv w -> In x (members w g) -> alive w x = true.
Proof.
  intros w g x HS Hin. destruct (s_valid w HS g x Hin) as (c & Hc). unfold alive. rewrite Hc.
  destruct (c_closed c) eqn:E; [|reflexivity].
  pose proof (s_closed w HS x c Hc E) as Hn. apply (s_memb w HS x c g Hc) in Hin. congruence.
Qed.

Lemma filter_all : forall (A : Type) (f : A -> bool) l, (forall x, In x l -> f x = true) -> filter f l = l.
Proof.
  induction l as [|a l IH]; intros H; [reflexivity|]. cbn [filter]. rewrite (H a (or_introl eq_refl)).
  f_equal. apply IH. intros. apply H. right. assumption.
Qed.

Lemma filter_filter_imp : forall (A : Type) (f g : A -> bool) l,
  (forall x, f x = true -> g x = true) -> filter f (filter g l) = filter f l.
Proof.
  induction l as [|a l IH]; intros H; [reflexivity|]. cbn [filter].
  destruct (g a) eqn:Eg; cbn [filter].
  - destruct (f a); [f_equal|]; apply IH; exact H.
  - destruct (f a) eqn:Ef; [rewrite (H a Ef) in Eg; discriminate | apply IH; exact H].
Qed.

Lemma step_pump_cases2 : forall w h c w' r,
  get_client w h = Some c -> c_closed c = false -> step_pump w h = Running w' r ->
  exists res, run_batch (c_queue c) (take_queue w h) h = Ok res /\
    ((r_err res = ENone /\ w' = r_world res /\ r = RPumped ENone) \/
     (r_err res <> ENone /\ w' = error_close (r_world res) h (r_err res))).
Proof.
  intros w h c w' r Hc Hcl H. destruct (step_pump_cases _ _ _ _ _ Hc Hcl H) as (res & Hb & Hr & Hw).
  exists res. split; [exact Hb|]. subst r.
  destruct (r_err res) eqn:E; [left; auto| | | | |]; right; (split; [congruence | exact Hw]).
Qed.

Lemma all_below_4_list : forall q, forallb (below 4) q = true.
Proof. intros q. apply forallb_forall. intros a _. unfold below. apply Nat.ltb_lt. pose proof (lvl_max a). lia. Qed.

Definition pump_facts (w w1 : world) : Prop :=
  (forall g, members w1 g = filter (alive w1) (members w g)) /\
  (forall x, alive w1 x = true -> alive w x = true) /\
  (forall x, kick_queued w x = true -> kick_queued w1 x = true \/ alive w1 x = false) /\
  (forall x g, In x (members w g) -> kick_queued w x = false ->
     alive w1 x = true /\ kick_queued w1 x = false).

Lemma pump_facts_refl : forall w, Sinv w -> pump_facts w w.
Proof.
  intros w HS. split; [|split; [|split]].
  - intros g. symmetry. apply filter_all. intros x Hx. eapply members_alive; eauto.
  - auto.
  - auto.
  - intros x g Hx Hk. split; [eapply members_alive; eauto | exact Hk].
Qed.

Lemma step_pump_facts : forall w h w1 r,
  Sinv w -> wfq w -> step_pump w h = Running w1 r -> pump_facts w w1.
Proof.
  intros w h w1 r HS Hw H.
  destruct (get_client w h) as [c|] eqn:Hc;
    [|unfold step_pump in H; rewrite Hc in H; inversion H; subst; apply pump_facts_refl; exact HS].
  destruct (c_closed c) eqn:Hcl;
    [unfold step_pump in H; rewrite Hc, Hcl in H; inversion H; subst; apply pump_facts_refl; exact HS|].
  destruct (step_pump_cases2 _ _ _ _ _ Hc Hcl H) as (res & Hb & Hcase).
  destruct (run_batch_grow 3 _ _ _ _ (all_below_4_list _) Hb) as [Hg _].
  pose proof (get_client_take_self _ _ _ Hc) as Hc0.
  assert (Hgr : forall g, members (r_world res) g = members w g).
  { intros g. apply members_groups. destruct Hg as [_ Hgg]. rewrite (Hgg eq_refl). apply groups_upd. }
  assert (Hal : forall x, alive (r_world res) x = alive w x).
  { intros x. rewrite (qgrow_alive _ _ _ _ x Hg eq_refl). apply alive_take. }
  assert (Hko : forall x, x <> h -> kick_queued (r_world res) x = kick_queued w x).
  { intros x Hx. rewrite (qgrow_kick _ _ _ _ x Hg eq_refl). apply kick_take_other. exact Hx. }
  assert (Hkh : kick_queued (r_world res) h = false).
  { rewrite (qgrow_kick _ _ _ _ h Hg eq_refl). apply kick_take_self. }
  destruct (qgrow_client _ _ _ _ _ _ Hg Hc0) as (c2 & Hc2 & [F2 _]). destruct (F2 eq_refl) as [Hcl2 Hg2].
  cbn [c_closed c_group set_queue] in Hcl2, Hg2.
  destruct Hcase as [(Ee & -> & _) | (Ee & ->)].
  - (* the batch succeeds *)
    split; [|split; [|split]].
    + intros g. rewrite Hgr. symmetry. apply filter_all. intros x Hx. rewrite Hal. eapply members_alive; eauto.
    + intros x. rewrite Hal. auto.
    + intros x Hk. left. destruct (Nat.eq_dec x h) as [->|Ne]; [|rewrite Hko; assumption].
      exfalso. unfold kick_queued in Hk. rewrite Hc, Hcl in Hk. cbn in Hk.
      exact (run_batch_kick _ _ _ _ _ Hk Hc0 Hb Ee).
    + intros x g Hx Hk. split; [rewrite Hal; eapply members_alive; eauto|].
      destruct (Nat.eq_dec x h) as [->|Ne]; [exact Hkh | rewrite Hko; assumption].
  - (* the batch fails: the connection ends *)
    set (e := r_err res) in *. set (w2 := r_world res) in *.
    pose proof (error_close_grow (gen 2) w2 h e passes_gen2) as Hg3.
    assert (Hah : alive (error_close w2 h e) h = false).
    { unfold alive. destruct (get_client (error_close w2 h e) h) as [c3|] eqn:Hc3; [|reflexivity].
      rewrite (error_close_closed w2 h e c3); [reflexivity | congruence | exact Hc3]. }
    assert (Hao : forall x, x <> h -> alive (error_close w2 h e) x = alive w x).
    { intros x Hx. rewrite (qgrow_alive _ _ _ _ x Hg3); [apply Hal|]. cbn. apply negb_true_iff, Nat.eqb_neq, Hx. }
    assert (Hko3 : forall x, x <> h -> kick_queued (error_close w2 h e) x = kick_queued w x).
    { intros x Hx. rewrite (qgrow_kick _ _ _ _ x Hg3); [apply Hko, Hx|]. cbn. apply negb_true_iff, Nat.eqb_neq, Hx. }
    split; [|split; [|split]].
    + intros g. rewrite error_close_members, (members_leave_group _ _ _ g Hc2), Hg2.
      assert (Hnot : ~ In h (members w g) -> members w g = filter (alive (error_close w2 h e)) (members w g)).
      { intros Hn. symmetry. apply filter_all. intros x Hx. rewrite Hao; [eapply members_alive; eauto|].
        intros ->. contradiction. }
      destruct (c_group c) as [g0|] eqn:Hgc.
      * destruct (String.eqb g g0) eqn:Egg.
        -- apply eqb_true in Egg. subst g0. rewrite Hgr. apply filter_ext_in. intros x Hx.
           unfold not_h. destruct (Nat.eqb x h) eqn:Exh.
           ++ apply Nat.eqb_eq in Exh. subst x. rewrite Hah. reflexivity.
           ++ apply Nat.eqb_neq in Exh. rewrite Hao by exact Exh. cbn. symmetry. eapply members_alive; eauto.
        -- rewrite Hgr. apply Hnot. intros Hin. apply (s_memb w HS h c g Hc) in Hin.
           rewrite Hgc in Hin. inversion Hin; subst. rewrite String.eqb_refl in Egg. discriminate.
      * rewrite Hgr. apply Hnot. intros Hin. apply (s_memb w HS h c g Hc) in Hin. congruence.
    + intros x Hx. destruct (Nat.eq_dec x h) as [->|Ne]; [congruence|]. rewrite <- Hao; assumption.
    + intros x Hk. destruct (Nat.eq_dec x h) as [->|Ne]; [right; exact Hah | left; rewrite Hko3; assumption].
    + intros x g Hx Hk. destruct (Nat.eq_dec x h) as [->|Ne].
      * exfalso. apply (s_memb w HS h c g Hc) in Hx.
        unfold kick_queued in Hk. rewrite Hc, Hcl in Hk. cbn in Hk.
        destruct (run_batch_fail _ _ _ _ _ (Hw h c Hc) Hc0 Hb Ee) as [Hkk | Hn].
        -- congruence.
        -- cbn in Hn. congruence.
      * split; [rewrite Hao by exact Ne; eapply members_alive; eauto | rewrite Hko3; assumption].
Qed.

Lemma pump_facts_trans : forall w w1 w2, pump_facts w w1 -> pump_facts w1 w2 -> pump_facts w w2.
Proof.
  intros w w1 w2 (A1 & A2 & A3 & A4) (B1 & B2 & B3 & B4). split; [|split; [|split]].
  - intros g. rewrite B1, A1. apply filter_filter_imp. exact B2.
  - auto.
  - intros x Hk. destruct (A3 x Hk) as [Hk1 | Hd].
    + apply B3. exact Hk1.
    + right. destruct (alive w2 x) eqn:E; [|reflexivity]. rewrite (B2 x E) in Hd. discriminate.
  - intros x g Hx Hk. destruct (A4 x g Hx Hk) as [Ha Hk1]. apply (B4 x g); [|exact Hk1].
    rewrite A1. apply filter_In. split; assumption.
Qed.

(* ------------------------------------------------------------------ *)
(* Histories                                                            *)

Lemma pumps_ok : forall l, forallb is_pump l = true -> Forall op_ok l.
Proof.
  induction l as [|o l IH]; intros H; constructor; cbn [forallb] in H; apply andb_prop in H; destruct H as [Ho H].
  - destruct o; try discriminate. exact I.
  - apply IH. exact H.
Qed.

Lemma reachable_app : forall ops w s l w' s',
  Forall op_ok ops -> run_log empty_world no_log ops = Some (w, s) ->
  Forall op_ok l -> run_log w s l = Some (w', s') ->
  Forall op_ok (ops ++ l) /\ run_log empty_world no_log (ops ++ l) = Some (w', s').
Proof.
  intros ops w s l w' s' Hok Hr Hl Hr2. split; [apply Forall_app; auto|].
  rewrite run_log_app, Hr. exact Hr2.
Qed.

Lemma pumps_facts : forall l w s w',
  reachable w s -> forallb is_pump l = true -> run_ops w l = Some w' -> pump_facts w w'.
Proof.
  induction l as [|o l IH]; intros w s w' Hreach Hp H; cbn [run_ops] in H.
  - destruct (reachable_inv _ _ Hreach) as [HS _]. inversion H; subst. apply pump_facts_refl. exact HS.
  - cbn [forallb] in Hp. apply andb_prop in Hp. destruct Hp as [Ho Hp].
    destruct o; try discriminate. destruct (step w (OpPump h)) as [w1 r1|] eqn:Es; [|discriminate].
    assert (Hreach1 : reachable w1 s).
    { destruct Hreach as (ops & Hok & Hr).
      destruct (reachable_app ops w s [OpPump h] w1 s Hok Hr) as [A B].
      - constructor; [exact I | constructor].
      - cbn [run_log]. rewrite Es. reflexivity.
      - exists (ops ++ [OpPump h]). auto. }
    eapply pump_facts_trans; [|eapply IH; eauto].
    cbn [step] in Es. eapply step_pump_facts; [apply (reachable_inv w s Hreach) | eapply reachable_wfq; eauto | exact Es].
Qed.

Lemma quiescent_no_kick : forall w x, quiescent w -> kick_queued w x = false.
Proof.
  intros w x Hq. unfold kick_queued. destruct (get_client w x) as [c|] eqn:Hc; [|reflexivity].
  destruct (c_closed c) eqn:Hcl; [reflexivity|]. rewrite (Hq x c Hc Hcl). reflexivity.
Qed.

(* once the queues have been served to quiescence, the members of every
   group are the former members without those that had a kick queued *)
Lemma pumped_members : forall l w s w',
  reachable w s -> forallb is_pump l = true -> run_ops w l = Some w' -> quiescent w' ->
  forall g, members w' g = filter (fun x => negb (kick_queued w x)) (members w g).
Proof.
  intros l w s w' Hreach Hp H Hq g. destruct (pumps_facts _ _ _ _ Hreach Hp H) as (A1 & _ & A3 & A4).
  rewrite A1. apply filter_ext_in. intros x Hx. destruct (kick_queued w x) eqn:Hk.
  - destruct (A3 x Hk) as [Hk' | Hd]; [|exact Hd]. rewrite (quiescent_no_kick _ x Hq) in Hk'. discriminate.
  - apply (A4 x g Hx Hk).
Qed.

(* the total length of the live queues *)
Definition total_queue (w : world) : nat :=
  fold_right (fun c n => (if c_closed c then 0 else List.length (c_queue c)) + n) 0 (w_clients w).

Theorem quiescence_reachable : forall ops w s,
  Forall op_ok ops -> run_log empty_world no_log ops = Some (w, s) ->
  exists pumps w',
    forallb is_pump pumps = true /\
    run_log empty_world no_log (ops ++ pumps) = Some (w', s) /\
    quiescent w' /\
    (forall g, members w' g = filter (fun x => negb (kick_queued w x)) (members w g)) /\
    ((forall x, kick_queued w x = false) -> forall g, members w' g = members w g).
Proof.
  intros ops w s Hok Hr. destruct (pumps_reach_quiescence w) as (l & w' & Hp & Hrun & Hq).
  exists l, w'. split; [exact Hp|]. split.
  { apply (reachable_app ops w s l w' s Hok Hr (pumps_ok _ Hp)). apply run_log_pumps; assumption. }
  split; [exact Hq|].
  assert (Hm : forall g, members w' g = filter (fun x => negb (kick_queued w x)) (members w g)).
  { apply (pumped_members l w s w'); auto. exists ops. split; assumption. }
  split; [exact Hm|]. intros Hnk g. rewrite Hm. apply filter_all. intros x _. rewrite Hnk. reflexivity.
Qed.

(* the same with the model's own scheduler operation: OpQuiesce never runs
   out of its fuel *)
Theorem quiescence_by_op_quiesce : forall ops w s,
  Forall op_ok ops -> run_log empty_world no_log ops = Some (w, s) ->
  exists w',
    run_log empty_world no_log (ops ++ [OpQuiesce]) = Some (w', s) /\
    quiescent w' /\
    (forall g, members w' g = filter (fun x => negb (kick_queued w x)) (members w g)).
Proof.
  intros ops w s Hok Hr. destruct (quiesce_reaches 1000 w ltac:(lia)) as (w' & E & Hq).
  exists w'. split.
  { rewrite run_log_app, Hr. cbn [run_log step]. rewrite E. reflexivity. }
  split; [exact Hq|].
  destruct (quiesce_ops _ _ _ E) as (l & Hp & Hrun).
  apply (pumped_members l w s w'); auto. exists ops. split; assumption.
Qed.

(* every reachable world has a continuation by deliveries only after which
   every member's folded user list is the true membership *)
Theorem eventual_convergence : forall ops w s,
  Forall op_ok ops -> run_log empty_world no_log ops = Some (w, s) ->
  exists pumps w',
    forallb is_pump pumps = true /\
    run_log empty_world no_log (ops ++ pumps) = Some (w', s) /\
    quiescent w' /\
    (forall g, members w' g = filter (fun x => negb (kick_queued w x)) (members w g)) /\
    forall g h, In h (members w' g) ->
      Permutation (fold_user_events (received w' s h)) (true_list w' g) /\
      forall id, view_lookup id (fold_user_events (received w' s h)) = truth w' g id.
Proof.
  intros ops w s Hok Hr.
  destruct (quiescence_reachable ops w s Hok Hr) as (l & w' & Hp & Hrun & Hq & Hm & _).
  exists l, w'. split; [exact Hp|]. split; [exact Hrun|]. split; [exact Hq|]. split; [exact Hm|].
  assert (Hreach : reachable w' s).
  { exists (ops ++ l). split; [apply Forall_app; split; [exact Hok | apply pumps_ok; exact Hp] | exact Hrun]. }
  intros g h Hin. split.
  - apply convergence_list; assumption.
  - apply convergence; assumption.
Qed.

(* ------------------------------------------------------------------ *)
(* A concrete NON-quiescent world: three members of g and one of        *)
(* `other` have joined and nothing has been served yet; the operator    *)
(* has made idb a presenter (a level-3 action in idb's queue) and has   *)
(* kicked idc (a kick in idc's queue).                                  *)

Definition ex_kick (dest : str) : msg :=
  mkMsg "useraction" "kick" "" "" "" dest None "" "" "" VNone false SdpBad "" RNone false [].

Definition nq_ops : list op :=
  [ OpMkGroup "g" ex_desc; OpMkGroup "other" ex_desc;
    OpClient "ida"; OpClient "idb"; OpClient "idc"; OpClient "idd";
    OpMsg 0 (ex_join "g" "oper" "pwo");
    OpMsg 1 (ex_join "g" "ann" "pwa");
    OpMsg 2 (ex_join "g" "bob" "pwb");
    OpMsg 3 (ex_join "other" "bob" "pwb");
    OpMsg 0 (ex_useraction "present" "idb");
    OpMsg 0 (ex_kick "idc") ].

Lemma nq_ops_ok : Forall op_ok nq_ops.
Proof. repeat constructor; discriminate. Qed.

(* three rounds over the four connections *)
Definition nq_pumps : list op :=
  [ OpPump 0; OpPump 1; OpPump 2; OpPump 3;
    OpPump 0; OpPump 1; OpPump 2; OpPump 3;
    OpPump 0; OpPump 1; OpPump 2; OpPump 3 ].

(* The total length of the live queues is NOT a decreasing measure: in the
   world reached by [nq_ops ++ [OpPump 1]] client 1 has one queued action
   (the announcement of its permission change); serving it queues a
   `change` event on each of the three members: 12 queued actions become 14. *)
Lemma total_queue_can_grow :
  exists w w' r, run_ops empty_world (nq_ops ++ [OpPump 1]) = Some w /\
    step w (OpPump 1) = Running w' r /\
    total_queue w = 12 /\ total_queue w' = 14.
Proof.
  destruct (run_ops empty_world (nq_ops ++ [OpPump 1])) as [w|] eqn:E; [|vm_compute in E; discriminate].
  destruct (step w (OpPump 1)) as [w' r|] eqn:E2.
  - exists w, w', r. split; [reflexivity|]. split; [exact E2|].
    vm_compute in E. inversion E; subst w. clear E.
    vm_compute in E2. inversion E2; subst w' r. clear E2. vm_compute. split; reflexivity.
  - exfalso. vm_compute in E. inversion E; subst w. vm_compute in E2. discriminate.
Qed.

(* C06, part 1: the 32-bit loss bitmap (bitmap.set / bitmap.get of
   packetcache.go, model bm_set / bm_get of Model/Cache.v).

   Ghost reading of a bitmap: an unwrapped position F of [first] and the list
   S of unwrapped positions stored since the window was last re-based.
   Invariant BInv: bit i of the word (0 <= i < 32) is set iff F+i is in S, and
   everything in S is below F+32.  bm_set keeps it (moving F forward only),
   bm_get keeps it and reports exactly the positions F+k, k < count, that are
   not in S. *)
From Coq Require Import ZArith List Bool Lia.
From Coq Require Import ZifyBool.
From Galene Require Import Lib.Word Model.Cache Model.Loss.
Import ListNotations.
Open Scope Z_scope.
Ltac Zify.zify_post_hook ::= Z.div_mod_to_equations.

(* ---------- bit facts ---------- *)
Lemma testbit_high x n m : 0 <= x < 2 ^ n -> 0 <= n <= m -> Z.testbit x m = false.
Proof.
  intros Hx Hn. destruct (Z.eq_dec x 0) as [->|Hx0]; [apply Z.bits_0|].
  apply Z.bits_above_log2; [lia|].
  assert (Z.log2 x < n) by (apply Z.log2_lt_pow2; lia). lia.
Qed.

Lemma testbit_true_lt x n k : 0 <= x < 2 ^ n -> 0 <= n -> 0 <= k -> Z.testbit x k = true -> k < n.
Proof.
  intros Hx Hn Hk Hb. destruct (Z_lt_ge_dec k n) as [|Hge]; [assumption|].
  rewrite (testbit_high x n k) in Hb by lia. discriminate.
Qed.

Lemma testbit_div x k i : 0 <= k -> 0 <= i -> Z.testbit (x / 2 ^ k) i = Z.testbit x (i + k).
Proof. intros. apply Z.div_pow2_bits; assumption. Qed.

Lemma div_pow2_range x n k : 0 <= x < 2 ^ n -> 0 <= k -> 0 <= x / 2 ^ k < 2 ^ n.
Proof.
  intros Hx Hk. assert (0 < 2 ^ k) by (apply Z.pow_pos_nonneg; lia).
  split; [apply Z.div_pos; lia|].
  apply Z.le_lt_trans with x; [|lia]. apply Z.div_le_upper_bound; nia.
Qed.

Lemma lor_nonneg' a b : 0 <= a -> 0 <= b -> 0 <= Z.lor a b.
Proof. intros. apply Z.lor_nonneg. split; assumption. Qed.

Lemma log2_lt x n : 0 <= x < 2 ^ n -> 0 < n -> Z.log2 x < n.
Proof.
  intros Hx Hn. destruct (Z.eq_dec x 0) as [->|H0]; [cbn; lia|].
  apply Z.log2_lt_pow2; lia.
Qed.

Lemma lor_range a b n : 0 <= n -> 0 <= a < 2 ^ n -> 0 <= b < 2 ^ n -> 0 <= Z.lor a b < 2 ^ n.
Proof.
  intros Hn Ha Hb. assert (Hnn : 0 <= Z.lor a b) by (apply lor_nonneg'; lia).
  split; [exact Hnn|].
  destruct (Z.eq_dec n 0) as [->|Hn0].
  - assert (a = 0) by (cbn in Ha; lia). assert (b = 0) by (cbn in Hb; lia). subst. cbn. lia.
  - destruct (Z.eq_dec (Z.lor a b) 0) as [->|Hne]; [apply Z.pow_pos_nonneg; lia|].
    apply Z.log2_lt_pow2; [lia|].
    rewrite Z.log2_lor by lia.
    pose proof (log2_lt a n Ha ltac:(lia)). pose proof (log2_lt b n Hb ltac:(lia)). lia.
Qed.

(* complement inside n bits *)
Lemma testbit_compl x n k : 0 <= k < n ->
  Z.testbit (2 ^ n - 1 - x) k = negb (Z.testbit x k).
Proof.
  intros Hk.
  rewrite <- (Z.mod_pow2_bits_low (2 ^ n - 1 - x) n k) by lia.
  replace (2 ^ n - 1 - x) with (Z.lnot x + 1 * 2 ^ n) by (unfold Z.lnot; lia).
  rewrite Z.mod_add by (apply Z.pow_nonzero; lia).
  rewrite Z.mod_pow2_bits_low by lia. apply Z.lnot_spec; lia.
Qed.

Lemma odd_testbit0 x : Z.odd x = Z.testbit x 0.
Proof. symmetry; apply Z.bit0_odd. Qed.

(* ---------- trailing ones / zeros ---------- *)
Lemma trailing_ones_spec fuel : forall x,
  let n := trailing_ones fuel x in
  0 <= n <= Z.of_nat fuel /\
  (forall i, 0 <= i < n -> Z.testbit x i = true) /\
  (n < Z.of_nat fuel -> Z.testbit x n = false).
Proof.
  induction fuel as [|f IH]; intros x; cbn [trailing_ones].
  - cbn. split; [lia|]. split; intros; lia.
  - destruct (Z.odd x) eqn:Eo.
    + specialize (IH (x / 2)). cbv zeta in IH. destruct IH as (Hr & Hlow & Hstop).
      set (m := trailing_ones f (x / 2)) in *.
      split; [lia|]. split.
      * intros i Hi. destruct (Z.eq_dec i 0) as [->|Hne]; [rewrite <- odd_testbit0; exact Eo|].
        replace i with (Z.succ (i - 1)) by lia. rewrite <- Z.div2_bits by lia. apply Hlow; lia.
      * intros Hlt. replace (1 + m) with (Z.succ m) by lia.
        rewrite <- Z.div2_bits by lia. apply Hstop; lia.
    + split; [lia|]. split; [intros; lia|]. intros _. rewrite <- odd_testbit0. exact Eo.
Qed.

Lemma trailing_zeros_spec fuel : forall x, 0 < x < 2 ^ Z.of_nat fuel ->
  let n := trailing_zeros fuel x in
  0 <= n < Z.of_nat fuel /\ Z.testbit x n = true /\
  (forall i, 0 <= i < n -> Z.testbit x i = false).
Proof.
  induction fuel as [|f IH]; intros x Hx; cbn [trailing_zeros].
  - cbn in Hx. lia.
  - destruct (Z.odd x) eqn:Eo.
    + split; [lia|]. split; [rewrite <- odd_testbit0; exact Eo|intros; lia].
    + assert (Hev : x = 2 * (x / 2)).
      { pose proof (Z.div_mod x 2). rewrite Zmod_odd, Eo in H. lia. }
      assert (Hx2 : 0 < x / 2 < 2 ^ Z.of_nat f).
      { rewrite Nat2Z.inj_succ, Z.pow_succ_r in Hx by lia. lia. }
      specialize (IH (x / 2) Hx2). cbv zeta in IH. destruct IH as (Hr & Hset & Hlow).
      set (m := trailing_zeros f (x / 2)) in *.
      split; [lia|]. split.
      * replace (1 + m) with (Z.succ m) by lia.
        rewrite <- Z.div2_bits by lia. exact Hset.
      * intros i Hi. destruct (Z.eq_dec i 0) as [->|Hne]; [rewrite <- odd_testbit0; exact Eo|].
        replace i with (Z.succ (i - 1)) by lia. rewrite <- Z.div2_bits by lia. apply Hlow; lia.
Qed.

(* ---------- the ghost reading ---------- *)
(* signed distance of s from first: -32768 .. 32767 *)
Definition sdelta (s first : Z) : Z :=
  let d := w16 (s - first) in if d <? 32768 then d else d - 65536.

(* the window is re-based by Store(s) *)
Definition rebases (b : bitmap) (s : Z) : bool :=
  negb (bm_valid b) || seqno_invalid s (bm_first b).

Record BInv (b : bitmap) (F : Z) (S : list Z) : Prop := mkBInv {
  bi_first : bm_first b = w16 F;
  bi_range : 0 <= bm_bits b < 2 ^ 32;
  bi_bits : forall i, 0 <= i < 32 -> (Z.testbit (bm_bits b) i = true <-> In (F + i) S);
  bi_top : forall U, In U S -> U < F + 32 }.

Lemma BInv_init : BInv (mkBitmap false 0 0) 0 [].
Proof.
  constructor; cbn [bm_first bm_bits].
  - reflexivity.
  - lia.
  - intros i _. rewrite Z.bits_0. cbn. split; [discriminate|tauto].
  - cbn. tauto.
Qed.

Lemma sdelta_w16 F s : is16 s -> w16 (F + sdelta s (w16 F)) = s.
Proof. unfold sdelta, is16, w16. intros H. destruct (_ <? _); lia. Qed.

Lemma seqno_invalid_false s first : is16 s -> is16 first ->
  seqno_invalid s first = false ->
  w16 (s - first) < 32768 \/ 65536 - 256 <= w16 (s - first).
Proof.
  unfold seqno_invalid, cmp16, is16, w16. intros Hs Hf.
  destruct (first =? s) eqn:E; [lia|].
  destruct (32768 <=? (s - first) mod 65536) eqn:E2; cbn; lia.
Qed.

Lemma bm_set_rebase b s : rebases b s = true -> bm_set b s = mkBitmap true s 1.
Proof. unfold rebases, bm_set. intros ->. reflexivity. Qed.

Lemma BInv_rebase s : is16 s -> BInv (mkBitmap true s 1) s [s].
Proof.
  intros Hs. constructor; cbn [bm_first bm_bits].
  - symmetry. apply w16_small. exact Hs.
  - lia.
  - intros i Hi. cbn [In]. change 1 with (2 ^ 0). rewrite Z.pow2_bits_eqb by lia.
    split; intros H; [left|]; lia.
  - intros U [<-|[]]. lia.
Qed.

(* ---------- the window word against (F, S) ---------- *)
Definition WInv (bits F : Z) (S : list Z) : Prop :=
  0 <= bits < 2 ^ 32 /\
  (forall i, 0 <= i < 32 -> (Z.testbit bits i = true <-> In (F + i) S)) /\
  (forall U, In U S -> U < F + 32).

Lemma BInv_W b F S : BInv b F S -> WInv (bm_bits b) F S.
Proof. intros [H1 H2 H3 H4]. split; [exact H2|]. split; [exact H3|exact H4]. Qed.

Lemma W_BInv v first bits F S : first = w16 F -> WInv bits F S -> BInv (mkBitmap v first bits) F S.
Proof. intros Hf (Hr & Hb & Ht). constructor; cbn [bm_first bm_bits]; assumption. Qed.

Lemma WInv_shift bits F S k : WInv bits F S -> 0 <= k -> WInv (shr32 bits k) (F + k) S.
Proof.
  intros (Hr & Hb & Ht) Hk. unfold shr32. destruct (k <? 32) eqn:Ek.
  - split; [apply div_pow2_range; lia|]. split.
    + intros i Hi. rewrite testbit_div by lia. split.
      * intros Hbit.
        assert (i + k < 32) by (eapply testbit_true_lt; [exact Hr|lia|lia|exact Hbit]).
        replace (F + k + i) with (F + (i + k)) by lia. apply Hb; [lia|exact Hbit].
      * intros Hin.
        assert (F + k + i < F + 32) by (apply Ht; exact Hin).
        apply Hb; [lia|]. replace (F + (i + k)) with (F + k + i) by lia. exact Hin.
    + intros U HU. specialize (Ht U HU). lia.
  - split; [lia|]. split.
    + intros i Hi. rewrite Z.bits_0. split; [discriminate|].
      intros Hin. specialize (Ht _ Hin). lia.
    + intros U HU. specialize (Ht U HU). lia.
Qed.

Lemma WInv_add bits F S U : WInv bits F S -> U < F -> WInv bits F (U :: S).
Proof.
  intros (Hr & Hb & Ht) HU. split; [exact Hr|]. split.
  - intros i Hi. split.
    + intros Hbit. right. apply Hb; assumption.
    + intros [Heq|Hin]; [lia|]. apply Hb; assumption.
  - intros V [<-|HV]; [lia|apply Ht; exact HV].
Qed.

Lemma WInv_setbit bits F S d : WInv bits F S -> 0 <= d < 32 ->
  WInv (Z.lor bits (2 ^ d)) F ((F + d) :: S).
Proof.
  intros (Hr & Hb & Ht) Hd.
  assert (Hp : 0 <= 2 ^ d < 2 ^ 32).
  { split; [apply Z.pow_nonneg; lia|apply Z.pow_lt_mono_r; lia]. }
  split; [apply lor_range; lia|]. split.
  - intros i Hi. rewrite Z.lor_spec, Z.pow2_bits_eqb by lia. split.
    + intros Hbit. apply orb_true_iff in Hbit. destruct Hbit as [Hbit|Heq].
      * right. apply Hb; assumption.
      * left. assert (d = i) by lia. subst; reflexivity.
    + intros [Heq|Hin].
      * assert (d = i) by lia. subst. rewrite Z.eqb_refl. apply orb_true_r.
      * apply orb_true_iff. left. apply Hb; assumption.
  - intros V [<-|HV]; [lia|apply Ht; exact HV].
Qed.

Lemma shl32_one k : 0 <= k < 32 -> shl32 1 k = 2 ^ k.
Proof.
  intros Hk. unfold shl32. destruct (k <? 32) eqn:E; [|lia].
  rewrite Z.mul_1_l. unfold w32. apply Z.mod_small.
  split; [apply Z.pow_nonneg; lia|].
  change 4294967296 with (2 ^ 32). apply Z.pow_lt_mono_r; lia.
Qed.
Lemma shl32_big k : 32 <= k -> shl32 1 k = 0.
Proof. intros Hk. unfold shl32. destruct (k <? 32) eqn:E; [lia|reflexivity]. Qed.

Lemma cmp16_pos_iff a b : is16 a -> is16 b -> (0 <? cmp16 a b) = (32768 <=? w16 (b - a)).
Proof.
  unfold cmp16, is16, w16. intros Ha Hb. destruct (a =? b) eqn:E.
  - assert (a = b) by lia. subst. rewrite Z.sub_diag. reflexivity.
  - destruct (32768 <=? (b - a) mod 65536); reflexivity.
Qed.
Lemma cmp16_nonneg_iff a b : is16 a -> is16 b ->
  (0 <=? cmp16 a b) = ((a =? b) || (32768 <=? w16 (b - a))).
Proof.
  unfold cmp16, is16, w16. intros Ha Hb. destruct (a =? b) eqn:E; [reflexivity|].
  destruct (32768 <=? (b - a) mod 65536); reflexivity.
Qed.

(* the last two statements of bitmap.set *)
Lemma set_tail first1 bits1 F1 S U s :
  WInv bits1 F1 S -> first1 = w16 F1 -> s = w16 U -> 0 <= U - F1 <= 31 ->
  let '(first2, bits2) :=
    if Z.odd bits1
    then let ones := trailing_ones 32 bits1 in (w16 (first1 + ones), shr32 bits1 ones)
    else (first1, bits1) in
  exists k2, 0 <= k2 <= 32 /\ first2 = w16 (F1 + k2) /\
    WInv (Z.lor bits2 (shl32 1 (w16 (s - first2)))) (F1 + k2) (U :: S).
Proof.
  intros HW Hf Hs Hd. destruct (Z.odd bits1) eqn:Eo.
  - cbv zeta. pose proof (trailing_ones_spec 32 bits1) as Ht. cbv zeta in Ht.
    set (ones := trailing_ones 32 bits1) in *. destruct Ht as (Hr & Hlow & Hstop).
    change (Z.of_nat 32) with 32 in *.
    assert (H1 : 1 <= ones).
    { destruct (Z_lt_ge_dec ones 1); [|lia]. assert (ones = 0) by lia.
      rewrite H in Hstop. rewrite <- odd_testbit0, Eo in Hstop.
      specialize (Hstop ltac:(lia)). discriminate. }
    exists ones. split; [lia|]. split; [subst first1; apply w16_add_l|].
    pose proof (WInv_shift _ _ _ ones HW ltac:(lia)) as HW2.
    destruct (Z_lt_ge_dec (U - F1) ones) as [Hlt|Hge].
    + assert (HinU : In U S).
      { destruct HW as (_ & Hb & _). replace U with (F1 + (U - F1)) by lia.
        apply Hb; [lia|]. apply Hlow; lia. }
      rewrite shl32_big; [rewrite Z.lor_0_r; apply WInv_add; [exact HW2|lia]|].
      subst first1 s. unfold w16. lia.
    + replace (w16 (s - w16 (first1 + ones))) with (U - F1 - ones)
        by (subst first1 s; unfold w16; lia).
      rewrite shl32_one by lia.
      replace U with (F1 + ones + (U - F1 - ones)) at 2 by lia.
      apply WInv_setbit; [exact HW2|lia].
  - exists 0. split; [lia|]. split; [rewrite Z.add_0_r; exact Hf|].
    replace (w16 (s - first1)) with (U - F1) by (subst first1 s; unfold w16; lia).
    rewrite shl32_one by lia. rewrite Z.add_0_r.
    replace U with (F1 + (U - F1)) at 2 by lia.
    apply WInv_setbit; [exact HW|lia].
Qed.

(* ---------- bitmap.set ---------- *)
Lemma BInv_is16_first b F S : BInv b F S -> is16 (bm_first b).
Proof. intros H. rewrite (bi_first _ _ _ H). apply w16_range. Qed.

(* Store(s) without a re-base: the ghost position of s is F + sdelta, the
   window moves forward by w16 (first' - first) >= 0, the invariant holds *)
Lemma bm_set_norebase b F S s :
  BInv b F S -> is16 s -> rebases b s = false ->
  let b' := bm_set b s in
  let adv := w16 (bm_first b' - bm_first b) in
  BInv b' (F + adv) ((F + sdelta s (bm_first b)) :: S) /\ bm_valid b' = true /\
  -256 <= sdelta s (bm_first b) /\ adv <= Z.max 0 (sdelta s (bm_first b)) + 32.
Proof.
  intros HB Hs Hnr. pose proof (BInv_is16_first _ _ _ HB) as Hf16.
  pose proof (BInv_W _ _ _ HB) as HW. pose proof (bi_first _ _ _ HB) as Hf.
  unfold rebases in Hnr. apply orb_false_iff in Hnr. destruct Hnr as [Hv Hinv].
  apply negb_false_iff in Hv.
  pose proof (seqno_invalid_false _ _ Hs Hf16 Hinv) as Hd.
  cbv zeta. unfold bm_set. rewrite Hv, Hinv. cbn [negb orb].
  rewrite cmp16_pos_iff by assumption.
  set (first := bm_first b) in *. set (d := w16 (s - first)) in *.
  assert (Hdr : 0 <= d < 65536) by (unfold d; apply w16_range).
  destruct (32768 <=? d) eqn:Ebehind.
  - (* behind by at most 256: nothing changes *)
    assert (Esd : sdelta s first = d - 65536).
    { unfold sdelta. fold d. destruct (d <? 32768) eqn:E; lia. }
    rewrite Esd. change (bm_first b) with first. rewrite Z.sub_diag. change (w16 0) with 0.
    rewrite Z.add_0_r. split; [|split; [exact Hv|lia]].
    destruct b as [v f bits]; cbn [bm_first bm_bits] in *.
    apply W_BInv; [exact Hf|]. apply WInv_add; [exact HW|lia].
  - assert (Esd : sdelta s first = d).
    { unfold sdelta. fold d. destruct (d <? 32768) eqn:E; lia. }
    rewrite Esd.
    assert (HsU : s = w16 (F + d)).
    { unfold d. rewrite Hf. unfold is16, w16 in *. lia. }
    (* first statement: shift the window so that s is at most 31 ahead *)
    assert (Hstage1 : exists k1, 0 <= k1 /\ k1 <= Z.max 0 (d - 31) /\ 0 <= d - k1 <= 31 /\
       (if 32 <=? d
        then (w16 (first + w16 (d - 31)), shr32 (bm_bits b) (w16 (d - 31)))
        else (first, bm_bits b)) = (w16 (F + k1), shr32 (bm_bits b) k1)).
    { destruct (32 <=? d) eqn:E32.
      - exists (d - 31).
        replace (w16 (d - 31)) with (d - 31) by (unfold w16; lia).
        repeat split; try lia. f_equal. rewrite Hf. apply w16_add_l.
      - exists 0. repeat split; try lia. f_equal.
        + rewrite Z.add_0_r. exact Hf.
        + unfold shr32. cbn. rewrite Z.div_1_r. reflexivity. }
    destruct Hstage1 as (k1 & Hk1 & Hk1u & Hdk & ->).
    pose proof (WInv_shift _ _ _ k1 HW Hk1) as HW1.
    pose proof (set_tail (w16 (F + k1)) (shr32 (bm_bits b) k1) (F + k1) S (F + d) s
                         HW1 eq_refl HsU ltac:(lia)) as Ht.
    destruct (if Z.odd (shr32 (bm_bits b) k1)
              then (w16 (w16 (F + k1) + trailing_ones 32 (shr32 (bm_bits b) k1)),
                    shr32 (shr32 (bm_bits b) k1) (trailing_ones 32 (shr32 (bm_bits b) k1)))
              else (w16 (F + k1), shr32 (bm_bits b) k1)) as [first2 bits2].
    destruct Ht as (k2 & Hk2 & Hf2 & HW2).
    cbn [bm_first bm_valid].
    assert (Eadv : w16 (first2 - first) = k1 + k2).
    { rewrite Hf2, Hf. unfold w16. lia. }
    rewrite Eadv. split; [|split; [reflexivity|lia]].
    apply W_BInv; [rewrite Hf2; f_equal; lia|].
    replace (F + (k1 + k2)) with (F + k1 + k2) by lia. exact HW2.
Qed.

(* ---------- bitmap.get ---------- *)
(* number of positions shifted out by get(next) *)
Definition get_count (b : bitmap) (next : Z) : Z :=
  if 0 <=? cmp16 (bm_first b) next then 0
  else Z.min 17 (w16 (next - bm_first b)).

Lemma in_nums f m n :
  In n (nums f m) <->
  n = f \/ exists i, 0 <= i < 16 /\ Z.testbit m i = true /\ n = w16 (f + 1 + i).
Proof.
  unfold nums. cbn [In]. rewrite in_map_iff. split.
  - intros [H|(i & Hn & Hi)]; [left; auto|right].
    apply filter_In in Hi. destruct Hi as [Hi Hb]. exists i.
    split; [unfold blp_indices in Hi; cbn in Hi; lia|]. split; [exact Hb|auto].
  - intros [H|(i & Hi & Hb & Hn)]; [left; auto|right].
    exists i. split; [auto|]. apply filter_In. split; [|exact Hb].
    unfold blp_indices. cbn.
    assert (i = 0 \/ i = 1 \/ i = 2 \/ i = 3 \/ i = 4 \/ i = 5 \/ i = 6 \/ i = 7 \/ i = 8 \/
            i = 9 \/ i = 10 \/ i = 11 \/ i = 12 \/ i = 13 \/ i = 14 \/ i = 15) by lia.
    intuition auto.
Qed.

(* the NACK pair built from the 17-bit word bm of missing positions *)
Lemma get_result_nums first bm : is16 first -> 0 < bm < 2 ^ 17 ->
  let '(bm1, first1) :=
    if Z.odd bm then (bm, first)
    else let c := trailing_zeros 32 bm in (bm / 2 ^ c, w16 (first + c)) in
  forall n, In n (nums first1 (w16 (bm1 / 2))) <->
            exists k, 0 <= k < 17 /\ Z.testbit bm k = true /\ n = w16 (first + k).
Proof.
  intros Hf Hbm.
  assert (Hc : exists c, 0 <= c < 17 /\ Z.testbit bm c = true /\
             (forall i, 0 <= i < c -> Z.testbit bm i = false) /\
             (if Z.odd bm then (bm, first)
              else let c := trailing_zeros 32 bm in (bm / 2 ^ c, w16 (first + c)))
             = (bm / 2 ^ c, w16 (first + c))).
  { destruct (Z.odd bm) eqn:Eo.
    - exists 0. split; [lia|]. split; [rewrite <- odd_testbit0; exact Eo|].
      split; [intros; lia|]. rewrite Z.div_1_r, Z.add_0_r, w16_small by exact Hf. reflexivity.
    - assert (Hbm32 : 0 < bm < 2 ^ Z.of_nat 32).
      { change (Z.of_nat 32) with 32. assert (2 ^ 17 < 2 ^ 32) by (apply Z.pow_lt_mono_r; lia). lia. }
      pose proof (trailing_zeros_spec 32 bm Hbm32) as Ht. cbv zeta in Ht.
      destruct Ht as (Hr & Hset & Hlow). exists (trailing_zeros 32 bm).
      split; [split; [lia|eapply testbit_true_lt; [| | |exact Hset]; lia]|].
      split; [exact Hset|]. split; [exact Hlow|reflexivity]. }
  destruct Hc as (c & Hcr & Hset & Hlow & ->).
  set (bm1 := bm / 2 ^ c).
  assert (Hbm1 : 0 <= bm1 < 2 ^ 17) by (unfold bm1; apply div_pow2_range; lia).
  assert (Hm : w16 (bm1 / 2) = bm1 / 2).
  { apply w16_small. change (2 ^ 17) with 131072 in Hbm1. unfold is16 in *. lia. }
  rewrite Hm. intros n. rewrite in_nums. split.
  - intros [->|(i & Hi & Hb & ->)].
    + exists c. auto.
    + exists (c + 1 + i).
      assert (Hb' : Z.testbit bm (c + 1 + i) = true).
      { change (bm1 / 2) with (bm1 / 2 ^ 1) in Hb. rewrite testbit_div in Hb by lia.
        unfold bm1 in Hb. rewrite testbit_div in Hb by lia.
        replace (c + 1 + i) with (i + 1 + c) by lia. exact Hb. }
      split; [split; [lia|eapply testbit_true_lt; [| | |exact Hb']; lia]|].
      split; [exact Hb'|]. unfold w16. lia.
  - intros (k & Hk & Hb & ->).
    assert (c <= k).
    { destruct (Z_lt_ge_dec k c) as [Hlt|]; [|lia]. rewrite Hlow in Hb by lia. discriminate. }
    destruct (Z.eq_dec k c) as [->|Hne]; [left; reflexivity|right].
    exists (k - c - 1). split; [lia|]. split.
    + change (bm1 / 2) with (bm1 / 2 ^ 1). rewrite testbit_div by lia.
      unfold bm1. rewrite testbit_div by lia.
      replace (k - c - 1 + 1 + c) with k by lia. exact Hb.
    + unfold w16. lia.
Qed.

Lemma bm_get_spec b F S next :
  BInv b F S -> is16 next ->
  let count := get_count b next in
  let '((found, f, m), b') := bm_get b next in
  BInv b' (F + count) S /\ bm_valid b' = bm_valid b /\
  bm_first b' = w16 (bm_first b + count) /\
  0 <= count <= 17 /\
  (0 < count -> count <= w16 (next - bm_first b) < 32768) /\
  (found = false -> forall k, 0 <= k < count -> In (F + k) S) /\
  (found = true -> forall n, In n (nums f m) <->
      exists k, 0 <= k < count /\ ~ In (F + k) S /\ n = w16 (F + k)).
Proof.
  intros HB Hn. pose proof (BInv_is16_first _ _ _ HB) as Hf16.
  pose proof (BInv_W _ _ _ HB) as HW. pose proof (bi_first _ _ _ HB) as Hf.
  cbv zeta. unfold get_count, bm_get. rewrite cmp16_nonneg_iff by assumption.
  set (first := bm_first b) in *. set (c0 := w16 (next - first)).
  assert (Hc0 : 0 <= c0 < 65536) by (unfold c0; apply w16_range).
  destruct ((first =? next) || (32768 <=? c0)) eqn:Ecmp.
  - rewrite Z.add_0_r.
    split; [exact HB|]. split; [reflexivity|].
    split; [fold first; rewrite Z.add_0_r; symmetry; apply w16_small; exact Hf16|].
    split; [lia|]. split; [lia|]. split; [intros; lia|discriminate].
  - apply orb_false_iff in Ecmp. destruct Ecmp as [Ene Elt].
    assert (Hc0' : 1 <= c0 < 32768).
    { unfold c0, w16, is16 in *. lia. }
    set (count := if 17 <? c0 then 17 else c0).
    assert (Ecount : Z.min 17 c0 = count) by (unfold count; destruct (17 <? c0) eqn:E; lia).
    rewrite Ecount.
    assert (Hcount : 1 <= count <= 17) by lia.
    set (bm := 2 ^ count - 1 - bm_bits b mod 2 ^ count).
    assert (Hpc : 0 < 2 ^ count) by (apply Z.pow_pos_nonneg; lia).
    assert (Hbm : 0 <= bm < 2 ^ count).
    { unfold bm. pose proof (Z.mod_pos_bound (bm_bits b) (2 ^ count) Hpc). lia. }
    assert (Hbmbits : forall k, 0 <= k < count ->
              Z.testbit bm k = negb (Z.testbit (bm_bits b) k)).
    { intros k Hk. unfold bm. rewrite testbit_compl by lia.
      rewrite Z.mod_pow2_bits_low by lia. reflexivity. }
    assert (Hmiss : forall k, 0 <= k < count -> (Z.testbit bm k = true <-> ~ In (F + k) S)).
    { intros k Hk. rewrite Hbmbits by exact Hk. destruct HW as (_ & Hb & _).
      specialize (Hb k ltac:(lia)). destruct (Z.testbit (bm_bits b) k); cbn.
      - split; [discriminate|]. intros Hnot. exfalso. apply Hnot. apply Hb. reflexivity.
      - split; [|reflexivity]. intros _ Hin. apply Hb in Hin. discriminate. }
    assert (HB' : BInv (mkBitmap (bm_valid b) (w16 (first + count)) (bm_bits b / 2 ^ count))
                       (F + count) S).
    { apply W_BInv; [rewrite Hf; apply w16_add_l|].
      pose proof (WInv_shift _ _ _ count HW ltac:(lia)) as H. unfold shr32 in H.
      destruct (count <? 32) eqn:E; [exact H|lia]. }
    assert (Hp17 : 2 ^ count <= 2 ^ 17) by (apply Z.pow_le_mono_r; lia).
    destruct (bm =? 0) eqn:Ez.
    + split; [exact HB'|]. split; [reflexivity|]. split; [reflexivity|].
      split; [lia|]. split; [intros _; fold c0; lia|]. split; [|discriminate].
      intros _ k Hk. assert (bm = 0) by lia.
      destruct (in_dec Z.eq_dec (F + k) S) as [Hin|Hnin]; [exact Hin|].
      apply Hmiss in Hnin; [|exact Hk]. rewrite H, Z.bits_0 in Hnin. discriminate.
    + pose proof (get_result_nums first bm Hf16 ltac:(lia)) as Hnums.
      destruct (if Z.odd bm then (bm, first)
                else let c := trailing_zeros 32 bm in (bm / 2 ^ c, w16 (first + c)))
        as [bm1 first1].
      split; [exact HB'|]. split; [reflexivity|]. split; [reflexivity|].
      split; [lia|]. split; [intros _; fold c0; lia|]. split; [discriminate|].
      intros _ n. rewrite Hnums. split.
      * intros (k & Hk & Hbit & ->).
        assert (k < count) by (eapply testbit_true_lt; [exact Hbm| | |exact Hbit]; lia).
        exists k. split; [lia|]. split; [apply Hmiss; [lia|exact Hbit]|].
        rewrite Hf. apply w16_add_l.
      * intros (k & Hk & Hnin & ->). exists k. split; [lia|].
        split; [apply Hmiss; assumption|]. rewrite Hf. symmetry. apply w16_add_l.
Qed.

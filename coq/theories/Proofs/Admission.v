(* C10: lemmas and invariants about Model/Admission.v.
   Everything is proved for one step from an ARBITRARY state, or as an
   invariant of [run]/[exec] over an arbitrary list of atomic steps. *)
From Coq Require Import ZArith List Bool Lia.
From Galene Require Import Model.Admission.
Import ListNotations.
Open Scope Z_scope.

(* ------------------------------------------------------------ strings *)

Lemma str_eqb_eq a b : str_eqb a b = true <-> a = b.
Proof.
  revert b. induction a as [|x a IH]; intros [|y b]; cbn [str_eqb]; split; intros H;
    try reflexivity; try discriminate.
  - apply andb_true_iff in H. destruct H as [H1 H2].
    apply Z.eqb_eq in H1. apply IH in H2. subst. reflexivity.
  - inversion H; subst. apply andb_true_iff. split; [apply Z.eqb_refl | apply IH; reflexivity].
Qed.

Lemma str_eqb_refl a : str_eqb a a = true.
Proof. apply str_eqb_eq. reflexivity. Qed.

Lemma str_eqb_neq a b : str_eqb a b = false <-> a <> b.
Proof.
  split; intros H.
  - intros E. apply str_eqb_eq in E. congruence.
  - destruct (str_eqb a b) eqn:E; [apply str_eqb_eq in E; contradiction | reflexivity].
Qed.

Lemma str_empty_nil a : str_empty a = true <-> a = [].
Proof. destruct a; cbn; split; intros; congruence. Qed.

(* ------------------------------------------------------------ member lists *)

Lemma lookup_none id cl : lookup id cl = None <-> ~ In id (ids cl).
Proof.
  induction cl as [|[i c] cl IH]; cbn [lookup ids map fst In].
  - split; [intros _ [] | reflexivity].
  - destruct (str_eqb i id) eqn:E.
    + apply str_eqb_eq in E. split; [discriminate | intros H; exfalso; apply H; left; exact E].
    + apply str_eqb_neq in E. rewrite IH. unfold ids. tauto.
Qed.

Lemma lookup_some id cl c : lookup id cl = Some c -> In (id, c) cl.
Proof.
  induction cl as [|[i c'] cl IH]; cbn [lookup]; [discriminate|].
  destruct (str_eqb i id) eqn:E.
  - apply str_eqb_eq in E. intros H; inversion H; subst. left; reflexivity.
  - intros H. right. apply IH, H.
Qed.

Lemma remove_id_in id cl p : In p (remove_id id cl) -> In p cl /\ fst p <> id.
Proof.
  induction cl as [|[i c] cl IH]; cbn [remove_id]; [intros []|].
  destruct (str_eqb i id) eqn:E.
  - intros H. destruct (IH H). split; [right|]; assumption.
  - apply str_eqb_neq in E. intros [H|H].
    + subst p. split; [left; reflexivity | exact E].
    + destruct (IH H). split; [right|]; assumption.
Qed.

Lemma remove_id_keeps id cl p : In p cl -> fst p <> id -> In p (remove_id id cl).
Proof.
  induction cl as [|[i c] cl IH]; cbn [remove_id]; [intros []|].
  intros [H|H] Hn.
  - subst p. cbn [fst] in Hn. apply str_eqb_neq in Hn. rewrite Hn. left; reflexivity.
  - destruct (str_eqb i id); [|right]; apply IH; assumption.
Qed.

Lemma remove_id_ids_in id cl x : In x (ids (remove_id id cl)) -> In x (ids cl).
Proof.
  unfold ids. intros H. apply in_map_iff in H. destruct H as (p & Hp & Hin).
  apply remove_id_in in Hin. apply in_map_iff. exists p. tauto.
Qed.

Lemma remove_id_nodup id cl : NoDup (ids cl) -> NoDup (ids (remove_id id cl)).
Proof.
  induction cl as [|[i c] cl IH]; cbn [remove_id ids map fst]; intros H; [constructor|].
  inversion H as [|? ? Hn Hd]; subst.
  destruct (str_eqb i id).
  - apply IH, Hd.
  - cbn [map fst]. constructor; [|apply IH, Hd].
    intros Hin. apply Hn. apply (remove_id_ids_in id cl i Hin).
Qed.

Lemma remove_id_gone id cl : ~ In id (ids (remove_id id cl)).
Proof.
  unfold ids. intros H. apply in_map_iff in H. destruct H as (p & Hp & Hin).
  apply remove_id_in in Hin. tauto.
Qed.

Lemma remove_id_length id cl : (length (remove_id id cl) <= length cl)%nat.
Proof.
  induction cl as [|[i c] cl IH]; cbn [remove_id length]; [lia|].
  destruct (str_eqb i id); cbn [length]; lia.
Qed.

Lemma has_op_app cl cl' : has_op (cl ++ cl') = has_op cl || has_op cl'.
Proof. unfold has_op. apply existsb_app. Qed.

Lemma has_op_in cl : has_op cl = true <-> exists p, In p cl /\ c_op (snd p) = true.
Proof. unfold has_op. apply existsb_exists. Qed.

Lemma has_op_remove id cl : has_op (remove_id id cl) = true -> has_op cl = true.
Proof.
  rewrite !has_op_in. intros (p & Hin & Hp). exists p. split; [|exact Hp].
  apply (remove_id_in id cl p Hin).
Qed.

(* members that were let in under the non-operator rules *)
Definition plain (c : client) : bool := negb (c_op c) && negb (c_sys c).
Definition n_plain (cl : list (str * client)) : Z :=
  zlength (filter (fun p => plain (snd p)) cl).

Lemma n_plain_le_length cl : n_plain cl <= zlength cl.
Proof.
  unfold n_plain, zlength. apply Nat2Z.inj_le.
  induction cl as [|p cl IH]; cbn [filter length]; [lia|].
  destruct (plain (snd p)); cbn [length]; lia.
Qed.

Lemma n_plain_app cl cl' : n_plain (cl ++ cl') = n_plain cl + n_plain cl'.
Proof. unfold n_plain, zlength. rewrite filter_app, app_length. lia. Qed.

Lemma n_plain_remove id cl : n_plain (remove_id id cl) <= n_plain cl.
Proof.
  unfold n_plain, zlength. apply Nat2Z.inj_le.
  induction cl as [|[i c] cl IH]; cbn [remove_id filter length]; [lia|].
  destruct (str_eqb i id); cbn [filter snd]; destruct (plain c); cbn [length]; lia.
Qed.

(* ------------------------------------------------------------ autoLockKick *)

Lemma alk_clients g : g_clients (fst (auto_lock_kick g)) = g_clients g.
Proof.
  unfold auto_lock_kick.
  destruct (negb (d_autolock (g_desc g) && is_none (g_locked g)) && negb (d_autokick (g_desc g)));
    [reflexivity|].
  destruct (has_op (g_clients g)); [reflexivity|]. cbn [fst].
  destruct (d_autolock (g_desc g) && is_none (g_locked g)); reflexivity.
Qed.

Lemma alk_desc g : g_desc (fst (auto_lock_kick g)) = g_desc g.
Proof.
  unfold auto_lock_kick.
  destruct (negb (d_autolock (g_desc g) && is_none (g_locked g)) && negb (d_autokick (g_desc g)));
    [reflexivity|].
  destruct (has_op (g_clients g)); [reflexivity|]. cbn [fst].
  destruct (d_autolock (g_desc g) && is_none (g_locked g)); reflexivity.
Qed.

(* autoLockKick never unlocks *)
Lemma alk_locked_mono g : g_locked g <> None -> g_locked (fst (auto_lock_kick g)) = g_locked g.
Proof.
  intros Hl. unfold auto_lock_kick.
  destruct (g_locked g) eqn:E; [|contradiction]. cbn [is_none]. rewrite andb_false_r.
  cbn [negb andb].
  destruct (d_autokick (g_desc g)); cbn [negb]; [|exact E].
  destruct (has_op (g_clients g)); cbn [fst]; exact E.
Qed.

(* the autolock invariant *)
Definition AL (g : group) : Prop :=
  d_autolock (g_desc g) = true -> has_op (g_clients g) = false -> g_locked g <> None.

Lemma alk_AL g : AL (fst (auto_lock_kick g)).
Proof.
  unfold AL. rewrite alk_clients, alk_desc. intros Ha Ho.
  unfold auto_lock_kick. rewrite Ha, Ho.
  destruct (g_locked g) eqn:E; cbn [is_none andb negb].
  - destruct (d_autokick (g_desc g)); cbn [negb fst]; rewrite E; discriminate.
  - cbn [fst g_locked]. discriminate.
Qed.

(* with autokick and no operator, every member is scheduled to be kicked *)
Lemma alk_kicks g p :
  d_autokick (g_desc g) = true -> has_op (g_clients g) = false ->
  In p (g_clients g) -> In (EKick (c_uid (snd p))) (snd (auto_lock_kick g)).
Proof.
  intros Hk Ho Hin. unfold auto_lock_kick. rewrite Hk, Ho. rewrite andb_false_r.
  cbn [snd]. apply in_or_app. right. unfold all_kicked.
  apply in_map_iff. exists p. split; [reflexivity | exact Hin].
Qed.

(* ------------------------------------------------------------ exec / run *)

Lemma exec_step g l pre s o post :
  In (pre, s, o, post) (exec g l) -> step pre s = (post, o).
Proof.
  revert g. induction l as [|s0 l IH]; intros g; cbn [exec]; [intros []|].
  intros [H|H].
  - inversion H; subst. destruct (step pre s); reflexivity.
  - eapply IH, H.
Qed.

(* the pre-state of a step of a schedule is the state after a prefix *)
Lemma exec_prefix g l pre s o post :
  In (pre, s, o, post) (exec g l) ->
  exists l1 l2, l = l1 ++ s :: l2 /\ pre = run g l1 /\ post = run g (l1 ++ [s]).
Proof.
  revert g. induction l as [|s0 l IH]; intros g; cbn [exec]; [intros []|].
  intros [H|H].
  - inversion H; subst. exists [], l. repeat split.
  - destruct (IH _ H) as (l1 & l2 & -> & -> & ->).
    exists (s0 :: l1), l2. repeat split.
Qed.

Lemma run_app g l1 l2 : run g (l1 ++ l2) = run (run g l1) l2.
Proof. revert g. induction l1 as [|s l1 IH]; intros g; cbn [run app]; [reflexivity | apply IH]. Qed.

Lemma exec_app_in g l1 l2 x : In x (exec g l1) -> In x (exec g (l1 ++ l2)).
Proof.
  revert g. induction l1 as [|s l1 IH]; intros g; cbn [exec app]; [intros []|].
  intros [H|H]; [left; exact H | right; apply IH, H].
Qed.

(* invariant rule: P holds initially and every step of the schedule that
   starts in P ends in P; then P holds before and after every step and at
   the end *)
Lemma exec_invariant (P : group -> Prop) l g :
  P g ->
  (forall pre s o post, In (pre, s, o, post) (exec g l) -> P pre -> P post) ->
  P (run g l) /\ forall pre s o post, In (pre, s, o, post) (exec g l) -> P pre /\ P post.
Proof.
  revert g. induction l as [|s0 l IH]; intros g Hg Hstep; cbn [run exec].
  - split; [exact Hg | intros ? ? ? ? []].
  - assert (Hg' : P (fst (step g s0))).
    { apply (Hstep g s0 (snd (step g s0)) (fst (step g s0))); [left; reflexivity | exact Hg]. }
    destruct (IH (fst (step g s0)) Hg') as [Hend Hall].
    { intros pre s o post Hin. apply (Hstep pre s o post). right. exact Hin. }
    split; [exact Hend|].
    intros pre s o post [H|H].
    + inversion H; subst. split; assumption.
    + apply (Hall pre s o post H).
Qed.

(* ------------------------------------------------------------ one step *)

Lemma step_desc g s :
  g_desc (fst (step g s)) = match s with SAdd (Some d) => d | _ => g_desc g end.
Proof.
  destruct s as [r|now j|id uid|b m]; cbn [step].
  - unfold do_add. destruct (auto_lock_kick _) as [g1 ev] eqn:E. cbn [fst].
    change g1 with (fst (g1, ev)). rewrite <- E, alk_desc. destruct r; reflexivity.
  - unfold add_client_locked. destruct (admission_check g now j); [reflexivity|].
    destruct (str_empty (j_id j)); [reflexivity|].
    destruct (lookup (j_id j) (g_clients g)); reflexivity.
  - unfold del_client. destruct (lookup id (g_clients g)); [|reflexivity].
    destruct (c_uid c =? uid); [|reflexivity].
    destruct (auto_lock_kick _) as [g1 ev] eqn:E. cbn [fst].
    change g1 with (fst (g1, ev)). rewrite <- E, alk_desc. reflexivity.
  - reflexivity.
Qed.

Lemma do_add_clients g r : g_clients (fst (do_add g r)) = g_clients g.
Proof.
  unfold do_add. destruct (auto_lock_kick _) as [g1 ev] eqn:E. cbn [fst].
  change g1 with (fst (g1, ev)). rewrite <- E, alk_clients. destruct r; reflexivity.
Qed.

Lemma do_add_AL g r : AL (fst (do_add g r)).
Proof.
  unfold do_add. destruct (auto_lock_kick _) as [g1 ev] eqn:E. cbn [fst].
  change g1 with (fst (g1, ev)). rewrite <- E. apply alk_AL.
Qed.

Lemma del_client_cases g id uid :
  (step g (SDelClient id uid) = (g, mkOut RUnknown [])) \/
  (exists c, lookup id (g_clients g) = Some c /\ c_uid c = uid /\
     let g0 := mkGroup (g_locked g) (remove_id id (g_clients g)) (g_desc g) in
     step g (SDelClient id uid) =
       (fst (auto_lock_kick g0),
        mkOut RDone (snd (auto_lock_kick g0) ++ EJoined uid KLeave ::
                     map (fun p => EPush (c_uid (snd p)) false id) (remove_id id (g_clients g))))).
Proof.
  cbn [step]. unfold del_client.
  destruct (lookup id (g_clients g)) as [c|] eqn:L; [|left; reflexivity].
  destruct (c_uid c =? uid) eqn:U; [|left; reflexivity].
  right. exists c. apply Z.eqb_eq in U. repeat split; try assumption.
  cbv zeta. destruct (auto_lock_kick _); reflexivity.
Qed.

(* the three outcomes of the admission step *)
Lemma add_client_cases g now j :
  (exists e, e <> RAccepted /\ step g (SAddClient now j) = (g, mkOut e [])) \/
  (exists isop, admission_check g now j = inr isop /\ j_id j <> [] /\
     ~ In (j_id j) (ids (g_clients g)) /\
     step g (SAddClient now j) =
       (mkGroup (g_locked g)
                (g_clients g ++ [(j_id j, mkClient (j_uid j) isop (j_sys j))]) (g_desc g),
        mkOut RAccepted (announce j (g_clients g)))).
Proof.
  cbn [step]. unfold add_client_locked.
  destruct (admission_check g now j) as [e|isop] eqn:A.
  - left. exists e. split; [|reflexivity].
    unfold admission_check in A.
    destruct (j_sys j); [discriminate|].
    destruct (d_auth (g_desc g) (j_cred j)) as [[|]|]; try discriminate;
      [|inversion A; discriminate].
    destruct (g_locked g); [inversion A; discriminate|].
    repeat match type of A with
           | (if ?c then _ else _) = _ => destruct c; [inversion A; discriminate|]
           end.
    discriminate.
  - destruct (str_empty (j_id j)) eqn:Em.
    + left. exists REmptyId. split; [discriminate | reflexivity].
    + destruct (lookup (j_id j) (g_clients g)) eqn:L.
      * left. exists RDupId. split; [discriminate | reflexivity].
      * right. exists isop. repeat split.
        -- intros E. apply str_empty_nil in E. congruence.
        -- apply lookup_none, L.
Qed.

(* what an let in non-operator, non-system joiner has passed *)
Lemma admission_check_plain g now j :
  admission_check g now j = inr false -> j_sys j = false ->
  d_auth (g_desc g) (j_cred j) = Some false /\
  g_locked g = None /\
  (forall nb, d_not_before (g_desc g) = Some nb -> nb <= now) /\
  (forall e, d_expires (g_desc g) = Some e -> now <= e) /\
  (d_autokick (g_desc g) = true -> has_op (g_clients g) = true) /\
  (0 < d_max_clients (g_desc g) -> zlength (g_clients g) < d_max_clients (g_desc g)).
Proof.
  unfold admission_check. intros A Hs. rewrite Hs in A.
  destruct (d_auth (g_desc g) (j_cred j)) as [[|]|]; try discriminate.
  split; [reflexivity|].
  destruct (g_locked g); [discriminate|]. split; [reflexivity|].
  destruct (match d_not_before (g_desc g) with Some nb => now <? nb | None => false end) eqn:N;
    [discriminate|].
  destruct (match d_expires (g_desc g) with Some e => e <? now | None => false end) eqn:X;
    [discriminate|].
  destruct (d_autokick (g_desc g) && negb (has_op (g_clients g))) eqn:K; [discriminate|].
  destruct ((0 <? d_max_clients (g_desc g)) &&
            (d_max_clients (g_desc g) <=? zlength (g_clients g))) eqn:M; [discriminate|].
  repeat split.
  - intros nb E. rewrite E in N. apply Z.ltb_ge in N. exact N.
  - intros e E. rewrite E in X. apply Z.ltb_ge in X. exact X.
  - intros Hk. rewrite Hk in K. cbn [andb] in K. apply negb_false_iff in K. exact K.
  - intros Hm. apply Z.ltb_lt in Hm. rewrite Hm in M. cbn [andb] in M.
    apply Z.leb_gt in M. exact M.
Qed.

Lemma admission_check_op g now j :
  j_sys j = false -> d_auth (g_desc g) (j_cred j) = Some true ->
  admission_check g now j = inr true.
Proof. intros Hs Ha. unfold admission_check. rewrite Hs, Ha. reflexivity. Qed.

Lemma admission_check_sys g now j :
  j_sys j = true -> admission_check g now j = inr (j_sysop j).
Proof. intros Hs. unfold admission_check. rewrite Hs. reflexivity. Qed.

Lemma admission_check_isop g now j isop :
  admission_check g now j = inr isop -> j_sys j = false ->
  d_auth (g_desc g) (j_cred j) = Some isop.
Proof.
  unfold admission_check. intros A Hs. rewrite Hs in A.
  destruct (d_auth (g_desc g) (j_cred j)) as [[|]|]; try discriminate.
  - inversion A; reflexivity.
  - destruct isop; [|reflexivity]. exfalso.
    destruct (g_locked g); [discriminate|].
    repeat match type of A with
           | (if ?c then _ else _) = _ => destruct c; [discriminate|]
           end.
    discriminate.
Qed.

(* ------------------------------------------------------------ C10 lemmas *)

(* entry_conditions: one step from any state *)
Lemma entry_conditions_step g now j g' o :
  step g (SAddClient now j) = (g', o) -> o_res o = RAccepted ->
  j_sys j = false -> d_auth (g_desc g) (j_cred j) = Some false ->
  g_locked g = None /\
  (forall nb, d_not_before (g_desc g) = Some nb -> nb <= now) /\
  (forall e, d_expires (g_desc g) = Some e -> now <= e) /\
  (d_autokick (g_desc g) = true -> has_op (g_clients g) = true) /\
  (0 < d_max_clients (g_desc g) -> zlength (g_clients g) < d_max_clients (g_desc g)).
Proof.
  intros Hst Hres Hs Ha.
  destruct (add_client_cases g now j) as [(e & Hne & He)|(isop & A & _ & _ & He)];
    rewrite He in Hst; inversion Hst; subst; cbn [o_res] in Hres; [congruence|].
  pose proof (admission_check_isop g now j isop A Hs) as Hi. rewrite Ha in Hi.
  inversion Hi; subst isop.
  apply (admission_check_plain g now j A Hs).
Qed.

(* operators (and system clients) are exempt *)
Lemma ops_exempt_step g now j :
  (j_sys j = true \/ d_auth (g_desc g) (j_cred j) = Some true) ->
  j_id j <> [] -> ~ In (j_id j) (ids (g_clients g)) ->
  exists c,
    step g (SAddClient now j) =
      (mkGroup (g_locked g) (g_clients g ++ [(j_id j, c)]) (g_desc g),
       mkOut RAccepted (announce j (g_clients g))) /\
    c_uid c = j_uid j /\ c_sys c = j_sys j /\
    (j_sys j = false -> c_op c = true).
Proof.
  intros Hpriv Hid Hfresh. cbn [step]. unfold add_client_locked.
  assert (A : exists isop, admission_check g now j = inr isop /\ (j_sys j = false -> isop = true)).
  { destruct (j_sys j) eqn:Hs.
    - exists (j_sysop j). split; [apply admission_check_sys, Hs | discriminate].
    - destruct Hpriv as [Hp|Hp]; [discriminate|].
      exists true. split; [apply admission_check_op; assumption | reflexivity]. }
  destruct A as (isop & A & Hop). rewrite A.
  destruct (str_empty (j_id j)) eqn:Em; [apply str_empty_nil in Em; contradiction|].
  apply lookup_none in Hfresh. rewrite Hfresh.
  exists (mkClient (j_uid j) isop (j_sys j)). repeat split. exact Hop.
Qed.

(* a rejected admission step changes nothing and announces nothing *)
Lemma reject_no_effect_step g now j g' o :
  step g (SAddClient now j) = (g', o) -> o_res o <> RAccepted ->
  g' = g /\ o_events o = [].
Proof.
  intros Hst Hres.
  destruct (add_client_cases g now j) as [(e & Hne & He)|(isop & _ & _ & _ & He)];
    rewrite He in Hst; inversion Hst; subst; cbn [o_res] in Hres; [|congruence].
  split; reflexivity.
Qed.

(* unique ids *)
Lemma NoDup_snoc {A} (l : list A) x : NoDup l -> ~ In x l -> NoDup (l ++ [x]).
Proof.
  induction l as [|y l IH]; cbn [app]; intros Hd Hn.
  - constructor; [intros [] | constructor].
  - inversion Hd; subst. constructor.
    + intros Hin. apply in_app_or in Hin. destruct Hin as [Hin|[Hin|[]]].
      * contradiction.
      * subst. apply Hn. left; reflexivity.
    + apply IH; [assumption|]. intros Hin. apply Hn. right; exact Hin.
Qed.

Lemma step_nodup g s : NoDup (ids (g_clients g)) -> NoDup (ids (g_clients (fst (step g s)))).
Proof.
  intros H. destruct s as [r|now j|id uid|b m].
  - cbn [step]. rewrite do_add_clients. exact H.
  - destruct (add_client_cases g now j) as [(e & _ & He)|(isop & _ & _ & Hf & He)];
      rewrite He; cbn [fst g_clients]; [exact H|].
    unfold ids. rewrite map_app. cbn [map fst].
    apply NoDup_snoc; assumption.
  - destruct (del_client_cases g id uid) as [He|(c & _ & _ & He)];
      cbv zeta in He; rewrite He; cbn [fst]; [exact H|].
    rewrite alk_clients. cbn [g_clients]. apply remove_id_nodup, H.
  - exact H.
Qed.

Lemma created_clients d : g_clients (created d) = [].
Proof. unfold created. rewrite do_add_clients. reflexivity. Qed.

Lemma created_desc d : g_desc (created d) = d.
Proof.
  unfold created. change (do_add (fresh d) None) with (step (fresh d) (SAdd None)).
  rewrite step_desc. reflexivity.
Qed.

Lemma run_nodup l g : NoDup (ids (g_clients g)) -> NoDup (ids (g_clients (run g l))).
Proof.
  revert g. induction l as [|s l IH]; intros g H; cbn [run]; [exact H|].
  apply IH, step_nodup, H.
Qed.

Lemma unique_ids d l : NoDup (ids (g_clients (run (created d) l))).
Proof. apply run_nodup. rewrite created_clients. constructor. Qed.

(* autolock *)
Lemma autolock_initial d :
  d_autolock d = true ->
  g_locked (created d) = Some locked_msg /\ g_clients (created d) = [].
Proof.
  intros Ha. split; [|apply created_clients].
  unfold created, do_add, auto_lock_kick, fresh. cbn [g_desc g_locked g_clients is_none has_op existsb].
  rewrite Ha. cbn [andb negb fst g_locked]. destruct (d_autokick d); reflexivity.
Qed.

(* explicit unlocks happen while an operator is a member (the websocket
   layer only accepts "unlock" from a member holding "op", C11) *)
Definition guarded_unlocks (g : group) (l : list op) : Prop :=
  forall pre m o post, In (pre, SSetLocked false m, o, post) (exec g l) ->
    has_op (g_clients pre) = true.

Lemma step_AL g s :
  AL g ->
  (forall m, s = SSetLocked false m -> has_op (g_clients g) = true) ->
  AL (fst (step g s)).
Proof.
  intros H Hg. destruct s as [r|now j|id uid|b m].
  - cbn [step]. apply do_add_AL.
  - destruct (add_client_cases g now j) as [(e & _ & He)|(isop & _ & _ & _ & He)];
      rewrite He; cbn [fst]; [exact H|].
    unfold AL in *. cbn [g_desc g_clients g_locked]. intros Ha Ho.
    rewrite has_op_app in Ho. apply orb_false_iff in Ho. apply H; tauto.
  - destruct (del_client_cases g id uid) as [He|(c & _ & _ & He)];
      cbv zeta in He; rewrite He; cbn [fst]; [exact H|]. apply alk_AL.
  - cbn [step]. unfold set_locked, AL. cbn [fst g_desc g_clients g_locked].
    destruct b; [discriminate|]. intros _ Ho. rewrite (Hg m eq_refl) in Ho. discriminate.
Qed.

Lemma created_AL d : AL (created d).
Proof. unfold created. apply do_add_AL. Qed.

Lemma AL_everywhere d l :
  guarded_unlocks (created d) l ->
  AL (run (created d) l) /\
  forall pre s o post, In (pre, s, o, post) (exec (created d) l) -> AL pre /\ AL post.
Proof.
  intros Hg. apply exec_invariant; [apply created_AL|].
  intros pre s o post Hin Hpre.
  pose proof (exec_step _ _ _ _ _ _ Hin) as Hst.
  replace post with (fst (step pre s)) by (rewrite Hst; reflexivity).
  apply step_AL; [exact Hpre|].
  intros m ->. apply (Hg pre m o post Hin).
Qed.

(* with autolock a non-operator is only let in while an operator is a member *)
Lemma autolock_admission d l pre now j o post :
  guarded_unlocks (created d) l ->
  In (pre, SAddClient now j, o, post) (exec (created d) l) ->
  o_res o = RAccepted -> j_sys j = false ->
  d_auth (g_desc pre) (j_cred j) = Some false ->
  d_autolock (g_desc pre) = true ->
  has_op (g_clients pre) = true.
Proof.
  intros Hg Hin Hres Hs Ha Hal.
  destruct (proj2 (AL_everywhere d l Hg) _ _ _ _ Hin) as [Hpre _].
  pose proof (exec_step _ _ _ _ _ _ Hin) as Hst.
  destruct (entry_conditions_step _ _ _ _ _ Hst Hres Hs Ha) as (Hl & _).
  destruct (has_op (g_clients pre)) eqn:E; [reflexivity|].
  exfalso. apply (Hpre Hal E). exact Hl.
Qed.

(* capacity *)
Lemma capacity_step g now j g' o :
  step g (SAddClient now j) = (g', o) -> o_res o = RAccepted ->
  j_sys j = false -> d_auth (g_desc g) (j_cred j) = Some false ->
  0 < d_max_clients (g_desc g) ->
  zlength (g_clients g') <= d_max_clients (g_desc g) /\
  zlength (g_clients g') = zlength (g_clients g) + 1.
Proof.
  intros Hst Hres Hs Ha Hm.
  destruct (entry_conditions_step _ _ _ _ _ Hst Hres Hs Ha) as (_ & _ & _ & _ & Hc).
  specialize (Hc Hm).
  destruct (add_client_cases g now j) as [(e & Hne & He)|(isop & _ & _ & _ & He)];
    rewrite He in Hst; inversion Hst; subst; cbn [o_res] in Hres; [congruence|].
  cbn [g_clients]. unfold zlength in *. rewrite app_length. cbn [length]. lia.
Qed.

Definition max_fixed (m : Z) (l : list op) : Prop :=
  forall d', In (SAdd (Some d')) l -> d_max_clients d' = m.

Lemma step_cap m g s :
  0 < m -> d_max_clients (g_desc g) = m ->
  (forall d', s = SAdd (Some d') -> d_max_clients d' = m) ->
  n_plain (g_clients g) <= m ->
  d_max_clients (g_desc (fst (step g s))) = m /\ n_plain (g_clients (fst (step g s))) <= m.
Proof.
  intros Hm Hd Hs H. split.
  - rewrite step_desc. destruct s as [[d'|]|now j|id uid|b mm]; try exact Hd.
    apply Hs. reflexivity.
  - destruct s as [r|now j|id uid|b mm].
    + cbn [step]. rewrite do_add_clients. exact H.
    + destruct (add_client_cases g now j) as [(e & _ & He)|(isop & A & _ & _ & He)];
        rewrite He; cbn [fst g_clients]; [exact H|].
      rewrite n_plain_app. unfold n_plain at 2. cbn [filter snd].
      destruct (plain (mkClient (j_uid j) isop (j_sys j))) eqn:P;
        [|unfold zlength; cbn [length]; lia].
      unfold plain in P. cbn [c_op c_sys] in P. apply andb_true_iff in P.
      destruct P as [P1 P2]. apply negb_true_iff in P1. apply negb_true_iff in P2. subst isop.
      destruct (admission_check_plain g now j A P2) as (_ & _ & _ & _ & _ & Hc).
      rewrite Hd in Hc. specialize (Hc Hm).
      pose proof (n_plain_le_length (g_clients g)). unfold zlength at 1. cbn [length]. lia.
    + destruct (del_client_cases g id uid) as [He|(c & _ & _ & He)];
        cbv zeta in He; rewrite He; cbn [fst]; [exact H|].
      rewrite alk_clients. cbn [g_clients].
      pose proof (n_plain_remove id (g_clients g)). lia.
    + exact H.
Qed.

Lemma run_cap m l g :
  0 < m -> d_max_clients (g_desc g) = m -> max_fixed m l ->
  n_plain (g_clients g) <= m -> n_plain (g_clients (run g l)) <= m.
Proof.
  intros Hm. revert g. induction l as [|s l IH]; intros g Hd Hf H; cbn [run]; [exact H|].
  destruct (step_cap m g s Hm Hd) as [Hd' H']; [|exact H|].
  - intros d' ->. apply Hf. left; reflexivity.
  - apply IH; [exact Hd'| |exact H']. intros d' Hin. apply Hf. right; exact Hin.
Qed.

Lemma capacity_invariant d l m :
  0 < m -> d_max_clients d = m -> max_fixed m l ->
  n_plain (g_clients (run (created d) l)) <= m.
Proof.
  intros Hm Hd Hf. apply run_cap; try assumption.
  - rewrite created_desc. exact Hd.
  - rewrite created_clients. unfold n_plain, zlength. cbn. lia.
Qed.

(* autokick: a step that leaves an autokick group without operator schedules
   the kick of every remaining member *)
Lemma autokick_del_step g id uid g' o p :
  step g (SDelClient id uid) = (g', o) -> o_res o = RDone ->
  d_autokick (g_desc g) = true -> has_op (g_clients g') = false ->
  In p (g_clients g') -> In (EKick (c_uid (snd p))) (o_events o).
Proof.
  intros Hst Hres Hk Ho Hin.
  destruct (del_client_cases g id uid) as [He|(c & _ & _ & He)];
    cbv zeta in He; rewrite He in Hst; inversion Hst; subst; cbn [o_res] in Hres;
    [discriminate|].
  rewrite alk_clients in Ho, Hin. cbn [o_events]. apply in_or_app. left.
  apply alk_kicks; assumption.
Qed.

Lemma autokick_add_step g r g' o p :
  step g (SAdd r) = (g', o) ->
  d_autokick (g_desc g') = true -> has_op (g_clients g') = false ->
  In p (g_clients g') -> In (EKick (c_uid (snd p))) (o_events o).
Proof.
  cbn [step]. unfold do_add. intros Hst Hk Ho Hin.
  destruct (auto_lock_kick _) as [g1 ev] eqn:E. inversion Hst; subst. cbn [o_events].
  apply in_or_app. left.
  assert (E1 : g' = fst (auto_lock_kick
            match r with Some d => mkGroup (g_locked g) (g_clients g) d | None => g end))
    by (rewrite E; reflexivity).
  assert (E2 : ev = snd (auto_lock_kick
            match r with Some d => mkGroup (g_locked g) (g_clients g) d | None => g end))
    by (rewrite E; reflexivity).
  rewrite E1 in Hk, Ho, Hin. rewrite alk_desc in Hk. rewrite alk_clients in Ho, Hin.
  rewrite E2. apply alk_kicks; assumption.
Qed.

(* the step in which the last operator leaves locks an autolock group (no
   hypothesis on the schedule: autoLockKick runs in the same critical
   section) *)
Lemma autolock_del_step g id uid g' o :
  step g (SDelClient id uid) = (g', o) -> o_res o = RDone ->
  d_autolock (g_desc g) = true -> has_op (g_clients g') = false ->
  g_locked g' <> None.
Proof.
  intros Hst Hres Ha Ho.
  destruct (del_client_cases g id uid) as [He|(c & _ & _ & He)];
    cbv zeta in He; rewrite He in Hst; inversion Hst; subst; cbn [o_res] in Hres;
    [discriminate|].
  apply alk_AL; [rewrite alk_desc; exact Ha | exact Ho].
Qed.

(* ... and so does every Add *)
Lemma autolock_add_step g r g' o :
  step g (SAdd r) = (g', o) ->
  d_autolock (g_desc g') = true -> has_op (g_clients g') = false ->
  g_locked g' <> None.
Proof.
  cbn [step]. intros Hst. replace g' with (fst (do_add g r)) by (rewrite Hst; reflexivity).
  apply do_add_AL.
Qed.

(* a member that is not the last operator leaving, or an admission, never
   unlocks: the lock state only changes through SetLocked and autoLockKick *)
Lemma add_client_locked_same g now j :
  g_locked (fst (step g (SAddClient now j))) = g_locked g.
Proof.
  destruct (add_client_cases g now j) as [(e & _ & He)|(isop & _ & _ & _ & He)];
    rewrite He; reflexivity.
Qed.

(* ---- the unlock hypothesis is necessary: group.SetLocked itself has no
   guard, so a schedule with an unlock while no operator is a member leaves
   an autolock group unlocked without operator *)
Definition demo_auth (c : Z) : option bool :=
  if c =? 0 then Some true else if c =? 2 then Some false else None.
Definition demo_desc (max : Z) (al ak : bool) : desc := mkDesc max al ak None None demo_auth.

Lemma unguarded_unlock_witness :
  let d := demo_desc 0 true false in
  let g := run (created d) [SSetLocked false []] in
  d_autolock (g_desc g) = true /\ has_op (g_clients g) = false /\ g_locked g = None.
Proof. vm_compute. repeat split; reflexivity. Qed.

(* ---- regression of F4: before ba2fd43 DelClient ran autoLockKick after
   releasing Group.mu, i.e. as two atomic steps.  With that split the
   autolock statement is false: *)
Inductive old_op :=
| OStep (s : op)                 (* any step of the current model except SDelClient *)
| ODelRemove (id : str) (uid : Z) (* first critical section: identity check + removal *)
| ODelAutoLock.                  (* autoLockKick, after the unlock *)

Definition old_step (g : group) (s : old_op) : group * out :=
  match s with
  | OStep s => step g s
  | ODelRemove id uid =>
      match lookup id (g_clients g) with
      | Some c => if c_uid c =? uid
                  then (mkGroup (g_locked g) (remove_id id (g_clients g)) (g_desc g), mkOut RDone [])
                  else (g, mkOut RUnknown [])
      | None => (g, mkOut RUnknown [])
      end
  | ODelAutoLock => let '(g1, ev) := auto_lock_kick g in (g1, mkOut RDone ev)
  end.

Fixpoint old_exec (g : group) (l : list old_op) : list (group * old_op * out * group) :=
  match l with
  | [] => []
  | s :: l' => let r := old_step g s in (g, s, snd r, fst r) :: old_exec (fst r) l'
  end.

(* J: Add (operator still present) | D: remove the last operator, unlock |
   J: admission checks -> let in | D: autoLockKick -> locked *)
Lemma f4_split_delclient_witness :
  let d := demo_desc 0 true false in
  let o := mkJoiner 1 [111] false false 0 in
  let u := mkJoiner 2 [117] false false 2 in
  let l := [OStep (SAdd None); OStep (SAddClient 0 o); OStep (SSetLocked false []);
            OStep (SAdd None); ODelRemove [111] 1; OStep (SAddClient 0 u); ODelAutoLock] in
  exists pre out post,
    In (pre, OStep (SAddClient 0 u), out, post) (old_exec (created d) l) /\
    o_res out = RAccepted /\ d_autolock (g_desc pre) = true /\
    has_op (g_clients pre) = false /\ d_auth (g_desc pre) (j_cred u) = Some false.
Proof.
  cbv zeta. eexists _, _, _. split.
  - cbn [old_exec]. do 5 right. left. reflexivity.
  - vm_compute. repeat split; reflexivity.
Qed.

(* operators and system clients are not bounded by max-clients *)
Lemma capacity_ops_exceed_witness :
  let d := demo_desc 1 false false in
  let g := run (created d)
             [SAdd None; SAddClient 0 (mkJoiner 1 [117] false false 2);
              SAdd None; SAddClient 0 (mkJoiner 2 [118] false false 2);
              SAdd None; SAddClient 0 (mkJoiner 3 [111] false false 0);
              SAdd None; SAddClient 0 (mkJoiner 4 [115] true false 9)] in
  ids (g_clients g) = [[117]; [111]; [115]] /\ d_max_clients (g_desc g) = 1 /\
  n_plain (g_clients g) = 1.
Proof. vm_compute. repeat split; reflexivity. Qed.

(* executable form of [guarded_unlocks], for concrete schedules *)
Fixpoint guarded_b (g : group) (l : list op) : bool :=
  match l with
  | [] => true
  | s :: l' =>
      match s with SSetLocked false _ => has_op (g_clients g) | _ => true end
      && guarded_b (fst (step g s)) l'
  end.

Lemma guarded_b_sound l g : guarded_b g l = true -> guarded_unlocks g l.
Proof.
  revert g. induction l as [|s l IH]; intros g H; unfold guarded_unlocks; cbn [exec].
  - intros ? ? ? ? [].
  - cbn [guarded_b] in H. apply andb_true_iff in H. destruct H as [H1 H2].
    intros pre m o post [Hin|Hin].
    + inversion Hin; subst. exact H1.
    + exact (IH _ H2 pre m o post Hin).
Qed.

(* Specification of the If-Match / If-None-Match header semantics used by
   property C18 and the proof that Model/Etag.v implements it for ALL strings.

   Specification (RFC 7232 sections 2.3, 3.1, 3.2 as far as the property
   needs it; independent of the scanning code):
     etagc       = %x21 / %x23-7E / %x80-FF
     opaque-tag  = DQUOTE *etagc DQUOTE
     entity-tag  = [ "W/" ] opaque-tag
     separators  = any run of SP / HTAB / LF / CR / ","
     a header OFFERS an item (an entity-tag or "*") if the item is reached
     after a run of well-formed entity-tags each preceded by separators;
     a header MATCHES the current tag if it is non-empty and it is the tag
     itself, or offers that very tag (byte identity: the strong comparison;
     a weak tag is a different byte string from the strong one), or offers
     "*" while the object exists (current tag non-empty).
   Whatever follows the first malformed element is ignored; RFC 7232 does not
   give malformed headers a meaning, the code's choice is part of the spec. *)
From Coq Require Import ZArith List Bool Lia.
From Galene Require Import Model.Etag.
Import ListNotations.
Open Scope Z_scope.

(* ------------------------------------------------------------ specification *)

Definition etagc (c : Z) : Prop := c = 33 \/ 35 <= c <= 126 \/ 128 <= c.

Inductive opaque_tag : str -> Prop :=
| opaque_intro : forall body, Forall etagc body -> opaque_tag (34 :: body ++ [34]).

Inductive entity_tag : str -> Prop :=
| et_strong : forall o, opaque_tag o -> entity_tag o
| et_weak : forall o, opaque_tag o -> entity_tag (87 :: 47 :: o).

Definition ows (c : Z) : Prop := c = 32 \/ c = 9 \/ c = 10 \/ c = 13.
Definition sepc (c : Z) : Prop := ows c \/ c = 44.

Inductive item := Star | Tag (t : str).

Inductive offers : str -> item -> Prop :=
| offers_star : forall seps rest,
    Forall sepc seps -> offers (seps ++ 42 :: rest) Star
| offers_tag : forall seps t rest,
    Forall sepc seps -> entity_tag t -> offers (seps ++ t ++ rest) (Tag t)
| offers_skip : forall seps t rest i,
    Forall sepc seps -> entity_tag t -> offers rest i ->
    offers (seps ++ t ++ rest) i.

Definition matches (etag header : str) : Prop :=
  header <> [] /\
  (header = etag \/ offers header (Tag etag) \/ (etag <> [] /\ offers header Star)).

(* a well-formed list header: tags with separators in front, separators after *)
Definition render (l : list (str * str)) (trail : str) : str :=
  concat (map (fun p => fst p ++ snd p) l) ++ trail.
Definition wf_elem (p : str * str) : Prop := Forall sepc (fst p) /\ entity_tag (snd p).

(* ------------------------------------------------------------ basic facts *)

Lemma str_eqb_eq : forall a b, str_eqb a b = true <-> a = b.
Proof.
  induction a as [|x a IH]; destruct b as [|y b]; cbn [str_eqb]; split; intro H;
    try reflexivity; try discriminate.
  - apply andb_true_iff in H. destruct H as [H1 H2].
    apply Z.eqb_eq in H1. apply IH in H2. subst. reflexivity.
  - inversion H; subst. apply andb_true_iff. split.
    + apply Z.eqb_refl.
    + apply IH. reflexivity.
Qed.

Lemma str_eqb_refl : forall a, str_eqb a a = true.
Proof. intro a. apply str_eqb_eq. reflexivity. Qed.

Lemma str_eqb_neq : forall a b, str_eqb a b = false <-> a <> b.
Proof.
  intros a b. split; intro H.
  - intro E. apply str_eqb_eq in E. congruence.
  - destruct (str_eqb a b) eqn:E; [apply str_eqb_eq in E; contradiction | reflexivity].
Qed.

Lemma is_empty_true : forall s, is_empty s = true <-> s = [].
Proof. destruct s; cbn; split; intro H; try reflexivity; discriminate. Qed.

Lemma is_empty_false : forall s, is_empty s = false <-> s <> [].
Proof. destruct s; cbn; split; intro H; try reflexivity; try discriminate; congruence. Qed.

Lemma is_ws_spec : forall c, is_ws c = true <-> ows c.
Proof.
  intro c. unfold is_ws, ows. rewrite !orb_true_iff, !Z.eqb_eq. tauto.
Qed.

Lemma is_etagc_spec : forall c, is_etagc c = true <-> etagc c.
Proof.
  intro c. unfold is_etagc, etagc.
  rewrite !orb_true_iff, andb_true_iff, Z.eqb_eq, !Z.leb_le. tauto.
Qed.

Lemma etagc_not_quote : forall c, etagc c -> c <> 34.
Proof. unfold etagc. intros c H. lia. Qed.

(* ------------------------------------------------------------ trim_left *)

Lemma trim_left_split : forall s,
  exists w, Forall ows w /\ s = w ++ trim_left s.
Proof.
  induction s as [|c t IH]; cbn [trim_left].
  - exists []. split; [constructor | reflexivity].
  - destruct (is_ws c) eqn:E.
    + destruct IH as (w & Hw & Ht). exists (c :: w). split.
      * constructor; [apply is_ws_spec; exact E | exact Hw].
      * cbn. rewrite <- Ht. reflexivity.
    + exists []. split; [constructor | reflexivity].
Qed.

Lemma trim_left_length : forall s, (length (trim_left s) <= length s)%nat.
Proof.
  induction s as [|c t IH]; cbn [trim_left]; [lia|].
  destruct (is_ws c); cbn [length]; lia.
Qed.

Lemma trim_left_head : forall s c t, trim_left s = c :: t -> is_ws c = false.
Proof.
  induction s as [|x s IH]; cbn [trim_left]; intros c t H; [discriminate|].
  destruct (is_ws x) eqn:E.
  - eapply IH; eauto.
  - inversion H; subst. exact E.
Qed.

Lemma trim_left_nows : forall c t, is_ws c = false -> trim_left (c :: t) = c :: t.
Proof. intros c t H. cbn [trim_left]. rewrite H. reflexivity. Qed.

Lemma trim_left_ws : forall w s, Forall ows w -> trim_left (w ++ s) = trim_left s.
Proof.
  induction w as [|c w IH]; intros s H; [reflexivity|].
  inversion H; subst. cbn [app trim_left].
  apply is_ws_spec in H2. rewrite H2. apply IH. assumption.
Qed.

Lemma trim_left_idem : forall s, trim_left (trim_left s) = trim_left s.
Proof.
  intro s. destruct (trim_left s) as [|c t] eqn:E; [reflexivity|].
  apply trim_left_nows. eapply trim_left_head; eauto.
Qed.

(* ------------------------------------------------------------ scanning *)

Lemma scan_body_complete : forall body rest,
  Forall etagc body -> scan_body (body ++ 34 :: rest) = Some (body ++ [34], rest).
Proof.
  induction body as [|c b IH]; intros rest H.
  - reflexivity.
  - inversion H; subst. cbn [app scan_body].
    apply is_etagc_spec in H2. rewrite H2. rewrite IH by assumption. reflexivity.
Qed.

Lemma scan_body_sound : forall s e r,
  scan_body s = Some (e, r) ->
  exists body, Forall etagc body /\ e = body ++ [34] /\ s = e ++ r.
Proof.
  induction s as [|c t IH]; intros e r H; cbn [scan_body] in H; [discriminate|].
  destruct (is_etagc c) eqn:E.
  - destruct (scan_body t) as [[e' r']|] eqn:S; [|discriminate].
    inversion H; subst. destruct (IH _ _ eq_refl) as (body & Hb & He & Ht).
    exists (c :: body). split; [|split].
    + constructor; [apply is_etagc_spec; exact E | exact Hb].
    + cbn. rewrite He. reflexivity.
    + cbn. rewrite <- Ht. reflexivity.
  - destruct (c =? 34) eqn:Q; [|discriminate].
    apply Z.eqb_eq in Q. inversion H; subst.
    exists []. split; [constructor | split; reflexivity].
Qed.

Lemma entity_tag_head : forall t, entity_tag t ->
  exists c t', t = c :: t' /\ (c = 34 \/ c = 87).
Proof.
  intros t H. inversion H as [o Ho|o Ho]; subst.
  - inversion Ho; subst. eexists _, _. split; [reflexivity | left; reflexivity].
  - eexists _, _. split; [reflexivity | right; reflexivity].
Qed.

Lemma entity_tag_nonempty : forall t, entity_tag t -> t <> [].
Proof. intros t H. destruct (entity_tag_head t H) as (c & t' & E & _). congruence. Qed.

Lemma scan_etag_complete : forall t rest,
  entity_tag t -> scan_etag (t ++ rest) = (t, rest).
Proof.
  intros t rest H. inversion H as [o Ho|o Ho]; subst; inversion Ho as [body Hb]; subst.
  - unfold scan_etag. cbn [app]. rewrite trim_left_nows by reflexivity.
    assert (Hw : has_prefix_weak (34 :: (body ++ [34]) ++ rest) = false).
    { unfold has_prefix_weak. destruct ((body ++ [34]) ++ rest); reflexivity. }
    rewrite Hw. cbn [skipn firstn app].
    replace ((body ++ [34]) ++ rest) with (body ++ 34 :: rest)
      by (rewrite <- app_assoc; reflexivity).
    assert (Hl : Nat.ltb (length (34 :: body ++ 34 :: rest)) 2 = false).
    { apply Nat.ltb_ge. cbn [length]. rewrite app_length. cbn [length]. lia. }
    rewrite Hl. cbn [Z.eqb Pos.eqb negb orb].
    rewrite scan_body_complete by assumption. reflexivity.
  - unfold scan_etag. cbn [app]. rewrite trim_left_nows by reflexivity.
    assert (Hw : has_prefix_weak (87 :: 47 :: 34 :: (body ++ [34]) ++ rest) = true) by reflexivity.
    rewrite Hw. cbn [skipn firstn app].
    replace ((body ++ [34]) ++ rest) with (body ++ 34 :: rest)
      by (rewrite <- app_assoc; reflexivity).
    assert (Hl : Nat.ltb (length (34 :: body ++ 34 :: rest)) 2 = false).
    { apply Nat.ltb_ge. cbn [length]. rewrite app_length. cbn [length]. lia. }
    rewrite Hl. cbn [Z.eqb Pos.eqb negb orb].
    rewrite scan_body_complete by assumption. reflexivity.
Qed.

Lemma scan_etag_sound : forall s e r,
  scan_etag s = (e, r) -> e <> [] ->
  entity_tag e /\ trim_left s = e ++ r.
Proof.
  intros s e r H Hne. unfold scan_etag in H.
  set (s' := trim_left s) in *.
  destruct (has_prefix_weak s') eqn:W.
  - (* weak *)
    destruct s' as [|a [|b body]]; try discriminate W.
    cbn [has_prefix_weak] in W. apply andb_true_iff in W. destruct W as [Wa Wb].
    apply Z.eqb_eq in Wa. apply Z.eqb_eq in Wb. subst a b.
    cbn [skipn firstn] in H.
    destruct body as [|q rest]; [inversion H; subst; congruence|].
    destruct ((length (q :: rest) <? 2)%nat || negb (q =? 34)) eqn:G;
      [inversion H; subst; congruence|].
    apply orb_false_iff in G. destruct G as [_ G].
    apply negb_false_iff in G. apply Z.eqb_eq in G. subst q.
    destruct (scan_body rest) as [[e' r']|] eqn:S; [|inversion H; subst; congruence].
    inversion H; subst.
    destruct (scan_body_sound _ _ _ S) as (body & Hb & He & Hr). subst e'.
    split.
    + cbn [app]. apply et_weak. constructor. assumption.
    + cbn [app]. rewrite Hr. reflexivity.
  - cbn [skipn firstn] in H.
    destruct s' as [|q rest]; [inversion H; subst; congruence|].
    destruct ((length (q :: rest) <? 2)%nat || negb (q =? 34)) eqn:G;
      [inversion H; subst; congruence|].
    apply orb_false_iff in G. destruct G as [_ G].
    apply negb_false_iff in G. apply Z.eqb_eq in G. subst q.
    destruct (scan_body rest) as [[e' r']|] eqn:S; [|inversion H; subst; congruence].
    inversion H; subst.
    destruct (scan_body_sound _ _ _ S) as (body & Hb & He & Hr). subst e'.
    split.
    + cbn [app]. apply et_strong. constructor. assumption.
    + cbn [app]. rewrite Hr. reflexivity.
Qed.

(* ------------------------------------------------------------ the loop *)

Lemma loop_trim : forall f etag h,
  etag_match_loop f etag (trim_left h) = etag_match_loop f etag h.
Proof.
  intros [|f] etag h; [reflexivity|].
  cbn [etag_match_loop]. rewrite trim_left_idem. reflexivity.
Qed.

(* the remainder after a scanned tag is shorter *)
Lemma scan_remain_shorter : forall h e r,
  scan_etag h = (e, r) -> e <> [] -> (length r < length (trim_left h))%nat.
Proof.
  intros h e r H Hne. destruct (scan_etag_sound _ _ _ H Hne) as [_ E].
  rewrite E, app_length. destruct e; [congruence|]. cbn [length]. lia.
Qed.

Lemma loop_fuel : forall f1 f2 etag h,
  (length h < f1)%nat -> (length h < f2)%nat ->
  etag_match_loop f1 etag h = etag_match_loop f2 etag h.
Proof.
  induction f1 as [|f1 IH]; intros f2 etag h H1 H2; [lia|].
  destruct f2 as [|f2]; [lia|].
  cbn [etag_match_loop].
  pose proof (trim_left_length h) as L.
  destruct (trim_left h) as [|c t] eqn:T; [reflexivity|].
  cbn [length] in L.
  destruct (c =? 44); [apply IH; lia|].
  destruct (c =? 42); [reflexivity|].
  destruct (scan_etag (c :: t)) as [e r] eqn:S.
  destruct (is_empty e) eqn:Ee; [reflexivity|].
  destruct (str_eqb e etag); [reflexivity|].
  apply is_empty_false in Ee.
  pose proof (scan_remain_shorter _ _ _ S Ee) as Lr.
  rewrite trim_left_nows in Lr by (eapply trim_left_head; eauto).
  cbn [length] in Lr. apply IH; lia.
Qed.

Lemma loop_total : forall f etag h,
  (length h < f)%nat -> etag_match_loop f etag h <> None.
Proof.
  induction f as [|f IH]; intros etag h H; [lia|].
  cbn [etag_match_loop].
  pose proof (trim_left_length h) as L.
  destruct (trim_left h) as [|c t] eqn:T; [discriminate|].
  cbn [length] in L.
  destruct (c =? 44); [apply IH; lia|].
  destruct (c =? 42); [discriminate|].
  destruct (scan_etag (c :: t)) as [e r] eqn:S.
  destruct (is_empty e) eqn:Ee; [discriminate|].
  destruct (str_eqb e etag); [discriminate|].
  apply is_empty_false in Ee.
  pose proof (scan_remain_shorter _ _ _ S Ee) as Lr.
  rewrite trim_left_nows in Lr by (eapply trim_left_head; eauto).
  cbn [length] in Lr. apply IH; lia.
Qed.

Lemma offers_prepend : forall s h i,
  Forall sepc s -> offers h i -> offers (s ++ h) i.
Proof.
  intros s h i Hs Ho. inversion Ho; subst; rewrite app_assoc.
  - apply offers_star. apply Forall_app. split; assumption.
  - apply offers_tag; [apply Forall_app; split; assumption | assumption].
  - apply offers_skip; [apply Forall_app; split; assumption | assumption | assumption].
Qed.

Lemma ows_sepc : forall w, Forall ows w -> Forall sepc w.
Proof. intros w H. eapply Forall_impl; [|exact H]. intros a Ha. left. exact Ha. Qed.

Definition wanted (etag : str) (i : item) : Prop :=
  i = Tag etag \/ (i = Star /\ etag <> []).

Lemma loop_sound : forall f etag h,
  etag_match_loop f etag h = Some true ->
  exists i, wanted etag i /\ offers h i.
Proof.
  induction f as [|f IH]; intros etag h H; [discriminate|].
  cbn [etag_match_loop] in H.
  destruct (trim_left_split h) as (w & Hw & Hh).
  destruct (trim_left h) as [|c t] eqn:T; [discriminate|].
  rewrite Hh. apply ows_sepc in Hw.
  destruct (c =? 44) eqn:C44.
  - apply Z.eqb_eq in C44. subst c.
    destruct (IH _ _ H) as (i & Wi & Oi). exists i. split; [assumption|].
    replace (w ++ 44 :: t) with ((w ++ [44]) ++ t) by (rewrite <- app_assoc; reflexivity).
    apply offers_prepend; [|assumption].
    apply Forall_app. split; [assumption|]. constructor; [right; reflexivity | constructor].
  - destruct (c =? 42) eqn:C42.
    + apply Z.eqb_eq in C42. subst c. inversion H as [E].
      apply negb_true_iff in E. apply is_empty_false in E.
      exists Star. split; [right; split; [reflexivity | assumption]|].
      apply offers_star. assumption.
    + destruct (scan_etag (c :: t)) as [e r] eqn:S.
      destruct (is_empty e) eqn:Ee; [discriminate|].
      apply is_empty_false in Ee.
      destruct (scan_etag_sound _ _ _ S Ee) as [He Ht].
      rewrite trim_left_nows in Ht by (eapply trim_left_head; eauto).
      rewrite Ht.
      destruct (str_eqb e etag) eqn:Eq.
      * apply str_eqb_eq in Eq. subst e. exists (Tag etag). split; [left; reflexivity|].
        apply offers_tag; assumption.
      * destruct (IH _ _ H) as (i & Wi & Oi). exists i. split; [assumption|].
        apply offers_skip; assumption.
Qed.

Lemma loop_skip_seps : forall seps f etag x,
  Forall sepc seps -> (length (seps ++ x) < f)%nat ->
  etag_match_loop f etag (seps ++ x) = etag_match_loop f etag x.
Proof.
  induction seps as [|c s IH]; intros f etag x Hs Hl; [reflexivity|].
  inversion Hs as [|? ? Hc Hs']; subst. cbn [app length] in *.
  destruct Hc as [Hc|Hc].
  - (* whitespace *)
    rewrite <- loop_trim. cbn [trim_left]. apply is_ws_spec in Hc. rewrite Hc.
    rewrite loop_trim. apply IH; [assumption | lia].
  - subst c. destruct f as [|f]; [lia|].
    transitivity (etag_match_loop f etag (s ++ x)); [reflexivity|].
    rewrite IH by (assumption || lia).
    apply loop_fuel; rewrite ?app_length in *; lia.
Qed.

Lemma loop_step_tag : forall f etag t rest,
  entity_tag t ->
  etag_match_loop (S f) etag (t ++ rest) =
  if str_eqb t etag then Some true else etag_match_loop f etag rest.
Proof.
  intros f etag t rest Ht.
  destruct (entity_tag_head t Ht) as (c & t' & Et & Hc).
  assert (Hws : is_ws c = false) by (destruct Hc; subst c; reflexivity).
  assert (H44 : (c =? 44) = false) by (destruct Hc; subst c; reflexivity).
  assert (H42 : (c =? 42) = false) by (destruct Hc; subst c; reflexivity).
  assert (Htr : trim_left (t ++ rest) = t ++ rest).
  { rewrite Et. cbn [app]. apply trim_left_nows. assumption. }
  pose proof (scan_etag_complete t rest Ht) as Hsc.
  cbn [etag_match_loop]. rewrite Htr, Hsc.
  subst t. cbn [app is_empty]. rewrite H44, H42. reflexivity.
Qed.

Lemma loop_complete : forall h i, offers h i ->
  forall f etag, (length h < f)%nat -> wanted etag i ->
  etag_match_loop f etag h = Some true.
Proof.
  induction 1 as [seps rest Hs | seps t rest Hs Ht | seps t rest i Hs Ht Ho IH];
    intros f etag Hl Hw.
  - rewrite loop_skip_seps by assumption.
    destruct f as [|f]; [lia|]. cbn [etag_match_loop trim_left is_ws Z.eqb Pos.eqb orb].
    destruct Hw as [Hw|[_ Hw]]; [discriminate|].
    apply is_empty_false in Hw. rewrite Hw. reflexivity.
  - rewrite loop_skip_seps by assumption.
    destruct Hw as [Hw|[Hw _]]; [|discriminate]. inversion Hw; subst etag.
    destruct f as [|f]; [lia|]. rewrite loop_step_tag by assumption.
    rewrite str_eqb_refl. reflexivity.
  - rewrite loop_skip_seps by assumption.
    destruct f as [|f]; [lia|]. rewrite loop_step_tag by assumption.
    destruct (str_eqb t etag); [reflexivity|].
    apply IH; [|assumption].
    pose proof (entity_tag_nonempty t Ht) as Hne.
    rewrite !app_length in Hl. destruct t; [congruence|]. cbn [length] in Hl. lia.
Qed.

Lemma loop_spec : forall etag h,
  etag_match_loop (S (length h)) etag h = Some true <->
  (offers h (Tag etag) \/ (etag <> [] /\ offers h Star)).
Proof.
  intros etag h. split.
  - intro H. destruct (loop_sound _ _ _ H) as (i & [Wi|[Wi Hne]] & Oi); subst i; tauto.
  - intros [H|[Hne H]].
    + eapply loop_complete; [exact H | lia | left; reflexivity].
    + eapply loop_complete; [exact H | lia | right; split; [reflexivity | assumption]].
Qed.

(* ------------------------------------------------------------ etagMatch *)

Theorem etag_match_total : forall etag header, etag_match etag header <> None.
Proof.
  intros etag header. unfold etag_match.
  destruct (is_empty header); [discriminate|].
  destruct (str_eqb header etag); [discriminate|].
  apply loop_total. lia.
Qed.

Theorem etag_match_spec : forall etag header,
  etag_match etag header = Some true <-> matches etag header.
Proof.
  intros etag header. unfold etag_match, matches.
  destruct (is_empty header) eqn:E.
  - apply is_empty_true in E. subst. split; [discriminate | intros [H _]; congruence].
  - apply is_empty_false in E.
    destruct (str_eqb header etag) eqn:Q.
    + apply str_eqb_eq in Q. split; [intros _; split; [assumption | left; assumption] | reflexivity].
    + apply str_eqb_neq in Q. rewrite loop_spec. split.
      * intro H. split; [assumption | right; assumption].
      * intros [_ [H|H]]; [contradiction | assumption].
Qed.

Corollary etag_match_false : forall etag header,
  etag_match etag header = Some false <-> ~ matches etag header.
Proof.
  intros etag header. pose proof (etag_match_total etag header) as T.
  rewrite <- etag_match_spec.
  destruct (etag_match etag header) as [[|]|]; split; intro H;
    try reflexivity; try discriminate; try congruence.
Qed.

Lemma matches_dec : forall etag header, matches etag header \/ ~ matches etag header.
Proof.
  intros etag header. pose proof (etag_match_total etag header) as T.
  destruct (etag_match etag header) as [[|]|] eqn:E.
  - left. apply etag_match_spec. assumption.
  - right. apply etag_match_false. assumption.
  - congruence.
Qed.

(* the non-existent object (empty tag) is matched by nothing, not even "*" *)
Lemma matches_absent : forall header, ~ matches [] header.
Proof.
  intros header [Hne [H|[H|[H _]]]]; [congruence | | exact (H eq_refl)].
  clear Hne. remember (Tag []) as i eqn:Ei. revert Ei.
  induction H as [| seps t rest Hs Ht | seps t rest i Hs Ht Ho IH]; intro Ei.
  - discriminate.
  - inversion Ei; subst. exact (entity_tag_nonempty _ Ht eq_refl).
  - apply IH. assumption.
Qed.

(* for a current tag that is a well-formed entity-tag (or absent) the
   identity clause is subsumed *)
Lemma matches_wf : forall etag header,
  etag = [] \/ entity_tag etag ->
  (matches etag header <->
   header <> [] /\ (offers header (Tag etag) \/ (etag <> [] /\ offers header Star))).
Proof.
  intros etag header Hw. unfold matches. split.
  - intros [Hne [H|H]]; [|tauto]. split; [assumption|]. left. subst header.
    destruct Hw as [Hw|Hw]; [congruence|].
    pose proof (offers_tag [] etag [] (Forall_nil _) Hw) as O.
    cbn [app] in O. rewrite app_nil_r in O. exact O.
  - intros [Hne H]. split; [assumption | right; assumption].
Qed.

(* ------------------------------------------------------------ list headers *)

Lemma render_cons : forall p l trail,
  render (p :: l) trail = fst p ++ snd p ++ render l trail.
Proof. intros. unfold render. cbn [map concat]. rewrite <- !app_assoc. reflexivity. Qed.

Lemma loop_render : forall l trail f etag,
  Forall wf_elem l -> Forall sepc trail ->
  (length (render l trail) < f)%nat ->
  etag_match_loop f etag (render l trail) =
  Some (existsb (fun t => str_eqb t etag) (map snd l)).
Proof.
  induction l as [|p l IH]; intros trail f etag Hl Ht Hf.
  - unfold render in *. cbn [map concat app existsb] in *.
    replace trail with (trail ++ []) by apply app_nil_r.
    rewrite loop_skip_seps by (rewrite ?app_nil_r in *; assumption).
    destruct f; [lia | reflexivity].
  - inversion Hl as [|? ? [Hs He] Hl']; subst.
    rewrite render_cons in *. rewrite loop_skip_seps by assumption.
    destruct f as [|f]; [lia|]. rewrite loop_step_tag by assumption.
    cbn [map existsb].
    destruct (str_eqb (snd p) etag); [reflexivity|]. cbn [orb].
    apply IH; [assumption | assumption |].
    pose proof (entity_tag_nonempty _ He) as Hne.
    rewrite !app_length in Hf. destruct (snd p); [congruence|]. cbn [length] in Hf. lia.
Qed.

Lemma existsb_str_in : forall etag l,
  existsb (fun t => str_eqb t etag) l = true <-> In etag l.
Proof.
  intros etag l. rewrite existsb_exists. split.
  - intros (x & Hx & E). apply str_eqb_eq in E. subst. assumption.
  - intro H. exists etag. split; [assumption | apply str_eqb_refl].
Qed.

Theorem matches_list : forall l trail etag,
  l <> [] -> Forall wf_elem l -> Forall sepc trail ->
  etag = [] \/ entity_tag etag ->
  (matches etag (render l trail) <-> In etag (map snd l)).
Proof.
  intros l trail etag Hne Hl Ht Hw.
  assert (Hr : render l trail <> []).
  { destruct l as [|p l]; [congruence|]. rewrite render_cons.
    inversion Hl as [|? ? [_ He] _]; subst.
    destruct (entity_tag_head _ He) as (c & t' & Et & _). rewrite Et.
    destruct (fst p); discriminate. }
  rewrite (matches_wf _ _ Hw), <- loop_spec.
  rewrite (loop_render l trail _ etag Hl Ht) by lia.
  rewrite <- existsb_str_in. split.
  - intros [_ H]. inversion H. reflexivity.
  - intro H. split; [assumption | rewrite H; reflexivity].
Qed.

Theorem matches_star : forall seps rest etag,
  Forall sepc seps -> etag = [] \/ entity_tag etag ->
  (matches etag (seps ++ 42 :: rest) <-> etag <> []).
Proof.
  intros seps rest etag Hs Hw.
  rewrite (matches_wf _ _ Hw), <- loop_spec.
  rewrite loop_skip_seps by (assumption || lia).
  cbn [etag_match_loop trim_left is_ws Z.eqb Pos.eqb orb].
  split.
  - intros [_ H]. inversion H as [E]. apply negb_true_iff in E.
    apply is_empty_false in E. assumption.
  - intro H. split; [destruct seps; discriminate|].
    apply is_empty_false in H. rewrite H. reflexivity.
Qed.

(* a weak tag never matches the strong tag with the same opaque part (the
   comparison is byte identity for If-Match AND for If-None-Match) *)
Corollary weak_never_matches_strong : forall o seps trail,
  opaque_tag o -> Forall sepc seps -> Forall sepc trail ->
  ~ matches o (seps ++ (87 :: 47 :: o) ++ trail).
Proof.
  intros o seps trail Ho Hs Ht H.
  assert (E : seps ++ (87 :: 47 :: o) ++ trail = render [(seps, 87 :: 47 :: o)] trail).
  { unfold render. cbn [map concat fst snd app]. rewrite app_nil_r, <- app_assoc. reflexivity. }
  rewrite E in H. apply matches_list in H.
  - cbn in H. destruct H as [H|[]].
    apply (f_equal (@length Z)) in H. cbn [length] in H. lia.
  - discriminate.
  - constructor; [|constructor]. split; [assumption | apply et_weak; assumption].
  - assumption.
  - right. apply et_strong. assumption.
Qed.

(* ------------------------------------------------------------ checkPreconditions *)

Definition get_or_head (m : str) : Prop := m = m_GET \/ m = m_HEAD.

Lemma is_get_or_head_spec : forall m, is_get_or_head m = true <-> get_or_head m.
Proof.
  intro m. unfold is_get_or_head, get_or_head.
  rewrite orb_true_iff, !str_eqb_eq. tauto.
Qed.

(* RFC 7232 section 6 as far as the code implements it (steps 1, 3, 6) *)
Definition cp_spec (method etag im inm : str) (r : cpres) : Prop :=
  (im <> [] /\ ~ matches etag im /\ r = CpDone 412) \/
  ((im = [] \/ matches etag im) /\ inm <> [] /\ matches etag inm /\
   r = CpDone (if is_get_or_head method then 304 else 412)) \/
  ((im = [] \/ matches etag im) /\ (inm = [] \/ ~ matches etag inm) /\ r = CpNotDone).

Theorem check_preconditions_spec : forall method etag im inm,
  cp_spec method etag im inm (check_preconditions method etag im inm).
Proof.
  intros method etag im inm. unfold check_preconditions, cp_spec.
  assert (Hinm :
    forall (Him : im = [] \/ matches etag im),
    let r := if is_empty inm then CpNotDone
             else match etag_match etag inm with
                  | None => CpOutOfFuel
                  | Some true => if is_get_or_head method then CpDone 304 else CpDone 412
                  | Some false => CpNotDone
                  end in
    ((im = [] \/ matches etag im) /\ inm <> [] /\ matches etag inm /\
       r = CpDone (if is_get_or_head method then 304 else 412)) \/
    ((im = [] \/ matches etag im) /\ (inm = [] \/ ~ matches etag inm) /\ r = CpNotDone)).
  { intros Him r. subst r. destruct (is_empty inm) eqn:E.
    - apply is_empty_true in E. right. tauto.
    - apply is_empty_false in E.
      pose proof (etag_match_total etag inm) as T.
      destruct (etag_match etag inm) as [[|]|] eqn:M; [| |congruence].
      + apply etag_match_spec in M. left.
        split; [assumption|]. split; [assumption|]. split; [assumption|].
        destruct (is_get_or_head method); reflexivity.
      + apply etag_match_false in M. right. tauto. }
  destruct (is_empty im) eqn:E.
  - apply is_empty_true in E. right. apply Hinm. left. assumption.
  - apply is_empty_false in E.
    pose proof (etag_match_total etag im) as T.
    destruct (etag_match etag im) as [[|]|] eqn:M; [| |congruence].
    + apply etag_match_spec in M. right. apply Hinm. right. assumption.
    + apply etag_match_false in M. left. tauto.
Qed.

Theorem cp_never_out_of_fuel : forall m e im inm,
  check_preconditions m e im inm <> CpOutOfFuel.
Proof.
  intros m e im inm. pose proof (check_preconditions_spec m e im inm) as H.
  destruct H as [(_ & _ & H)|[(_ & _ & _ & H)|(_ & _ & H)]]; rewrite H;
    try discriminate; try (destruct (is_get_or_head m); discriminate).
Qed.

(* If-Match: a request that is let through presented the current tag *)
Theorem if_match_exact : forall m etag im inm,
  im <> [] ->
  (~ matches etag im -> check_preconditions m etag im inm = CpDone 412) /\
  (check_preconditions m etag im inm = CpNotDone -> matches etag im).
Proof.
  intros m etag im inm Him. pose proof (check_preconditions_spec m etag im inm) as H.
  unfold cp_spec in H. split.
  - intro Hn. destruct H as [(A & B & C)|[(A & B & C & D)|(A & B & C)]];
      [assumption | exfalso; tauto | exfalso; tauto].
  - intro E. destruct H as [(A & B & C)|[(A & B & C & D)|(A & B & C)]];
      [congruence | tauto | tauto].
Qed.

Theorem if_none_match_exact : forall m etag im inm,
  im = [] \/ matches etag im -> inm <> [] ->
  (matches etag inm ->
   check_preconditions m etag im inm = CpDone (if is_get_or_head m then 304 else 412)) /\
  (~ matches etag inm -> check_preconditions m etag im inm = CpNotDone).
Proof.
  intros m etag im inm Him Hinm.
  pose proof (check_preconditions_spec m etag im inm) as H. unfold cp_spec in H.
  split; intro Hm.
  - destruct H as [(A & B & C)|[(A & B & C & D)|(A & B & C)]];
      [exfalso; tauto | assumption | exfalso; tauto].
  - destruct H as [(A & B & C)|[(A & B & C & D)|(A & B & C)]];
      [exfalso; tauto | exfalso; tauto | assumption].
Qed.

Theorem status_304_iff : forall m etag im inm,
  check_preconditions m etag im inm = CpDone 304 <->
  (get_or_head m /\ (im = [] \/ matches etag im) /\ inm <> [] /\ matches etag inm).
Proof.
  intros m etag im inm. pose proof (check_preconditions_spec m etag im inm) as H.
  unfold cp_spec in H. rewrite <- is_get_or_head_spec. split.
  - intro E. destruct H as [(A & B & C)|[(A & B & C & D)|(A & B & C)]].
    + rewrite C in E. discriminate.
    + destruct (is_get_or_head m).
      * split; [reflexivity|]. split; [assumption|]. split; assumption.
      * rewrite D in E. discriminate.
    + rewrite C in E. discriminate.
  - intros (G & A & B & C).
    destruct H as [(A' & B' & C')|[(A' & B' & C' & D')|(A' & B' & C')]].
    + exfalso. tauto.
    + rewrite D', G. reflexivity.
    + exfalso. tauto.
Qed.

(* a header that is one well-formed entity-tag is matched by that tag only,
   whatever the current tag is (even a malformed one) *)
Lemma matches_single_tag : forall e t, entity_tag t -> matches e t -> e = t.
Proof.
  intros e t Ht M. apply etag_match_spec in M. unfold etag_match in M.
  destruct (is_empty t); [discriminate|].
  destruct (str_eqb t e) eqn:Q; [apply str_eqb_eq in Q; congruence|].
  pose proof (loop_step_tag (length t) e t [] Ht) as L. rewrite app_nil_r in L.
  rewrite L, Q in M. destruct (length t); cbn in M; discriminate.
Qed.

(* The HTTP token handlers (api_step of Model/TokenStore.v): every request is a
   short history of store operations in which a write carries the tag that
   the handler has just read; a conditional request succeeds only with the
   current tag of an existing token; a refused request changes nothing. *)
From Coq Require Import ZArith List Bool Lia.
From Galene Require Import Model.TokenStore Proofs.TokenStoreBasics Proofs.TokenStoreInv
  Proofs.TokenStoreProps Proofs.TokenStoreCond Proofs.TokenStoreTheorems.
Import ListNotations.
Open Scope Z_scope.

Definition is2xx (c : Z) : Prop := 200 <= c < 300.

(* the store operations a request performs *)
Definition api_ops (s : state) (q : areq) : list op :=
  match q with
  | AGet g n im inm => [OGet n]
  | AList g => [OList g]
  | APost g t st0 st => [ODo (WUpdate (with_name t g (tk_name t)) None st0 st)]
  | APut g n im inm t st0 st =>
    let o := snd (step s (OGet n)) in
    let proceed (e : etag) :=
      match check_pre false e im inm with
      | Some _ => [OGet n]
      | None => [OGet n; ODo (WUpdate (with_name t g n) e st0 st)]
      end in
    match o_res o, o_toks o with
    | ROk, old :: _ => if negb (tk_group old =? g) then [OGet n] else proceed (o_etag o)
    | RNotExist, _ => proceed None
    | _, _ => [OGet n]
    end
  | ADelete g n im inm st =>
    let o := snd (step s (OGet n)) in
    match o_res o, o_toks o with
    | ROk, old :: _ =>
      if negb (tk_group old =? g) then [OGet n]
      else match check_pre false (o_etag o) im inm with
           | Some _ => [OGet n]
           | None => [OGet n; ODo (WDelete n (o_etag o) st)]
           end
    | _, _ => [OGet n]
    end
  end.

Lemma api_is_history : forall s q, fst (api_step s q) = run s (api_ops s q).
Proof.
  intros s q. destruct q as [g n im inm | g | g t st0 st | g n im inm t st0 st | g n im inm st];
    unfold api_step, api_step_f, api_ops; cbn [wstep].
  - destruct (step s (OGet n)) as [s1 o] eqn:E. cbn [run]. rewrite E. cbn [fst].
    destruct (o_res o), (o_toks o); try reflexivity.
    destruct (negb (tk_group t =? g)); [reflexivity|].
    destruct (check_pre true (o_etag o) im inm); reflexivity.
  - destruct (step s (OList g)) as [s1 o] eqn:E. cbn [run]. rewrite E. cbn [fst].
    destruct (o_res o); reflexivity.
  - destruct (step s (ODo _)) as [s1 o] eqn:E. cbn [run]. rewrite E. cbn [fst].
    destruct (o_res o); reflexivity.
  - destruct (step s (OGet n)) as [s1 o] eqn:E. cbn [snd].
    assert (P : forall e,
      fst (match check_pre false e im inm with
           | Some c => (s1, mkResp c None [])
           | None =>
             let (s2, o2) := step s1 (ODo (WUpdate (with_name t g n) e st0 st)) in
             match o_res o2 with
             | ROk => (s2, mkResp (match e with None => 201 | Some _ => 204 end) None [])
             | r => (s2, mkResp (http_error r) None [])
             end
           end) =
      run s (match check_pre false e im inm with
             | Some _ => [OGet n]
             | None => [OGet n; ODo (WUpdate (with_name t g n) e st0 st)]
             end)).
    { intros e. destruct (check_pre false e im inm).
      - cbn [run]. rewrite E. reflexivity.
      - cbn [run]. rewrite E. cbn [fst].
        destruct (step s1 (ODo _)) as [s2 o2]. cbn [fst]. destruct (o_res o2); reflexivity. }
    destruct (o_res o), (o_toks o); try (cbn [run]; rewrite E; reflexivity); try apply P.
    destruct (negb (tk_group t0 =? g)); [cbn [run]; rewrite E; reflexivity | apply P].
  - destruct (step s (OGet n)) as [s1 o] eqn:E. cbn [snd].
    destruct (o_res o), (o_toks o); try (cbn [run]; rewrite E; reflexivity).
    destruct (negb (tk_group t =? g)); [cbn [run]; rewrite E; reflexivity|].
    destruct (check_pre false (o_etag o) im inm); [cbn [run]; rewrite E; reflexivity|].
    cbn [run]. rewrite E. cbn [fst].
    destruct (step s1 (ODo _)) as [s2 o2]. cbn [fst]. destruct (o_res o2); reflexivity.
Qed.

Lemma not2xx : forall c, c = 304 \/ c = 404 \/ c = 409 \/ c = 412 \/ c = 500 -> ~ is2xx c.
Proof. intros c H [H1 H2]. lia. Qed.

Lemma http_error_not2xx : forall r, ~ is2xx (http_error r).
Proof. intros r. apply not2xx. destruct r; cbn; auto. Qed.

Lemma check_pre_write_status : forall e im inm c, check_pre false e im inm = Some c -> c = 412.
Proof.
  intros e im inm c. unfold check_pre.
  destruct (match im with Some h => negb (etag_match e h) | None => false end);
    [intros H; inversion H; reflexivity|].
  destruct (match inm with Some h => etag_match e h | None => false end); intros H; inversion H; reflexivity.
Qed.

Lemma check_pre_if_match : forall read e t inm,
  check_pre read e (Some (HTag t)) inm = None -> e = Some t.
Proof.
  intros read e t inm. unfold check_pre. cbn [etag_match].
  destruct (etag_eqb e (Some t)) eqn:E; cbn [negb]; [| discriminate].
  intros _. apply etag_eqb_eq; exact E.
Qed.

(* a PUT that carries If-Match: <tag> succeeds only if the token exists and
   the tag is its current one -- in particular not when the token has been
   deleted since the tag was read *)
Lemma api_put_if_match : forall s g n e inm t st0 st,
  is2xx (a_status (snd (api_step s (APut g n (Some (HTag e)) inm t st0 st)))) ->
  o_res (snd (step s (OGet n))) = ROk /\ o_etag (snd (step s (OGet n))) = Some e.
Proof.
  intros s g n e inm t st0 st. unfold api_step, api_step_f; cbn [wstep].
  destruct (step s (OGet n)) as [s1 o] eqn:E. cbn [snd].
  assert (Hnone : check_pre false None (Some (HTag e)) inm = Some 412) by reflexivity.
  destruct (o_res o) eqn:R, (o_toks o) eqn:T; cbn [snd a_status];
    try (intros H; exfalso; revert H; apply not2xx; cbn; auto; fail);
    try (rewrite Hnone; cbn [snd a_status]; intros H; exfalso; revert H; apply not2xx; auto; fail).
  destruct (negb (tk_group t0 =? g)); cbn [snd a_status];
    [intros H; exfalso; revert H; apply not2xx; auto|].
  destruct (check_pre false (o_etag o) (Some (HTag e)) inm) as [c|] eqn:C.
  - cbn [snd a_status]. rewrite (check_pre_write_status _ _ _ _ C).
    intros H; exfalso; revert H; apply not2xx; auto.
  - intros _. split; [reflexivity | eapply check_pre_if_match; exact C].
Qed.

Lemma api_delete_if_match : forall s g n e inm st,
  is2xx (a_status (snd (api_step s (ADelete g n (Some (HTag e)) inm st)))) ->
  o_res (snd (step s (OGet n))) = ROk /\ o_etag (snd (step s (OGet n))) = Some e.
Proof.
  intros s g n e inm st. unfold api_step, api_step_f; cbn [wstep].
  destruct (step s (OGet n)) as [s1 o] eqn:E. cbn [snd].
  destruct (o_res o) eqn:R, (o_toks o) eqn:T; cbn [snd a_status];
    try (intros H; exfalso; revert H; apply not2xx; cbn; auto; fail).
  destruct (negb (tk_group t =? g)); cbn [snd a_status];
    [intros H; exfalso; revert H; apply not2xx; auto|].
  destruct (check_pre false (o_etag o) (Some (HTag e)) inm) as [c|] eqn:C.
  - cbn [snd a_status]. rewrite (check_pre_write_status _ _ _ _ C).
    intros H; exfalso; revert H; apply not2xx; auto.
  - intros _. split; [reflexivity | eapply check_pre_if_match; exact C].
Qed.

(* a write operation of the store that is refused leaves the file alone *)
Lemma do_refused_file : forall s w,
  o_res (snd (step s (ODo w))) <> ROk -> s_file (fst (step s (ODo w))) = s_file s.
Proof.
  intros [m f] w. cbn [step s_mem s_file snd fst o_res].
  destruct (wplan_cases m f w) as [m1 lr r L -> _ | m1 e0 fl toks2 st rb L -> Hst K -> | m1 e0 t st0 st L -> Lk ->].
  - intros _. reflexivity.
  - rewrite Hst. destruct (rewrite_plan_cases toks2 fl st rb) as [[_ ->]|[_ ->]]; cbn [pl_res]; intros H; exfalso; apply H; reflexivity.
  - cbn [pl_res]. intros H; exfalso; apply H; reflexivity.
Qed.

Lemma get_file : forall s n, s_file (fst (step s (OGet n))) = s_file s.
Proof.
  intros [m f] n. cbn [step s_mem s_file].
  destruct (load m f) as [m1 [e|]]; [destruct (tlookup n (m_tokens m1))|]; reflexivity.
Qed.
Lemma list_file : forall s g, s_file (fst (step s (OList g))) = s_file s.
Proof. intros [m f] g. cbn [step s_mem s_file]. destruct (load m f) as [m1 [e|]]; reflexivity. Qed.

(* a request that is not answered 2xx leaves the token file as it was *)
Lemma api_refused_unchanged : forall s q,
  ~ is2xx (a_status (snd (api_step s q))) -> s_file (fst (api_step s q)) = s_file s.
Proof.
  intros s q. destruct q as [g n im inm | g | g t st0 st | g n im inm t st0 st | g n im inm st];
    unfold api_step, api_step_f; cbn [wstep].
  - intros _. pose proof (get_file s n) as G. destruct (step s (OGet n)) as [s1 o]. cbn [fst] in G.
    destruct (o_res o), (o_toks o); cbn [fst]; auto.
    destruct (negb (tk_group t =? g)); cbn [fst]; auto.
    destruct (check_pre true (o_etag o) im inm); cbn [fst]; auto.
  - intros _. pose proof (list_file s g) as G. destruct (step s (OList g)) as [s1 o]. cbn [fst] in G.
    destruct (o_res o); cbn [fst]; auto.
  - pose proof (do_refused_file s (WUpdate (with_name t g (tk_name t)) None st0 st)) as D.
    destruct (step s (ODo _)) as [s1 o]. cbn [fst snd] in *.
    destruct (o_res o) eqn:R; cbn [fst snd a_status]; intros H; try (apply D; discriminate).
    exfalso. apply H. unfold is2xx; lia.
  - pose proof (get_file s n) as G. destruct (step s (OGet n)) as [s1 o]. cbn [fst] in G.
    assert (P : forall e,
      let r := match check_pre false e im inm with
               | Some c => (s1, mkResp c None [])
               | None =>
                 let (s2, o2) := step s1 (ODo (WUpdate (with_name t g n) e st0 st)) in
                 match o_res o2 with
                 | ROk => (s2, mkResp (match e with None => 201 | Some _ => 204 end) None [])
                 | r => (s2, mkResp (http_error r) None [])
                 end
               end in
      ~ is2xx (a_status (snd r)) -> s_file (fst r) = s_file s).
    { intros e. cbv zeta. destruct (check_pre false e im inm); [intros _; exact G|].
      pose proof (do_refused_file s1 (WUpdate (with_name t g n) e st0 st)) as D.
      destruct (step s1 (ODo _)) as [s2 o2]. cbn [fst snd] in *.
      destruct (o_res o2) eqn:R; cbn [fst snd a_status]; intros H;
        try (rewrite D by discriminate; exact G).
      exfalso. apply H. unfold is2xx. destruct e; lia. }
    destruct (o_res o), (o_toks o); try (intros _; exact G); try apply P.
    destruct (negb (tk_group t0 =? g)); [intros _; exact G | apply P].
  - pose proof (get_file s n) as G. destruct (step s (OGet n)) as [s1 o]. cbn [fst] in G.
    destruct (o_res o), (o_toks o); try (intros _; exact G).
    destruct (negb (tk_group t =? g)); [intros _; exact G|].
    destruct (check_pre false (o_etag o) im inm); [intros _; exact G|].
    pose proof (do_refused_file s1 (WDelete n (o_etag o) st)) as D.
    destruct (step s1 (ODo _)) as [s2 o2]. cbn [fst snd] in *.
    destruct (o_res o2) eqn:R; cbn [fst snd a_status]; intros H;
      try (rewrite D by discriminate; exact G).
    exfalso. apply H. unfold is2xx; lia.
Qed.

(* the seeded scenario, on the model: A reads the tag, B deletes the token,
   A's PUT with If-Match is refused with 412 and the token stays deleted *)
Definition tX : token := mkTok 1 1 (Some 3600) None 1.
Definition tY : token := mkTok 2 1 (Some 3600) None 2.
Definition Sx (k : Z) : stamp := mkSt (100 + k) k.
Lemma api_put_after_delete_example :
  let s0 := fst (api_step (fst (api_step init_state (APut 1 1 None None tX (Sx 1) (Sx 2))))
                          (APut 1 2 None None tY (Sx 3) (Sx 4))) in
  let (s1, ra) := api_step s0 (AGet 1 1 None None) in
  let (s2, rb) := api_step s1 (ADelete 1 1 None None (Sx 5)) in
  let (s3, rc) := api_step s2 (APut 1 1 (Some (HTag (Sx 4))) None tX (Sx 6) (Sx 7)) in
  let (s4, rd) := api_step s3 (AGet 1 1 None None) in
  a_status ra = 200 /\ a_etag ra = Some (Sx 4) /\ a_status rb = 204 /\
  a_status rc = 412 /\ a_status rd = 404.
Proof. vm_compute. repeat split; reflexivity. Qed.

(* ================= a refused update changes nothing ================= *)

(* the file after a system call of a write operation failed *)
Lemma fail_file_cases : forall m f w k,
  (k < length (pl_prog (wplan m f w)))%nat ->
  let d := d_main (fail_disk (mkDisk f None) (pl_prog (wplan m f w)) k) in
  d = f \/ (f = None /\ exists st0, d = Some (mkFile [] st0) /\ In st0 (wop_stamps w)).
Proof.
  intros m f w k Hk. cbv zeta.
  destruct (wplan_cases m f w) as [m1 lr r L E _ | m1 e0 fl toks2 st rb L E Hst K E2 | m1 e0 t st0 st L E Lk E2].
  - rewrite E in Hk. cbn in Hk. lia.
  - left. subst f. rewrite E2 in *. rewrite Hst in *. rewrite fail_disk_main. unfold crash_disk.
    destruct (rewrite_plan_cases toks2 fl st rb) as [[_ R]|[_ R]]; rewrite R in *; cbn [pl_prog] in *.
    + cbn in Hk. replace k with 0%nat by lia. reflexivity.
    + rewrite rewrite_prog_split in Hk |- *.
      rewrite fail_last; [reflexivity | apply rewrite_pre_tmp_only | exact Hk].
  - rewrite E2 in *. rewrite E. cbn [pl_prog add_prog length wop_stamps] in *.
    destruct k as [|[|k]]; [left; reflexivity | | lia].
    destruct f as [fl|]; [left; reflexivity|].
    right. split; [reflexivity|]. exists st0. split; [reflexivity | left; reflexivity].
Qed.

(* a freshly started server on two files that hold the same set *)
Lemma restart_get_empty_file : forall st0 n, st_mtime st0 <> 0 ->
  snd (step (mkState reset_mem (Some (mkFile [] st0))) (OGet n)) =
  snd (step (mkState reset_mem None) (OGet n)).
Proof.
  intros st0 n H. cbn [step s_mem s_file load f_st f_lines].
  assert (E : stamp_eqb (m_st reset_mem) st0 = false).
  { apply stamp_eqb_neq. cbn. intros X. apply H. rewrite <- X. reflexivity. }
  rewrite E. reflexivity.
Qed.

(* what the server answers after a refused write (tag mismatch, missing
   token, or a failed system call) is what it answered before *)
Lemma refused_same_view : forall used s o w,
  Inv used s -> fresh_stamps used (wop_stamps w) -> not_expire w ->
  (o = ODo w \/ exists k, o = OFail w k) ->
  o_res (snd (step s o)) <> ROk ->
  forall n, snd (step (fst (step s o)) (OGet n)) = snd (step s (OGet n)).
Proof.
  intros used s o w HI Hf Hne Ho Hr n.
  assert (HI' : Inv (op_stamps o ++ used) (fst (step s o))).
  { apply step_Inv; [exact HI | |].
    - destruct Ho as [->|(k & ->)]; exact Hf.
    - destruct Ho as [->|(k & ->)]; [exact I | exact Hne]. }
  rewrite (mirror_get _ _ n HI'), (mirror_get _ _ n HI). unfold restart_state.
  assert (Hfile : s_file (fst (step s o)) = s_file s \/
                  (s_file s = None /\ exists st0, s_file (fst (step s o)) = Some (mkFile [] st0) /\ st_mtime st0 <> 0)).
  { destruct Ho as [->|(k & ->)].
    - left. apply do_refused_file; exact Hr.
    - destruct s as [m f]. cbn [step s_mem s_file] in *.
      destruct (k <? length (pl_prog (wplan m f w)))%nat eqn:Hk.
      + apply Nat.ltb_lt in Hk. cbn [fst s_file].
        destruct (fail_file_cases m f w k Hk) as [H|(H0 & st0 & H & Hin)]; [left; exact H|].
        right. split; [exact H0|]. exists st0. split; [exact H | apply (Hf _ Hin)].
      + left. cbn [fst s_file snd o_res] in *.
        apply (do_refused_file (mkState m f) w). exact Hr. }
  destruct Hfile as [->|(H0 & st0 & -> & Hmt)]; [reflexivity|].
  rewrite H0. apply restart_get_empty_file; exact Hmt.
Qed.

(* ================= the signalling commands ================= *)

Definition wop_op (fault : bool) (s : state) (w : wop) : op :=
  if fault then OFail w (fd_fail_index (pl_prog (wplan (s_mem s) (s_file s) w))) else ODo w.

Lemma wstep_is_op : forall fault s w, wstep fault s w = step s (wop_op fault s w).
Proof. intros [|] s w; reflexivity. Qed.

Definition sig_ops (fault : bool) (s : state) (q : sreq) : list op :=
  match q with
  | SMake t st0 st => [wop_op fault s (WUpdate t None st0 st)]
  | SEdit g n exp nbf st0 st =>
    let o := snd (step s (OGet n)) in
    let s1 := fst (step s (OGet n)) in
    match o_res o, o_toks o with
    | ROk, old :: _ =>
      if negb (tk_group old =? g) then [OGet n]
      else [OGet n;
            wop_op fault s1
              (WUpdate (mkTok (tk_name old) (tk_group old)
                              (match exp with Some e => Some e | None => tk_exp old end)
                              (match nbf with Some b => Some b | None => tk_nbf old end)
                              (tk_data old))
                       (o_etag o) st0 st)]
    | _, _ => [OGet n]
    end
  | SList g => [OList g]
  end.

(* a signalling command is a history of store operations: edittoken is a Get
   followed by an Update that carries the tag just read *)
Lemma sig_is_history : forall fault s q, fst (sig_step fault s q) = run s (sig_ops fault s q).
Proof.
  intros fault s q. destruct q as [t st0 st | g n exp nbf st0 st | g]; unfold sig_step, sig_ops.
  - rewrite wstep_is_op. reflexivity.
  - destruct (step s (OGet n)) as [s1 o] eqn:E. cbn [fst snd].
    destruct (o_res o), (o_toks o); try (cbn [run]; rewrite E; reflexivity).
    destruct (negb (tk_group t =? g)); [cbn [run]; rewrite E; reflexivity|].
    rewrite wstep_is_op. cbn [run]. rewrite E. reflexivity.
  - reflexivity.
Qed.

(* over histories: after a refused update -- through any path, for any
   reason -- the running server answers as before the update, and as a
   restarted server *)
Lemma refused_update_hist : forall h o w,
  fresh [] (h ++ [o]) -> Forall ok_op h -> not_expire w ->
  (o = ODo w \/ exists k, o = OFail w k) ->
  let s := run init_state h in
  o_res (snd (step s o)) <> ROk ->
  forall n,
    snd (step (fst (step s o)) (OGet n)) = snd (step s (OGet n)) /\
    snd (step (fst (step s o)) (OGet n)) = snd (step (fst (step (fst (step s o)) ORestart)) (OGet n)).
Proof.
  intros h o w Hf Hok Hne Ho s Hr n.
  apply fresh_app in Hf. destruct Hf as [Hf0 [Hf1 _]].
  pose proof (reach_Inv h Hf0 Hok) as HI. fold s in HI.
  assert (Hst : op_stamps o = wop_stamps w) by (destruct Ho as [->|(k & ->)]; reflexivity).
  rewrite Hst in Hf1.
  split.
  - eapply refused_same_view; eassumption.
  - rewrite restart_is_restart_state. eapply mirror_get.
    rewrite <- Hst in Hf1.
    apply step_Inv; [exact HI | exact Hf1 |].
    destruct Ho as [->|(k & ->)]; [exact I | exact Hne].
Qed.

(* the seeded scenario on the model: a token is revoked by moving its expiry
   into the past; an edit that would revive it is refused because the file
   cannot be rewritten; the token keeps the revoked expiry *)
Lemma sig_refused_edit_example :
  let s0 := fst (sig_step false (fst (sig_step false init_state (SMake tX (Sx 1) (Sx 2)))) (SMake tY (Sx 3) (Sx 4))) in
  let s1 := fst (sig_step false s0 (SEdit 1 1 (Some (-3600)) None (Sx 5) (Sx 6))) in
  let (s2, o) := sig_step true s1 (SEdit 1 1 (Some 86400) None (Sx 7) (Sx 8)) in
  o_res o = ROther /\
  o_toks (snd (step s2 (OGet 1))) = [mkTok 1 1 (Some (-3600)) None 1] /\
  s_file s2 = s_file s1.
Proof. vm_compute. repeat split; reflexivity. Qed.

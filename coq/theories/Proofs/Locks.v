(* The lock discipline extracted from /repo (Generated/Locks.v, regenerated on
   every run by gen/locks.go) satisfies the finite checks below; each check is
   a [forallb ... = true] fact computed by the kernel ([vm_compute]) and lifted
   to its Prop reading.  When the code changes so that an access loses its
   lock, a "called locked" function is called without it, the translator
   meets a shape it does not understand, or a new lock-order edge closes a
   cycle, the corresponding lemma no longer checks. *)
From Coq Require Import List String Bool Arith Lia Relations.
From Galene Require Import Lib.LockOrder Generated.Locks.
Import ListNotations.
Open Scope string_scope.

Definition mem (s : string) (l : list string) : bool := existsb (String.eqb s) l.

Lemma mem_In : forall s l, mem s l = true -> In s l.
Proof.
  intros s l H. unfold mem in H. apply existsb_exists in H. destruct H as (x & Hin & Heq).
  apply String.eqb_eq in Heq. subst x. exact Hin.
Qed.

(* The finite checks are stated as "the list of offending entries is empty"
   so that, when one fails, coqc's error message shows the offending entries
   (the witness) instead of "false <> true". *)
Definition offending {A} (ok : A -> bool) (l : list A) : list A := filter (fun x => negb (ok x)) l.

Lemma no_offending : forall A (ok : A -> bool) l, offending ok l = [] -> forallb ok l = true.
Proof.
  intros A ok l. unfold offending. induction l as [|x l IH]; cbn [filter forallb]; intro H; [reflexivity|].
  destruct (ok x); cbn [negb] in H; [exact (IH H)|discriminate].
Qed.

(* ---------------------------------------------------------------- guarded accesses *)

Definition access_ok (a : access) : bool :=
  let '(_, _, _, _, held, required, _) := a in mem required held.

Lemma accesses_ok_witness : offending access_ok accesses = [].
Proof. vm_compute. reflexivity. Qed.

Lemma accesses_ok : forallb access_ok accesses = true.
Proof. exact (no_offending _ _ _ accesses_ok_witness). Qed.

Theorem guarded_accesses : forall field kind fn pos held required inst,
  In (field, kind, fn, pos, held, required, inst) accesses -> In required held.
Proof.
  intros field kind fn pos held required inst Hin.
  pose proof (proj1 (forallb_forall access_ok accesses) accesses_ok _ Hin) as H.
  exact (mem_In _ _ H).
Qed.

(* every guarded field of the table is in fact accessed somewhere (the
   table is not vacuous), and every access requires a lock of [guard_locks] *)
Definition field_of (a : access) : string := let '(f, _, _, _, _, _, _) := a in f.
Definition required_of (a : access) : string := let '(_, _, _, _, _, r, _) := a in r.

Lemma accesses_require_guard_locks :
  forallb (fun a => mem (required_of a) guard_locks) accesses = true.
Proof. vm_compute. reflexivity. Qed.

Definition accessed (f : string) : bool := existsb (fun a => String.eqb (field_of a) f) accesses.

Lemma listed_state_is_accessed :
  forallb accessed
    ["group.Group.clients"; "group.Group.locked"; "group.Group.description";
     "group.Group.history"; "group.Group.timestamp"; "group.Group.data";
     "group.groups.groups"; "unbounded.Channel.queue";
     "packetcache.Cache.entries"; "packetmap.Map.entries"; "token.state.tokens"] = true.
Proof. vm_compute. reflexivity. Qed.

(* ---------------------------------------------------------------- "called locked" obligations *)

(* A "called locked" function that is called without its lock, known and
   reported (finding N1 of the C13 component): diskwriter.newDiskConn calls
   conn.warn ("called locked", diskConn.mu) at the failure branch of
   t.remote.AddLocal without conn.mu.  It concerns diskConn.lastWarning only
   (no field listed in the property), and rtpUpTrack.AddLocal never fails. *)
Definition obligation_exceptions : list (string * string) :=
  [("diskwriter.diskConn.warn", "diskwriter.newDiskConn")].

Definition pair_eqb (x y : string * string) : bool :=
  String.eqb (fst x) (fst y) && String.eqb (snd x) (snd y).

Definition excepted (callee caller : string) : bool :=
  existsb (pair_eqb (callee, caller)) obligation_exceptions.

Definition obligation_ok (o : obligation) : bool :=
  let '(callee, _, caller, _, held, required, _) := o in
  mem required held || excepted callee caller.

Lemma obligations_ok_witness : offending obligation_ok call_obligations = [].
Proof. vm_compute. reflexivity. Qed.

Lemma obligations_ok : forallb obligation_ok call_obligations = true.
Proof. exact (no_offending _ _ _ obligations_ok_witness). Qed.

Lemma excepted_In : forall callee caller, excepted callee caller = true ->
  In (callee, caller) obligation_exceptions.
Proof.
  intros callee caller H. unfold excepted in H. apply existsb_exists in H.
  destruct H as ([a b] & Hin & Heq). unfold pair_eqb in Heq. cbn [fst snd] in Heq.
  apply andb_true_iff in Heq. destruct Heq as [H1 H2].
  apply String.eqb_eq in H1. apply String.eqb_eq in H2. subst. exact Hin.
Qed.

Theorem called_locked : forall callee why caller pos held required inst,
  In (callee, why, caller, pos, held, required, inst) call_obligations ->
  In required held \/ In (callee, caller) obligation_exceptions.
Proof.
  intros callee why caller pos held required inst Hin.
  pose proof (proj1 (forallb_forall obligation_ok call_obligations) obligations_ok _ Hin) as H.
  cbn beta iota in H. apply orb_true_iff in H. destruct H as [H|H].
  - left. exact (mem_In _ _ H).
  - right. exact (excepted_In _ _ H).
Qed.

(* the obligations about the locks of the property's state have no exception *)
Definition guard_obligation_ok (o : obligation) : bool :=
  let '(_, _, _, _, held, required, _) := o in
  negb (mem required guard_locks) || mem required held.

Lemma guard_obligations_witness : offending guard_obligation_ok call_obligations = [].
Proof. vm_compute. reflexivity. Qed.

Lemma guard_obligations_ok : forallb guard_obligation_ok call_obligations = true.
Proof. exact (no_offending _ _ _ guard_obligations_witness). Qed.

Theorem called_locked_guard : forall callee why caller pos held required inst,
  In (callee, why, caller, pos, held, required, inst) call_obligations ->
  In required guard_locks -> In required held.
Proof.
  intros callee why caller pos held required inst Hin Hg.
  pose proof (proj1 (forallb_forall _ call_obligations) guard_obligations_ok _ Hin) as H.
  unfold guard_obligation_ok in H. cbn beta iota in H. apply orb_true_iff in H. destruct H as [H|H].
  - exfalso. apply negb_true_iff in H.
    assert (Hm : mem required guard_locks = true).
    { unfold mem. apply existsb_exists. exists required. split; [exact Hg|apply String.eqb_refl]. }
    rewrite Hm in H. discriminate.
  - exact (mem_In _ _ H).
Qed.

(* ---------------------------------------------------------------- the lock of the SAME object *)

(* Lock classes are by type; the translator also records through which
   expression the lock was taken and through which the field is accessed (or
   on which receiver/argument a "called locked" callee works).  They agree
   everywhere except in the two methods below, which lock the package-level
   store [tokens] and work on their receiver [state]; their only callers are
   token.Update / token.Delete, which pass &tokens (finding N2: harmless
   today, wrong for any second instance of the store). *)
Definition instance_exceptions : list string := ["token.state.Update"; "token.state.Delete"].

Definition access_same (a : access) : bool :=
  let '(_, _, fn, _, _, _, inst) := a in String.eqb inst "same" || mem fn instance_exceptions.

Definition obligation_same (o : obligation) : bool :=
  let '(_, _, caller, _, _, _, inst) := o in String.eqb inst "same" || mem caller instance_exceptions.

Lemma accesses_same_ok_witness : offending access_same accesses = [].
Proof. vm_compute. reflexivity. Qed.

Lemma accesses_same_ok : forallb access_same accesses = true.
Proof. exact (no_offending _ _ _ accesses_same_ok_witness). Qed.

Lemma obligations_same_ok_witness : offending obligation_same call_obligations = [].
Proof. vm_compute. reflexivity. Qed.

Lemma obligations_same_ok : forallb obligation_same call_obligations = true.
Proof. exact (no_offending _ _ _ obligations_same_ok_witness). Qed.

Theorem same_object : 
  (forall field kind fn pos held required inst,
     In (field, kind, fn, pos, held, required, inst) accesses ->
     inst = "same" \/ In fn instance_exceptions) /\
  (forall callee why caller pos held required inst,
     In (callee, why, caller, pos, held, required, inst) call_obligations ->
     inst = "same" \/ In caller instance_exceptions).
Proof.
  split.
  - intros field kind fn pos held required inst Hin.
    pose proof (proj1 (forallb_forall access_same accesses) accesses_same_ok _ Hin) as H.
    cbn beta iota in H. apply orb_true_iff in H. destruct H as [H|H].
    + left. apply String.eqb_eq. exact H.
    + right. exact (mem_In _ _ H).
  - intros callee why caller pos held required inst Hin.
    pose proof (proj1 (forallb_forall obligation_same call_obligations) obligations_same_ok _ Hin) as H.
    cbn beta iota in H. apply orb_true_iff in H. destruct H as [H|H].
    + left. apply String.eqb_eq. exact H.
    + right. exact (mem_In _ _ H).
Qed.

(* ---------------------------------------------------------------- no alias of guarded state escapes *)

(* No alias of a guarded slice or map (Group.history/clients/data, the group
   registry, Channel.queue, the entries of Cache and Map, the token table)
   leaves its critical section: nothing is returned to a caller that does not
   hold the lock (Channel.Get hands the queue over and resets the field),
   stored, sent, captured by a later-running closure or passed to code the
   translator cannot follow.  GetChatHistory returning slices.Clip(g.history)
   or g.history[:n] instead of a copy makes this list non-empty. *)
Theorem no_escaping_state : escaping_guarded_state = [].
Proof. vm_compute. reflexivity. Qed.

(* ---------------------------------------------------------------- one critical section per operation *)

(* No function takes the mutex of an object again after it has released it:
   whatever an operation (Close, PushConn, AddClient, DelClient, SetLocked,
   Put, Get, ...) does under an object's lock is ONE atomic step with respect
   to that lock -- this is the step granularity the lifecycle models assume.
   A teardown that detaches its connections, unlocks, and re-locks to mark
   itself closed (leaving a window in which a concurrent PushConn attaches a
   connection nobody will detach) makes this list non-empty. *)
Theorem atomic_sections : split_critical_sections = [].
Proof. vm_compute. reflexivity. Qed.

(* ---------------------------------------------------------------- nothing the translator did not understand *)

Theorem nothing_unknown : unknown = [].
Proof. vm_compute. reflexivity. Qed.

(* ---------------------------------------------------------------- lock order *)

(* The rank, given explicitly.  Read from the top: the registry lock and a
   web client's own lock come first; then the locks of WHIP clients and of
   down connections; the recording client; tracks and up connections; the
   recording connection; the group; and last the leaf locks, under which
   nothing else is taken.  (The group lock is taken AFTER the client locks:
   Close/PushConn of the clients call into the group with their own lock
   held, and since the F5 fix the group calls no client method that takes a
   client lock.) *)
Definition rank_table : list (string * nat) :=
  [ ("group.groups.mu", 0);
    ("rtpconn.webClient.mu", 0);
    ("rtpconn.WhipClient.mu", 1);
    ("rtpconn.rtpDownConnection.mu", 1);
    ("diskwriter.Client.mu", 2);
    ("rtpconn.rtpUpTrack.mu", 3);
    ("rtpconn.rtpUpConnection.mu", 3);
    ("diskwriter.diskConn.mu", 4);
    ("group.Group.mu", 5);
    ("packetcache.Cache.mu", 6);
    ("packetmap.Map.mu", 6);
    ("group.configuration.mu", 6);
    ("token.state.mu", 6);
    ("unbounded.Channel.mu", 6);
    ("estimator.Estimator.mu", 6);
    ("turnserver.server.mu", 6) ].

Fixpoint rank_of_in (t : list (string * nat)) (s : string) : option nat :=
  match t with
  | [] => None
  | (k, n) :: r => if String.eqb s k then Some n else rank_of_in r s
  end.

Definition rank_of := rank_of_in rank_table.

Definition rank (s : string) : nat := match rank_of s with Some n => n | None => 0 end.

Definition edge_ok (e : string * string * string) : bool :=
  let '(a, b, _) := e in
  match rank_of a, rank_of b with
  | Some x, Some y => Nat.ltb x y
  | _, _ => false
  end.

Lemma edges_ok_witness : offending edge_ok lock_edges = [].
Proof. vm_compute. reflexivity. Qed.

Lemma edges_ok : forallb edge_ok lock_edges = true.
Proof. exact (no_offending _ _ _ edges_ok_witness). Qed.

(* the edge relation on lock classes: some call chain holds a and acquires b *)
Definition Edge (a b : string) : Prop := exists w, In (a, b, w) lock_edges.

Theorem rank_increasing : forall a b, Edge a b -> rank a < rank b.
Proof.
  intros a b (w & Hin).
  pose proof (proj1 (forallb_forall edge_ok lock_edges) edges_ok _ Hin) as H.
  unfold edge_ok in H. unfold rank.
  destruct (rank_of a) as [x|]; [|discriminate].
  destruct (rank_of b) as [y|]; [|discriminate].
  apply Nat.ltb_lt. exact H.
Qed.

Theorem lock_order_acyclic : forall a, ~ clos_trans string Edge a a.
Proof. exact (edges_acyclic string Edge rank rank_increasing). Qed.

(* in particular no lock class is acquired while a lock of the same class
   is held (two different groups, or the same one twice) *)
Corollary no_self_edge : forall a, ~ Edge a a.
Proof. intros a H. exact (lock_order_acyclic a (t_step _ _ _ _ H)). Qed.

(* threads that take locks only along the extracted edges never deadlock *)
Theorem no_wait_cycle : forall (T I : Type) (cls : I -> string) (s : lstate T I),
  lreachable T I string cls Edge s ->
  forall x, ~ clos_trans (T * I) (waits_for T I s) x x.
Proof.
  intros T I cls s R. exact (no_deadlock T I string cls Edge rank rank_increasing s R).
Qed.

(* ---------------------------------------------------------------- non-vacuity *)

(* the tables are populated: the writes of the membership and of the lock
   state by AddClient / SetLocked / DelClient are among the accesses, the
   order groups.mu -> Group.mu -> Channel.mu is among the edges, and
   autoLockKick's obligation at DelClient is among the obligations *)
Definition has_access (field kind fn : string) : bool :=
  existsb (fun a : access => let '(f, k, g, _, _, _, _) := a in
                             String.eqb f field && String.eqb k kind && String.eqb g fn) accesses.
Definition has_edge (a b : string) : bool :=
  existsb (fun e : string * string * string => let '(x, y, _) := e in String.eqb x a && String.eqb y b) lock_edges.
Definition has_obligation (callee caller required : string) : bool :=
  existsb (fun o : obligation => let '(c, _, d, _, _, r, _) := o in
                                 String.eqb c callee && String.eqb d caller && String.eqb r required) call_obligations.

Lemma tables_populated :
  has_access "group.Group.clients" "write" "group.AddClient" = true /\
  has_access "group.Group.clients" "write" "group.DelClient" = true /\
  has_access "group.Group.locked" "write" "group.Group.SetLocked" = true /\
  has_access "group.Group.locked" "write" "group.autoLockKick" = true /\
  has_access "group.Group.description" "read" "group.Group.Description" = true /\
  has_access "unbounded.Channel.queue" "write" "unbounded.Channel.Put" = true /\
  has_edge "group.groups.mu" "group.Group.mu" = true /\
  has_edge "group.Group.mu" "unbounded.Channel.mu" = true /\
  has_edge "rtpconn.WhipClient.mu" "group.Group.mu" = true /\
  has_obligation "group.autoLockKick" "group.DelClient" "group.Group.mu" = true /\
  has_obligation "group.Group.getClientsUnlocked" "group.Group.SetLocked" "group.Group.mu" = true /\
  (200 <= List.length accesses)%nat /\ (30 <= List.length lock_edges)%nat /\ (50 <= List.length call_obligations)%nat.
Proof. vm_compute. repeat split; try reflexivity; repeat constructor. Qed.

Lemma rank_exists :
  exists rank : string -> nat,
    forall a b w, In (a, b, w) lock_edges -> rank a < rank b.
Proof.
  exists rank. intros a b w H. exact (rank_increasing a b (ex_intro _ w H)).
Qed.

Lemma has_edge_Edge : forall a b, has_edge a b = true -> Edge a b.
Proof.
  intros a b H. unfold has_edge in H. apply existsb_exists in H.
  destruct H as ([[x y] w] & Hin & Heq). apply andb_true_iff in Heq. destruct Heq as [H1 H2].
  apply String.eqb_eq in H1. apply String.eqb_eq in H2. subst. exists w. exact Hin.
Qed.

(* the lock model is inhabited beyond the initial state: thread 0 takes the
   registry lock (instance 0), thread 1 takes a group lock (instance 1),
   thread 0 then requests that group lock along the edge
   groups.mu -> Group.mu and waits *)
Definition ex_cls (i : nat) : string :=
  match i with O => "group.groups.mu" | _ => "group.Group.mu" end.

Ltac fin := try tauto; try (intuition (subst; try discriminate; try congruence; try lia)).

Lemma lock_model_example :
  exists s : lstate nat nat,
    lreachable nat nat string ex_cls Edge s /\
    waiting nat nat s 0 1 /\ held nat nat s 1 1 /\ held nat nat s 0 0.
Proof.
  pose (s0 := mkL nat nat (fun _ _ => False) (fun _ _ => False)).
  pose (s1 := mkL nat nat (fun _ _ => False) (fun t l => t = 0 /\ l = 0)).
  pose (s2 := mkL nat nat (fun t l => t = 0 /\ l = 0) (fun _ _ => False)).
  pose (s3 := mkL nat nat (fun t l => t = 0 /\ l = 0) (fun t l => t = 1 /\ l = 1)).
  pose (s4 := mkL nat nat (fun t l => (t = 0 /\ l = 0) \/ (t = 1 /\ l = 1)) (fun _ _ => False)).
  pose (s5 := mkL nat nat (fun t l => (t = 0 /\ l = 0) \/ (t = 1 /\ l = 1)) (fun t l => t = 0 /\ l = 1)).
  assert (R0 : lreachable nat nat string ex_cls Edge s0).
  { apply lreach_init; cbn; intros; tauto. }
  assert (R1 : lreachable nat nat string ex_cls Edge s1).
  { apply (lreach_step _ _ _ _ _ s0 s1 R0). apply (LRequest _ _ _ _ _ s0 s1 0 0); cbn; intros; fin. }
  assert (R2 : lreachable nat nat string ex_cls Edge s2).
  { apply (lreach_step _ _ _ _ _ s1 s2 R1). apply (LGrant _ _ _ _ _ s1 s2 0 0); cbn; intros; fin. }
  assert (R3 : lreachable nat nat string ex_cls Edge s3).
  { apply (lreach_step _ _ _ _ _ s2 s3 R2). apply (LRequest _ _ _ _ _ s2 s3 1 1); cbn; intros; fin. }
  assert (R4 : lreachable nat nat string ex_cls Edge s4).
  { apply (lreach_step _ _ _ _ _ s3 s4 R3). apply (LGrant _ _ _ _ _ s3 s4 1 1); cbn; intros; fin. }
  assert (R5 : lreachable nat nat string ex_cls Edge s5).
  { apply (lreach_step _ _ _ _ _ s4 s5 R4). apply (LRequest _ _ _ _ _ s4 s5 0 1); cbn; intros; fin.
    cbn. apply has_edge_Edge. vm_compute. reflexivity. }
  exists s5. split; [exact R5|]. cbn. tauto.
Qed.

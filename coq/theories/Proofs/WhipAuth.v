From Coq Require Import List Bool String.
From Galene Require Import Model.Signal Model.Whip Proofs.SignalFrame.
Import ListNotations.
Open Scope string_scope.

(* an ingest session exists only if the credentials were let in with
   `present`; every refusal leaves no session behind *)
Lemma whip_create_needs_present : forall st g tok adm sdp id st' s,
  whip_create st g tok adm sdp id = (st', s) ->
  (s = W201 /\ st' = mkSession id g tok :: st /\
   exists perms, adm = Some perms /\ In "present" perms) \/
  (s <> W201 /\ st' = st).
Proof.
  intros st g tok adm sdp id st' s H. unfold whip_create in H.
  destruct adm as [perms|]; [|inversion H; subst; right; split; [discriminate|reflexivity]].
  destruct (mem "present" perms) eqn:Ep; cbn [negb] in H.
  - destruct sdp; cbn [negb] in H; inversion H; subst.
    + left. repeat split. exists perms. split; [reflexivity|]. apply mem_In. exact Ep.
    + right. split; [discriminate|reflexivity].
  - inversion H; subst. right. split; [discriminate|reflexivity].
Qed.

(* a request on a session created with a bearer token is served only if it
   carries the same token *)
Lemma whip_resource_needs_token : forall st g id bearer meth st' s sess,
  find_session st g id = Some sess -> ws_token sess <> "" ->
  whip_resource st g id bearer meth = (st', s) ->
  s = WServed -> bearer = ws_token sess.
Proof.
  intros st g id bearer meth st' s sess Hf Ht H Hs. unfold whip_resource in H. rewrite Hf in H.
  destruct (is_empty (ws_token sess)) eqn:Ee.
  { apply eqb_true in Ee. congruence. }
  cbn [negb andb] in H.
  destruct (String.eqb bearer (ws_token sess)) eqn:Eb.
  - apply eqb_true in Eb. exact Eb.
  - cbn [negb] in H. inversion H; subst. discriminate.
Qed.

(* unknown sessions are not found; nothing is changed by a refused request *)
Lemma whip_resource_refused_unchanged : forall st g id bearer meth st' s,
  whip_resource st g id bearer meth = (st', s) -> s <> WServed -> st' = st.
Proof.
  intros st g id bearer meth st' s H Hs. unfold whip_resource in H.
  destruct (find_session st g id); [|inversion H; reflexivity].
  destruct (_ && _); [inversion H; reflexivity|].
  destruct meth; inversion H; subst; congruence.
Qed.

(* what the code does NOT guarantee: a session created without bearer token
   (a group that lets in user "whip" with an empty password) is served
   whatever token a later request carries; only the unguessable id protects it *)
Lemma whip_tokenless_session_open : forall st g id bearer sess,
  find_session st g id = Some sess -> ws_token sess = "" ->
  snd (whip_resource st g id bearer MPatch) = WServed.
Proof.
  intros st g id bearer sess Hf Ht. unfold whip_resource. rewrite Hf, Ht. reflexivity.
Qed.

(* A retransmission never restarts the packet map: whatever Reverse answers
   with is a number that Map treats as a late copy, so sending it through Map
   again (gotNACK -> Write) leaves the whole state unchanged.  (Before the
   repair of finding F31, Reverse could name a packet more than 8192 numbers
   old; Map then took it for the start of a new sequence and reset.) *)
From Coq Require Import ZArith List Bool Lia.
From Coq Require Import ZifyBool.
From Galene Require Import Lib.Word Generated.Consts Model.PacketMap.
Import ListNotations.
Open Scope Z_scope.
Ltac Zify.zify_post_hook ::= Z.div_mod_to_equations.

Lemma reverse_recent m o s p : pm_reverse m o = (true, s, p) -> pm_recent m s = true.
Proof.
  unfold pm_reverse. destruct (pm_reverse_raw m o) as [[ok s'] p'].
  destruct ok; cbn [andb]; [|intro H; discriminate].
  destruct (pm_recent m s') eqn:E; intro H; inversion H; subst; exact E.
Qed.

Lemma recent_map_stable m s pid : is16 s -> is16 (m_next m) ->
  pm_recent m s = true -> snd (pm_map m s pid) = m.
Proof.
  intros Hs Hn Hr. unfold pm_recent in Hr.
  apply andb_prop in Hr. destruct Hr as (Hr & Hw). apply andb_prop in Hr. destruct Hr as (Hst & Hc).
  assert (Hne : s <> m_next m).
  { intro E. subst s. unfold cmp16 in Hc. rewrite Z.eqb_refl in Hc. discriminate. }
  assert (Hc2 : (cmp16 (m_next m) s <=? 0) = false).
  { unfold cmp16, w16, is16, window in *.
    destruct (s =? m_next m) eqn:E1; [lia|].
    destruct (m_next m =? s) eqn:E2; [lia|].
    destruct (32768 <=? (m_next m - s) mod 65536) eqn:E3; [discriminate|].
    destruct (32768 <=? (s - m_next m) mod 65536) eqn:E4; lia. }
  assert (Hw2 : (window <? w16 (m_next m - s)) = false) by lia.
  unfold pm_map. rewrite Hst, Hc2, Hw2. cbn [negb orb].
  destruct ((m_delta m =? 0) && match m_entries m with None => true | Some _ => false end);
    reflexivity.
Qed.

Theorem retransmission_keeps_map m o s p pid : is16 (m_next m) -> is16 s ->
  pm_reverse m o = (true, s, p) -> snd (pm_map m s pid) = m.
Proof.
  intros Hn Hs H. apply recent_map_stable; [exact Hs|exact Hn|].
  exact (reverse_recent m o s p H).
Qed.

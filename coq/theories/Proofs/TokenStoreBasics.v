(* Basic facts about the association list, the decoder, the sort and load()
   of Model/TokenStore.v. *)
From Coq Require Import ZArith List Bool Lia Permutation.
From Galene Require Import Model.TokenStore.
Import ListNotations.
Open Scope Z_scope.

Definition names (l : list token) : list Z := map tk_name l.

(* two maps with the same content *)
Definition eqm (a b : list token) : Prop := forall n, tlookup n a = tlookup n b.

Lemma eqm_refl : forall a, eqm a a.
Proof. intros a n; reflexivity. Qed.
Lemma eqm_sym : forall a b, eqm a b -> eqm b a.
Proof. intros a b H n; symmetry; apply H. Qed.
Lemma eqm_trans : forall a b c, eqm a b -> eqm b c -> eqm a c.
Proof. intros a b c H1 H2 n; rewrite H1; apply H2. Qed.

(* ---- stamps and tags ---- *)
Lemma stamp_eqb_eq : forall a b, stamp_eqb a b = true <-> a = b.
Proof.
  intros [sa ma] [sb mb]; unfold stamp_eqb; cbn [st_size st_mtime].
  rewrite andb_true_iff, !Z.eqb_eq. split.
  - intros [-> ->]; reflexivity.
  - intros H; inversion H; auto.
Qed.
Lemma stamp_eqb_refl : forall a, stamp_eqb a a = true.
Proof. intros a; apply stamp_eqb_eq; reflexivity. Qed.
Lemma stamp_eqb_neq : forall a b, stamp_eqb a b = false <-> a <> b.
Proof.
  intros a b. destruct (stamp_eqb a b) eqn:E.
  - apply stamp_eqb_eq in E. split; [discriminate | congruence].
  - split; [| reflexivity]. intros _ H. apply stamp_eqb_eq in H. congruence.
Qed.
Lemma etag_eqb_eq : forall a b, etag_eqb a b = true <-> a = b.
Proof.
  intros [a|] [b|]; cbn [etag_eqb]; try (split; [discriminate | discriminate]); try tauto.
  rewrite stamp_eqb_eq. split; [intros -> | intros H; inversion H]; reflexivity.
Qed.

Lemma etag_of_Some : forall m st, etag_of m = Some st -> st = m_st m /\ st_mtime (m_st m) <> 0.
Proof.
  intros m st; unfold etag_of. destruct (st_mtime (m_st m) =? 0) eqn:E; [discriminate|].
  intros H; inversion H; split; [reflexivity | apply Z.eqb_neq; exact E].
Qed.
Lemma etag_of_nonzero : forall m, st_mtime (m_st m) <> 0 -> etag_of m = Some (m_st m).
Proof. intros m H; unfold etag_of. apply Z.eqb_neq in H; rewrite H; reflexivity. Qed.

(* ---- the map ---- *)
Lemma tlookup_In : forall n l t, tlookup n l = Some t -> In t l /\ tk_name t = n.
Proof.
  induction l as [|x r IH]; cbn [tlookup]; intros t H; [discriminate|].
  destruct (tk_name x =? n) eqn:E.
  - inversion H; subst; split; [left; reflexivity | apply Z.eqb_eq; exact E].
  - destruct (IH _ H); split; [right|]; assumption.
Qed.

Lemma tlookup_None : forall n l, tlookup n l = None <-> ~ In n (names l).
Proof.
  induction l as [|x r IH]; cbn [tlookup names map]; [cbn; tauto|].
  destruct (tk_name x =? n) eqn:E.
  - apply Z.eqb_eq in E. split; [discriminate | intros H; exfalso; apply H; left; exact E].
  - apply Z.eqb_neq in E. rewrite IH. unfold names. cbn [In]. tauto.
Qed.

Lemma tlookup_Some_in_names : forall n l t, tlookup n l = Some t -> In n (names l).
Proof.
  intros n l t H. destruct (tlookup_In _ _ _ H) as [Hi <-]. apply in_map; exact Hi.
Qed.

Lemma tlookup_iff : forall l, NoDup (names l) ->
  forall n t, tlookup n l = Some t <-> In t l /\ tk_name t = n.
Proof.
  induction l as [|x r IH]; intros Hnd n t.
  - cbn; split; [discriminate | tauto].
  - cbn [names map] in Hnd. inversion Hnd as [|? ? Hnotin Hnd']; subst.
    cbn [tlookup]. destruct (tk_name x =? n) eqn:E.
    + apply Z.eqb_eq in E. split.
      * intros H; inversion H; subst; split; [left|]; reflexivity.
      * intros [[->|Hi] Hn]; [reflexivity|].
        exfalso; apply Hnotin. rewrite E, <- Hn. apply in_map; exact Hi.
    + apply Z.eqb_neq in E. rewrite (IH Hnd'). split.
      * intros [Hi Hn]; split; [right|]; assumption.
      * intros [[->|Hi] Hn]; [contradiction | split; assumption].
Qed.

Lemma names_remove : forall x n l, In x (names (tremove n l)) <-> In x (names l) /\ x <> n.
Proof.
  induction l as [|t r IH]; cbn [tremove names map]; [cbn; tauto|].
  destruct (tk_name t =? n) eqn:E.
  - apply Z.eqb_eq in E. rewrite IH. unfold names. cbn [In]. intuition congruence.
  - apply Z.eqb_neq in E. cbn [names map In]. rewrite IH. unfold names. intuition congruence.
Qed.

Lemma In_remove : forall x n l, In x (tremove n l) <-> In x l /\ tk_name x <> n.
Proof.
  induction l as [|t r IH]; cbn [tremove]; [cbn; tauto|].
  destruct (tk_name t =? n) eqn:E.
  - apply Z.eqb_eq in E. rewrite IH. cbn [In]. intuition congruence.
  - apply Z.eqb_neq in E. cbn [In]. rewrite IH. intuition congruence.
Qed.

Lemma NoDup_remove : forall n l, NoDup (names l) -> NoDup (names (tremove n l)).
Proof.
  induction l as [|t r IH]; cbn [tremove names map]; intros H; [constructor|].
  inversion H as [|? ? Hn Hr]; subst.
  destruct (tk_name t =? n); [apply IH; exact Hr|].
  cbn [names map]. constructor; [| apply IH; exact Hr].
  intros Hi. apply names_remove in Hi. apply Hn. apply Hi.
Qed.

Lemma tlookup_remove_same : forall n l, tlookup n (tremove n l) = None.
Proof. intros n l. apply tlookup_None. intros H. apply names_remove in H. tauto. Qed.

Lemma tlookup_remove_other : forall n m l, n <> m -> tlookup n (tremove m l) = tlookup n l.
Proof.
  induction l as [|t r IH]; intros Hnm; cbn [tremove tlookup]; [reflexivity|].
  destruct (tk_name t =? m) eqn:E.
  - apply Z.eqb_eq in E. rewrite (IH Hnm).
    destruct (tk_name t =? n) eqn:E2; [apply Z.eqb_eq in E2; congruence | reflexivity].
  - cbn [tlookup]. rewrite (IH Hnm). reflexivity.
Qed.

Lemma tlookup_tset_same : forall t l, tlookup (tk_name t) (tset t l) = Some t.
Proof. intros t l. unfold tset; cbn [tlookup]. rewrite Z.eqb_refl. reflexivity. Qed.

Lemma tlookup_tset_other : forall n t l, n <> tk_name t -> tlookup n (tset t l) = tlookup n l.
Proof.
  intros n t l H. unfold tset; cbn [tlookup].
  destruct (tk_name t =? n) eqn:E; [apply Z.eqb_eq in E; congruence|].
  apply tlookup_remove_other; exact H.
Qed.

Lemma tlookup_tset : forall n t l,
  tlookup n (tset t l) = if tk_name t =? n then Some t else tlookup n l.
Proof.
  intros n t l. destruct (tk_name t =? n) eqn:E.
  - apply Z.eqb_eq in E; subst. apply tlookup_tset_same.
  - apply Z.eqb_neq in E. apply tlookup_tset_other. congruence.
Qed.

Lemma NoDup_tset : forall t l, NoDup (names l) -> NoDup (names (tset t l)).
Proof.
  intros t l H. unfold tset; cbn [names map]. constructor.
  - intros Hi. apply names_remove in Hi. tauto.
  - apply NoDup_remove; exact H.
Qed.

Lemma names_tset : forall x t l, In x (names (tset t l)) -> x = tk_name t \/ In x (names l).
Proof.
  intros x t l. unfold tset; cbn [names map In]. intros [H|H]; [left; auto|].
  right. apply names_remove in H. apply H.
Qed.

Lemma eqm_tset : forall t a b, eqm a b -> eqm (tset t a) (tset t b).
Proof. intros t a b H n. rewrite !tlookup_tset. destruct (tk_name t =? n); [reflexivity | apply H]. Qed.

Lemma eqm_tremove : forall k a b, eqm a b -> eqm (tremove k a) (tremove k b).
Proof.
  intros k a b H n. destruct (Z.eq_dec n k) as [->|Hn].
  - rewrite !tlookup_remove_same; reflexivity.
  - rewrite !tlookup_remove_other by exact Hn. apply H.
Qed.

(* putting back the old value of a key *)
Lemma eqm_tset_back : forall old t l,
  tlookup (tk_name t) l = Some old -> eqm (tset old (tset t l)) l.
Proof.
  intros old t l H n. destruct (tlookup_In _ _ _ H) as [_ Hname].
  rewrite tlookup_tset. destruct (tk_name old =? n) eqn:E.
  - apply Z.eqb_eq in E. subst n. rewrite Hname. symmetry; exact H.
  - apply Z.eqb_neq in E. apply tlookup_tset_other. congruence.
Qed.
Lemma eqm_tset_back_remove : forall old k l,
  tlookup k l = Some old -> eqm (tset old (tremove k l)) l.
Proof.
  intros old k l H n. destruct (tlookup_In _ _ _ H) as [_ Hname].
  rewrite tlookup_tset. destruct (tk_name old =? n) eqn:E.
  - apply Z.eqb_eq in E. subst n. rewrite Hname. symmetry; exact H.
  - apply Z.eqb_neq in E. apply tlookup_remove_other. congruence.
Qed.

(* filter *)
Lemma names_filter : forall p x l, In x (names (filter p l)) -> In x (names l).
Proof.
  intros p x l H. unfold names in *. apply in_map_iff in H. destruct H as (t & <- & Hi).
  apply filter_In in Hi. apply in_map. apply Hi.
Qed.
Lemma NoDup_filter_names : forall p l, NoDup (names l) -> NoDup (names (filter p l)).
Proof.
  induction l as [|t r IH]; cbn [filter names map]; intros H; [constructor|].
  inversion H as [|? ? Hn Hr]; subst.
  destruct (p t); [| apply IH; exact Hr].
  cbn [names map]. constructor; [| apply IH; exact Hr].
  intros Hi. apply Hn. eapply names_filter; exact Hi.
Qed.
Lemma filter_true : forall (l : list token), filter (fun _ => true) l = l.
Proof. induction l as [|t r IH]; cbn [filter]; [|rewrite IH]; reflexivity. Qed.

Lemma tlookup_filter : forall p l, NoDup (names l) -> forall n,
  tlookup n (filter p l) =
  match tlookup n l with Some t => if p t then Some t else None | None => None end.
Proof.
  intros p l Hnd n.
  pose proof (NoDup_filter_names p l Hnd) as Hnd'.
  destruct (tlookup n l) as [t|] eqn:E.
  - apply (tlookup_iff l Hnd) in E. destruct E as [Hi Hn].
    destruct (p t) eqn:Ep.
    + apply (tlookup_iff _ Hnd'). split; [apply filter_In; split; assumption | exact Hn].
    + destruct (tlookup n (filter p l)) as [t'|] eqn:E'; [|reflexivity].
      apply (tlookup_iff _ Hnd') in E'. destruct E' as [Hi' Hn'].
      apply filter_In in Hi'. destruct Hi' as [Hi' Hp'].
      assert (t' = t).
      { assert (H1 : tlookup n l = Some t') by (apply (tlookup_iff l Hnd); split; assumption).
        assert (H2 : tlookup n l = Some t) by (apply (tlookup_iff l Hnd); split; assumption).
        congruence. }
      subst t'. congruence.
  - apply tlookup_None in E. apply tlookup_None. intros H. apply E. eapply names_filter; exact H.
Qed.

Lemma eqm_filter : forall p a b, NoDup (names a) -> NoDup (names b) ->
  eqm a b -> eqm (filter p a) (filter p b).
Proof. intros p a b Ha Hb H n. rewrite !tlookup_filter by assumption. rewrite H. reflexivity. Qed.

(* permutations of maps with unique keys *)
Lemma perm_eqm : forall a b, NoDup (names a) -> Permutation a b -> eqm a b.
Proof.
  intros a b Ha Hp n.
  assert (Hb : NoDup (names b)).
  { eapply Permutation_NoDup; [apply Permutation_map; exact Hp | exact Ha]. }
  destruct (tlookup n a) as [t|] eqn:E.
  - symmetry. apply (tlookup_iff b Hb). apply (tlookup_iff a Ha) in E.
    destruct E as [Hi Hn]. split; [eapply Permutation_in; eassumption | exact Hn].
  - symmetry. apply tlookup_None. apply tlookup_None in E. intros H. apply E.
    unfold names in *. eapply Permutation_in; [apply Permutation_map; apply Permutation_sym; exact Hp | exact H].
Qed.

(* ---- the sort ---- *)
Lemma insert_sorted_perm : forall t l, Permutation (insert_sorted t l) (t :: l).
Proof.
  induction l as [|h r IH]; cbn [insert_sorted]; [apply Permutation_refl|].
  destruct (exp_less t h); [apply Permutation_refl|].
  eapply perm_trans; [apply perm_skip; exact IH | apply perm_swap].
Qed.
Lemma sort_exp_perm : forall l, Permutation (sort_exp l) l.
Proof.
  induction l as [|h r IH]; cbn [sort_exp fold_right]; [apply Permutation_refl|].
  eapply perm_trans; [apply insert_sorted_perm | apply perm_skip; exact IH].
Qed.
Lemma sort_exp_In : forall x l, In x (sort_exp l) <-> In x l.
Proof.
  intros x l; split; apply Permutation_in; [| apply Permutation_sym]; apply sort_exp_perm.
Qed.
Lemma sort_exp_NoDup : forall l, NoDup (names l) -> NoDup (names (sort_exp l)).
Proof.
  intros l H. eapply Permutation_NoDup; [| exact H].
  apply Permutation_map. apply Permutation_sym. apply sort_exp_perm.
Qed.
Lemma sort_exp_eqm : forall l, NoDup (names l) -> eqm (sort_exp l) l.
Proof.
  intros l H. apply perm_eqm; [apply sort_exp_NoDup; exact H | apply sort_exp_perm].
Qed.
Lemma sort_exp_nil : forall l, sort_exp l = [] -> l = [].
Proof.
  intros l H. pose proof (sort_exp_perm l) as P. rewrite H in P.
  apply Permutation_nil in P. exact P.
Qed.

Lemma list_mem_all : forall m, Permutation (list_mem m None) (m_tokens m).
Proof. intros m. unfold list_mem. rewrite filter_true. apply sort_exp_perm. Qed.

Lemma list_mem_In : forall m g t,
  In t (list_mem m (Some g)) <-> In t (m_tokens m) /\ tk_group t = g.
Proof.
  intros m g t. unfold list_mem. rewrite sort_exp_In, filter_In, Z.eqb_eq. tauto.
Qed.

(* ---- the decoder ---- *)
Definition rec_names (ls : list entry) : list Z :=
  flat_map (fun e => match e with Rec t => [tk_name t] | Junk => [] end) ls.

Lemma rec_names_app : forall a b, rec_names (a ++ b) = rec_names a ++ rec_names b.
Proof. intros a b; unfold rec_names; apply flat_map_app. Qed.
Lemma rec_names_map_Rec : forall l, rec_names (map Rec l) = names l.
Proof. induction l as [|t r IH]; [reflexivity|]. cbn [map rec_names flat_map names app]. f_equal. exact IH. Qed.

Lemma parse_from_app : forall l1 l2 acc,
  parse_from acc (l1 ++ l2) =
  match parse_from acc l1 with Some a => parse_from a l2 | None => None end.
Proof.
  induction l1 as [|e r IH]; intros l2 acc; cbn [app parse_from]; [reflexivity|].
  destruct e; [apply IH | reflexivity].
Qed.

Lemma parse_from_NoDup : forall ls acc ts,
  parse_from acc ls = Some ts -> NoDup (names acc) -> NoDup (names ts).
Proof.
  induction ls as [|e r IH]; intros acc ts; cbn [parse_from].
  - intros H; inversion H; subst; auto.
  - destruct e; [| discriminate]. intros H Hnd. eapply IH; [exact H | apply NoDup_tset; exact Hnd].
Qed.
Lemma parse_NoDup : forall ls ts, parse ls = Some ts -> NoDup (names ts).
Proof. intros ls ts H. eapply parse_from_NoDup; [exact H | constructor]. Qed.

Lemma parse_from_names : forall ls acc ts n,
  parse_from acc ls = Some ts -> In n (names ts) -> In n (names acc) \/ In n (rec_names ls).
Proof.
  induction ls as [|e r IH]; intros acc ts n; cbn [parse_from].
  - intros H; inversion H; subst; auto.
  - destruct e; [| discriminate]. intros H Hi.
    destruct (IH _ _ _ H Hi) as [Ha|Hr].
    + apply names_tset in Ha. destruct Ha as [->|Ha]; [right; left; reflexivity | left; exact Ha].
    + right. cbn [rec_names flat_map]. apply in_or_app. right. exact Hr.
Qed.
Lemma parse_names : forall ls ts n, parse ls = Some ts -> In n (names ts) -> In n (rec_names ls).
Proof.
  intros ls ts n H Hi. destruct (parse_from_names _ _ _ _ H Hi) as [[]|]; assumption.
Qed.

(* decoding what rewrite() writes *)
Lemma parse_from_recs : forall l acc,
  parse_from acc (map Rec l) = Some (fold_left (fun a t => tset t a) l acc).
Proof.
  induction l as [|t r IH]; intros acc; cbn [map parse_from fold_left]; [reflexivity | apply IH].
Qed.
Lemma tlookup_fold_tset : forall l, NoDup (names l) -> forall acc n,
  tlookup n (fold_left (fun a t => tset t a) l acc) =
  match tlookup n l with Some t => Some t | None => tlookup n acc end.
Proof.
  induction l as [|t r IH]; intros Hnd acc n; cbn [fold_left tlookup]; [reflexivity|].
  cbn [names map] in Hnd. inversion Hnd as [|? ? Hn Hr]; subst.
  rewrite (IH Hr). destruct (tk_name t =? n) eqn:E.
  - apply Z.eqb_eq in E. subst n.
    assert (Hnone : tlookup (tk_name t) r = None) by (apply tlookup_None; exact Hn).
    rewrite Hnone. apply tlookup_tset_same.
  - apply Z.eqb_neq in E. destruct (tlookup n r); [reflexivity|].
    apply tlookup_tset_other. congruence.
Qed.
Lemma parse_recs : forall l, NoDup (names l) ->
  exists ts, parse (map Rec l) = Some ts /\ eqm l ts.
Proof.
  intros l Hnd. eexists. split; [apply parse_from_recs|].
  intros n. rewrite (tlookup_fold_tset l Hnd). destruct (tlookup n l); reflexivity.
Qed.

(* ---- load ---- *)
(* the memory agrees with the file *)
Definition synced (m : mem) (f : option file) : Prop :=
  match f with
  | None => m = reset_mem
  | Some fl => m_st m = f_st fl /\
               exists ts, parse (f_lines fl) = Some ts /\ eqm (m_tokens m) ts
  end.

(* if the remembered stamp is the file's, the memory agrees with the file *)
Definition file_mirror (m : mem) (f : option file) : Prop :=
  match f with
  | None => True
  | Some fl => m_st m = f_st fl ->
               exists ts, parse (f_lines fl) = Some ts /\ eqm (m_tokens m) ts
  end.

Lemma synced_mirror : forall m f, synced m f -> file_mirror m f.
Proof. intros m [fl|]; cbn; [intros [_ H] _; exact H | trivial]. Qed.

Lemma load_stamp : forall m fl m1 e,
  load m (Some fl) = (m1, LOk e) -> m_st m1 = f_st fl /\ e = etag_of m1.
Proof.
  intros m fl m1 e. cbn [load]. destruct (stamp_eqb (m_st m) (f_st fl)) eqn:E.
  - intros H; inversion H; subst. split; [apply stamp_eqb_eq; exact E | reflexivity].
  - destruct (parse (f_lines fl)); [| discriminate].
    intros H; inversion H; subst. split; reflexivity.
Qed.
Lemma load_none : forall m, load m None = (reset_mem, LOk None).
Proof. reflexivity. Qed.
Lemma load_same : forall m fl, m_st m = f_st fl -> load m (Some fl) = (m, LOk (etag_of m)).
Proof. intros m fl H. cbn [load]. rewrite H, stamp_eqb_refl. reflexivity. Qed.

Lemma load_err : forall m f m1, load m f = (m1, LErr) ->
  m1 = reset_mem /\ exists fl, f = Some fl /\ parse (f_lines fl) = None /\ m_st m <> f_st fl.
Proof.
  intros m [fl|] m1; cbn [load]; [| discriminate].
  destruct (stamp_eqb (m_st m) (f_st fl)) eqn:E; [discriminate|].
  destruct (parse (f_lines fl)) eqn:P; [discriminate|].
  intros H; inversion H; subst. split; [reflexivity|].
  exists fl; repeat split; auto. apply stamp_eqb_neq; exact E.
Qed.

Lemma load_ok_synced : forall m f m1 e,
  file_mirror m f -> load m f = (m1, LOk e) -> synced m1 f /\ e = etag_of m1.
Proof.
  intros m [fl|] m1 e Hm; cbn [load].
  - destruct (stamp_eqb (m_st m) (f_st fl)) eqn:E.
    + intros H; inversion H; subst. apply stamp_eqb_eq in E.
      split; [split; [exact E | apply Hm; exact E] | reflexivity].
    + destruct (parse (f_lines fl)) as [ts|] eqn:P; [| discriminate].
      intros H; inversion H; subst. split; [| reflexivity].
      split; [reflexivity|]. exists ts; split; [exact P | apply eqm_refl].
  - intros H; inversion H; subst. split; reflexivity.
Qed.

Lemma load_NoDup : forall m f m1 lr,
  NoDup (names (m_tokens m)) -> load m f = (m1, lr) -> NoDup (names (m_tokens m1)).
Proof.
  intros m [fl|] m1 lr Hnd; cbn [load].
  - destruct (stamp_eqb (m_st m) (f_st fl)).
    + intros H; inversion H; subst; exact Hnd.
    + destruct (parse (f_lines fl)) as [ts|] eqn:P; intros H; inversion H; subst; cbn.
      * eapply parse_NoDup; exact P.
      * constructor.
  - intros H; inversion H; subst; cbn; constructor.
Qed.

(* where the memory after load comes from *)
Lemma load_cases : forall m f m1 lr, load m f = (m1, lr) ->
  m1 = m \/ m1 = reset_mem \/
  exists fl ts, f = Some fl /\ parse (f_lines fl) = Some ts /\ m1 = mkMem ts (f_st fl).
Proof.
  intros m [fl|] m1 lr; cbn [load].
  - destruct (stamp_eqb (m_st m) (f_st fl)).
    + intros H; inversion H; auto.
    + destruct (parse (f_lines fl)) as [ts|] eqn:P; intros H; inversion H; subst; auto.
      right; right. exists fl, ts; auto.
  - intros H; inversion H; auto.
Qed.

(* a synced memory with a token in it has a file *)
Lemma synced_nonempty : forall m f, synced m f -> m_tokens m <> [] ->
  exists fl, f = Some fl /\ m_st m = f_st fl.
Proof.
  intros m [fl|] H Hne; cbn in H.
  - exists fl; split; [reflexivity | apply H].
  - subst m. exfalso; apply Hne; reflexivity.
Qed.

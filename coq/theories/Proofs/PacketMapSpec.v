(* C01/C03: the abstract specification of sequence-number rewriting on
   unwrapped numbers, and the proof that the L1 model (hence, by
   Proofs/PacketMapView.v, the L0 model of packetmap.go) refines it for every
   sequence of Map / Drop / Reverse calls with 16-bit arguments. *)
From Coq Require Import ZArith List Bool Lia.
From Coq Require Import ZifyBool.
From Galene Require Import Lib.Word Generated.Consts Model.PacketMap Model.PacketMapL1.
From Galene Require Import Proofs.PacketMapGhost Proofs.PacketMapInv Proofs.PacketMapView.
Import ListNotations.
Open Scope Z_scope.
Ltac Zify.zify_post_hook ::= Z.div_mod_to_equations.

(* ---- the specification ---- *)
(* The server sees 16-bit numbers only; the unwrapped number of an arrival is
   the representative of its 16-bit number closest to the running next. *)
Inductive sst := SInit | SRun (Next : Z) (D : list Z).

Definition sext16 (x : Z) : Z := if x <? 32768 then x else x - 65536.
Definition unwrap (Next s : Z) : Z := Next + sext16 (w16 (s - Next)).
Definition mem (r : Z) (D : list Z) : bool := existsb (Z.eqb r) D.

(* what the specification allows as the result of an operation *)
Definition spec_step (st : sst) (o : op) : sst * (PacketMap.out -> Prop) :=
  match o, st with
  | OMap s _, SInit =>
      (SRun (s + 1) [], fun res => exists p, res = RTriple true s p)
  | OMap s _, SRun Next D =>
      let r := unwrap Next s in
      if (window <? r - Next) || (window <? Next - r)
      then (* re-synchronisation: outside the window, numbering restarts *)
        (SRun (r + 1) [], fun res => exists p, res = RTriple true s p)
      else if Next <=? r
      then (* in order, or ahead after a loss: forwarded as r minus the
              number of packets withheld before it *)
        (SRun (r + 1) D, fun res => exists p, res = RTriple true (w16 (out D r)) p)
      else (* late or duplicate *)
        (SRun Next D,
         fun res => exists ok o' p, res = RTriple ok o' p /\
                    (if mem r D then ok = false          (* withheld: never forwarded *)
                     else ok = true -> o' = w16 (out D r)))
  | ODrop s _, SInit => (SInit, fun res => res = RBool false)
  | ODrop s _, SRun Next D =>
      let r := unwrap Next s in
      if r =? Next
      then (SRun (Next + 1) (D ++ [Next]), fun res => res = RBool true)
      else (st, fun res => res = RBool false)
  | OReverse o', SInit => (st, fun res => res = RTriple false 0 0)  (* nothing was ever sent *)
  | OReverse o', SRun Next D =>
      (st, fun res => exists ok s p, res = RTriple ok s p /\
                      (ok = true -> exists S, w16 S = s /\ ~ In S D /\ w16 (out D S) = o'))
  end.

Definition rel (a : l1) (st : sst) : Prop :=
  match st with
  | SInit => a = l1_init
  | SRun Next D => exists gs, Inv a (mkGh Next D gs)
  end.

Definition wf_op16 (o : op) : Prop :=
  match o with
  | OMap s _ | ODrop s _ | OReverse s => 0 <= s < 65536
  end.

(* ---- unwrap ---- *)
Lemma unwrap_props Next s : 0 <= s < 65536 ->
  w16 (unwrap Next s) = s /\ -32768 <= unwrap Next s - Next < 32768.
Proof. unfold unwrap, sext16, w16. intros H. destruct (_ <? 32768) eqn:E; lia. Qed.

Lemma cmp_next_le Next s : 0 <= s < 65536 ->
  (cmp16 (w16 Next) s <=? 0) = (Next <=? unwrap Next s).
Proof.
  intros H. unfold cmp16, unwrap, sext16, w16.
  destruct (Next mod 65536 =? s) eqn:E1;
  destruct (32768 <=? (s - Next mod 65536) mod 65536) eqn:E2;
  destruct ((s - Next) mod 65536 <? 32768) eqn:E3; lia.
Qed.

Lemma mem_In r D : mem r D = true <-> In r D.
Proof.
  unfold mem. rewrite existsb_exists. split.
  - intros (x & Hin & Hx). assert (r = x) by lia. subst. exact Hin.
  - intros Hin. exists r. split; [exact Hin|lia].
Qed.

(* ---- the empty (pristine) map ---- *)
Lemma Inv_pristine a Next D gs : Inv a (mkGh Next D gs) ->
  ((l_delta a =? 0) && l_nil a = true <-> gs = []).
Proof.
  unfold Inv. cbn [gNext gD gGs].
  intros (Hst & Hn & Hd & Hnd & Hlt & Hv & Hc & Hg & Hh & Hnil & He). split.
  - intros H. apply Hnil. destruct (l_nil a); [reflexivity|]. rewrite andb_false_r in H. discriminate.
  - intros ->. rewrite (He eq_refl) in Hd. change (zl []) with 0 in Hd.
    rewrite Hd. replace (l_nil a) with true by (symmetry; apply Hnil; reflexivity). reflexivity.
Qed.

Lemma Inv_fresh next pid pd : forall Next, next = w16 Next ->
  Inv (mkL true next pid 0 pd true []) (mkGh Next [] []).
Proof.
  intros Next ->. unfold Inv. cbn [gNext gD gGs l_started l_next l_delta l_view l_nil].
  inv_split.
  - reflexivity.
  - reflexivity.
  - reflexivity.
  - constructor.
  - intros d [].
  - reflexivity.
  - exact I.
  - constructor.
  - exact I.
  - tauto.
  - reflexivity.
Qed.

(* ---- Reverse: whatever it returns owns the requested number ---- *)
Lemma lwalk_some_mod v s base res x p :
  (forall e, In e v -> 0 <= e_count e <= 32768 /\ 0 <= base e < 65536) ->
  0 <= s < 65536 ->
  lwalk v s base res = Some (x, p) ->
  exists e k, In e v /\ x = res e /\ p = e_pidDelta e /\ 0 <= k < e_count e /\ s = w16 (base e + k).
Proof.
  intros Hv Hs. induction v as [|e v IH]; cbn [lwalk]; [discriminate|].
  destruct (Hv e (or_introl eq_refl)) as (Hc & Hb).
  destruct (0 <=? cmp16 s (base e)) eqn:E1.
  - destruct (cmp16 s (w16 (base e + e_count e)) <? 0) eqn:E2; [|discriminate].
    intros H. inversion H; subst. exists e, (w16 (s - base e)).
    split; [left; reflexivity|]. split; [reflexivity|]. split; [reflexivity|].
    unfold cmp16, w16 in *.
    destruct (s =? base e) eqn:A1; destruct (32768 <=? (base e - s) mod 65536) eqn:A2;
    destruct (s =? (base e + e_count e) mod 65536) eqn:A3;
    destruct (32768 <=? ((base e + e_count e) mod 65536 - s) mod 65536) eqn:A4; lia.
  - intros H. destruct IH as (e' & k & Hin & Hrest); [|exact H|].
    + intros e' Hin. apply Hv. right. exact Hin.
    + exists e', k. split; [right; exact Hin|exact Hrest].
Qed.

Lemma reverse_raw_Inv a G o : Inv a G -> 0 <= o < 65536 ->
  let '(ok, s, _) := l1_reverse_raw a o in
  ok = true -> exists S, w16 S = s /\ ~ In S (gD G) /\ w16 (out (gD G) S) = o.
Proof.
  destruct G as [Next D gs0]. unfold Inv. cbn [gNext gD gGs].
  intros (Hst & Hn & Hd & Hnd & Hlt & Hv & Hc & Hg & Hh & Hnil & He) Ho.
  unfold l1_reverse_raw.
  destruct (l_nil a) eqn:En.
  - assert (Hgs : gs0 = []) by (apply Hnil; reflexivity).
    assert (HD : D = []) by (apply He; exact Hgs). subst.
    change (zl []) with 0 in Hd. rewrite Hd. cbn.
    intros _. exists o. split; [apply w16_exact; exact Ho|]. split; [intros []|].
    unfold out, before. cbn. rewrite Z.sub_0_r. apply w16_exact. exact Ho.
  - rewrite Hv.
    destruct (lwalk (map erase gs0) o (fun e => w16 (e_first e + e_delta e))
                    (fun e => w16 (o - e_delta e))) as [[x p]|] eqn:Ew; cbn [triple]; [|discriminate].
    intros _.
    assert (Hbounds : forall e, In e (map erase gs0) ->
              0 <= e_count e <= 32768 /\ 0 <= (fun e0 => w16 (e_first e0 + e_delta e0)) e < 65536).
    { intros e Hin. apply in_map_iff in Hin. destruct Hin as (g & <- & Hin).
      pose proof (chainP_count First gs0 Next g Hc Hin) as Hb.
      cbn [erase e_count e_first e_delta]. split; [|apply w16_range].
      unfold Bnd in Hb. lia. }
    destruct (lwalk_some_mod _ _ _ _ _ _ Hbounds Ho Ew) as (e & k & Hin & Hx & _ & Hk & Hok).
    apply in_map_iff in Hin. destruct Hin as (g & <- & Hin).
    cbn [erase e_first e_delta e_count] in *.
    rewrite Forall_forall in Hg.
    destruct (gok_out D g (First g + k) (Hg g Hin) ltac:(lia)) as (Hnot & Hout).
    exists (First g + k). split; [|split; [exact Hnot|]].
    + rewrite Hx, Hok. unfold w16. lia.
    + rewrite Hout, Hok. unfold w16. lia.
Qed.

Lemma reverse_Inv a G o : Inv a G -> 0 <= o < 65536 ->
  let '(ok, s, _) := l1_reverse a o in
  ok = true -> exists S, w16 S = s /\ ~ In S (gD G) /\ w16 (out (gD G) S) = o.
Proof.
  intros HI Ho. pose proof (reverse_raw_Inv a G o HI Ho) as H.
  unfold l1_reverse. destruct (l1_reverse_raw a o) as [[ok s] p].
  destruct ok; cbn [andb]; [|intro; discriminate].
  destruct (l1_recent a s); [exact H|intro; discriminate].
Qed.

Lemma retire_scalars a :
  l_delta (l1_retire a) = l_delta a /\ l_pidDelta (l1_retire a) = l_pidDelta a /\
  l_started (l1_retire a) = l_started a /\ l_next (l1_retire a) = l_next a.
Proof.
  unfold l1_retire. destruct (l_view a) as [|e v]; [auto|].
  destruct (_ <? retireAge); [auto|]. cbn. auto.
Qed.

(* ---- one step ---- *)
Lemma step_refines a st o : rel a st -> wf_op16 o ->
  snd (spec_step st o) (snd (l1_step a o)) /\ rel (fst (l1_step a o)) (fst (spec_step st o)).
Proof.
  intros Hrel Hwf. destruct o as [s pid|s pid|o']; cbn [wf_op16] in Hwf.
  - (* Map *)
    cbn [l1_step spec_step].
    destruct st as [|Next D].
    + cbn [rel] in Hrel. subst a. cbn. split; [exists 0; reflexivity|].
      exists []. apply Inv_fresh. reflexivity.
    + destruct Hrel as (gs & HI).
      destruct (unwrap_props Next s Hwf) as (Hw & Hrange).
      set (r := unwrap Next s) in *.
      pose proof (Inv_pristine a Next D gs HI) as Hpr.
      assert (HI' := HI). unfold Inv in HI'. cbn [gNext gD gGs] in HI'.
      destruct HI' as (Hst & Hn & Hd & Hnd & Hlt & Hv & Hc & Hg & Hh & Hnil & He).
      unfold l1_map.
      destruct ((l_delta a =? 0) && l_nil a) eqn:Epr.
      * (* empty map: identity *)
        assert (Hgs : gs = []) by (apply Hpr; reflexivity). subst gs.
        assert (HD : D = []) by (apply He; reflexivity). subst D.
        rewrite Hst, Hn. cbn [negb orb]. rewrite (cmp_next_le Next s Hwf). fold r.
        assert (Hdist : Next > r -> w16 (w16 Next - s) = Next - r).
        { intros. rewrite <- Hw. rewrite w16_sub_both. apply w16_exact. lia. }
        rewrite window_val.
        destruct (Next <=? r) eqn:E1.
        -- cbn [orb fst snd].
           replace ((8192 <? r - Next) || (8192 <? Next - r)) with (8192 <? r - Next) by lia.
           assert (Hfresh : rel (mkL true (w16 (s + 1)) pid (l_delta a) (l_pidDelta a) (l_nil a) (l_view a))
                                (SRun (r + 1) [])).
           { exists []. rewrite Hv.
             assert (El : l_delta a = 0) by lia. assert (En : l_nil a = true) by (destruct (l_nil a); [reflexivity|rewrite andb_false_r in Epr; discriminate]).
             rewrite El, En. cbn [map]. apply Inv_fresh. rewrite <- Hw. unfold w16. lia. }
           destruct (8192 <? r - Next); cbn [fst snd].
           ++ split; [exists 0; reflexivity|exact Hfresh].
           ++ split; [|exact Hfresh]. exists 0. unfold out, before. cbn. rewrite Z.sub_0_r, Hw. reflexivity.
        -- cbn [orb].
           replace ((8192 <? r - Next) || (8192 <? Next - r)) with (8192 <? Next - r) by lia.
           rewrite Hdist by lia.
           destruct (8192 <? Next - r) eqn:E2; cbn [fst snd].
           ++ split; [exists 0; reflexivity|].
              exists []. rewrite Hv.
              assert (El : l_delta a = 0) by lia. assert (En : l_nil a = true) by (destruct (l_nil a); [reflexivity|rewrite andb_false_r in Epr; discriminate]).
              rewrite El, En. cbn [map]. apply Inv_fresh. rewrite <- Hw. unfold w16. lia.
           ++ split; [|exists []; exact HI].
              exists true, s, 0. split; [reflexivity|]. cbn [mem existsb].
              intros _. unfold out, before. cbn. rewrite Z.sub_0_r, Hw. reflexivity.
      * (* intervals present *)
        assert (Hgs : gs <> []).
        { intros E. destruct Hpr as (_ & Hpr2). pose proof (Hpr2 E) as Hx. try rewrite Hx in Epr. discriminate. }
        rewrite Hn. rewrite (cmp_next_le Next s Hwf). fold r.
        rewrite window_val.
        destruct (Next <=? r) eqn:E1.
        -- assert (Hdist : w16 (s - w16 Next) = r - Next).
           { rewrite <- Hw. rewrite w16_sub_both. apply w16_exact. lia. }
           rewrite Hdist.
           replace ((8192 <? r - Next) || (8192 <? Next - r)) with (8192 <? r - Next) by lia.
           destruct (8192 <? r - Next) eqn:E2; cbn [fst snd].
           ++ split; [exists 0; reflexivity|].
              exists []. unfold l1_reset. rewrite Hst. apply Inv_fresh.
              rewrite <- Hw. unfold w16. lia.
           ++ destruct (retire_Inv a _ HI) as (gs1 & HI1 & Hy1 & Hiff1).
              cbn [gNext gD gGs] in HI1, Hy1, Hiff1.
              assert (Hgs1 : gs1 <> []) by (intros E; apply Hgs; apply Hiff1; exact E).
              destruct (retire_scalars a) as (Rd & Rp & Rs & Rn).
              pose proof (add_mapping_Inv (l1_retire a) (mkGh Next D gs1) r pid HI1 Hy1 Hgs1 ltac:(cbn; lia)) as Ham.
              cbn [gNext gD] in Ham. rewrite Hw in Ham.
              destruct Ham as (gs2 & HI2 & Hgs2).
              destruct (add_mapping_scalars (l1_retire a) s (l_delta (l1_retire a)) (l_pidDelta (l1_retire a)))
                as (Ad & Ap & As & An).
              split.
              ** exists (l_pidDelta (l1_add_mapping (l1_retire a) s (l_delta (l1_retire a)) (l_pidDelta (l1_retire a)))).
                 f_equal. rewrite Ad, Rd, Hd. rewrite <- Hw.
                 unfold out. rewrite (before_all D r) by (intros d Hin; specialize (Hlt d Hin); lia).
                 unfold w16. lia.
              ** exists gs2. exact HI2.
        -- assert (Hdist : w16 (w16 Next - s) = Next - r).
           { rewrite <- Hw. rewrite w16_sub_both. apply w16_exact. lia. }
           rewrite Hdist.
           replace ((8192 <? r - Next) || (8192 <? Next - r)) with (8192 <? Next - r) by lia.
           destruct (8192 <? Next - r) eqn:E2; cbn [fst snd].
           ++ split; [exists 0; reflexivity|].
              exists []. unfold l1_reset. rewrite Hst. apply Inv_fresh.
              rewrite <- Hw. unfold w16. lia.
           ++ destruct (direct_Inv a _ r HI ltac:(cbn; lia)) as (Hd1 & Hd2).
              cbn [gD] in Hd1, Hd2. rewrite Hw in Hd1, Hd2.
              destruct (mem r D) eqn:Em.
              ** rewrite (Hd2 (proj1 (mem_In r D) Em)). cbn [triple fst snd].
                 split; [|exists gs; exact HI].
                 exists false, 0, 0. split; [reflexivity|]. reflexivity.
              ** destruct (l1_direct a s) as [[v p]|]; cbn [triple fst snd];
                   (split; [|exists gs; exact HI]).
                 --- exists true, v, p. split; [reflexivity|]. intros _. apply Hd1.
                 --- exists false, 0, 0. split; [reflexivity|]. discriminate.
  - (* Drop *)
    cbn [l1_step spec_step].
    destruct st as [|Next D].
    + cbn [rel] in Hrel. subst a. cbn. split; reflexivity.
    + destruct Hrel as (gs & HI).
      destruct (unwrap_props Next s Hwf) as (Hw & Hrange).
      set (r := unwrap Next s) in *.
      destruct (r =? Next) eqn:E.
      * assert (Hs : s = w16 Next) by (rewrite <- Hw; f_equal; lia).
        destruct (drop_Inv a _ pid HI) as (Hok & gs' & HI').
        cbn [gNext gD] in Hok, HI'. rewrite <- Hs in Hok, HI'.
        destruct (l1_drop a s pid) as [ok a'] eqn:Ed. cbn [fst snd] in *. subst ok.
        split; [reflexivity|]. exists gs'. exact HI'.
      * assert (HI' := HI). unfold Inv in HI'. cbn [gNext gD gGs] in HI'.
        destruct HI' as (Hst & Hn & _).
        unfold l1_drop. rewrite Hst, Hn. cbn [negb orb].
        replace (s =? w16 Next) with false.
        2:{ symmetry. apply Z.eqb_neq. intros Hs. apply Z.eqb_neq in E. apply E.
            rewrite <- Hw in Hs. apply (w16_inj_near r Next); [lia|exact Hs]. }
        cbn [negb fst snd]. split; [reflexivity|]. exists gs. exact HI.
  - (* Reverse *)
    cbn [l1_step spec_step].
    destruct st as [|Next D].
    + cbn [rel] in Hrel. subst a. cbn. split; reflexivity.
    + destruct Hrel as (gs & HI).
      pose proof (reverse_Inv a _ o' HI Hwf) as Hr. cbn [gD] in Hr.
      destruct (l1_reverse a o') as [[ok s] p]. cbn [fst snd].
      split; [|exists gs; exact HI].
      exists ok, s, p. split; [reflexivity|exact Hr].
Qed.

(* ---- every history ---- *)
Fixpoint sat_run (st : sst) (a : l1) (ops : list op) : Prop :=
  match ops with
  | [] => True
  | o :: ops' =>
      snd (spec_step st o) (snd (l1_step a o)) /\
      sat_run (fst (spec_step st o)) (fst (l1_step a o)) ops'
  end.

Lemma run_refines ops : forall a st, rel a st -> Forall wf_op16 ops -> sat_run st a ops.
Proof.
  induction ops as [|o ops IH]; intros a st Hrel Hwf; cbn [sat_run]; [exact I|].
  inversion Hwf as [|? ? Ho Hops]; subst.
  destruct (step_refines a st o Hrel Ho) as (H1 & H2).
  split; [exact H1|]. apply IH; assumption.
Qed.

(* the same for the L0 model of packetmap.go, through the outputs *)
Fixpoint sat_outs (st : sst) (ops : list op) (outs : list PacketMap.out) : Prop :=
  match ops, outs with
  | [], [] => True
  | o :: ops', r :: outs' => snd (spec_step st o) r /\ sat_outs (fst (spec_step st o)) ops' outs'
  | _, _ => False
  end.

Lemma sat_run_outs ops : forall st a, sat_run st a ops -> sat_outs st ops (run1 a ops).
Proof.
  induction ops as [|o ops IH]; intros st a H; cbn [sat_run sat_outs run1] in *; [exact I|].
  destruct H as (H1 & H2). split; [exact H1|]. apply IH. exact H2.
Qed.

Theorem L0_refines_spec ops : Forall wf_op16 ops -> sat_outs SInit ops (run0 pm_init ops).
Proof.
  intros Hwf. rewrite (L0_refines_L1 ops pm_init WfRing_init). rewrite abs_init.
  apply sat_run_outs. apply run_refines; [reflexivity|exact Hwf].
Qed.

(* ---- C03: NACKs inside the window are answered exactly ---- *)
(* For an outgoing number within 8192 of the newest one, Reverse answers with
   THE source packet whose (unwrapped) outgoing number it is, or with nothing:
   no aliasing modulo 2^16, never a withheld packet. *)
Lemma reverse_raw_window a G O : Inv a G -> gGs G <> [] ->
  let ONext := gNext G - zl (gD G) in
  ONext - 8192 <= O < ONext ->
  let '(ok, s, _) := l1_reverse_raw a (w16 O) in
  ok = true -> exists S, w16 S = s /\ ~ In S (gD G) /\ out (gD G) S = O /\ S < gNext G.
Proof.
  destruct G as [Next D gs0]. unfold Inv. cbn [gNext gD gGs].
  intros (Hst & Hn & Hd & Hnd & Hlt & Hv & Hc & Hg & Hh & Hnil & He) Hne.
  set (ONext := Next - zl D). intros HO.
  unfold l1_reverse_raw.
  destruct (l_nil a) eqn:En; [exfalso; apply Hne; apply Hnil; reflexivity|].
  rewrite Hv.
  assert (Hco : chainP opos ONext gs0).
  { unfold ONext. rewrite <- (before_all D Next Hlt). apply chain_out; assumption. }
  pose proof (lwalk_sound opos (fun e => w16 (e_first e + e_delta e)) (fun e => w16 (w16 O - e_delta e))
                ltac:(intros g; unfold opos; cbn [erase e_first e_delta]; unfold w16; lia)
                gs0 ONext O Hco ltac:(lia) ltac:(lia)) as Hw.
  destruct (lwalk (map erase gs0) (w16 O) _ _) as [[v p]|]; cbn [triple]; [|discriminate].
  intros _. destruct Hw as (g & Hin & Hcov & Hv' & _).
  rewrite Forall_forall in Hg. unfold opos in Hcov.
  destruct (gok_out D g (O - Delta g) (Hg g Hin) ltac:(lia)) as (Hnot & Hout).
  exists (O - Delta g). split; [|split; [exact Hnot|split; [lia|]]].
  - rewrite Hv'. cbn [erase e_delta]. unfold w16. lia.
  - destruct (chain_ends First gs0 Next g Hc Hin). lia.
Qed.

Lemma reverse_window a G O : Inv a G -> gGs G <> [] ->
  let ONext := gNext G - zl (gD G) in
  ONext - 8192 <= O < ONext ->
  let '(ok, s, _) := l1_reverse a (w16 O) in
  ok = true -> exists S, w16 S = s /\ ~ In S (gD G) /\ out (gD G) S = O /\ S < gNext G.
Proof.
  intros HI Hne ONext HO. pose proof (reverse_raw_window a G O HI Hne HO) as H.
  unfold l1_reverse. destruct (l1_reverse_raw a (w16 O)) as [[ok s] p].
  destruct ok; cbn [andb]; [|intro; discriminate].
  destruct (l1_recent a s); [exact H|intro; discriminate].
Qed.

(* every reachable state is related to the specification state reached by the
   same operations *)
Fixpoint l1_after (a : l1) (ops : list op) : l1 :=
  match ops with [] => a | o :: ops' => l1_after (fst (l1_step a o)) ops' end.
Fixpoint spec_after (st : sst) (ops : list op) : sst :=
  match ops with [] => st | o :: ops' => spec_after (fst (spec_step st o)) ops' end.

Lemma rel_after ops : forall a st, rel a st -> Forall wf_op16 ops ->
  rel (l1_after a ops) (spec_after st ops).
Proof.
  induction ops as [|o ops IH]; intros a st Hrel Hwf; cbn [l1_after spec_after]; [exact Hrel|].
  inversion Hwf as [|? ? Ho Hops]; subst.
  destruct (step_refines a st o Hrel Ho) as (_ & H2). apply IH; assumption.
Qed.

Lemma reverse_window_reachable ops O : Forall wf_op16 ops ->
  match spec_after SInit ops with
  | SInit => True
  | SRun Next D =>
      let a := l1_after l1_init ops in
      l_nil a = false ->
      Next - zl D - 8192 <= O < Next - zl D ->
      let '(ok, s, _) := l1_reverse a (w16 O) in
      ok = true -> exists S, w16 S = s /\ ~ In S D /\ out D S = O /\ S < Next
  end.
Proof.
  intros Hwf. pose proof (rel_after ops l1_init SInit eq_refl Hwf) as Hrel.
  destruct (spec_after SInit ops) as [|Next D]; [exact I|].
  destruct Hrel as (gs & HI). intros a Hnil HO.
  assert (Hne : gs <> []).
  { intros E. unfold Inv in HI. cbn [gGs] in HI.
    destruct HI as (_ & _ & _ & _ & _ & _ & _ & _ & _ & Hn & _).
    subst gs. destruct Hn as (_ & Hn). unfold a in Hnil. rewrite (Hn eq_refl) in Hnil. discriminate. }
  exact (reverse_window (l1_after l1_init ops) (mkGh Next D gs) O HI Hne HO).
Qed.

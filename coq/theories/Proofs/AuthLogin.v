(* C08: lemmas about Model/Auth.v -- who is accepted, shadowing, empty
   passwords, refused joins, exact permissions, the hash round trip. *)
From Coq Require Import ZArith List Bool String Ascii Arith Lia.
From Galene Require Import Generated.Roles Model.Auth Proofs.AuthRoles.
Import ListNotations.
Close Scope Z_scope.
Open Scope string_scope.

(* ------------------------------------------------ ConstantTimeCompare = equality *)

Lemma copy_into_self : forall b, copy_into (String.length b) b = b.
Proof. induction b as [|c r IH]; cbn; [reflexivity|now rewrite IH]. Qed.

Lemma eqb_length : forall a b, String.eqb a b = true -> String.length a = String.length b.
Proof. intros a b H. apply String.eqb_eq in H. now subst. Qed.

Lemma constant_time_compare_eq : forall a b,
  constant_time_compare a b = String.eqb a b.
Proof.
  intros a b. unfold constant_time_compare.
  destruct (Nat.eqb (String.length a) (String.length b)) eqn:E.
  - apply Nat.eqb_eq in E. rewrite E, copy_into_self. reflexivity.
  - cbn. destruct (String.eqb a b) eqn:E2; [|reflexivity].
    apply eqb_length in E2. apply Nat.eqb_neq in E. contradiction.
Qed.

(* ------------------------------------------------------------ hex round trip *)

Lemma hexval_hexdigit : forall d, d < 16 -> hexval (hexdigit d) = Some d.
Proof.
  intros d H.
  do 16 (destruct d as [|d]; [reflexivity|]). lia.
Qed.

Lemma hex_decode_encode : forall s, hex_decode (hex_encode s) = Some s.
Proof.
  induction s as [|c r IH]; [reflexivity|].
  cbn [hex_encode hex_decode].
  pose proof (nat_ascii_bounded c) as Hb.
  assert (H1 : nat_of_ascii c / 16 < 16) by (apply Nat.div_lt_upper_bound; lia).
  assert (H2 : nat_of_ascii c mod 16 < 16) by (apply Nat.mod_upper_bound; lia).
  rewrite (hexval_hexdigit _ H1), (hexval_hexdigit _ H2), IH.
  rewrite <- (Nat.div_mod (nat_of_ascii c) 16) by lia.
  rewrite ascii_nat_embedding. reflexivity.
Qed.

Lemma hex_encode_length : forall s, String.length (hex_encode s) = 2 * String.length s.
Proof. induction s as [|c r IH]; cbn [hex_encode String.length]; [reflexivity|rewrite IH; lia]. Qed.

(* ------------------------------------------------------------------ login *)

Section Login.
Variable pbkdf2 : string -> string -> Z -> Z -> string.
Variable bcrypt_check : string -> string -> bcrypt_out.

Notation pw_match := (pw_match pbkdf2 bcrypt_check).
Notation get_password_permission := (get_password_permission pbkdf2 bcrypt_check).
Notation get_permission := (get_permission pbkdf2 bcrypt_check).

(* the entry's password matches *)
Definition matches (u : user) (pw : string) : Prop := pw_match (u_password u) pw = MOk true.

Definition accepted (desc : description) (cr : creds) : Prop :=
  exists name perms, get_permission desc cr = inl (name, perms).

Definition set_wildcard (desc : description) (w : option user) : description :=
  mkDesc (d_users desc) w (d_allowRecording desc) (d_unrestrictedTokens desc).

Lemma gpp_inl : forall desc u pw ps,
  get_password_permission desc (mkCreds (Some u) pw) = inl ps <->
  (exists c, assoc u (d_users desc) = Some c /\ matches c pw /\ ps = u_permissions c) \/
  (assoc u (d_users desc) = None /\
   exists w, d_wildcard desc = Some w /\ matches w pw /\ ps = u_permissions w).
Proof.
  intros desc u pw ps. unfold get_password_permission, matches. cbn [cr_username cr_password].
  destruct (assoc u (d_users desc)) as [c|] eqn:Ea.
  - destruct (pw_match (u_password c) pw) as [[|]|e] eqn:Em; split.
    + intros H. inversion H. left. exists c. auto.
    + intros [(c' & Hc & Hm & Hp)|(Hn & _)]; [|discriminate]. inversion Hc. subst. reflexivity.
    + discriminate.
    + intros [(c' & Hc & Hm & Hp)|(Hn & _)]; [|discriminate]. inversion Hc. subst. congruence.
    + discriminate.
    + intros [(c' & Hc & Hm & Hp)|(Hn & _)]; [|discriminate]. inversion Hc. subst. congruence.
  - destruct (d_wildcard desc) as [w|] eqn:Ew.
    + destruct (pw_match (u_password w) pw) as [[|]|e] eqn:Em; split.
      * intros H. inversion H. right. split; [reflexivity|]. exists w. auto.
      * intros [(c' & Hc & _)|(_ & w' & Hw & Hm & Hp)]; [discriminate|]. inversion Hw. subst. reflexivity.
      * discriminate.
      * intros [(c' & Hc & _)|(_ & w' & Hw & Hm & Hp)]; [discriminate|]. inversion Hw. subst. congruence.
      * discriminate.
      * intros [(c' & Hc & _)|(_ & w' & Hw & Hm & Hp)]; [discriminate|]. inversion Hw. subst. congruence.
    + split; [discriminate|].
      intros [(c' & Hc & _)|(_ & w' & Hw & _)]; discriminate.
Qed.

(* what an accepted login returns *)
Lemma accept_result : forall desc u pw name perms,
  get_permission desc (mkCreds (Some u) pw) = inl (name, perms) <->
  valid_username u = true /\ name = u /\
  ((exists c, assoc u (d_users desc) = Some c /\ matches c pw /\
              perms = permissions (Some desc) (u_permissions c)) \/
   (assoc u (d_users desc) = None /\
    exists w, d_wildcard desc = Some w /\ matches w pw /\
              perms = permissions (Some desc) (u_permissions w))).
Proof.
  intros desc u pw name perms. unfold get_permission. cbn [cr_username].
  destruct (get_password_permission desc (mkCreds (Some u) pw)) as [ps|e] eqn:E.
  - apply gpp_inl in E.
    destruct (valid_username u) eqn:V; split.
    + intros H. inversion H. subst. split; [reflexivity|]. split; [reflexivity|].
      destruct E as [(c & Hc & Hm & Hp)|(Hn & w & Hw & Hm & Hp)]; subst ps.
      * left. exists c. auto.
      * right. split; [assumption|]. exists w. auto.
    + intros (_ & -> & H).
      destruct E as [(c & Hc & Hm & Hp)|(Hn & w & Hw & Hm & Hp)];
        destruct H as [(c' & Hc' & Hm' & Hp')|(Hn' & w' & Hw' & Hm' & Hp')]; congruence.
    + discriminate.
    + intros (H & _). discriminate.
  - split; [discriminate|].
    intros (_ & _ & H).
    assert (Hx : exists ps, get_password_permission desc (mkCreds (Some u) pw) = inl ps).
    { destruct H as [(c & Hc & Hm & _)|(Hn & w & Hw & Hm & _)].
      - exists (u_permissions c). apply gpp_inl. left. exists c. auto.
      - exists (u_permissions w). apply gpp_inl. right. split; [assumption|]. exists w. auto. }
    destruct Hx as (ps & Hps). congruence.
Qed.

Lemma accept_iff : forall desc u pw,
  accepted desc (mkCreds (Some u) pw) <->
  valid_username u = true /\
  ((exists c, assoc u (d_users desc) = Some c /\ matches c pw) \/
   (assoc u (d_users desc) = None /\ exists w, d_wildcard desc = Some w /\ matches w pw)).
Proof.
  intros desc u pw. unfold accepted. split.
  - intros (name & perms & H). apply accept_result in H.
    destruct H as (V & _ & [(c & Hc & Hm & _)|(Hn & w & Hw & Hm & _)]); split; try assumption.
    + left. exists c. auto.
    + right. split; [assumption|]. exists w. auto.
  - intros (V & [(c & Hc & Hm)|(Hn & w & Hw & Hm)]).
    + exists u, (permissions (Some desc) (u_permissions c)). apply accept_result.
      split; [assumption|]. split; [reflexivity|]. left. exists c. auto.
    + exists u, (permissions (Some desc) (u_permissions w)). apply accept_result.
      split; [assumption|]. split; [reflexivity|]. right. split; [assumption|]. exists w. auto.
Qed.

Lemma no_username_refused : forall desc pw,
  get_permission desc (mkCreds None pw) = inr ANeither.
Proof. reflexivity. Qed.

(* an entry shadows the wildcard user: the result does not depend on it *)
Lemma shadow : forall desc w' u pw,
  assoc u (d_users desc) <> None ->
  get_permission (set_wildcard desc w') (mkCreds (Some u) pw) =
  get_permission desc (mkCreds (Some u) pw).
Proof.
  intros desc w' u pw H.
  unfold get_permission, get_password_permission, set_wildcard, permissions.
  cbn [cr_username cr_password d_users d_wildcard d_allowRecording d_unrestrictedTokens].
  destruct (assoc u (d_users desc)) as [c|]; [reflexivity|congruence].
Qed.

(* ... in particular a wrong password for an existing entry is refused even
   if the wildcard user would accept it *)
Lemma shadow_refuses : forall desc c u pw,
  assoc u (d_users desc) = Some c -> ~ matches c pw -> ~ accepted desc (mkCreds (Some u) pw).
Proof.
  intros desc c u pw Hc Hm Ha. apply accept_iff in Ha.
  destruct Ha as (_ & [(c' & Hc' & Hm')|(Hn & _)]); [|congruence].
  assert (c' = c) by congruence. subst. contradiction.
Qed.

(* an entry without password type never matches, whatever the password and
   whatever the wildcard user *)
Lemma empty_never : forall desc c u pw,
  assoc u (d_users desc) = Some c -> p_type (u_password c) = "" ->
  get_permission desc (mkCreds (Some u) pw) = inr ABadPassword.
Proof.
  intros desc c u pw Hc Ht.
  unfold get_permission, get_password_permission, Auth.pw_match. cbn [cr_username cr_password].
  rewrite Hc, Ht. reflexivity.
Qed.

Lemma empty_wildcard_never : forall desc w u pw,
  assoc u (d_users desc) = None -> d_wildcard desc = Some w -> p_type (u_password w) = "" ->
  get_permission desc (mkCreds (Some u) pw) = inr ANoSuchUsername.
Proof.
  intros desc w u pw Hn Hw Ht.
  unfold get_permission, get_password_permission, Auth.pw_match. cbn [cr_username cr_password].
  rewrite Hn, Hw, Ht. reflexivity.
Qed.

(* how an error of Match is treated: returned for an entry, dropped (user
   not found) for the wildcard user *)
Lemma match_error_entry : forall desc c u pw e,
  assoc u (d_users desc) = Some c -> pw_match (u_password c) pw = MErr e ->
  get_permission desc (mkCreds (Some u) pw) = inr (AMatch e).
Proof.
  intros desc c u pw e Hc He.
  unfold get_permission, get_password_permission. cbn [cr_username cr_password].
  rewrite Hc, He. reflexivity.
Qed.

Lemma match_error_wildcard : forall desc w u pw e,
  assoc u (d_users desc) = None -> d_wildcard desc = Some w ->
  pw_match (u_password w) pw = MErr e ->
  get_permission desc (mkCreds (Some u) pw) = inr ANoSuchUsername.
Proof.
  intros desc w u pw e Hn Hw He.
  unfold get_permission, get_password_permission. cbn [cr_username cr_password].
  rewrite Hn, Hw, He. reflexivity.
Qed.

(* every result is an acceptance or an error: "refused" = not accepted *)
Lemma refused_is_error : forall desc cr,
  ~ accepted desc cr -> exists e, get_permission desc cr = inr e.
Proof.
  intros desc cr H. destruct (get_permission desc cr) as [[n p]|e] eqn:E.
  - exfalso. apply H. exists n, p. exact E.
  - exists e. reflexivity.
Qed.

(* -------------------------------------------------------- plain and wildcard *)

Lemma match_plain : forall h k s i pw,
  pw_match (mkPassword "plain" h (Some k) s i) pw = MOk (String.eqb pw k).
Proof. intros. unfold Auth.pw_match. cbn. now rewrite constant_time_compare_eq. Qed.

Lemma match_wildcard : forall h k s i pw,
  pw_match (mkPassword "wildcard" h k s i) pw = MOk true.
Proof. reflexivity. Qed.

(* ------------------------------------------------------------ refused joins *)

Variable admission : list string -> client -> list string -> option Z.
Notation add_client := (add_client pbkdf2 bcrypt_check admission).
Notation handle_join := (handle_join pbkdf2 bcrypt_check admission).

(* GetPermission error => AddClient returns before Init and before touching
   the membership *)
Lemma add_client_refused : forall desc members c cr e,
  has "system" (cl_permissions c) = false ->
  get_permission desc cr = inr e ->
  add_client desc members c cr = (members, c, Some (JAuth e)).
Proof.
  intros desc members c cr e Hs He. unfold Auth.add_client. rewrite Hs, He. reflexivity.
Qed.

Lemma refused_outside : forall desc gname members c cr,
  cl_group c = None -> cl_permissions c = [] ->
  ~ accepted desc cr ->
  exists e, get_permission desc cr = inr e /\
    handle_join desc gname members c cr =
    (members, mkClient (cl_id c) (cl_username c) [] None, JFail (JAuth e)).
Proof.
  intros desc gname members c cr Hg Hp Hr.
  destruct (refused_is_error _ _ Hr) as (e & He). exists e. split; [exact He|].
  unfold Auth.handle_join. rewrite Hg.
  rewrite (add_client_refused desc members c cr e); [reflexivity| |exact He].
  rewrite Hp. reflexivity.
Qed.

(* any failed join (authentication or admission) leaves the membership as it
   was and the client without permissions and without group *)
Lemma failed_join_outside : forall desc gname members c cr members' c' e,
  cl_group c = None ->
  handle_join desc gname members c cr = (members', c', JFail e) ->
  members' = members /\ cl_permissions c' = [] /\ cl_group c' = None.
Proof.
  intros desc gname members c cr members' c' e Hg H.
  unfold Auth.handle_join in H. rewrite Hg in H.
  destruct (add_client desc members c cr) as [[m1 c1] r] eqn:E.
  destruct r as [e1|]; [|discriminate].
  inversion H; subst. cbn. split; [|auto].
  unfold Auth.add_client in E.
  destruct (has "system" (cl_permissions c)).
  - destruct (admission members c (cl_permissions c)); inversion E; reflexivity.
  - destruct (get_permission desc cr) as [[u p]|e2]; [|inversion E; reflexivity].
    destruct (admission members _ p); inversion E; reflexivity.
Qed.

(* the invariant "outside a group => no permissions" is kept by the join
   message, whatever its outcome *)
Lemma join_keeps_outside_invariant : forall desc gname members c cr members' c' out,
  (cl_group c = None -> cl_permissions c = []) ->
  handle_join desc gname members c cr = (members', c', out) ->
  (cl_group c' = None -> cl_permissions c' = []).
Proof.
  intros desc gname members c cr members' c' out Hinv H.
  unfold Auth.handle_join in H.
  destruct (cl_group c) eqn:Hg.
  - inversion H; subst. rewrite Hg. discriminate.
  - destruct (add_client desc members c cr) as [[m1 c1] r].
    destruct r; inversion H; subst; cbn; [reflexivity|discriminate].
Qed.

(* an accepted and let in join grants exactly what GetPermission returned *)
Lemma joined_permissions : forall desc gname members c cr members' c',
  cl_group c = None -> cl_permissions c = [] ->
  handle_join desc gname members c cr = (members', c', JJoined) ->
  exists name perms, get_permission desc cr = inl (name, perms) /\
    cl_username c' = name /\ cl_permissions c' = perms /\ cl_group c' = Some gname /\
    members' = (members ++ [cl_id c])%list.
Proof.
  intros desc gname members c cr members' c' Hg Hp H.
  unfold Auth.handle_join in H. rewrite Hg in H.
  unfold Auth.add_client in H. rewrite Hp in H. cbn [has existsb] in H.
  destruct (get_permission desc cr) as [[u p]|e]; [|discriminate].
  destruct (admission members _ p); [discriminate|].
  inversion H; subst. cbn. exists u, p. auto.
Qed.

(* ------------------------------------------------------- exact permissions *)

Lemma permissions_raw : forall d l, permissions d (mkPerms "" l) = l.
Proof. reflexivity. Qed.

(* as the code computes it, for any role table *)
Lemma permissions_named_code : forall us w ar ut r l,
  r <> "" ->
  let R := role_perms r in
  permissions (Some (mkDesc us w ar ut)) (mkPerms r l) =
  ((if ut && (has "present" R && negb (has "token" R)) then ["token"] else []) ++
   (if ar && (has "op" R && negb (has "record" R)) then ["record"] else []) ++ R)%list.
Proof.
  intros us w ar ut r l Hr R. unfold permissions.
  cbn [ps_name ps_perms d_allowRecording d_unrestrictedTokens].
  destruct (String.eqb_spec r "") as [->|_]; [congruence|].
  fold R.
  destruct (ut && (has "present" R && negb (has "token" R)));
    destruct (ar && (has "op" R && negb (has "record" R))); reflexivity.
Qed.

(* ---------------------------------------------------------- hash round trip *)

Variable bcrypt_gen : string -> Z -> string -> option string.
Notation make_password := (make_password pbkdf2 bcrypt_gen).

Lemma make_pbkdf2 : forall pw salt iterations len cost,
  make_password AlgPbkdf2 pw salt iterations len cost =
  Some (mkPassword "pbkdf2" "sha-256" (Some (hex_encode (pbkdf2 pw salt iterations len)))
                   (hex_encode salt) iterations).
Proof. reflexivity. Qed.

Lemma match_made_pbkdf2 :
  (forall pw s i n, (0 <= n)%Z -> Z.of_nat (String.length (pbkdf2 pw s i n)) = n) ->
  forall pw salt iterations len pw', (0 <= len)%Z ->
  pw_match (mkPassword "pbkdf2" "sha-256" (Some (hex_encode (pbkdf2 pw salt iterations len)))
                       (hex_encode salt) iterations) pw' =
  MOk (String.eqb (pbkdf2 pw salt iterations len) (pbkdf2 pw' salt iterations len)).
Proof.
  intros Hlen pw salt iterations len pw' Hl.
  unfold Auth.pw_match.
  cbn [p_type p_hash p_key p_salt p_iter]. cbn [String.eqb Ascii.eqb Bool.eqb].
  rewrite !hex_decode_encode. cbn [String.eqb Ascii.eqb Bool.eqb].
  rewrite Hlen by exact Hl. reflexivity.
Qed.

Lemma roundtrip_pbkdf2 :
  (forall pw s i n, (0 <= n)%Z -> Z.of_nat (String.length (pbkdf2 pw s i n)) = n) ->
  forall pw salt iterations length cost, (0 <= length)%Z ->
  exists p, make_password AlgPbkdf2 pw salt iterations length cost = Some p /\
            pw_match p pw = MOk true.
Proof.
  intros Hlen pw salt iterations len cost Hl. eexists. split; [apply make_pbkdf2|].
  rewrite match_made_pbkdf2 by assumption. now rewrite String.eqb_refl.
Qed.

(* whenever the tool produces a bcrypt record, it verifies for the password *)
Lemma roundtrip_bcrypt :
  (forall pw cost salt h, bcrypt_gen pw cost salt = Some h -> bcrypt_check h pw = BMatch) ->
  forall pw salt iterations length cost p,
  make_password AlgBcrypt pw salt iterations length cost = Some p ->
  pw_match p pw = MOk true.
Proof.
  intros H pw salt iterations len cost p Hp. unfold Auth.make_password in Hp.
  destruct (bcrypt_gen pw cost salt) as [h|] eqn:E; [|discriminate].
  inversion Hp; subst. unfold Auth.pw_match. cbn. rewrite (H _ _ _ _ E). reflexivity.
Qed.

(* the tool hands the password to bcrypt as it is: it produces a record
   exactly when the library produces a hash OF THAT PASSWORD ... *)
Lemma make_bcrypt : forall pw salt iterations length cost,
  make_password AlgBcrypt pw salt iterations length cost =
  option_map (fun h => mkPassword "bcrypt" "" (Some h) "" 0%Z) (bcrypt_gen pw cost salt).
Proof. intros. unfold Auth.make_password. destruct (bcrypt_gen pw cost salt); reflexivity. Qed.

(* ... so it refuses every password the library refuses: those longer than
   72 bytes, of which bcrypt would only see a prefix *)
Lemma tool_refuses_long_bcrypt :
  (forall pw cost salt, 72 < String.length pw -> bcrypt_gen pw cost salt = None) ->
  forall pw salt iterations length cost, 72 < String.length pw ->
  make_password AlgBcrypt pw salt iterations length cost = None.
Proof. intros H pw salt iterations len cost Hl. rewrite make_bcrypt, H by exact Hl. reflexivity. Qed.

Lemma roundtrip_wildcard : forall pw pw' salt iterations length cost,
  exists p, make_password AlgWildcard pw salt iterations length cost = Some p /\
            pw_match p pw' = MOk true.
Proof. intros. eexists. split; reflexivity. Qed.

(* "and for no other password" is exactly collision-freeness of the oracle *)
Lemma no_other_iff_injective :
  (forall pw s i n, (0 <= n)%Z -> Z.of_nat (String.length (pbkdf2 pw s i n)) = n) ->
  forall pw salt iterations length cost p, (0 <= length)%Z ->
  make_password AlgPbkdf2 pw salt iterations length cost = Some p ->
  ((forall pw', pw_match p pw' = MOk true -> pw' = pw) <->
   (forall pw', pbkdf2 pw' salt iterations length = pbkdf2 pw salt iterations length -> pw' = pw)).
Proof.
  intros Hlen pw salt iterations len cost p Hl Hp.
  rewrite make_pbkdf2 in Hp. inversion Hp; subst p. clear Hp.
  split; intros H pw' H'.
  - apply H. rewrite match_made_pbkdf2 by assumption. rewrite H', String.eqb_refl. reflexivity.
  - apply H. rewrite match_made_pbkdf2 in H' by assumption.
    inversion H' as [H2]. apply String.eqb_eq in H2. auto.
Qed.

End Login.

(* ------------------------------------- "and for no other password": not provable *)

(* The second half of the round trip, for hash functions of which only the
   output length is known.  It is false for some such functions (below), so
   it cannot be proved without assuming collision-freeness; it is
   a tested fact only (monitor hash_no_other of the `auth` driver), and on the
   real algorithms it has the exceptions recorded as findings F22 and F23. *)
Definition hash_no_other_statement : Prop :=
  forall (pbkdf2 : string -> string -> Z -> Z -> string)
         (bcrypt_check : string -> string -> bcrypt_out)
         (bcrypt_gen : string -> Z -> string -> option string),
  (forall pw s i n, (0 <= n)%Z -> Z.of_nat (String.length (pbkdf2 pw s i n)) = n) ->
  forall pw salt iterations length cost p pw', (0 <= length)%Z ->
  make_password pbkdf2 bcrypt_gen AlgPbkdf2 pw salt iterations length cost = Some p ->
  pw_match pbkdf2 bcrypt_check p pw' = MOk true ->
  pw' = pw.

Fixpoint zeros (n : nat) : string :=
  match n with O => EmptyString | S k => String zero (zeros k) end.

Lemma zeros_length : forall n, String.length (zeros n) = n.
Proof. induction n; cbn; auto. Qed.

Lemma hash_no_other_refuted : ~ hash_no_other_statement.
Proof.
  intros H.
  specialize (H (fun _ _ _ n => zeros (Z.to_nat n)) (fun _ _ => BError) (fun _ _ _ => None)).
  assert (L : forall (pw s : string) (i n : Z), (0 <= n)%Z ->
              Z.of_nat (String.length (zeros (Z.to_nat n))) = n).
  { intros. rewrite zeros_length. apply Z2Nat.id. assumption. }
  specialize (H L "a" "" 1%Z 4%Z 0%Z).
  assert (X : "b" = "a") by (eapply H; [lia|reflexivity|reflexivity]).
  discriminate.
Qed.

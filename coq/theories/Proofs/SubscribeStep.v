(* C07, layer 2: frame properties of a step.  A step is run by one actor (the
   client whose loop reads a message, serves its queue or ends), or by nobody
   (a delayed push fires, OnTrack).  For every OTHER client the step changes
   nothing but its action queue, which only grows. *)
From Coq Require Import List Bool Arith PeanoNat Lia.
From Galene Require Import Model.Subscribe Proofs.SubscribeFrame Proofs.SubscribeInv.
Import ListNotations.

Definition actor (o : op) : option nat :=
  match o with
  | OpMsg c _ | OpPump c | OpDisconnect c => Some c
  | _ => None
  end.

(* everything but the queue *)
Definition core (c : client) : client := set_queue [] c.

Definition passive (m : nat) (w w' : world) : Prop :=
  core (w_cl w' m) = core (w_cl w m) /\
  exists l, c_queue (w_cl w' m) = c_queue (w_cl w m) ++ l.

Lemma core_fields : forall a b, core a = core b ->
  c_group a = c_group b /\ c_user a = c_user b /\ c_present a = c_present b /\ c_op a = c_op b /\
  c_req a = c_req b /\ c_up a = c_up b /\ c_down a = c_down b /\ c_out a = c_out b /\
  c_dead a = c_dead b.
Proof.
  intros a b H. unfold core, set_queue in H. inversion H. repeat split; eassumption.
Qed.

Lemma passive_refl : forall m w, passive m w w.
Proof. intros. split; [reflexivity|]. exists []. rewrite app_nil_r. reflexivity. Qed.

Lemma passive_trans : forall m a b c, passive m a b -> passive m b c -> passive m a c.
Proof.
  intros m a b c [H1 [l1 Q1]] [H2 [l2 Q2]]. split; [congruence|].
  exists (l1 ++ l2). rewrite Q2, Q1, app_assoc. reflexivity.
Qed.

(* updates of another client *)
Lemma passive_upd_cl : forall m c f w, m <> c -> passive m w (upd_cl c f w).
Proof.
  intros m c f w Hm. unfold passive, upd_cl. simpl.
  destruct (Nat.eqb_spec m c); [contradiction|]. split; [reflexivity|].
  exists []. rewrite app_nil_r. reflexivity.
Qed.

Lemma passive_enq : forall m t a w, passive m w (enq t a w).
Proof.
  intros. unfold passive, enq, upd_cl. simpl. destruct (Nat.eqb m t); simpl.
  - split; [reflexivity|]. exists [a]. reflexivity.
  - split; [reflexivity|]. exists []. rewrite app_nil_r. reflexivity.
Qed.

Lemma passive_enq_all : forall m ts a w, passive m w (enq_all ts a w).
Proof.
  induction ts as [|t r IH]; intros; [apply passive_refl|]. rewrite enq_all_cons.
  eapply passive_trans; [apply passive_enq|apply IH].
Qed.

Lemma passive_upd_up : forall m u f w, passive m w (upd_up u f w).
Proof. intros. split; [reflexivity|]. exists []. rewrite app_nil_r. reflexivity. Qed.

Lemma passive_set_timers : forall m ts w, passive m w (set_timers ts w).
Proof. intros. split; [reflexivity|]. exists []. rewrite app_nil_r. reflexivity. Qed.

Lemma passive_send : forall m c x w, m <> c -> passive m w (send c x w).
Proof. intros. apply passive_upd_cl. assumption. Qed.

Lemma passive_del_up_conn' : forall m c id push w, m <> c -> passive m w (del_up_conn' c id push w).
Proof.
  intros m c id push w Hm. unfold del_up_conn', del_up_conn.
  destruct (lookup id (c_up (w_cl w c))); [|apply passive_refl].
  assert (H : passive m w (upd_up n up_set_closed (upd_cl c (fun cl => set_ups (remove_key id (c_up cl)) cl) w))).
  { eapply passive_trans; [apply passive_upd_cl; exact Hm|apply passive_upd_up]. }
  destruct push; [destruct (c_group (w_cl w c))|]; try exact H.
  eapply passive_trans; [exact H|apply passive_enq_all].
Qed.

Lemma passive_leave_fold : forall m c l w, m <> c -> passive m w (leave_fold c l w).
Proof.
  induction l as [|x r IH]; intros w Hm; [apply passive_refl|]. simpl.
  eapply passive_trans; [apply passive_del_up_conn'; exact Hm|apply IH; exact Hm].
Qed.

Lemma passive_leave_group : forall m c w, m <> c -> passive m w (leave_group c w).
Proof.
  intros. unfold leave_group. destruct (c_group (w_cl w c)); [|apply passive_refl].
  eapply passive_trans; [apply (passive_leave_fold m c); eassumption|apply passive_upd_cl; eassumption].
Qed.

Lemma passive_error_close : forall m c w, m <> c -> passive m w (error_close c w).
Proof.
  intros. unfold error_close.
  eapply passive_trans; [apply (passive_leave_group m c); eassumption|apply passive_upd_cl; eassumption].
Qed.

Lemma passive_finish : forall m c w r, m <> c -> passive m w (fst r) -> passive m w (finish c r).
Proof.
  intros m c w [w' e] Hm H. unfold finish. simpl in *. destruct e; [|exact H].
  eapply passive_trans; [exact H|apply passive_error_close; exact Hm].
Qed.

Lemma passive_close_down_conn : forall m c id msg w, m <> c -> passive m w (close_down_conn c id msg w).
Proof.
  intros. unfold close_down_conn, del_down.
  destruct msg; repeat (eapply passive_trans; [|apply passive_send; eassumption]); apply passive_upd_cl; eassumption.
Qed.

Lemma passive_negotiate : forall m c d r w, m <> c -> passive m w (negotiate c d r w).
Proof.
  intros. unfold negotiate, set_down_entry. destruct (d_havelocal d); [apply passive_upd_cl; eassumption|].
  eapply passive_trans; [apply passive_upd_cl; eassumption|apply passive_send; eassumption].
Qed.

Lemma passive_fail_up : forall m c id w, m <> c -> passive m w (fail_up c id w).
Proof. intros. unfold fail_up. eapply passive_trans; apply passive_send; eassumption. Qed.

Lemma passive_offer_tail : forall m c id replace u s w, m <> c -> passive m w (offer_tail c id replace u s w).
Proof.
  intros m c id replace u s w Hm. unfold offer_tail. set (w2 := if Nat.eqb replace 0 then w else _).
  assert (H : passive m w w2).
  { unfold w2. destruct (Nat.eqb replace 0); [apply passive_refl|].
    eapply passive_trans; [apply (passive_upd_up m u)|apply passive_del_up_conn'; exact Hm]. }
  destruct s; [destruct (uo_closed (w_up w2 u))|..]; (eapply passive_trans; [exact H|]);
    try (apply passive_fail_up; exact Hm); apply passive_send; exact Hm.
Qed.

Lemma passive_new_up_conn : forall m c id label g w, m <> c -> passive m w (new_up_conn c id label g w).
Proof.
  intros m c id label g w Hm. unfold passive, new_up_conn, new_timer. simpl.
  destruct (Nat.eqb_spec m c); [contradiction|]. split; [reflexivity|]. exists []. rewrite app_nil_r. reflexivity.
Qed.

Lemma passive_got_offer : forall m c id label replace s w, m <> c -> passive m w (got_offer c id label replace s w).
Proof.
  intros m c id label replace s w Hm. unfold got_offer.
  destruct (get_down id (c_down (w_cl w c))); [apply passive_fail_up; exact Hm|].
  destruct (lookup id (c_up (w_cl w c))); [apply passive_offer_tail; exact Hm|].
  destruct s; destruct (c_group (w_cl w c)); try (apply passive_fail_up; exact Hm);
    (eapply passive_trans; [apply passive_new_up_conn; exact Hm|apply passive_offer_tail; exact Hm]).
Qed.

Lemma passive_push_down_conn : forall m c id up ts r w, m <> c -> passive m w (fst (push_down_conn c id up ts r w)).
Proof.
  intros m c id up ts r w Hm. unfold push_down_conn.
  set (w1 := if Nat.eqb r 0 then w else del_down c r w).
  assert (S1 : passive m w w1).
  { unfold w1, del_down. destruct (Nat.eqb r 0); [apply passive_refl|apply passive_upd_cl; exact Hm]. }
  assert (Hdef : forall w', passive m w w' -> passive m w (if Nat.eqb r 0 then w' else close_down_conn c r false w')).
  { intros w' S'. destruct (Nat.eqb r 0); [exact S'|].
    eapply passive_trans; [exact S'|apply passive_close_down_conn; exact Hm]. }
  match goal with |- context [match fst ?s with _ => _ end] => destruct (fst s) as [|i0 sel] end.
  - cbn [fst]. apply Hdef. eapply passive_trans; [exact S1|apply passive_close_down_conn; exact Hm].
  - destruct up as [u|]; [|cbn [fst]; apply Hdef; eapply passive_trans; [exact S1|apply passive_close_down_conn; exact Hm]].
    unfold add_down_conn.
    destruct (lookup (uo_id (w_up w1 u)) (c_up (w_cl w1 c))); [cbn [fst]; apply Hdef; exact S1|].
    destruct (get_down (uo_id (w_up w1 u)) (c_down (w_cl w1 c))) as [d0|] eqn:Eg.
    + destruct (get_down (uo_id (w_up w u)) (c_down (w_cl w1 c))); [|cbn [fst]; apply Hdef; exact S1].
      destruct (replace_tracks _ _ _) as [changed d'].
      assert (S3 : passive m w (set_down_entry c d' w1)).
      { eapply passive_trans; [exact S1|apply passive_upd_cl; exact Hm]. }
      destruct changed; cbn [fst]; [|apply Hdef; exact S3].
      eapply passive_trans; [exact S3|apply passive_negotiate; exact Hm].
    + destruct (uo_closed (w_up w1 u)); [cbn [fst]; apply Hdef; exact S1|].
      set (w2 := upd_cl c _ w1).
      assert (S2 : passive m w w2).
      { eapply passive_trans; [exact S1|apply passive_upd_cl; exact Hm]. }
      destruct (get_down (uo_id (w_up w u)) (c_down (w_cl w2 c))); [|cbn [fst]; apply Hdef; exact S2].
      destruct (replace_tracks _ _ _) as [changed d'].
      assert (S3 : passive m w (set_down_entry c d' w2)).
      { eapply passive_trans; [exact S2|apply passive_upd_cl; exact Hm]. }
      destruct changed; cbn [fst]; [|apply Hdef; exact S3].
      eapply passive_trans; [exact S3|apply passive_negotiate; exact Hm].
Qed.

Lemma passive_reqconns_fold : forall m g t id l w, passive m w (reqconns_fold g t id l w).
Proof.
  induction l as [|x r IH]; intros w; [apply passive_refl|]. simpl.
  destruct (negb (Nat.eqb id 0) && negb (Nat.eqb id (fst x))); [apply IH|].
  eapply passive_trans; [apply passive_enq|apply IH].
Qed.

Lemma passive_unpresent_fold : forall m c l w, m <> c -> passive m w (unpresent_fold c l w).
Proof.
  induction l as [|x r IH]; intros w Hm; [apply passive_refl|]. simpl.
  eapply passive_trans; [|apply IH; exact Hm].
  pose proof (passive_del_up_conn' m c (fst x) true w Hm) as H. unfold del_up_conn' in H.
  destruct (del_up_conn c (fst x) true w); [apply passive_refl|].
  eapply passive_trans; [exact H|apply passive_fail_up; exact Hm].
Qed.

Lemma passive_handle_msg : forall m c msg w, m <> c -> passive m w (fst (handle_msg c msg w)).
Proof.
  intros m c msg w Hm.
  destruct msg as [g user pres op0|g|req|id req|id label replace s|id|id|id ok|dest|dest give];
    cbv beta iota zeta delta [handle_msg].
  - destruct (c_group (w_cl w c)); cbn [fst]; [apply passive_refl|apply passive_upd_cl; exact Hm].
  - destruct (in_group g (w_cl w c)); cbn [fst]; [apply passive_leave_group; exact Hm|apply passive_refl].
  - destruct (c_group (w_cl w c)); cbn [fst]; [|apply passive_refl].
    eapply passive_trans; [apply passive_upd_cl; exact Hm|apply passive_enq_all].
  - destruct (get_down id (c_down (w_cl w c))); [|apply passive_refl].
    destruct (c_group (w_cl w c)); cbn [fst]; [|apply passive_refl].
    eapply passive_trans; [apply passive_upd_cl; exact Hm|apply passive_enq].
  - destruct (Nat.eqb id 0); cbn [fst]; [apply passive_refl|].
    destruct (c_present (w_cl w c)); cbn [fst]; [apply passive_got_offer; exact Hm|].
    eapply passive_trans; [|apply passive_send; exact Hm]. eapply passive_trans; [|apply passive_send; exact Hm].
    destruct (Nat.eqb replace 0); [apply passive_refl|apply passive_del_up_conn'; exact Hm].
  - destruct (Nat.eqb id 0); cbn [fst]; [apply passive_refl|apply passive_del_up_conn'; exact Hm].
  - destruct (Nat.eqb id 0); cbn [fst]; [apply passive_refl|apply passive_close_down_conn; exact Hm].
  - destruct (Nat.eqb id 0); cbn [fst]; [apply passive_refl|].
    destruct (get_down id (c_down (w_cl w c))) as [d|]; cbn [fst]; [|apply passive_close_down_conn; exact Hm].
    destruct (ok && d_havelocal d); cbn [fst]; [|apply passive_close_down_conn; exact Hm].
    destruct (d_neg d); cbn [fst]; [|apply passive_upd_cl; exact Hm].
    eapply passive_trans; [apply passive_upd_cl; exact Hm|apply passive_negotiate; exact Hm].
  - destruct (c_group (w_cl w c)); cbn [fst]; [|apply passive_send; exact Hm].
    destruct (c_op (w_cl w c) && member_of w _ dest); cbn [fst]; [apply passive_enq|apply passive_send; exact Hm].
  - destruct (c_group (w_cl w c)); cbn [fst]; [|apply passive_send; exact Hm].
    destruct (c_op (w_cl w c) && member_of w _ dest); cbn [fst]; [apply passive_enq|apply passive_send; exact Hm].
Qed.

Lemma passive_handle_action : forall m c a w, m <> c -> passive m w (fst (handle_action c a w)).
Proof.
  intros m c a w Hm. destruct a as [g id up ts r|g t id|g give| |]; cbv beta iota zeta delta [handle_action].
  - destruct (in_group g (w_cl w c)); [apply passive_push_down_conn; exact Hm|apply passive_refl].
  - destruct (in_group g (w_cl w c)); cbn [fst]; [|apply passive_refl].
    apply (passive_reqconns_fold m g t id).
  - destruct (in_group g (w_cl w c)); cbn [fst]; [|apply passive_refl].
    eapply passive_trans; [apply passive_upd_cl; exact Hm|apply passive_enq].
  - destruct (c_group (w_cl w c)); cbn [fst]; [|apply passive_refl].
    destruct (c_present (w_cl w c)); cbn [fst]; [apply passive_refl|].
    apply (passive_unpresent_fold m c); exact Hm.
  - apply passive_refl.
Qed.

(* For everybody but the actor, a step only appends to the queue. *)
Theorem step_passive : forall w o m, actor o <> Some m -> passive m w (step w o).
Proof.
  intros w o m Ha. destruct o as [c msg|c|c|i|u k]; simpl in *.
  - assert (Hm : m <> c) by congruence.
    destruct (Nat.ltb c (w_n w) && negb (c_dead (w_cl w c))); [|apply passive_refl].
    apply passive_finish; [exact Hm|apply passive_handle_msg; exact Hm].
  - assert (Hm : m <> c) by congruence.
    destruct (Nat.ltb c (w_n w) && negb (c_dead (w_cl w c))); [|apply passive_refl].
    destruct (c_queue (w_cl w c)) as [|a q]; [apply passive_refl|].
    apply passive_finish; [exact Hm|].
    eapply passive_trans; [apply passive_upd_cl; exact Hm|apply passive_handle_action; exact Hm].
  - assert (Hm : m <> c) by congruence.
    destruct (Nat.ltb c (w_n w) && negb (c_dead (w_cl w c))); [apply passive_error_close; exact Hm|apply passive_refl].
  - destruct (nth_error (w_timers w) i); [|apply passive_refl].
    eapply passive_trans; [apply passive_set_timers|]. unfold fire_timer.
    destruct (uo_pushed _); [apply passive_refl|].
    eapply passive_trans; [apply passive_upd_up|apply passive_enq_all].
  - destruct (Nat.ltb u (w_nup w) && negb (uo_closed (w_up w u))); [|apply passive_refl].
    destruct (c_group (w_cl w (uo_owner (w_up w u)))); [|apply passive_upd_up].
    unfold new_timer. eapply passive_trans; [apply passive_upd_up|].
    eapply passive_trans; [apply passive_upd_up|apply passive_set_timers].
Qed.

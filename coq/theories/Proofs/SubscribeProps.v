(* C07, layer 2: the statements about single steps (who is sent what, and
   why), derived from the invariant and from [step_sends_only]. *)
From Coq Require Import List Bool Arith PeanoNat Lia.
From Galene Require Import Model.Subscribe Proofs.SubscribeFrame Proofs.SubscribeInv Proofs.SubscribeOut.
Import ListNotations.

Definition reachable (w : world) : Prop :=
  exists n ops, ok_run (init n) ops /\ w = run (init n) ops.

Lemma reachable_Inv : forall w, reachable w -> Inv w.
Proof.
  intros w [n [ops [Hok ->]]]. apply Inv_run; [apply Inv_init|exact Hok].
Qed.

Lemma run_app : forall ops1 ops2 w, run w (ops1 ++ ops2) = run (run w ops1) ops2.
Proof. intros. unfold run. apply fold_left_app. Qed.

Lemma ok_run_app : forall ops1 ops2 w, ok_run w (ops1 ++ ops2) <-> ok_run w ops1 /\ ok_run (run w ops1) ops2.
Proof.
  induction ops1 as [|o r IH]; intros; simpl; [tauto|]. rewrite IH. tauto.
Qed.

Lemma reachable_step : forall w o, reachable w -> ok_op w o -> reachable (step w o).
Proof.
  intros w o [n [ops [Hok ->]]] Ho. exists n, (ops ++ [o]). split.
  - apply ok_run_app. split; [exact Hok|]. simpl. auto.
  - rewrite run_app. reflexivity.
Qed.

(* the messages a step appends to the outbox of m *)
Definition sent (w : world) (o : op) (m : nat) (x : outmsg) : Prop :=
  exists l, c_out (w_cl (step w o) m) = c_out (w_cl w m) ++ l /\ In x l.

Lemma sent_step_sends : forall w o m x, sent w o m x -> step_sends w o m x.
Proof.
  intros w o m x [l [E Hin]]. destruct (step_sends_only w o m) as [l' [E' F]].
  rewrite E' in E. apply app_inv_head in E. subst l'.
  rewrite Forall_forall in F. apply F. exact Hin.
Qed.

(* ---- label identity *)

Lemma label_identity : forall w o m id lab rep src usr,
  reachable w -> ok_op w o ->
  sent w o m (OOffer id lab rep src usr) ->
  exists u, u < w_nup w /\ uo_id (w_up w u) = id /\
            uo_owner (w_up w u) = src /\ uo_label (w_up w u) = lab /\
            usr = c_user (w_cl w src) /\
            (forall v, v < w_nup w -> uo_id (w_up w v) = id -> v = u).
Proof.
  intros w o m id lab rep src usr Hr Hok Hs. pose proof (reachable_Inv _ Hr) as I.
  apply sent_step_sends in Hs.
  assert (Hgen : forall x, x < w_nup w -> uo_id (w_up w x) = id ->
            OOffer id lab rep src usr = offer_of w id x rep ->
            exists u, u < w_nup w /\ uo_id (w_up w u) = id /\
              uo_owner (w_up w u) = src /\ uo_label (w_up w u) = lab /\
              usr = c_user (w_cl w src) /\
              (forall v, v < w_nup w -> uo_id (w_up w v) = id -> v = u)).
  { intros x Hx Hid E. unfold offer_of in E. inversion E. subst. exists x. repeat split; auto.
    intros v Hv Hvid. apply (inv_ids _ I); auto. }
  destruct o as [c msg|c|c|i|u k]; simpl in Hs; try contradiction.
  - destruct msg; try contradiction.
    destruct Hs as [-> [-> [d [Hd E]]]].
    destruct (get_down_in _ _ _ Hd) as [Hin Hid].
    destruct (inv_downs _ I m d Hin) as [D1 [D2 _]].
    assert (rep = 0) by (unfold offer_of in E; inversion E; reflexivity). subst rep.
    apply (Hgen (d_remote d)); auto. congruence.
  - destruct Hs as [-> [g [id' [u [ts [r [q [Eq [Hg [Hid [Hsel [x' [Hx E]]]]]]]]]]]]].
    assert (Ha : action_ok w m (APush g id' (Some u) ts r)).
    { apply (inv_queue _ I). rewrite Eq. left. reflexivity. }
    simpl in Ha. destruct Ha as [A1 [A2 _]].
    assert (rep = r) by (unfold offer_of in E; inversion E; reflexivity). subst rep.
    destruct Hx as [->|[d [Hd1 Hd2]]].
    + apply (Hgen u); auto.
    + destruct (get_down_in _ _ _ Hd1) as [Hin Hdid].
      destruct (inv_downs _ I m d Hin) as [D1 [D2 _]].
      apply (Hgen x'); subst x'; auto. congruence.
Qed.

(* ---- same group only *)

Lemma same_group_downs : forall w m d,
  reachable w -> In d (c_down (w_cl w m)) ->
  c_group (w_cl w m) = Some (uo_group (w_up w (d_remote d))) /\
  uo_owner (w_up w (d_remote d)) <> m /\
  (uo_closed (w_up w (d_remote d)) = false ->
   c_group (w_cl w (uo_owner (w_up w (d_remote d)))) = c_group (w_cl w m)).
Proof.
  intros w m d Hr Hin. pose proof (reachable_Inv _ Hr) as I.
  destruct (inv_downs _ I m d Hin) as [D1 [D2 [D3 D4]]]. repeat split; auto.
  intro Hc. destruct (inv_alive _ I _ D1 Hc) as [_ B]. congruence.
Qed.

Lemma same_group_offer : forall w o m id lab rep src usr,
  reachable w -> ok_op w o ->
  sent w o m (OOffer id lab rep src usr) ->
  exists u, u < w_nup w /\ uo_id (w_up w u) = id /\
            c_group (w_cl w m) = Some (uo_group (w_up w u)) /\ uo_owner (w_up w u) <> m.
Proof.
  intros w o m id lab rep src usr Hr Hok Hs. pose proof (reachable_Inv _ Hr) as I.
  apply sent_step_sends in Hs.
  destruct o as [c msg|c|c|i|u k]; simpl in Hs; try contradiction.
  - destruct msg; try contradiction.
    destruct Hs as [-> [-> [d [Hd E]]]].
    destruct (get_down_in _ _ _ Hd) as [Hin Hid].
    destruct (inv_downs _ I m d Hin) as [D1 [D2 [D3 D4]]].
    exists (d_remote d). repeat split; auto. congruence.
  - destruct Hs as [-> [g [id' [u [ts [r [q [Eq [Hg [Hid [Hsel _]]]]]]]]]]].
    assert (Ha : action_ok w m (APush g id' (Some u) ts r)).
    { apply (inv_queue _ I). rewrite Eq. left. reflexivity. }
    simpl in Ha. destruct Ha as [A1 [A2 [A3 [_ [A5 _]]]]].
    exists u. repeat split; auto. congruence.
Qed.

(* ---- close only when *)

Definition close_reason (w : world) (o : op) (m id : nat) : Prop :=
  o = OpMsg m (MAbort id) \/
  (exists ok, o = OpMsg m (MAnswer id ok)) \/
  (o = OpPump m /\
   (ended w id \/
    exists u ts r, u < w_nup w /\ uo_id (w_up w u) = id /\
                   (exists l, uo_tracks (w_up w u) = ts ++ l) /\
                   fst (requested_tracks (push_req w m u r) ts) = [])).

Lemma close_only_when : forall w o m id,
  reachable w -> ok_op w o -> sent w o m (OClose id) -> close_reason w o m id.
Proof.
  intros w o m id Hr Hok Hs. pose proof (reachable_Inv _ Hr) as I.
  apply sent_step_sends in Hs. unfold close_reason.
  destruct o as [c msg|c|c|i|u k]; simpl in Hs; try contradiction.
  - destruct msg; try contradiction; destruct Hs as [-> ->]; [left; reflexivity|right; left; eauto].
  - destruct Hs as [-> [g [id' [up [ts [r [q [Eq [Hg Hcase]]]]]]]]].
    right. right. split; [reflexivity|].
    assert (Ha : action_ok w m (APush g id' up ts r)).
    { apply (inv_queue _ I). rewrite Eq. left. reflexivity. }
    destruct Hcase as [[-> [->|[u [-> Hsel]]]]|[-> Hr0]].
    + simpl in Ha. left. tauto.
    + simpl in Ha. destruct Ha as [A1 [A2 [A3 [A4 _]]]]. right. exists u, ts, r. auto.
    + left. destruct up; simpl in Ha; tauto.
Qed.

(* ---- a client's messages touch only its own down streams and outbox *)

Definition local_to (c : nat) (w w' : world) : Prop :=
  forall m, m <> c -> c_down (w_cl w' m) = c_down (w_cl w m) /\ c_out (w_cl w' m) = c_out (w_cl w m).

Lemma lt_refl : forall c w, local_to c w w.
Proof. intros c w m _. auto. Qed.

Lemma lt_trans : forall c w1 w2 w3, local_to c w1 w2 -> local_to c w2 w3 -> local_to c w1 w3.
Proof.
  intros c w1 w2 w3 H1 H2 m Hm. destruct (H1 m Hm), (H2 m Hm). split; congruence.
Qed.

Lemma lt_upd_cl : forall c f w, local_to c w (upd_cl c f w).
Proof.
  intros c f w m Hm. unfold upd_cl. simpl. destruct (Nat.eqb_spec m c); [contradiction|auto].
Qed.

Lemma lt_send : forall c x w, local_to c w (send c x w).
Proof. intros. apply lt_upd_cl. Qed.

Lemma lt_any_enq : forall c t a w, local_to c w (enq t a w).
Proof. intros c t a w m _. autorewrite with sub. auto. Qed.

Lemma lt_any_enq_all : forall c ts a w, local_to c w (enq_all ts a w).
Proof. intros c ts a w m _. autorewrite with sub. auto. Qed.

Lemma lt_upd_up : forall c u f w, local_to c w (upd_up u f w).
Proof. intros c u f w m _. auto. Qed.

Lemma lt_set_timers : forall c ts w, local_to c w (set_timers ts w).
Proof. intros c ts w m _. auto. Qed.

Lemma lt_del_up_conn' : forall c id push w, local_to c w (del_up_conn' c id push w).
Proof.
  intros c id push w. unfold del_up_conn', del_up_conn.
  destruct (lookup id (c_up (w_cl w c))); [|apply lt_refl].
  assert (H : local_to c w (upd_up n up_set_closed (upd_cl c (fun cl => set_ups (remove_key id (c_up cl)) cl) w))).
  { eapply lt_trans; [apply lt_upd_cl|apply lt_upd_up]. }
  destruct push; [destruct (c_group (w_cl w c))|]; try exact H.
  eapply lt_trans; [exact H|apply lt_any_enq_all].
Qed.

Lemma lt_leave_fold : forall c l w, local_to c w (leave_fold c l w).
Proof.
  induction l as [|x r IH]; intros w; [apply lt_refl|]. simpl.
  eapply lt_trans; [apply lt_del_up_conn'|apply IH].
Qed.

Lemma lt_leave_group : forall c w, local_to c w (leave_group c w).
Proof.
  intros. unfold leave_group. destruct (c_group (w_cl w c)); [|apply lt_refl].
  eapply lt_trans; [apply (lt_leave_fold c)|apply lt_upd_cl].
Qed.

Lemma lt_error_close : forall c w, local_to c w (error_close c w).
Proof. intros. unfold error_close. eapply lt_trans; [apply lt_leave_group|apply lt_upd_cl]. Qed.

Lemma lt_finish : forall c w r, local_to c w (fst r) -> local_to c w (finish c r).
Proof.
  intros c w [w' e] H. unfold finish. simpl in *. destruct e; [|exact H].
  eapply lt_trans; [exact H|apply lt_error_close].
Qed.

Lemma lt_close_down_conn : forall c id msg w, local_to c w (close_down_conn c id msg w).
Proof.
  intros. unfold close_down_conn, del_down.
  destruct msg; repeat (eapply lt_trans; [|apply lt_send]); apply lt_upd_cl.
Qed.

Lemma lt_negotiate : forall c d r w, local_to c w (negotiate c d r w).
Proof.
  intros. unfold negotiate, set_down_entry. destruct (d_havelocal d); [apply lt_upd_cl|].
  eapply lt_trans; [apply lt_upd_cl|apply lt_send].
Qed.

Lemma lt_fail_up : forall c id w, local_to c w (fail_up c id w).
Proof. intros. unfold fail_up. eapply lt_trans; apply lt_send. Qed.

Lemma lt_offer_tail : forall c id replace u s w, local_to c w (offer_tail c id replace u s w).
Proof.
  intros. unfold offer_tail. set (w2 := if Nat.eqb replace 0 then w else _).
  assert (H : local_to c w w2).
  { unfold w2. destruct (Nat.eqb replace 0); [apply lt_refl|].
    eapply lt_trans; [apply (lt_upd_up c u)|apply lt_del_up_conn']. }
  destruct s; [destruct (uo_closed (w_up w2 u))|..]; (eapply lt_trans; [exact H|]);
    try apply lt_fail_up; apply lt_send.
Qed.

Lemma lt_new_up_conn : forall c id label g w, local_to c w (new_up_conn c id label g w).
Proof.
  intros c id label g w m Hm. unfold new_up_conn, new_timer. simpl.
  destruct (Nat.eqb_spec m c); [contradiction|auto].
Qed.

Lemma lt_got_offer : forall c id label replace s w, local_to c w (got_offer c id label replace s w).
Proof.
  intros. unfold got_offer.
  destruct (get_down id (c_down (w_cl w c))); [apply lt_fail_up|].
  destruct (lookup id (c_up (w_cl w c))); [apply lt_offer_tail|].
  destruct s; destruct (c_group (w_cl w c)); try apply lt_fail_up;
    (eapply lt_trans; [apply lt_new_up_conn|apply lt_offer_tail]).
Qed.

(* every message of a client leaves the down streams and the outbox of every
   other client as they are *)
Lemma msg_local : forall w c msg, local_to c w (step w (OpMsg c msg)).
Proof.
  intros w c msg. simpl.
  destruct (Nat.ltb c (w_n w) && negb (c_dead (w_cl w c))); [|apply lt_refl].
  apply lt_finish.
  destruct msg as [g user pres op0|g|req|id req|id label replace s|id|id|id ok|dest|dest give];
    cbv beta iota zeta delta [handle_msg].
  - destruct (c_group (w_cl w c)); cbn [fst]; [apply lt_refl|apply lt_upd_cl].
  - destruct (in_group g (w_cl w c)); cbn [fst]; [apply lt_leave_group|apply lt_refl].
  - destruct (c_group (w_cl w c)); cbn [fst]; [|apply lt_refl].
    eapply lt_trans; [apply lt_upd_cl|apply lt_any_enq_all].
  - destruct (get_down id (c_down (w_cl w c))); [|apply lt_refl].
    destruct (c_group (w_cl w c)); cbn [fst]; [|apply lt_refl].
    eapply lt_trans; [apply lt_upd_cl|apply lt_any_enq].
  - destruct (Nat.eqb id 0); cbn [fst]; [apply lt_refl|].
    destruct (c_present (w_cl w c)); cbn [fst]; [apply lt_got_offer|].
    eapply lt_trans; [|apply lt_send]. eapply lt_trans; [|apply lt_send].
    destruct (Nat.eqb replace 0); [apply lt_refl|apply lt_del_up_conn'].
  - destruct (Nat.eqb id 0); cbn [fst]; [apply lt_refl|apply lt_del_up_conn'].
  - destruct (Nat.eqb id 0); cbn [fst]; [apply lt_refl|apply lt_close_down_conn].
  - destruct (Nat.eqb id 0); cbn [fst]; [apply lt_refl|].
    destruct (get_down id (c_down (w_cl w c))) as [d|]; cbn [fst]; [|apply lt_close_down_conn].
    destruct (ok && d_havelocal d); cbn [fst]; [|apply lt_close_down_conn].
    destruct (d_neg d); cbn [fst]; [|apply lt_upd_cl].
    eapply lt_trans; [apply lt_upd_cl|apply lt_negotiate].
  - destruct (c_group (w_cl w c)); cbn [fst]; [|apply lt_send].
    destruct (c_op (w_cl w c) && member_of w _ dest); cbn [fst]; [apply lt_any_enq|apply lt_send].
  - destruct (c_group (w_cl w c)); cbn [fst]; [|apply lt_send].
    destruct (c_op (w_cl w c) && member_of w _ dest); cbn [fst]; [apply lt_any_enq|apply lt_send].
Qed.

(* a request is served by pushes to the requester only: handling
   requestConnsAction changes nobody's streams or outbox, and only the queue of
   the target (and of the handler, which loses the action) *)
Lemma reqconns_fold_queue : forall g t id l w m, m <> t ->
  c_queue (w_cl (reqconns_fold g t id l w) m) = c_queue (w_cl w m).
Proof.
  induction l as [|x r IH]; intros w m Hm; [reflexivity|]. simpl.
  destruct (negb (Nat.eqb id 0) && negb (Nat.eqb id (fst x))); [apply IH; exact Hm|].
  rewrite IH; auto. autorewrite with sub. destruct (Nat.eqb_spec m t); [contradiction|apply app_nil_r].
Qed.

Lemma reqconns_fold_frame : forall g t id l w m,
  c_down (w_cl (reqconns_fold g t id l w) m) = c_down (w_cl w m) /\
  c_out (w_cl (reqconns_fold g t id l w) m) = c_out (w_cl w m) /\
  c_up (w_cl (reqconns_fold g t id l w) m) = c_up (w_cl w m) /\
  c_group (w_cl (reqconns_fold g t id l w) m) = c_group (w_cl w m).
Proof.
  induction l as [|x r IH]; intros w m; [auto|]. simpl.
  destruct (negb (Nat.eqb id 0) && negb (Nat.eqb id (fst x))); [apply IH|].
  destruct (IH (enq t (APush g (fst x) (Some (snd x)) (uo_tracks (w_up w (snd x))) (uo_replace (w_up w (snd x)))) w) m)
    as [A [B [C D]]].
  rewrite A, B, C, D. autorewrite with sub. auto.
Qed.

Lemma request_reaches_only_requester : forall w p g t id q,
  c_queue (w_cl w p) = AReqConns g t id :: q ->
  p < w_n w -> c_dead (w_cl w p) = false ->
  let w' := step w (OpPump p) in
  (forall m, c_down (w_cl w' m) = c_down (w_cl w m) /\ c_out (w_cl w' m) = c_out (w_cl w m)) /\
  (forall m, m <> t -> m <> p -> c_queue (w_cl w' m) = c_queue (w_cl w m)).
Proof.
  intros w p g t id q Eq Hp Hd. simpl.
  assert (E : Nat.ltb p (w_n w) && negb (c_dead (w_cl w p)) = true).
  { apply andb_true_intro. split; [apply Nat.ltb_lt; exact Hp|rewrite Hd; reflexivity]. }
  rewrite E, Eq. cbv beta iota zeta delta [handle_action].
  set (w0 := upd_cl p (set_queue q) w).
  assert (F0 : forall m, c_down (w_cl w0 m) = c_down (w_cl w m) /\ c_out (w_cl w0 m) = c_out (w_cl w m)).
  { intro m. unfold w0, upd_cl. simpl. destruct (Nat.eqb m p); auto. }
  assert (Q0 : forall m, m <> p -> c_queue (w_cl w0 m) = c_queue (w_cl w m)).
  { intros m Hm. unfold w0, upd_cl. simpl. destruct (Nat.eqb_spec m p); [contradiction|reflexivity]. }
  destruct (in_group g (w_cl w0 p)); unfold finish; cbn [fst snd].
  - fold (reqconns_fold g t id (c_up (w_cl w0 p)) w0). split.
    + intro m. destruct (reqconns_fold_frame g t id (c_up (w_cl w0 p)) w0 m) as [A [B _]].
      destruct (F0 m). split; congruence.
    + intros m H1 H2. rewrite reqconns_fold_queue; auto.
  - split; [exact F0|]. intros m _ H2. apply Q0. exact H2.
Qed.

(* Lemmas about Model/History.v (chat history of a group, C15 history part).
   Everything is proved for ALL operation sequences (add / get / clear /
   set-age / join / raw) with arbitrary times and arbitrary strings.
   The proofs use the generated constants only through [maxChatHistory_pos]
   (0 < maxChatHistory); the literal values are pinned by the consistency
   lemmas at the top, which are what breaks when /repo changes a constant. *)
From Coq Require Import String.
From Coq Require Import ZArith List Bool Lia Sorted.
From Galene Require Import Generated.HistoryConsts Model.History.
Import ListNotations.
Open Scope Z_scope.

(* ------------------------------------------------------------------ *)
(* Consistency of the generated table with what the property says      *)

Lemma maxChatHistory_pos : 0 < maxChatHistory.
Proof. reflexivity. Qed.

Lemma maxChatHistory_value : maxChatHistory = 50.
Proof. reflexivity. Qed.

(* the default age is NOT pinned: the theorems hold for whatever default the
   code defines; the unit is (the documentation says seconds) *)
Lemma maxHistoryAgeUnit_value : maxHistoryAgeUnit = 1000000000.
Proof. reflexivity. Qed.

Lemma maxHistoryAge_shape : maxHistoryAge_shape_ok = true.
Proof. reflexivity. Qed.

(* the eviction test is `len(g.history) >= maxChatHistory`, the freshness
   test is `time.Since(h[i].Time) <= duration` *)
Lemma history_comparisons :
  addEvictOp = ">="%string /\ discardKeepOp = "<="%string.
Proof. split; reflexivity. Qed.

(* ------------------------------------------------------------------ *)
(* strings *)

Lemma bytes_eqb_eq : forall a b, bytes_eqb a b = true <-> a = b.
Proof.
  induction a as [|x a IH]; destruct b as [|y b]; cbn [bytes_eqb]; split; intro H;
    try reflexivity; try discriminate.
  - apply andb_true_iff in H. destruct H as [H1 H2].
    apply Z.eqb_eq in H1. apply IH in H2. subst. reflexivity.
  - inversion H; subst. apply andb_true_iff. split.
    + apply Z.eqb_refl.
    + apply IH. reflexivity.
Qed.

Lemma bytes_eqb_neq : forall a b, bytes_eqb a b = false <-> a <> b.
Proof.
  intros a b. split; intro H.
  - intro E. apply bytes_eqb_eq in E. congruence.
  - destruct (bytes_eqb a b) eqn:E; [|reflexivity].
    apply bytes_eqb_eq in E. contradiction.
Qed.

Lemma is_empty_nil : forall s, is_empty s = true <-> s = [].
Proof. destruct s; cbn; split; intro; congruence. Qed.

Lemma is_empty_false : forall s, is_empty s = false <-> s <> [].
Proof. destruct s; cbn; split; intro; congruence. Qed.

(* ------------------------------------------------------------------ *)
(* in-order subsequences *)

Inductive Subseq {A : Type} : list A -> list A -> Prop :=
| Subseq_nil : Subseq [] []
| Subseq_skip : forall l1 l2 x, Subseq l1 l2 -> Subseq l1 (x :: l2)
| Subseq_keep : forall l1 l2 x, Subseq l1 l2 -> Subseq (x :: l1) (x :: l2).

Lemma Subseq_refl : forall A (l : list A), Subseq l l.
Proof. induction l; constructor; assumption. Qed.

Lemma Subseq_nil_l : forall A (l : list A), Subseq [] l.
Proof. induction l; constructor; assumption. Qed.

Lemma Subseq_trans : forall A (l1 l2 l3 : list A),
  Subseq l1 l2 -> Subseq l2 l3 -> Subseq l1 l3.
Proof.
  intros A l1 l2 l3 H12 H23. revert l1 H12.
  induction H23; intros l0 H12.
  - assumption.
  - apply Subseq_skip. apply IHSubseq. assumption.
  - inversion H12; subst.
    + apply Subseq_skip. apply IHSubseq. assumption.
    + apply Subseq_keep. apply IHSubseq. assumption.
Qed.

Lemma Subseq_app : forall A (a1 a2 b1 b2 : list A),
  Subseq a1 a2 -> Subseq b1 b2 -> Subseq (a1 ++ b1) (a2 ++ b2).
Proof.
  intros A a1 a2 b1 b2 Ha Hb. induction Ha; cbn [app].
  - assumption.
  - apply Subseq_skip. assumption.
  - apply Subseq_keep. assumption.
Qed.

Lemma Subseq_skipn : forall A n (l : list A), Subseq (skipn n l) l.
Proof.
  induction n; intros l.
  - apply Subseq_refl.
  - destruct l; cbn [skipn].
    + constructor.
    + apply Subseq_skip. apply IHn.
Qed.

Lemma Subseq_tl : forall A (l : list A), Subseq (tl l) l.
Proof. destruct l; cbn [tl]; [constructor | apply Subseq_skip, Subseq_refl]. Qed.

Lemma Subseq_filter : forall A (f : A -> bool) (l : list A), Subseq (filter f l) l.
Proof.
  induction l; cbn [filter].
  - constructor.
  - destruct (f a); [apply Subseq_keep | apply Subseq_skip]; assumption.
Qed.

Lemma Subseq_In : forall A (l1 l2 : list A) x, Subseq l1 l2 -> In x l1 -> In x l2.
Proof.
  intros A l1 l2 x H. induction H; intro Hin.
  - assumption.
  - right. apply IHSubseq. assumption.
  - destruct Hin as [->|Hin]; [left; reflexivity | right; apply IHSubseq; assumption].
Qed.

Lemma Subseq_length : forall A (l1 l2 : list A),
  Subseq l1 l2 -> (length l1 <= length l2)%nat.
Proof. intros A l1 l2 H. induction H; cbn [length]; lia. Qed.

(* a subsequence of full length is the list itself: nothing can be dropped,
   duplicated or moved *)
Lemma Subseq_same_length : forall A (l1 l2 : list A),
  Subseq l1 l2 -> length l1 = length l2 -> l1 = l2.
Proof.
  intros A l1 l2 H. induction H; intro Hl.
  - reflexivity.
  - apply Subseq_length in H. cbn [length] in Hl. lia.
  - cbn [length] in Hl. f_equal. apply IHSubseq. lia.
Qed.

Lemma Subseq_Forall : forall A (P : A -> Prop) (l1 l2 : list A),
  Subseq l1 l2 -> Forall P l2 -> Forall P l1.
Proof.
  intros A P l1 l2 H HF. apply Forall_forall. intros x Hx.
  eapply Forall_forall in HF; [exact HF|]. eapply Subseq_In; eassumption.
Qed.

Lemma Subseq_StronglySorted : forall A (R : A -> A -> Prop) (l1 l2 : list A),
  Subseq l1 l2 -> StronglySorted R l2 -> StronglySorted R l1.
Proof.
  intros A R l1 l2 H. induction H; intro HS.
  - constructor.
  - inversion HS; subst. apply IHSubseq. assumption.
  - inversion HS; subst. constructor.
    + apply IHSubseq. assumption.
    + eapply Subseq_Forall; eassumption.
Qed.

(* ------------------------------------------------------------------ *)
(* L0 -> L1: the slice statements compute tl / skipn / filter *)

Lemma zlen_app : forall A (a b : list A), zlen (a ++ b) = zlen a + zlen b.
Proof. intros. unfold zlen. rewrite app_length. lia. Qed.

Lemma zlen_nonneg : forall A (l : list A), 0 <= zlen l.
Proof. intros. unfold zlen. lia. Qed.

(* copy(h, h[i:]); h = h[:len(h)-i]   is   h = h[i:] *)
Lemma shift_spec : forall A (h : list A) i, (i <= length h)%nat ->
  let h1 := go_copy h (skipn i h) in
  length h1 = length h /\ firstn (length h1 - i) h1 = skipn i h.
Proof.
  intros A h i Hi h1. subst h1. unfold go_copy.
  rewrite skipn_length.
  replace (Nat.min (length h) (length h - i)) with (length h - i)%nat by lia.
  rewrite firstn_all2 by (rewrite skipn_length; lia).
  assert (Hl : length (skipn i h ++ skipn (length h - i) h) = length h).
  { rewrite app_length, !skipn_length. lia. }
  split; [exact Hl|]. rewrite Hl.
  rewrite firstn_app, skipn_length.
  replace (length h - i - (length h - i))%nat with 0%nat by lia.
  rewrite firstn_all2 by (rewrite skipn_length; lia).
  cbn [firstn]. apply app_nil_r.
Qed.

(* AddToChatHistory: when the slice is full the HEAD (oldest) is dropped and
   the new entry is appended; the only possible panic is the empty slice
   with maxChatHistory <= 0 *)
Lemma add_to_history_spec : forall h e,
  add_to_history h e =
  if maxChatHistory <=? zlen h then
    match h with [] => Panic | _ :: t => Ok (t ++ [e]) end
  else Ok (h ++ [e]).
Proof.
  intros h e. unfold add_to_history.
  destruct (maxChatHistory <=? zlen h); [|reflexivity].
  destruct h as [|x t].
  - reflexivity.
  - unfold slice_from.
    assert (H1 : (0 <=? 1) && (1 <=? zlen (x :: t)) = true).
    { unfold zlen. cbn [length]. apply andb_true_iff. split; apply Z.leb_le; lia. }
    rewrite H1. change (skipn (Z.to_nat 1) (x :: t)) with t.
    destruct (shift_spec _ (x :: t) 1%nat) as [Hl Hf]; [cbn [length]; lia|].
    change (skipn 1 (x :: t)) with t in Hl, Hf.
    set (h1 := go_copy (x :: t) t) in *.
    unfold slice_to.
    assert (H2 : (0 <=? zlen h1 - 1) && (zlen h1 - 1 <=? zlen h1) = true).
    { unfold zlen. rewrite Hl. cbn [length]. apply andb_true_iff.
      split; apply Z.leb_le; lia. }
    rewrite H2.
    replace (Z.to_nat (zlen h1 - 1)) with (length h1 - 1)%nat by (unfold zlen; lia).
    rewrite Hf. reflexivity.
Qed.

Lemma add_to_history_ok : forall h e, exists h', add_to_history h e = Ok h'.
Proof.
  intros h e. rewrite add_to_history_spec.
  destruct (maxChatHistory <=? zlen h) eqn:E; [|eexists; reflexivity].
  destruct h; [|eexists; reflexivity].
  apply Z.leb_le in E. unfold zlen in E. cbn [length] in E.
  pose proof maxChatHistory_pos. lia.
Qed.

Lemma count_obsolete_clk_le : forall clk dur h k,
  (count_obsolete_clk clk k dur h <= length h)%nat.
Proof.
  induction h as [|e t IH]; intro k; cbn [count_obsolete_clk length].
  - lia.
  - destruct (since (clk k) (e_time e) <=? dur); [lia|]. specialize (IH (S k)). lia.
Qed.

(* discardObsoleteHistory cuts a PREFIX: exactly the leading entries that
   are obsolete, up to (not including) the first entry that is not *)
Lemma discard_obsolete_clk_spec : forall clk dur h,
  discard_obsolete_clk clk dur h = skipn (count_obsolete_clk clk 0 dur h) h.
Proof.
  intros clk dur h. unfold discard_obsolete_clk.
  destruct (0 <? count_obsolete_clk clk 0 dur h)%nat eqn:E.
  - apply (shift_spec _ h). apply count_obsolete_clk_le.
  - apply Nat.ltb_ge in E.
    replace (count_obsolete_clk clk 0 dur h) with 0%nat by lia. reflexivity.
Qed.

Lemma discard_obsolete_spec : forall now dur h,
  discard_obsolete now dur h = skipn (count_obsolete now dur h) h.
Proof. intros. apply discard_obsolete_clk_spec. Qed.

Lemma delete_func_filter : forall A (del : A -> bool) l,
  delete_func del l = filter (fun x => negb (del x)) l.
Proof.
  induction l as [|x t IH]; cbn [delete_func filter]; [reflexivity|].
  destruct (del x); cbn [negb]; rewrite IH; reflexivity.
Qed.

(* with one clock reading the loop is drop-while *)
Fixpoint drop_while {A} (f : A -> bool) (l : list A) : list A :=
  match l with
  | [] => []
  | x :: t => if f x then drop_while f t else l
  end.

Definition obsolete (now dur : Z) (e : entry) : bool :=
  negb (since now (e_time e) <=? dur).

Lemma count_obsolete_const : forall now dur h k,
  count_obsolete_clk (fun _ => now) k dur h = count_obsolete now dur h.
Proof.
  unfold count_obsolete. induction h as [|e t IH]; intro k; cbn [count_obsolete_clk].
  - reflexivity.
  - destruct (since now (e_time e) <=? dur); [reflexivity|].
    rewrite (IH (S k)), (IH 1%nat). reflexivity.
Qed.

Lemma discard_obsolete_drop_while : forall now dur h,
  discard_obsolete now dur h = drop_while (obsolete now dur) h.
Proof.
  intros now dur h. rewrite discard_obsolete_spec.
  induction h as [|e t IH].
  - reflexivity.
  - unfold count_obsolete. cbn [count_obsolete_clk drop_while]. unfold obsolete at 1.
    destruct (since now (e_time e) <=? dur); cbn [negb].
    + reflexivity.
    + rewrite count_obsolete_const. cbn [skipn]. exact IH.
Qed.

(* ------------------------------------------------------------------ *)
(* time arithmetic *)

Lemma sat64_shift : forall x y d, 0 <= d -> x <= y + d -> sat64 x <= sat64 y + d.
Proof.
  intros x y d Hd H. unfold sat64, minDuration, maxDuration.
  destruct (Z.ltb_spec x (-9223372036854775808));
  destruct (Z.ltb_spec y (-9223372036854775808));
  destruct (Z.ltb_spec 9223372036854775807 x);
  destruct (Z.ltb_spec 9223372036854775807 y); lia.
Qed.

(* an entry at most d older than another is at most d older at any reading *)
Lemma since_shift : forall now a b d,
  0 <= d -> a - d <= b -> since now b <= since now a + d.
Proof. intros. unfold since. apply sat64_shift; lia. Qed.

Lemma since_exact : forall now t,
  minDuration <= now - t <= maxDuration -> since now t = now - t.
Proof.
  intros now t H. unfold since, sat64.
  destruct (Z.ltb_spec (now - t) minDuration); [lia|].
  destruct (Z.ltb_spec maxDuration (now - t)); [lia|]. reflexivity.
Qed.

Ltac Zify.zify_post_hook ::= Z.div_mod_to_equations.

Lemma max_history_age_default : max_history_age 0 = defaultMaxHistoryAge.
Proof. reflexivity. Qed.

(* for the documented use (seconds, up to 292 years) there is no wrap *)
Lemma max_history_age_seconds : forall n,
  0 < n <= 9223372036 -> max_history_age n = n * 1000000000.
Proof.
  intros n H. unfold max_history_age, wrap_i64.
  destruct (Z.eqb_spec n 0); [lia|]. cbn [negb].
  rewrite maxHistoryAgeUnit_value. lia.
Qed.

(* whatever positive number is configured, the effective age never exceeds
   it (the int64 multiplication can only wrap downwards) *)
Lemma max_history_age_le_configured : forall n,
  0 < n -> max_history_age n <= n * 1000000000.
Proof.
  intros n H. unfold max_history_age, wrap_i64.
  destruct (Z.eqb_spec n 0); [lia|]. cbn [negb].
  rewrite maxHistoryAgeUnit_value. lia.
Qed.

(* ------------------------------------------------------------------ *)
(* runs *)

Fixpoint added (ops : list op) : list entry :=
  match ops with
  | [] => []
  | OAdd e :: t => e :: added t
  | _ :: t => added t
  end.

Lemma added_app : forall a b, added (a ++ b) = added a ++ added b.
Proof.
  induction a as [|o a IH]; intro b; cbn [app added]; [reflexivity|].
  destruct o; rewrite ?IH; reflexivity.
Qed.

Lemma run_app : forall s a b, run s (a ++ b) = run (run s a) b.
Proof. intros. unfold run. apply fold_left_app. Qed.

Lemma run_cons : forall s o t, run s (o :: t) = run (fst (step s o)) t.
Proof. reflexivity. Qed.

Lemma run_snoc : forall s ops o, run s (ops ++ [o]) = fst (step (run s ops) o).
Proof. intros. rewrite run_app. reflexivity. Qed.

(* the effect of one step on the stored history *)
Lemma step_hist : forall s o,
  st_hist (fst (step s o)) =
  match o with
  | OAdd e => if maxChatHistory <=? zlen (st_hist s)
              then match st_hist s with [] => [] | _ :: t => t ++ [e] end
              else st_hist s ++ [e]
  | OGet now | OJoin now =>
      discard_obsolete now (max_history_age (st_age s)) (st_hist s)
  | OClear id uid => clear_history id uid (st_hist s)
  | OSetAge _ | ORaw => st_hist s
  end.
Proof.
  intros s o. destruct o; cbn [step get_history fst st_hist]; try reflexivity.
  rewrite add_to_history_spec.
  destruct (maxChatHistory <=? zlen (st_hist s)); [|reflexivity].
  destruct (st_hist s) eqn:E; cbn [fst st_hist]; rewrite ?E; reflexivity.
Qed.

Lemma clear_history_Subseq : forall id uid h, Subseq (clear_history id uid h) h.
Proof.
  intros. unfold clear_history.
  destruct (is_empty id && is_empty uid); [apply Subseq_nil_l|].
  rewrite delete_func_filter. apply Subseq_filter.
Qed.

(* one step: the new history is an in-order subsequence of the old one
   followed by what the step added *)
Lemma step_Subseq : forall s o,
  Subseq (st_hist (fst (step s o))) (st_hist s ++ added [o]).
Proof.
  intros s o. rewrite step_hist. destruct o; cbn [added].
  - destruct (maxChatHistory <=? zlen (st_hist s)).
    + destruct (st_hist s) as [|x t].
      * apply Subseq_nil_l.
      * cbn [app]. apply Subseq_skip. apply Subseq_refl.
    + apply Subseq_refl.
  - rewrite app_nil_r, discard_obsolete_spec. apply Subseq_skipn.
  - rewrite app_nil_r. apply clear_history_Subseq.
  - rewrite app_nil_r. apply Subseq_refl.
  - rewrite app_nil_r, discard_obsolete_spec. apply Subseq_skipn.
  - rewrite app_nil_r. apply Subseq_refl.
Qed.

Lemma run_Subseq : forall ops s,
  Subseq (st_hist (run s ops)) (st_hist s ++ added ops).
Proof.
  induction ops as [|o t IH]; intro s.
  - cbn [run fold_left added]. rewrite app_nil_r. apply Subseq_refl.
  - rewrite run_cons. eapply Subseq_trans; [apply IH|].
    change (o :: t) with ([o] ++ t). rewrite added_app, app_assoc.
    apply Subseq_app; [apply step_Subseq | apply Subseq_refl].
Qed.

Definition Bounded (s : state) : Prop := zlen (st_hist s) <= maxChatHistory.

Lemma step_Bounded : forall s o, Bounded s -> Bounded (fst (step s o)).
Proof.
  unfold Bounded. intros s o Hb.
  pose proof (step_Subseq s o) as Hs. rewrite step_hist in *.
  destruct o; cbn [added] in Hs; try rewrite app_nil_r in Hs;
    try (apply Subseq_length in Hs; unfold zlen in *; lia).
  destruct (Z.leb_spec maxChatHistory (zlen (st_hist s))).
  - destruct (st_hist s) as [|x t].
    + pose proof maxChatHistory_pos. unfold zlen. cbn [length]. lia.
    + rewrite zlen_app. unfold zlen in *. cbn [length] in *. lia.
  - rewrite zlen_app. unfold zlen in *. cbn [length] in *. lia.
Qed.

Lemma run_Bounded : forall ops s, Bounded s -> Bounded (run s ops).
Proof.
  induction ops as [|o t IH]; intros s Hb; [exact Hb|].
  rewrite run_cons. apply IH. apply step_Bounded. exact Hb.
Qed.

Lemma init_Bounded : forall n, Bounded (init n).
Proof.
  intro n. unfold Bounded, init, zlen. cbn [st_hist length].
  pose proof maxChatHistory_pos. lia.
Qed.

(* ------------------------------------------------------------------ *)
(* history_bound *)

(* after every operation sequence the stored history has at most
   maxChatHistory entries *)
Lemma history_bound : forall n ops,
  zlen (st_hist (run (init n) ops)) <= maxChatHistory.
Proof. intros. apply run_Bounded, init_Bounded. Qed.

(* ... and so has everything that is ever returned or replayed *)
Lemma history_bound_returned : forall n ops o,
  match snd (step (run (init n) ops) o) with
  | RHist h => zlen h <= maxChatHistory
  | RMsgs l => zlen l <= maxChatHistory
  | RUnit | RPanic => True
  end.
Proof.
  intros n ops o.
  pose proof (history_bound n ops) as Hb.
  pose proof (step_Bounded _ o (run_Bounded ops _ (init_Bounded n))) as Hb'.
  unfold Bounded in Hb'. rewrite step_hist in Hb'.
  destruct o; cbn [step get_history snd]; try exact I; try exact Hb'.
  - destruct (add_to_history _ _); exact I.
  - unfold zlen in *. rewrite map_length. exact Hb'.
Qed.

(* no operation sequence makes AddToChatHistory panic *)
Lemma history_no_panic : forall n ops o,
  snd (step (run (init n) ops) o) <> RPanic.
Proof.
  intros n ops o. destruct o; cbn [step get_history snd]; try discriminate.
  destruct (add_to_history_ok (st_hist (run (init n) ops)) e) as [h' ->].
  discriminate.
Qed.

(* ------------------------------------------------------------------ *)
(* history_fifo *)

(* The history is always an in-order subsequence of the entries added, in
   arrival order: nothing is reordered, duplicated or invented. *)
Lemma history_fifo : forall n ops,
  Subseq (st_hist (run (init n) ops)) (added ops).
Proof. intros n ops. exact (run_Subseq ops (init n)). Qed.

(* so is every list returned by GetChatHistory *)
Lemma history_fifo_returned : forall n ops now h,
  snd (step (run (init n) ops) (OGet now)) = RHist h -> Subseq h (added ops).
Proof.
  intros n ops now h H. cbn [step get_history snd] in H. inversion H; subst.
  eapply Subseq_trans; [|apply history_fifo].
  rewrite discard_obsolete_spec. apply Subseq_skipn.
Qed.

(* Eviction: an add to a full history removes exactly the HEAD, which by
   [history_fifo] is the entry that arrived first among those present, and
   appends the new entry at the end; an add to a non-full history removes
   nothing. *)
Lemma history_fifo_evicts_oldest : forall n ops e,
  let h := st_hist (run (init n) ops) in
  st_hist (run (init n) (ops ++ [OAdd e])) =
  if zlen h <? maxChatHistory then h ++ [e] else tl h ++ [e].
Proof.
  intros n ops e h. rewrite run_snoc, step_hist. fold h.
  pose proof (history_bound n ops) as Hb. fold h in Hb.
  destruct (Z.leb_spec maxChatHistory (zlen h)); destruct (Z.ltb_spec (zlen h) maxChatHistory);
    try lia; try reflexivity.
  destruct h as [|x t]; [|reflexivity].
  pose proof maxChatHistory_pos. unfold zlen in *. cbn [length] in *. lia.
Qed.

Definition lastn {A} (m : nat) (l : list A) : list A := skipn (length l - m) l.

Lemma lastn_short : forall A m (l : list A), (length l <= m)%nat -> lastn m l = l.
Proof. intros. unfold lastn. replace (length l - m)%nat with 0%nat by lia. reflexivity. Qed.

Lemma skipn_add : forall A k n (l : list A), skipn n (skipn k l) = skipn (k + n) l.
Proof.
  induction k; intros n l; [reflexivity|].
  destruct l; cbn [skipn Nat.add]; [destruct n; reflexivity | apply IHk].
Qed.

Lemma lastn_app_lastn : forall A m (a b : list A),
  lastn m (lastn m a ++ b) = lastn m (a ++ b).
Proof.
  intros A m a b. unfold lastn.
  rewrite !app_length, skipn_length.
  rewrite !skipn_app, skipn_length, skipn_add.
  f_equal; f_equal; lia.
Qed.

Definition is_add (o : op) : Prop := match o with OAdd _ => True | _ => False end.

Lemma add_step_lastn : forall s e, Bounded s ->
  st_hist (fst (step s (OAdd e))) = lastn (Z.to_nat maxChatHistory) (st_hist s ++ [e]).
Proof.
  unfold Bounded. intros s e Hb. rewrite step_hist. unfold lastn.
  rewrite app_length. cbn [length].
  pose proof maxChatHistory_pos as Hp.
  destruct (Z.leb_spec maxChatHistory (zlen (st_hist s))).
  - assert (Hl : length (st_hist s) = Z.to_nat maxChatHistory) by (unfold zlen in *; lia).
    rewrite Hl.
    replace (Z.to_nat maxChatHistory + 1 - Z.to_nat maxChatHistory)%nat with 1%nat by lia.
    destruct (st_hist s); [cbn [length] in Hl; lia | reflexivity].
  - replace (length (st_hist s) + 1 - Z.to_nat maxChatHistory)%nat with 0%nat
      by (unfold zlen in *; lia).
    reflexivity.
Qed.

Lemma run_adds_lastn : forall ops s, Bounded s -> Forall is_add ops ->
  st_hist (run s ops) = lastn (Z.to_nat maxChatHistory) (st_hist s ++ added ops).
Proof.
  induction ops as [|o t IH]; intros s Hb Ha.
  - cbn [run fold_left added]. rewrite app_nil_r. symmetry. apply lastn_short.
    unfold Bounded, zlen in Hb. lia.
  - inversion Ha as [|? ? Ho Ht]; subst. destruct o; try contradiction.
    rewrite run_cons, (IH _ (step_Bounded _ _ Hb) Ht), add_step_lastn by exact Hb.
    cbn [added]. rewrite lastn_app_lastn, <- app_assoc. reflexivity.
Qed.

(* With adds only, the history is exactly the LAST maxChatHistory entries
   added: the oldest are the ones evicted. *)
Lemma history_fifo_adds_only : forall n ops, Forall is_add ops ->
  st_hist (run (init n) ops) = lastn (Z.to_nat maxChatHistory) (added ops).
Proof. intros n ops Ha. exact (run_adds_lastn ops (init n) (init_Bounded n) Ha). Qed.

(* the newest entry is always present, at the end *)
Lemma history_fifo_newest_kept : forall n ops e,
  exists h', st_hist (run (init n) (ops ++ [OAdd e])) = h' ++ [e].
Proof.
  intros n ops e. rewrite history_fifo_evicts_oldest.
  destruct (_ <? _); eexists; reflexivity.
Qed.

(* ------------------------------------------------------------------ *)
(* history_age *)

(* entries are in arrival order up to a skew d: a later-added entry carries a
   time at most d before that of any earlier-added one *)
Definition ordered_within (d : Z) (l : list entry) : Prop :=
  StronglySorted (fun a b => e_time a - d <= e_time b) l.

Definition time_ordered (l : list entry) : Prop :=
  StronglySorted (fun a b => e_time a <= e_time b) l.

Lemma time_ordered_within_0 : forall l, time_ordered l -> ordered_within 0 l.
Proof.
  unfold time_ordered, ordered_within. induction 1; constructor.
  - assumption.
  - eapply Forall_impl; [|eassumption]. cbn beta. intros; lia.
Qed.

(* transcription with one clock reading per loop iteration: every entry that
   is kept is at most dur + d old AT THE READING AT WHICH THE LOOP STOPPED *)
Lemma discard_age_clk : forall clk dur d h k,
  0 <= d -> ordered_within d h ->
  let c := count_obsolete_clk clk k dur h in
  forall e, In e (skipn c h) -> since (clk (k + c)%nat) (e_time e) <= dur + d.
Proof.
  intros clk dur d h. induction h as [|x t IH]; intros k Hd Ho c e Hin; subst c.
  - cbn [count_obsolete_clk skipn] in Hin. contradiction.
  - inversion Ho as [|? ? Ht Hx]; subst.
    cbn [count_obsolete_clk] in *.
    destruct (Z.leb_spec (since (clk k) (e_time x)) dur) as [Hf|Hf].
    + rewrite Nat.add_0_r. cbn [skipn] in Hin. destruct Hin as [<-|Hin].
      * lia.
      * eapply Forall_forall in Hx; [|exact Hin]. cbn beta in Hx.
        pose proof (since_shift (clk k) _ _ d Hd Hx). lia.
    + cbn [skipn] in Hin. rewrite <- Nat.add_succ_comm.
      exact (IH (S k) Hd Ht e Hin).
Qed.

Lemma discard_age : forall now dur d h,
  0 <= d -> ordered_within d h ->
  forall e, In e (discard_obsolete now dur h) -> since now (e_time e) <= dur + d.
Proof.
  intros now dur d h Hd Ho e Hin. rewrite discard_obsolete_spec in Hin.
  exact (discard_age_clk (fun _ => now) dur d h 0%nat Hd Ho e Hin).
Qed.

(* General form.  If the entries were added with times that are in arrival
   order up to a skew d >= 0, then whatever GetChatHistory returns when the
   clock reads now is at most (effective age + d) old.  The effective age is
   that of the description in force at that moment.  Strictness: an entry of
   age exactly equal to the limit is still returned; one nanosecond more and
   it is not. *)
Lemma history_age_skew : forall d n ops now h,
  0 <= d -> ordered_within d (added ops) ->
  snd (step (run (init n) ops) (OGet now)) = RHist h ->
  forall e, In e h ->
  since now (e_time e) <= max_history_age (st_age (run (init n) ops)) + d.
Proof.
  intros d n ops now h Hd Ho H e Hin.
  cbn [step get_history snd] in H. inversion H; subst h.
  eapply discard_age; [exact Hd | | exact Hin].
  eapply Subseq_StronglySorted; [apply history_fifo | exact Ho].
Qed.

(* The property as stated: for time-ordered additions nothing returned is
   older than the configured age. *)
Lemma history_age : forall n ops now h,
  time_ordered (added ops) ->
  snd (step (run (init n) ops) (OGet now)) = RHist h ->
  forall e, In e h ->
  since now (e_time e) <= max_history_age (st_age (run (init n) ops)).
Proof.
  intros n ops now h Ho H e Hin.
  pose proof (history_age_skew 0 n ops now h (Z.le_refl 0)
                (time_ordered_within_0 _ Ho) H e Hin). lia.
Qed.

(* Without any assumption on the times: the list returned is the stored
   history minus its maximal obsolete PREFIX.  Hence its first entry is never
   obsolete, everything dropped was obsolete, and an obsolete entry survives
   exactly when a non-obsolete one was added before it. *)
Lemma history_get_exact : forall s now,
  let dur := max_history_age (st_age s) in
  snd (step s (OGet now)) = RHist (drop_while (obsolete now dur) (st_hist s)) /\
  st_hist (fst (step s (OGet now))) = drop_while (obsolete now dur) (st_hist s).
Proof.
  intros s now dur. cbn [step get_history fst snd st_hist].
  rewrite discard_obsolete_drop_while. split; reflexivity.
Qed.

Lemma drop_while_split : forall A (f : A -> bool) l,
  exists p, l = p ++ drop_while f l /\ Forall (fun x => f x = true) p /\
            match drop_while f l with [] => True | x :: _ => f x = false end.
Proof.
  induction l as [|x t IH]; cbn [drop_while].
  - exists []. repeat split. constructor.
  - destruct (f x) eqn:E.
    + destruct IH as (p & Hp & HF & Hh). exists (x :: p). cbn [app].
      repeat split; [f_equal; exact Hp | constructor; assumption | exact Hh].
    + exists []. repeat split; [constructor | exact E].
Qed.

Lemma history_age_any_times : forall s now h,
  snd (step s (OGet now)) = RHist h ->
  let dur := max_history_age (st_age s) in
  exists dropped, st_hist s = dropped ++ h /\
    Forall (fun e => dur < since now (e_time e)) dropped /\
    match h with [] => True | e :: _ => since now (e_time e) <= dur end.
Proof.
  intros s now h H dur. destruct (history_get_exact s now) as [H1 _].
  rewrite H1 in H. inversion H; subst h. fold dur.
  destruct (drop_while_split _ (obsolete now dur) (st_hist s)) as (p & Hp & HF & Hh).
  exists p. split; [exact Hp|]. split.
  - eapply Forall_impl; [|exact HF]. cbn beta. unfold obsolete. intros e He.
    apply negb_true_iff, Z.leb_gt in He. exact He.
  - destruct (drop_while _ _); [exact I|]. unfold obsolete in Hh.
    apply negb_false_iff, Z.leb_le in Hh. exact Hh.
Qed.

(* ------------------------------------------------------------------ *)
(* clear *)

Lemma history_clear_all : forall h, clear_history [] [] h = [].
Proof. reflexivity. Qed.

Definition from_user (uid : bytes) (e : entry) : bool := bytes_eqb (e_source e) uid.

(* ClearChatHistory("", uid) with uid <> "": removes exactly the entries
   whose source is uid and keeps all others, in order *)
Lemma history_clear_user : forall uid h, uid <> [] ->
  clear_history [] uid h = filter (fun e => negb (from_user uid e)) h.
Proof.
  intros uid h Hu. unfold clear_history. cbn [is_empty andb].
  apply is_empty_false in Hu. rewrite Hu.
  rewrite delete_func_filter. apply filter_ext. intro e.
  unfold clear_match, from_user. cbn [is_empty orb]. rewrite andb_true_r. reflexivity.
Qed.

Lemma history_clear_user_In : forall uid h e, uid <> [] ->
  In e (clear_history [] uid h) <-> In e h /\ e_source e <> uid.
Proof.
  intros uid h e Hu. rewrite history_clear_user by exact Hu.
  rewrite filter_In. unfold from_user. rewrite negb_true_iff, bytes_eqb_neq. reflexivity.
Qed.

Definition is_message (id uid : bytes) (e : entry) : bool :=
  bytes_eqb (e_source e) uid && bytes_eqb (e_id e) id.

(* ClearChatHistory(id, uid) with id <> "": removes exactly the entries that
   carry BOTH this id and this source (all of them if the client reused the
   id), keeps all others in order.  With uid = "" these are the sourceless
   entries with that id. *)
Lemma history_clear_one : forall id uid h, id <> [] ->
  clear_history id uid h = filter (fun e => negb (is_message id uid e)) h.
Proof.
  intros id uid h Hi. unfold clear_history.
  apply is_empty_false in Hi. rewrite Hi. cbn [andb].
  rewrite delete_func_filter. apply filter_ext. intro e.
  unfold clear_match, is_message. rewrite Hi. reflexivity.
Qed.

Lemma history_clear_one_In : forall id uid h e, id <> [] ->
  In e (clear_history id uid h) <->
  In e h /\ ~ (e_source e = uid /\ e_id e = id).
Proof.
  intros id uid h e Hi. rewrite history_clear_one by exact Hi.
  rewrite filter_In. unfold is_message.
  rewrite negb_true_iff, andb_false_iff, !bytes_eqb_neq.
  split; intros [H1 H2]; split; try exact H1.
  - intros [Ha Hb]. destruct H2; contradiction.
  - destruct (bytes_eqb (e_source e) uid) eqn:E.
    + right. intro Hb. apply H2. split; [apply bytes_eqb_eq; exact E | exact Hb].
    + left. apply bytes_eqb_neq. exact E.
Qed.

(* every mode, as one statement about the state machine *)
Lemma history_clear_step : forall s id uid,
  st_hist (fst (step s (OClear id uid))) = clear_history id uid (st_hist s) /\
  st_age (fst (step s (OClear id uid))) = st_age s.
Proof. intros. split; reflexivity. Qed.

(* What has been cleared never comes back: after a clear, whatever follows,
   the history is an in-order subsequence of what the clear left followed
   by what was added afterwards. *)
Lemma history_clear_persistent : forall n ops1 id uid ops2,
  Subseq (st_hist (run (init n) (ops1 ++ OClear id uid :: ops2)))
         (clear_history id uid (st_hist (run (init n) ops1)) ++ added ops2).
Proof.
  intros n ops1 id uid ops2. rewrite run_app, run_cons.
  eapply Subseq_trans; [apply run_Subseq|].
  rewrite (proj1 (history_clear_step _ id uid)). apply Subseq_refl.
Qed.

Lemma history_clear_all_persistent : forall n ops1 ops2,
  Subseq (st_hist (run (init n) (ops1 ++ OClear [] [] :: ops2))) (added ops2).
Proof. intros. exact (history_clear_persistent n ops1 [] [] ops2). Qed.

(* The argument check of the clearchat action refuses an id without a
   userId.  Consequence for entries stored WITHOUT a source (a client may
   omit the source field): every accepted clearchat other than clear-all
   keeps them. *)
Lemma clear_keeps_sourceless : forall id uid h e,
  clearchat_accepted id uid = true ->
  is_empty id && is_empty uid = false ->
  e_source e = [] -> In e h -> In e (clear_history id uid h).
Proof.
  intros id uid h e Hacc Hne Hsrc Hin. unfold clear_history. rewrite Hne.
  rewrite delete_func_filter. apply filter_In. split; [exact Hin|].
  unfold clear_match. rewrite Hsrc.
  destruct uid as [|u uid'].
  - unfold clearchat_accepted in Hacc. cbn [is_empty andb] in Hacc, Hne.
    rewrite andb_true_r in Hne. rewrite Hne in Hacc. discriminate.
  - reflexivity.
Qed.

(* ------------------------------------------------------------------ *)
(* replay *)

(* What a joiner is sent is exactly what GetChatHistory returns at that
   moment, one chathistory message per entry, in the same order, with the
   entry's id, source, username, time, value and kind; the join has the same
   effect on the stored history as a GetChatHistory. *)
Lemma history_replay_in_order : forall s now,
  exists h,
    snd (step s (OGet now)) = RHist h /\
    snd (step s (OJoin now)) = RMsgs (map chathistory_msg h) /\
    fst (step s (OJoin now)) = fst (step s (OGet now)).
Proof.
  intros s now. cbn [step get_history fst snd]. eexists. repeat split.
Qed.

Lemma history_replay_nth : forall s now h l i,
  snd (step s (OGet now)) = RHist h ->
  snd (step s (OJoin now)) = RMsgs l ->
  length l = length h /\
  nth_error l i = option_map chathistory_msg (nth_error h i).
Proof.
  intros s now h l i Hg Hj.
  destruct (history_replay_in_order s now) as (h0 & H1 & H2 & _).
  rewrite H1 in Hg. inversion Hg; subst h0.
  rewrite H2 in Hj. inversion Hj; subst l.
  split; [apply map_length|]. clear.
  revert i. induction h as [|x t IH]; intros [|i]; cbn; try reflexivity. apply IH.
Qed.

(* ------------------------------------------------------------------ *)
(* the bound with the number the property names *)

Lemma history_bound_50 : forall n ops,
  zlen (st_hist (run (init n) ops)) <= 50 /\
  forall o, match snd (step (run (init n) ops) o) with
            | RHist h => zlen h <= 50
            | RMsgs l => zlen l <= 50
            | RUnit | RPanic => True
            end.
Proof.
  intros n ops. rewrite <- maxChatHistory_value. split.
  - apply history_bound.
  - intro o. apply history_bound_returned.
Qed.

(* ------------------------------------------------------------------ *)
(* data for the non-vacuity examples of Properties/C15.v *)

Definition hour : Z := 3600 * 1000000000.

(* entry number i from user src at time t: id "i", value "i" *)
Definition ex_entry (i : Z) (src : bytes) (t : Z) : entry :=
  mkEntry [i] src (Some [117]) t [] [i].

(* k adds, one per second, from the users "a", "b", "c" in turn *)
Definition ex_adds (k : nat) : list op :=
  map (fun i => OAdd (ex_entry (Z.of_nat i) [97 + Z.of_nat i mod 3]
                               (Z.of_nat i * 1000000000))) (seq 0 k).

(* C05, part 3: K without resizes, and index lookups. *)
From Coq Require Import ZArith List Bool Lia Arith.
From Coq Require Import ZifyBool.
From Galene Require Import Lib.Word Lib.Ring Model.Cache Proofs.CacheSound Proofs.CacheRing.
Import ListNotations.
Open Scope Z_scope.

Definition no_resize (o : op) : Prop :=
  match o with OResize _ | OResizeCond _ => False | _ => True end.
Definition is_store (o : op) : bool :=
  match o with OStore _ _ _ _ _ => true | _ => false end.
Definition count_stores (ops : list op) : nat := length (filter is_store ops).

Lemma step_length c o : no_resize o ->
  length (c_entries (fst (step c o))) = length (c_entries c).
Proof.
  destruct o as [s ts kf m buf|s|s i|k|k| | |n|n|r]; cbn [step no_resize]; intros H; try contradiction.
  - destruct (store c s ts kf m buf) as [[f i] c1] eqn:E. cbn [fst].
    replace c1 with (snd (store c s ts kf m buf)) by (rewrite E; reflexivity).
    rewrite store_entries. apply set_nth_length.
  - destruct (get c s); reflexivity.
  - destruct (get_at c s i); reflexivity.
  - destruct (c_lastq c); reflexivity.
  - destruct (c_keyframeq c); reflexivity.
  - unfold bitmap_get. destruct (bm_get (c_bitmap c) n) as [[[fd f] b] b']. reflexivity.
  - unfold expect. destruct (n <=? 0); reflexivity.
  - unfold get_stats. destruct r; reflexivity.
Qed.

Lemma k_run_no_resize ops : forall c K, Forall no_resize ops ->
  (K <= length (c_entries c))%nat ->
  k_run c K ops = Nat.min (K + count_stores ops) (length (c_entries c)).
Proof.
  induction ops as [|o ops IH]; intros c K Hn HK; cbn [k_run].
  - unfold count_stores; cbn. lia.
  - inversion Hn as [|? ? Ho Hops]; subst.
    assert (Hl := step_length c o Ho).
    rewrite IH; [|exact Hops|unfold kstep; lia].
    rewrite Hl. unfold kstep, count_stores. rewrite Hl. cbn [filter].
    destruct o; cbn [is_store length]; lia.
Qed.

(* the index returned by Store designates the packet just stored *)
Lemma get_at_after_store c s ts kf m buf : Shape c -> 1 <= zlen buf <= BufSize ->
  let '((_, i), c') := store c s ts kf m buf in
  i = c_tail c /\ get_at c' s i = (zlen buf, buf).
Proof.
  intros Hs Hwf.
  destruct (store c s ts kf m buf) as [[f i] c'] eqn:E.
  assert (Hi : i = c_tail c).
  { unfold store in E.
    destruct (negb (c_lastValid c) || seqno_invalid s (c_last c));
      [destruct kf; inversion E; reflexivity|].
    destruct (cmp16 (c_last c) s <? 0); [destruct kf; inversion E; reflexivity|].
    destruct (0 <? cmp16 (c_last c) s); destruct kf; inversion E; reflexivity. }
  split; [exact Hi|]. subst i.
  assert (He : c_entries c' = set_nth (Z.to_nat (c_tail c)) (entry_of s ts m buf) (c_entries c)).
  { replace c' with (snd (store c s ts kf m buf)) by (rewrite E; reflexivity). apply store_entries. }
  unfold Shape, zlen in Hs. unfold get_at, zlen. rewrite He, set_nth_length.
  replace (Z.of_nat (length (c_entries c)) <=? c_tail c) with false by lia.
  assert (Hn : nth (Z.to_nat (c_tail c)) (set_nth (Z.to_nat (c_tail c)) (entry_of s ts m buf) (c_entries c)) zero_entry
               = entry_of s ts m buf).
  { assert (Hlt : (Z.to_nat (c_tail c) < length (c_entries c))%nat) by lia.
    revert Hlt. generalize (Z.to_nat (c_tail c)) as t. generalize (c_entries c) as l.
    induction l as [|x l IHl]; intros [|t] Hlt; cbn in *; try lia; [reflexivity|].
    apply IHl. lia. }
  rewrite Hn.
  destruct (entry_of_decode s ts m buf Hwf) as (_ & D2 & _ & D4 & _ & D6).
  rewrite D2, D6, D4. replace (s =? s) with true by lia. reflexivity.
Qed.

(* GetAt succeeds only if the slot still carries the number *)
Lemma get_at_index c s i n bytes : get_at c s i = (n, bytes) -> n <> 0 ->
  0 <= i -> i < zlen (c_entries c) /\ e_seq (nth (Z.to_nat i) (c_entries c) zero_entry) = s.
Proof.
  unfold get_at. intros H Hn Hi.
  destruct (zlen (c_entries c) <=? i) eqn:E; [inversion H; congruence|].
  destruct (negb (e_seq (nth (Z.to_nat i) (c_entries c) zero_entry) =? s)) eqn:E2;
    [inversion H; congruence|].
  split; lia.
Qed.

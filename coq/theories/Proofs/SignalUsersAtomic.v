(* C14, part 12: the step granularity of the scheduler model.  Model/Signal.v
   runs a join as ONE step: the snapshot of the members, the admission, the
   insertion of the joiner and the announcements both ways (add_client), and
   a departure as one step (leave_group).  The theorems of C14 are about
   that.  What the CODE must do for it: group.AddClient and group.DelClient
   read and write Group.clients holding Group.mu, and no function gives up a
   mutex and takes it again (a join that unlocks the group around the
   credential check and then uses the member list it read before announces
   nothing to whoever joined or left meanwhile).  Both are facts about the
   lock table regenerated from /repo on every run. *)
From Coq Require Import List String Bool.
From Galene Require Import Generated.Locks Proofs.Locks.
Import ListNotations.
Open Scope string_scope.

Definition clients_access (kind fn : string) (a : access) : bool :=
  let '(f, k, g, _, held, _, _) := a in
  String.eqb f "group.Group.clients" && String.eqb k kind && String.eqb g fn &&
  mem "group.Group.mu" held.

Lemma membership_steps_atomic :
  (* no function releases a mutex and takes it again *)
  split_critical_sections = [] /\
  (* the member table is only touched under the group's mutex *)
  (forall kind fn pos held required inst,
     In ("group.Group.clients", kind, fn, pos, held, required, inst) accesses ->
     required = "group.Group.mu" /\ In "group.Group.mu" held) /\
  (* not vacuous: AddClient reads (snapshot, duplicate test) and writes it,
     DelClient reads and writes it, all under the mutex *)
  existsb (clients_access "read" "group.AddClient") accesses = true /\
  existsb (clients_access "write" "group.AddClient") accesses = true /\
  existsb (clients_access "read" "group.DelClient") accesses = true /\
  existsb (clients_access "write" "group.DelClient") accesses = true.
Proof.
  split; [exact atomic_sections|]. split.
  - intros kind fn pos held required inst Hin.
    assert (Hreq : required = "group.Group.mu").
    { assert (H : forallb (fun a : access => let '(f, _, _, _, _, r, _) := a in
                     negb (String.eqb f "group.Group.clients") || String.eqb r "group.Group.mu") accesses = true)
        by (vm_compute; reflexivity).
      rewrite forallb_forall in H. specialize (H _ Hin). cbn in H. apply String.eqb_eq. exact H. }
    split; [exact Hreq|]. rewrite <- Hreq. eapply guarded_accesses. exact Hin.
  - repeat split; vm_compute; reflexivity.
Qed.

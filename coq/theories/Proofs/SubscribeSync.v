(* C07, layer 2: offered iff requested, at quiescence.  Invariant [SInv m]:
   for every live stream u of another member of m's group, either the state of
   m with respect to u is what requestedTracks selects from u's current tracks
   under m's current request (and no queued push can change that), or something
   is pending that will make it so: a queued push of u carrying its current
   tracks (the last one queued), a delayed push of u that has not fired, or a
   requestConns for m in the queue of u's publisher. *)
From Coq Require Import List Bool Arith PeanoNat Lia.
From Galene Require Import Model.Subscribe Proofs.SubscribeFrame Proofs.SubscribeInv
  Proofs.SubscribeStep Proofs.SubscribeHeap Proofs.SubscribeOwn Proofs.SubscribeOut
  Proofs.SubscribeTeardown Proofs.SubscribeExact Proofs.SubscribeFresh.
Import ListNotations.

(* ---- the last queued push of a stream *)

Definition push_of (u : nat) (a : action) : option (list kind) :=
  match a with
  | APush _ _ (Some v) ts _ => if Nat.eqb v u then Some ts else None
  | _ => None
  end.

Fixpoint last_push (u : nat) (q : list action) : option (list kind) :=
  match q with
  | [] => None
  | a :: r => match last_push u r with
              | Some ts => Some ts
              | None => push_of u a
              end
  end.

Lemma last_push_app : forall u q l,
  last_push u (q ++ l) = match last_push u l with Some ts => Some ts | None => last_push u q end.
Proof.
  induction q as [|a r IH]; intros l; simpl.
  - destruct (last_push u l); reflexivity.
  - rewrite IH. destruct (last_push u l); reflexivity.
Qed.

Lemma push_of_some : forall u a ts, push_of u a = Some ts -> exists g id r, a = APush g id (Some u) ts r.
Proof.
  intros u a ts H. destruct a as [g id [v|] ts' r| | | |]; simpl in H; try discriminate.
  destruct (Nat.eqb_spec v u); [|discriminate]. inversion H. subst. eauto.
Qed.

Lemma last_push_in : forall u q ts, last_push u q = Some ts ->
  exists g id r, In (APush g id (Some u) ts r) q.
Proof.
  induction q as [|a r IH]; intros ts H; simpl in H; [discriminate|].
  destruct (last_push u r) as [ts'|] eqn:E.
  - inversion H. subst. destruct (IH ts eq_refl) as [g [id [r0 X]]]. exists g, id, r0. right. exact X.
  - destruct (push_of_some _ _ _ H) as [g [id [r0 X]]]. exists g, id, r0. left. auto.
Qed.

Lemma last_push_none : forall u q, last_push u q = None ->
  forall g id ts r, ~ In (APush g id (Some u) ts r) q.
Proof.
  induction q as [|a r IH]; intros H g id ts r0 Hin; simpl in *; [exact Hin|].
  destruct (last_push u r) eqn:E; [discriminate|].
  destruct Hin as [->|Hin]; [|eapply IH; eauto].
  simpl in H. rewrite Nat.eqb_refl in H. discriminate.
Qed.

Lemma last_push_fresh : forall w u l ts,
  Forall (fresh_action w) l -> last_push u l = Some ts -> ts = uo_tracks (w_up w u).
Proof.
  intros w u l ts F H. destruct (last_push_in _ _ _ H) as [g [id [r X]]].
  rewrite Forall_forall in F. exact (F _ X).
Qed.

(* ---- the invariant *)

Definition sel (w : world) (m u : nat) : list nat * bool :=
  requested_tracks (base_req (w_cl w m) (uo_label (w_up w u))) (uo_tracks (w_up w u)).

Definition insync (w : world) (m u : nat) : Prop :=
  match get_down (uo_id (w_up w u)) (c_down (w_cl w m)) with
  | None => fst (sel w m u) = []
  | Some d => fst (sel w m u) <> [] /\ d_remote d = u /\
              (forall p, In p (d_tracks d) <-> In p (map (fun i => (u, i)) (fst (sel w m u)))) /\
              d_limit d = snd (sel w m u)
  end.

Definition harmless (w : world) (m u : nat) : Prop :=
  forall g id ts r, In (APush g id (Some u) ts r) (c_queue (w_cl w m)) ->
    requested_tracks (base_req (w_cl w m) (uo_label (w_up w u))) ts = sel w m u.

Definition P1 (w : world) (m u : nat) : Prop :=
  last_push u (c_queue (w_cl w m)) = Some (uo_tracks (w_up w u)).

Definition P2 (w : world) (u : nat) : Prop :=
  uo_pushed (w_up w u) = false /\ exists t, In t (w_timers w) /\ t_up t = u.

Definition P3 (w : world) (m u : nat) : Prop :=
  exists id', In (AReqConns (uo_group (w_up w u)) m id') (c_queue (w_cl w (uo_owner (w_up w u)))) /\
              (id' = 0 \/ id' = uo_id (w_up w u)).

Definition settled (w : world) (m u : nat) : Prop :=
  P1 w m u \/ P2 w u \/ P3 w m u \/ (insync w m u /\ harmless w m u).

Definition relevant (w : world) (m u : nat) : Prop :=
  u < w_nup w /\ uo_closed (w_up w u) = false /\ uo_owner (w_up w u) <> m /\
  c_group (w_cl w m) = Some (uo_group (w_up w u)) /\ c_dead (w_cl w m) = false.

Definition SInv (m : nat) (w : world) : Prop := forall u, relevant w m u -> settled w m u.

Definition req_none (m : nat) (w : world) : Prop :=
  forall d, In d (c_down (w_cl w m)) -> d_req d = None.

(* the subscriber does not decline streams itself *)
Definition quiet_op (m : nat) (o : op) : Prop :=
  match o with
  | OpMsg c (MRequestStream _ _) | OpMsg c (MAbort _) | OpMsg c (MAnswer _ _) => c <> m
  | _ => True
  end.

(* ---- at quiescence *)

Theorem sync_quiescent : forall w m u,
  Inv w -> in_range w -> SInv m w -> quiescentb w = true -> relevant w m u -> insync w m u.
Proof.
  intros w m u I Hrange S Hq Hrel. destruct (quiescent_spec w Hq) as [Ht Hqueue].
  destruct Hrel as [Hu [Hc [Ho [Hg Hd]]]].
  assert (Hm : m < w_n w) by (eapply Hrange; eauto).
  destruct (S u (conj Hu (conj Hc (conj Ho (conj Hg Hd))))) as [A|[B|[C|[D _]]]].
  - unfold P1 in A. rewrite (Hqueue m Hm Hd) in A. discriminate.
  - destruct B as [_ [t [Hin _]]]. rewrite Ht in Hin. destruct Hin.
  - destruct C as [id' [Hin _]].
    destruct (inv_alive _ I u Hu Hc) as [_ Hgo].
    assert (Hp : uo_owner (w_up w u) < w_n w) by (eapply Hrange; eauto).
    assert (Hdp : c_dead (w_cl w (uo_owner (w_up w u))) = false).
    { destruct (c_dead (w_cl w (uo_owner (w_up w u)))) eqn:E; [|reflexivity].
      apply (inv_dead _ I) in E. congruence. }
    rewrite (Hqueue _ Hp Hdp) in Hin. destruct Hin.
  - exact D.
Qed.

(* ---- frame: nothing relevant to the pair (m, u) changes, queues grow *)

Definition same_obj (w w' : world) (u : nat) : Prop :=
  uo_id (w_up w' u) = uo_id (w_up w u) /\ uo_owner (w_up w' u) = uo_owner (w_up w u) /\
  uo_label (w_up w' u) = uo_label (w_up w u) /\ uo_group (w_up w' u) = uo_group (w_up w u) /\
  uo_tracks (w_up w' u) = uo_tracks (w_up w u) /\ uo_pushed (w_up w' u) = uo_pushed (w_up w u).

Lemma settled_frame : forall w w' m u l,
  core (w_cl w' m) = core (w_cl w m) ->
  c_queue (w_cl w' m) = c_queue (w_cl w m) ++ l -> Forall (fresh_action w) l ->
  same_obj w w' u ->
  (forall t, In t (w_timers w) -> In t (w_timers w')) ->
  (P3 w m u -> settled w' m u) ->
  settled w m u -> settled w' m u.
Proof.
  intros w w' m u l Hcore Hq Hfresh [Eid [Eow [Elab [Egr [Etr Epu]]]]] Htim Hp3 S.
  destruct (core_fields _ _ Hcore) as [G [_ [_ [_ [R [_ [D _]]]]]]].
  assert (Hbase : base_req (w_cl w' m) (uo_label (w_up w' u)) = base_req (w_cl w m) (uo_label (w_up w u))).
  { unfold base_req. rewrite R, Elab. reflexivity. }
  assert (Hsel : sel w' m u = sel w m u) by (unfold sel; rewrite Hbase, Etr; reflexivity).
  destruct S as [A|[B|[C|[D1 D2]]]].
  - left. unfold P1 in *. rewrite Hq, last_push_app, Etr.
    destruct (last_push u l) as [ts|] eqn:E; [|exact A].
    rewrite (last_push_fresh w u l ts Hfresh E). reflexivity.
  - right. left. destruct B as [B1 [t [B2 B3]]]. split; [congruence|]. exists t. auto.
  - apply Hp3. exact C.
  - right. right. right. split.
    + unfold insync in *. rewrite Hsel, Eid, D. exact D1.
    + intros g id ts r Hin. rewrite Hq in Hin. apply in_app_iff in Hin. rewrite Hbase, Hsel.
      destruct Hin as [Hin|Hin]; [eapply D2; eauto|].
      rewrite Forall_forall in Hfresh. specialize (Hfresh _ Hin). simpl in Hfresh. subst ts. reflexivity.
Qed.

Lemma P3_frame : forall w w' m u,
  same_obj w w' u ->
  (forall a, In a (c_queue (w_cl w (uo_owner (w_up w u)))) -> In a (c_queue (w_cl w' (uo_owner (w_up w u))))) ->
  P3 w m u -> P3 w' m u.
Proof.
  intros w w' m u [Eid [Eow [_ [Egr _]]]] Hq [id' [C1 C2]]. exists id'. rewrite Egr, Eow, Eid. auto.
Qed.

Lemma same_obj_evo : forall c w w' u, evo c None w w' -> u < w_nup w -> same_obj w w' u.
Proof.
  intros c w w' u [[_ H] _] Hu. destruct (H u Hu ltac:(discriminate)) as [A [B [C [D [_ [E [F _]]]]]]].
  repeat split; assumption.
Qed.

Lemma timers_evo : forall c w w', evo c None w w' -> forall t, In t (w_timers w) -> In t (w_timers w').
Proof.
  intros c w w' [_ [[l [Ht _]] _]] t Hin. rewrite Ht. apply in_app_iff. left. exact Hin.
Qed.

(* ---- the publisher serves a requestConns for m: the push of u is queued at m *)

Definition pushes (g id : nat) (l : list (nat * nat)) (w : world) : list action :=
  flat_map (fun idu =>
     if negb (Nat.eqb id 0) && negb (Nat.eqb id (fst idu)) then []
     else [APush g (fst idu) (Some (snd idu)) (uo_tracks (w_up w (snd idu))) (uo_replace (w_up w (snd idu)))]) l.

Lemma pushes_same_heap : forall g id l w1 w2, w_up w1 = w_up w2 -> pushes g id l w1 = pushes g id l w2.
Proof. intros g id l w1 w2 H. unfold pushes. rewrite H. reflexivity. Qed.

Lemma reqconns_fold_target : forall g t id l w,
  c_queue (w_cl (reqconns_fold g t id l w) t) = c_queue (w_cl w t) ++ pushes g id l w.
Proof.
  induction l as [|x r IH]; intros w; simpl; [rewrite app_nil_r; reflexivity|].
  destruct (negb (Nat.eqb id 0) && negb (Nat.eqb id (fst x))) eqn:E.
  - rewrite IH. reflexivity.
  - rewrite IH. autorewrite with sub. rewrite Nat.eqb_refl. rewrite <- app_assoc. simpl.
    rewrite (pushes_same_heap g id r (enq t (APush g (fst x) (Some (snd x)) (uo_tracks (w_up w (snd x))) (uo_replace (w_up w (snd x)))) w) w); reflexivity.
Qed.

Lemma in_pushes : forall g id l w i u,
  In (i, u) l -> (id = 0 \/ id = i) ->
  In (APush g i (Some u) (uo_tracks (w_up w u)) (uo_replace (w_up w u))) (pushes g id l w).
Proof.
  intros g id l w i u Hin Hid. unfold pushes. apply in_flat_map. exists (i, u). split; [exact Hin|].
  simpl. destruct Hid as [->| ->]; simpl.
  - left. reflexivity.
  - rewrite Nat.eqb_refl. rewrite andb_false_r. left. reflexivity.
Qed.

Lemma last_push_some_of_in : forall u q g id ts r, In (APush g id (Some u) ts r) q -> last_push u q <> None.
Proof.
  intros u q g id ts r Hin E. eapply last_push_none; eauto.
Qed.

Lemma pump_reqconns_queue : forall w p g m id' q,
  p < w_n w -> c_dead (w_cl w p) = false ->
  c_queue (w_cl w p) = AReqConns g m id' :: q -> c_group (w_cl w p) = Some g -> m <> p ->
  c_queue (w_cl (step w (OpPump p)) m) = c_queue (w_cl w m) ++ pushes g id' (c_up (w_cl w p)) w /\
  w_up (step w (OpPump p)) = w_up w /\ w_nup (step w (OpPump p)) = w_nup w.
Proof.
  intros w p g m id' q Hp Hd Eq Hg Hm. simpl.
  assert (E : Nat.ltb p (w_n w) && negb (c_dead (w_cl w p)) = true).
  { apply andb_true_intro. split; [apply Nat.ltb_lt; exact Hp|rewrite Hd; reflexivity]. }
  rewrite E, Eq. cbv beta iota zeta delta [handle_action].
  set (w0 := upd_cl p (set_queue q) w).
  assert (G0 : in_group g (w_cl w0 p) = true).
  { apply in_group_eq. unfold w0. rewrite upd_cl_same. exact Hg. }
  rewrite G0. unfold finish. cbn [fst snd].
  fold (reqconns_fold g m id' (c_up (w_cl w0 p)) w0).
  destruct (reqconns_fold_heap g m id' (c_up (w_cl w0 p)) w0) as [A [B _]].
  split; [|split; [rewrite B; reflexivity|rewrite A; reflexivity]].
  rewrite reqconns_fold_target.
  assert (Q0 : c_queue (w_cl w0 m) = c_queue (w_cl w m)).
  { unfold w0, upd_cl. simpl. destruct (Nat.eqb_spec m p); [contradiction|reflexivity]. }
  assert (U0 : c_up (w_cl w0 p) = c_up (w_cl w p)) by (unfold w0; rewrite upd_cl_same; reflexivity).
  rewrite Q0, U0. rewrite (pushes_same_heap g id' (c_up (w_cl w p)) w0 w); reflexivity.
Qed.

Lemma pushes_fresh : forall g id l w, Forall (fresh_action w) (pushes g id l w).
Proof.
  intros g id l w. unfold pushes. apply Forall_forall. intros a Ha.
  apply in_flat_map in Ha. destruct Ha as [[i u] [_ Ha]]. simpl in Ha.
  destruct (negb (Nat.eqb id 0) && negb (Nat.eqb id i)); [destruct Ha|].
  destruct Ha as [<-|[]]. simpl. reflexivity.
Qed.

Lemma pump_reqconns_P1 : forall w p g m id' q u,
  Inv w -> p < w_n w -> c_dead (w_cl w p) = false ->
  c_queue (w_cl w p) = AReqConns g m id' :: q -> m <> p ->
  u < w_nup w -> uo_closed (w_up w u) = false -> uo_owner (w_up w u) = p ->
  g = uo_group (w_up w u) -> (id' = 0 \/ id' = uo_id (w_up w u)) ->
  P1 (step w (OpPump p)) m u.
Proof.
  intros w p g m id' q u I Hp Hd Eq Hm Hu Hc Ho Hg Hid.
  destruct (inv_alive _ I u Hu Hc) as [Hl Hgp]. rewrite Ho in Hl, Hgp. rewrite <- Hg in Hgp.
  destruct (pump_reqconns_queue w p g m id' q Hp Hd Eq Hgp Hm) as [Q [U N]].
  unfold P1. rewrite Q, U, last_push_app.
  pose proof (in_pushes g id' (c_up (w_cl w p)) w _ u (lookup_in _ _ _ Hl) Hid) as Hin.
  destruct (last_push u (pushes g id' (c_up (w_cl w p)) w)) as [ts|] eqn:E.
  - rewrite (last_push_fresh w u _ ts (pushes_fresh _ _ _ _) E). reflexivity.
  - exfalso. eapply last_push_some_of_in; eauto.
Qed.

(* ---- another client acts *)

Lemma owner_live : forall w u, Inv w -> in_range w -> u < w_nup w -> uo_closed (w_up w u) = false ->
  uo_owner (w_up w u) < w_n w /\ c_dead (w_cl w (uo_owner (w_up w u))) = false /\
  c_group (w_cl w (uo_owner (w_up w u))) = Some (uo_group (w_up w u)).
Proof.
  intros w u I R Hu Hc. destruct (inv_alive _ I u Hu Hc) as [_ Hg].
  split; [eapply R; eauto|]. split; [|exact Hg].
  destruct (c_dead (w_cl w (uo_owner (w_up w u)))) eqn:E; [|reflexivity].
  apply (inv_dead _ I) in E. congruence.
Qed.

Lemma closed_back : forall c w w' u, evo c None w w' -> u < w_nup w ->
  uo_closed (w_up w' u) = false -> uo_closed (w_up w u) = false.
Proof.
  intros c w w' u [[_ H] _] Hu Hc.
  destruct (H u Hu ltac:(discriminate)) as [_ [_ [_ [_ [_ [_ [_ [X|[X [Y _]]]]]]]]]]; congruence.
Qed.

Lemma sync_other_actor : forall w o c m u,
  Inv w -> in_range w -> ok_op w o -> actor o = Some c -> c <> m ->
  SInv m w -> u < w_nup w -> relevant (step w o) m u -> settled (step w o) m u.
Proof.
  intros w o c m u I Hrange Hok Ha Hcm S Hu Hrel.
  pose proof (Inv_step w o I Hok) as I'. pose proof (in_range_step w o I Hok Hrange) as R'.
  assert (Ham : actor o <> Some m) by congruence.
  destruct (step_fresh w o m Ham) as [Hcore [l [Hq Hfresh]]].
  pose proof (step_evo w o c I Hok Ha) as HE.
  pose proof (same_obj_evo c w _ u HE Hu) as Hso.
  destruct Hrel as [Hu' [Hc' [Ho' [Hg' Hd']]]].
  destruct Hso as [Eid [Eow [Elab [Egr [Etr Epu]]]]].
  destruct (core_fields _ _ Hcore) as [G [_ [_ [_ [_ [_ [_ [_ Dd]]]]]]]].
  assert (Hc : uo_closed (w_up w u) = false) by (eapply closed_back; eauto).
  assert (Hrel : relevant w m u).
  { repeat split; auto; congruence. }
  apply (settled_frame w (step w o) m u l); auto.
  - repeat split; assumption.
  - eapply timers_evo; eauto.
  - (* the requestConns in the publisher's queue *)
    intro C3. set (p := uo_owner (w_up w u)).
    destruct (owner_live w u I Hrange Hu Hc) as [Hp [Hdp Hgp]]. fold p in Hp, Hdp, Hgp.
    destruct (owner_live _ u I' R' Hu' Hc') as [Hp' [Hdp' Hgp']]. rewrite Eow in Hp', Hdp', Hgp'. fold p in Hp', Hdp', Hgp'.
    assert (Hsame : same_obj w (step w o) u) by (repeat split; assumption).
    destruct (Nat.eqb_spec p c) as [e|n].
    + (* the publisher itself acts *)
      subst c. destruct o as [c' msg|c'|c'|i|x k]; simpl in Ha; inversion Ha; subst c'.
      * destruct (msg_own w p msg I Hdp') as [[l' Hq'] _].
        right. right. left. eapply P3_frame; eauto. intros a Hin. fold p. rewrite Hq'. apply in_app_iff. left. exact Hin.
      * destruct (c_queue (w_cl w p)) as [|a q] eqn:Eq.
        { destruct C3 as [id' [Hin _]]. fold p in Hin. rewrite Eq in Hin. destruct Hin. }
        destruct (pump_own w p a q I Eq Hp Hdp Hdp') as [[l' Hq'] _].
        destruct C3 as [id' [Hin Hid]]. fold p in Hin. rewrite Eq in Hin. destruct Hin as [Hhead|Hin].
        -- left. subst a. apply (pump_reqconns_P1 w p (uo_group (w_up w u)) m id' q u); auto.
        -- right. right. left. exists id'. rewrite Egr, Eow, Eid. fold p. split; [|exact Hid].
           rewrite Hq'. apply in_app_iff. left. exact Hin.
      * exfalso. simpl in Hdp'.
        assert (X : Nat.ltb p (w_n w) && negb (c_dead (w_cl w p)) = true).
        { apply andb_true_intro. split; [apply Nat.ltb_lt; exact Hp|rewrite Hdp; reflexivity]. }
        rewrite X in Hdp'. rewrite error_close_dead in Hdp'. discriminate.
    + right. right. left. eapply P3_frame; eauto. intros a Hin. fold p.
      assert (P : passive p w (step w o)) by (apply step_passive; congruence).
      destruct P as [_ [l' Hq']]. rewrite Hq'. apply in_app_iff. left. exact Hin.
Qed.

(* ---- a stream created by this very step has its delayed push pending *)

Lemma nup_del_up_conn' : forall c id push w, w_nup (del_up_conn' c id push w) = w_nup w.
Proof.
  intros. unfold del_up_conn', del_up_conn. destruct (lookup id (c_up (w_cl w c))); [|reflexivity].
  destruct push; [destruct (c_group (w_cl w c))|]; autorewrite with sub; reflexivity.
Qed.

Lemma nup_leave_fold : forall c l w, w_nup (leave_fold c l w) = w_nup w.
Proof. induction l as [|x r IH]; intros w; [reflexivity|]. simpl. rewrite IH. apply nup_del_up_conn'. Qed.

Lemma nup_leave_group : forall c w, w_nup (leave_group c w) = w_nup w.
Proof.
  intros. unfold leave_group. destruct (c_group (w_cl w c)); [|reflexivity].
  change (w_nup (leave_fold c (c_up (w_cl w c)) w) = w_nup w). apply nup_leave_fold.
Qed.

Lemma nup_error_close : forall c w, w_nup (error_close c w) = w_nup w.
Proof. intros. unfold error_close. change (w_nup (leave_group c w) = w_nup w). apply nup_leave_group. Qed.

Lemma nup_finish : forall c r, w_nup (finish c r) = w_nup (fst r).
Proof. intros c [w e]. unfold finish. simpl. destruct e; [apply nup_error_close|reflexivity]. Qed.

Lemma nup_unpresent_fold : forall c l w, w_nup (unpresent_fold c l w) = w_nup w.
Proof.
  induction l as [|x r IH]; intros w; [reflexivity|]. simpl.
  pose proof (nup_del_up_conn' c (fst x) true w) as H. unfold del_up_conn' in H.
  destruct (del_up_conn c (fst x) true w); rewrite IH; [reflexivity|]. exact H.
Qed.

Lemma nup_handle_action : forall c a w, w_nup (fst (handle_action c a w)) = w_nup w.
Proof.
  intros c a w. destruct a as [g id up ts r|g t id|g give| |]; cbv beta iota zeta delta [handle_action].
  - destruct (in_group g (w_cl w c)); [|reflexivity]. destruct (push_down_conn_heap c id up ts r w) as [A _]. exact A.
  - destruct (in_group g (w_cl w c)); cbn [fst]; [|reflexivity].
    destruct (reqconns_fold_heap g t id (c_up (w_cl w c)) w) as [A _]. exact A.
  - destruct (in_group g (w_cl w c)); reflexivity.
  - destruct (c_group (w_cl w c)); cbn [fst]; [|reflexivity].
    destruct (c_present (w_cl w c)); cbn [fst]; [reflexivity|]. apply nup_unpresent_fold.
  - reflexivity.
Qed.

Lemma nup_offer_tail : forall c id replace u s w, w_nup (offer_tail c id replace u s w) = w_nup w.
Proof.
  intros. unfold offer_tail. set (w2 := if Nat.eqb replace 0 then w else _).
  assert (H : w_nup w2 = w_nup w).
  { unfold w2. destruct (Nat.eqb replace 0); [reflexivity|]. rewrite nup_del_up_conn'. reflexivity. }
  destruct s; [destruct (uo_closed (w_up w2 u))|..]; exact H.
Qed.

(* offer_tail does not touch the pushed flag nor the timers *)
Lemma offer_tail_pushed : forall c id replace u s w x,
  uo_pushed (w_up (offer_tail c id replace u s w) x) = uo_pushed (w_up w x) /\
  w_timers (offer_tail c id replace u s w) = w_timers w.
Proof.
  intros. unfold offer_tail. set (w2 := if Nat.eqb replace 0 then w else _).
  assert (H : uo_pushed (w_up w2 x) = uo_pushed (w_up w x) /\ w_timers w2 = w_timers w).
  { unfold w2. destruct (Nat.eqb replace 0); [auto|].
    unfold del_up_conn', del_up_conn. simpl.
    destruct (lookup replace (c_up (w_cl w c))); simpl.
    - destruct (Nat.eqb x n), (Nat.eqb x u); simpl; auto.
    - destruct (Nat.eqb x u); simpl; auto. }
  destruct s; [destruct (uo_closed (w_up w2 u))|..]; exact H.
Qed.

Definition newobj (w w' : world) : Prop :=
  forall u, w_nup w <= u -> u < w_nup w' ->
    uo_pushed (w_up w' u) = false /\ exists t, In t (w_timers w') /\ t_up t = u.

Lemma newobj_same : forall w w', w_nup w' = w_nup w -> newobj w w'.
Proof. intros w w' H u H1 H2. lia. Qed.

Lemma newobj_got_offer : forall c id label replace s w, newobj w (got_offer c id label replace s w).
Proof.
  intros. unfold got_offer.
  destruct (get_down id (c_down (w_cl w c))); [apply newobj_same; reflexivity|].
  destruct (lookup id (c_up (w_cl w c))); [apply newobj_same; apply nup_offer_tail|].
  assert (Hcase : forall g, newobj w (offer_tail c id replace (w_nup w) s (new_up_conn c id label g w))).
  { intros g u H1 H2. rewrite nup_offer_tail in H2. simpl in H2.
    assert (u = w_nup w) by lia. subst u.
    destruct (offer_tail_pushed c id replace (w_nup w) s (new_up_conn c id label g w) (w_nup w)) as [A B].
    rewrite A, B. unfold new_up_conn, new_timer. simpl. rewrite Nat.eqb_refl. simpl. split; [reflexivity|].
    exists (mkTimer (w_nup w) g). split; [apply in_app_iff; right; left; reflexivity|reflexivity]. }
  destruct s; destruct (c_group (w_cl w c)); try (apply newobj_same; reflexivity); apply Hcase.
Qed.

Lemma newobj_step : forall w o, Inv w -> ok_op w o -> newobj w (step w o).
Proof.
  intros w o I Hok.
  assert (Hfin : forall c r, newobj w (fst r) -> (forall x, uo_pushed (w_up (finish c r) x) = uo_pushed (w_up (fst r) x)) ->
                 w_timers (finish c r) = w_timers (fst r) -> newobj w (finish c r)).
  { intros c r H Hp Ht u H1 H2. rewrite nup_finish in H2. rewrite Hp, Ht. apply H; auto. }
  destruct o as [c msg|c|c|i|u k]; simpl.
  - destruct (Nat.ltb c (w_n w) && negb (c_dead (w_cl w c))); [|apply newobj_same; reflexivity].
    destruct msg as [g user pres op0|g|req|id req|id label replace s|id|id|id ok|dest|dest give];
      try solve [apply newobj_same; rewrite nup_finish; cbv beta iota zeta delta [handle_msg];
           repeat match goal with |- context [match ?x with _ => _ end] => destruct x end;
           cbn [fst]; autorewrite with sub; try reflexivity;
           try apply nup_leave_group; try apply nup_del_up_conn';
           try (unfold close_down_conn, negotiate; repeat match goal with |- context [if ?b then _ else _] => destruct b end; reflexivity)].
    (* the offer *)
    intros u H1 H2. rewrite nup_finish in H2.
    cbv beta iota zeta delta [handle_msg] in *.
    destruct (Nat.eqb id 0); cbn [fst] in *; [lia|].
    destruct (c_present (w_cl w c)); cbn [fst] in *.
    + unfold finish. cbn [fst snd]. apply newobj_got_offer; auto.
    + exfalso. revert H2. autorewrite with sub. destruct (Nat.eqb replace 0); [lia|rewrite nup_del_up_conn'; lia].
  - apply newobj_same.
    destruct (Nat.ltb c (w_n w) && negb (c_dead (w_cl w c))); [|reflexivity].
    destruct (c_queue (w_cl w c)); [reflexivity|]. rewrite nup_finish, nup_handle_action. reflexivity.
  - apply newobj_same. destruct (Nat.ltb c (w_n w) && negb (c_dead (w_cl w c))); [apply nup_error_close|reflexivity].
  - apply newobj_same. destruct (nth_error (w_timers w) i); [|reflexivity]. unfold fire_timer.
    destruct (uo_pushed _); [reflexivity|]. autorewrite with sub. reflexivity.
  - apply newobj_same. destruct (Nat.ltb u (w_nup w) && negb (uo_closed (w_up w u))); [|reflexivity].
    destruct (c_group (w_cl w (uo_owner (w_up w u)))); reflexivity.
Qed.

(* C07, layer 2: offered iff requested, at quiescence.  Invariant [SInv m]:
   for every live stream u of another member of m's group, either the state of
   m with respect to u is what requestedTracks selects from u's current tracks
   under m's current request (and no queued push can change that), or something
   is pending that will make it so: a queued push of u carrying its current
   tracks (the last one queued), a delayed push of u that has not fired, or a
   requestConns for m in the queue of u's publisher. *)
From Coq Require Import List Bool Arith PeanoNat Lia.
From Galene Require Import Model.Subscribe Proofs.SubscribeFrame Proofs.SubscribeInv
  Proofs.SubscribeStep Proofs.SubscribeHeap Proofs.SubscribeOwn Proofs.SubscribeOut
  Proofs.SubscribeTeardown Proofs.SubscribeExact Proofs.SubscribeFresh.
Import ListNotations.

(* ---- the last queued push of a stream *)

Definition push_of (u : nat) (a : action) : option (list kind) :=
  match a with
  | APush _ _ (Some v) ts _ => if Nat.eqb v u then Some ts else None
  | _ => None
  end.

Fixpoint last_push (u : nat) (q : list action) : option (list kind) :=
  match q with
  | [] => None
  | a :: r => match last_push u r with
              | Some ts => Some ts
              | None => push_of u a
              end
  end.

Lemma last_push_app : forall u q l,
  last_push u (q ++ l) = match last_push u l with Some ts => Some ts | None => last_push u q end.
Proof.
  induction q as [|a r IH]; intros l; simpl.
  - destruct (last_push u l); reflexivity.
  - rewrite IH. destruct (last_push u l); reflexivity.
Qed.

Lemma push_of_some : forall u a ts, push_of u a = Some ts -> exists g id r, a = APush g id (Some u) ts r.
Proof.
  intros u a ts H. destruct a as [g id [v|] ts' r| | | |]; simpl in H; try discriminate.
  destruct (Nat.eqb_spec v u); [|discriminate]. inversion H. subst. eauto.
Qed.

Lemma last_push_in : forall u q ts, last_push u q = Some ts ->
  exists g id r, In (APush g id (Some u) ts r) q.
Proof.
  induction q as [|a r IH]; intros ts H; simpl in H; [discriminate|].
  destruct (last_push u r) as [ts'|] eqn:E.
  - inversion H. subst. destruct (IH ts eq_refl) as [g [id [r0 X]]]. exists g, id, r0. right. exact X.
  - destruct (push_of_some _ _ _ H) as [g [id [r0 X]]]. exists g, id, r0. left. auto.
Qed.

Lemma last_push_none : forall u q, last_push u q = None ->
  forall g id ts r, ~ In (APush g id (Some u) ts r) q.
Proof.
  induction q as [|a r IH]; intros H g id ts r0 Hin; simpl in *; [exact Hin|].
  destruct (last_push u r) eqn:E; [discriminate|].
  destruct Hin as [->|Hin]; [|eapply IH; eauto].
  simpl in H. rewrite Nat.eqb_refl in H. discriminate.
Qed.

Lemma last_push_fresh : forall w u l ts,
  Forall (fresh_action w) l -> last_push u l = Some ts -> ts = uo_tracks (w_up w u).
Proof.
  intros w u l ts F H. destruct (last_push_in _ _ _ H) as [g [id [r X]]].
  rewrite Forall_forall in F. exact (F _ X).
Qed.

(* ---- the invariant *)

Definition sel (w : world) (m u : nat) : list nat * bool :=
  requested_tracks (base_req (w_cl w m) (uo_label (w_up w u))) (uo_tracks (w_up w u)).

Definition insync (w : world) (m u : nat) : Prop :=
  match get_down (uo_id (w_up w u)) (c_down (w_cl w m)) with
  | None => fst (sel w m u) = []
  | Some d => fst (sel w m u) <> [] /\ d_remote d = u /\
              (forall p, In p (d_tracks d) <-> In p (map (fun i => (u, i)) (fst (sel w m u)))) /\
              d_limit d = snd (sel w m u)
  end.

Definition harmless (w : world) (m u : nat) : Prop :=
  forall g id ts r, In (APush g id (Some u) ts r) (c_queue (w_cl w m)) ->
    requested_tracks (base_req (w_cl w m) (uo_label (w_up w u))) ts = sel w m u.

Definition P1 (w : world) (m u : nat) : Prop :=
  last_push u (c_queue (w_cl w m)) = Some (uo_tracks (w_up w u)).

Definition P2 (w : world) (u : nat) : Prop :=
  uo_pushed (w_up w u) = false /\ exists t, In t (w_timers w) /\ t_up t = u.

Definition P3 (w : world) (m u : nat) : Prop :=
  exists id', In (AReqConns (uo_group (w_up w u)) m id') (c_queue (w_cl w (uo_owner (w_up w u)))) /\
              (id' = 0 \/ id' = uo_id (w_up w u)).

Definition settled (w : world) (m u : nat) : Prop :=
  P1 w m u \/ P2 w u \/ P3 w m u \/ (insync w m u /\ harmless w m u).

Definition relevant (w : world) (m u : nat) : Prop :=
  u < w_nup w /\ uo_closed (w_up w u) = false /\ uo_owner (w_up w u) <> m /\
  c_group (w_cl w m) = Some (uo_group (w_up w u)) /\ c_dead (w_cl w m) = false.

Definition SInv (m : nat) (w : world) : Prop := forall u, relevant w m u -> settled w m u.

Definition req_none (m : nat) (w : world) : Prop :=
  forall d, In d (c_down (w_cl w m)) -> d_req d = None.

(* the subscriber does not decline streams itself *)
Definition quiet_op (m : nat) (o : op) : Prop :=
  match o with
  | OpMsg c (MRequestStream _ _) | OpMsg c (MAbort _) | OpMsg c (MAnswer _ _) => c <> m
  | _ => True
  end.

(* ---- at quiescence *)

Theorem sync_quiescent : forall w m u,
  Inv w -> in_range w -> SInv m w -> quiescentb w = true -> relevant w m u -> insync w m u.
Proof.
  intros w m u I Hrange S Hq Hrel. destruct (quiescent_spec w Hq) as [Ht Hqueue].
  destruct Hrel as [Hu [Hc [Ho [Hg Hd]]]].
  assert (Hm : m < w_n w) by (eapply Hrange; eauto).
  destruct (S u (conj Hu (conj Hc (conj Ho (conj Hg Hd))))) as [A|[B|[C|[D _]]]].
  - unfold P1 in A. rewrite (Hqueue m Hm Hd) in A. discriminate.
  - destruct B as [_ [t [Hin _]]]. rewrite Ht in Hin. destruct Hin.
  - destruct C as [id' [Hin _]].
    destruct (inv_alive _ I u Hu Hc) as [_ Hgo].
    assert (Hp : uo_owner (w_up w u) < w_n w) by (eapply Hrange; eauto).
    assert (Hdp : c_dead (w_cl w (uo_owner (w_up w u))) = false).
    { destruct (c_dead (w_cl w (uo_owner (w_up w u)))) eqn:E; [|reflexivity].
      apply (inv_dead _ I) in E. congruence. }
    rewrite (Hqueue _ Hp Hdp) in Hin. destruct Hin.
  - exact D.
Qed.

(* ---- frame: nothing relevant to the pair (m, u) changes, queues grow *)

Definition same_obj (w w' : world) (u : nat) : Prop :=
  uo_id (w_up w' u) = uo_id (w_up w u) /\ uo_owner (w_up w' u) = uo_owner (w_up w u) /\
  uo_label (w_up w' u) = uo_label (w_up w u) /\ uo_group (w_up w' u) = uo_group (w_up w u) /\
  uo_tracks (w_up w' u) = uo_tracks (w_up w u) /\ uo_pushed (w_up w' u) = uo_pushed (w_up w u).

Lemma settled_frame : forall w w' m u l,
  core (w_cl w' m) = core (w_cl w m) ->
  c_queue (w_cl w' m) = c_queue (w_cl w m) ++ l -> Forall (fresh_action w) l ->
  same_obj w w' u ->
  (forall t, In t (w_timers w) -> In t (w_timers w')) ->
  (forall a, In a (c_queue (w_cl w (uo_owner (w_up w u)))) -> In a (c_queue (w_cl w' (uo_owner (w_up w u))))) ->
  settled w m u -> settled w' m u.
Proof.
  intros w w' m u l Hcore Hq Hfresh [Eid [Eow [Elab [Egr [Etr Epu]]]]] Htim Hpq S.
  destruct (core_fields _ _ Hcore) as [G [_ [_ [_ [R [_ [D _]]]]]]].
  assert (Hbase : base_req (w_cl w' m) (uo_label (w_up w' u)) = base_req (w_cl w m) (uo_label (w_up w u))).
  { unfold base_req. rewrite R, Elab. reflexivity. }
  assert (Hsel : sel w' m u = sel w m u) by (unfold sel; rewrite Hbase, Etr; reflexivity).
  destruct S as [A|[B|[C|[D1 D2]]]].
  - left. unfold P1 in *. rewrite Hq, last_push_app, Etr.
    destruct (last_push u l) as [ts|] eqn:E; [|exact A].
    rewrite (last_push_fresh w u l ts Hfresh E). reflexivity.
  - right. left. destruct B as [B1 [t [B2 B3]]]. split; [congruence|]. exists t. auto.
  - right. right. left. destruct C as [id' [C1 C2]]. exists id'. rewrite Egr, Eow, Eid. auto.
  - right. right. right. split.
    + unfold insync in *. rewrite Hsel, Eid, D. exact D1.
    + intros g id ts r Hin. rewrite Hq in Hin. apply in_app_iff in Hin. rewrite Hbase, Hsel.
      destruct Hin as [Hin|Hin]; [eapply D2; eauto|].
      rewrite Forall_forall in Hfresh. specialize (Hfresh _ Hin). simpl in Hfresh. subst ts. reflexivity.
Qed.

(* C07, layer 2: offered iff requested, at quiescence.  Invariant [SInv m]:
   for every live stream u of another member of m's group, either the state of
   m with respect to u is what requestedTracks selects from u's current tracks
   under m's current request (and no queued push can change that), or something
   is pending that will make it so: a queued push of u carrying its current
   tracks (the last one queued), a delayed push of u that has not fired, or a
   requestConns for m in the queue of u's publisher. *)
From Coq Require Import List Bool Arith PeanoNat Lia.
From Galene Require Import Model.Subscribe Proofs.SubscribeFrame Proofs.SubscribeInv
  Proofs.SubscribeStep Proofs.SubscribeHeap Proofs.SubscribeOwn Proofs.SubscribeOut
  Proofs.SubscribeTeardown Proofs.SubscribeExact Proofs.SubscribeFresh.
Import ListNotations.

(* ---- the last queued push of a stream *)

Definition push_of (u : nat) (a : action) : option (list kind) :=
  match a with
  | APush _ _ (Some v) ts _ => if Nat.eqb v u then Some ts else None
  | _ => None
  end.

Fixpoint last_push (u : nat) (q : list action) : option (list kind) :=
  match q with
  | [] => None
  | a :: r => match last_push u r with
              | Some ts => Some ts
              | None => push_of u a
              end
  end.

Lemma last_push_app : forall u q l,
  last_push u (q ++ l) = match last_push u l with Some ts => Some ts | None => last_push u q end.
Proof.
  induction q as [|a r IH]; intros l; simpl.
  - destruct (last_push u l); reflexivity.
  - rewrite IH. destruct (last_push u l); reflexivity.
Qed.

Lemma push_of_some : forall u a ts, push_of u a = Some ts -> exists g id r, a = APush g id (Some u) ts r.
Proof.
  intros u a ts H. destruct a as [g id [v|] ts' r| | | |]; simpl in H; try discriminate.
  destruct (Nat.eqb_spec v u); [|discriminate]. inversion H. subst. eauto.
Qed.

Lemma last_push_in : forall u q ts, last_push u q = Some ts ->
  exists g id r, In (APush g id (Some u) ts r) q.
Proof.
  induction q as [|a r IH]; intros ts H; simpl in H; [discriminate|].
  destruct (last_push u r) as [ts'|] eqn:E.
  - inversion H. subst. destruct (IH ts eq_refl) as [g [id [r0 X]]]. exists g, id, r0. right. exact X.
  - destruct (push_of_some _ _ _ H) as [g [id [r0 X]]]. exists g, id, r0. left. auto.
Qed.

Lemma last_push_none : forall u q, last_push u q = None ->
  forall g id ts r, ~ In (APush g id (Some u) ts r) q.
Proof.
  induction q as [|a r IH]; intros H g id ts r0 Hin; simpl in *; [exact Hin|].
  destruct (last_push u r) eqn:E; [discriminate|].
  destruct Hin as [->|Hin]; [|eapply IH; eauto].
  simpl in H. rewrite Nat.eqb_refl in H. discriminate.
Qed.

Lemma last_push_fresh : forall w u l ts,
  Forall (fresh_action w) l -> last_push u l = Some ts -> ts = uo_tracks (w_up w u).
Proof.
  intros w u l ts F H. destruct (last_push_in _ _ _ H) as [g [id [r X]]].
  rewrite Forall_forall in F. exact (F _ X).
Qed.

(* ---- the invariant *)

Definition sel (w : world) (m u : nat) : list nat * bool :=
  requested_tracks (base_req (w_cl w m) (uo_label (w_up w u))) (uo_tracks (w_up w u)).

Definition insync (w : world) (m u : nat) : Prop :=
  match get_down (uo_id (w_up w u)) (c_down (w_cl w m)) with
  | None => fst (sel w m u) = []
  | Some d => fst (sel w m u) <> [] /\ d_remote d = u /\
              (forall p, In p (d_tracks d) <-> In p (map (fun i => (u, i)) (fst (sel w m u)))) /\
              d_limit d = snd (sel w m u)
  end.

Definition harmless (w : world) (m u : nat) : Prop :=
  forall g id ts r, In (APush g id (Some u) ts r) (c_queue (w_cl w m)) ->
    requested_tracks (base_req (w_cl w m) (uo_label (w_up w u))) ts = sel w m u.

Definition P1 (w : world) (m u : nat) : Prop :=
  last_push u (c_queue (w_cl w m)) = Some (uo_tracks (w_up w u)).

Definition P2 (w : world) (u : nat) : Prop :=
  uo_pushed (w_up w u) = false /\ exists t, In t (w_timers w) /\ t_up t = u.

Definition P3 (w : world) (m u : nat) : Prop :=
  exists id', In (AReqConns (uo_group (w_up w u)) m id') (c_queue (w_cl w (uo_owner (w_up w u)))) /\
              (id' = 0 \/ id' = uo_id (w_up w u)).

Definition settled (w : world) (m u : nat) : Prop :=
  P1 w m u \/ P2 w u \/ P3 w m u \/ (insync w m u /\ harmless w m u).

Definition relevant (w : world) (m u : nat) : Prop :=
  u < w_nup w /\ uo_closed (w_up w u) = false /\ uo_owner (w_up w u) <> m /\
  c_group (w_cl w m) = Some (uo_group (w_up w u)) /\ c_dead (w_cl w m) = false.

Definition SInv (m : nat) (w : world) : Prop := forall u, relevant w m u -> settled w m u.

Definition req_none (m : nat) (w : world) : Prop :=
  forall d, In d (c_down (w_cl w m)) -> d_req d = None.

(* the subscriber does not decline streams itself *)
Definition quiet_op (m : nat) (o : op) : Prop :=
  match o with
  | OpMsg c (MRequestStream _ _) | OpMsg c (MAbort _) | OpMsg c (MAnswer _ _) => c <> m
  | _ => True
  end.

(* ---- at quiescence *)

Theorem sync_quiescent : forall w m u,
  Inv w -> in_range w -> SInv m w -> quiescentb w = true -> relevant w m u -> insync w m u.
Proof.
  intros w m u I Hrange S Hq Hrel. destruct (quiescent_spec w Hq) as [Ht Hqueue].
  destruct Hrel as [Hu [Hc [Ho [Hg Hd]]]].
  assert (Hm : m < w_n w) by (eapply Hrange; eauto).
  destruct (S u (conj Hu (conj Hc (conj Ho (conj Hg Hd))))) as [A|[B|[C|[D _]]]].
  - unfold P1 in A. rewrite (Hqueue m Hm Hd) in A. discriminate.
  - destruct B as [_ [t [Hin _]]]. rewrite Ht in Hin. destruct Hin.
  - destruct C as [id' [Hin _]].
    destruct (inv_alive _ I u Hu Hc) as [_ Hgo].
    assert (Hp : uo_owner (w_up w u) < w_n w) by (eapply Hrange; eauto).
    assert (Hdp : c_dead (w_cl w (uo_owner (w_up w u))) = false).
    { destruct (c_dead (w_cl w (uo_owner (w_up w u)))) eqn:E; [|reflexivity].
      apply (inv_dead _ I) in E. congruence. }
    rewrite (Hqueue _ Hp Hdp) in Hin. destruct Hin.
  - exact D.
Qed.

(* ---- frame: nothing relevant to the pair (m, u) changes, queues grow *)

Definition same_obj (w w' : world) (u : nat) : Prop :=
  uo_id (w_up w' u) = uo_id (w_up w u) /\ uo_owner (w_up w' u) = uo_owner (w_up w u) /\
  uo_label (w_up w' u) = uo_label (w_up w u) /\ uo_group (w_up w' u) = uo_group (w_up w u) /\
  uo_tracks (w_up w' u) = uo_tracks (w_up w u) /\ uo_pushed (w_up w' u) = uo_pushed (w_up w u).

Lemma settled_frame_gen : forall w w' m u l,
  c_req (w_cl w' m) = c_req (w_cl w m) ->
  get_down (uo_id (w_up w u)) (c_down (w_cl w' m)) = get_down (uo_id (w_up w u)) (c_down (w_cl w m)) ->
  c_queue (w_cl w' m) = c_queue (w_cl w m) ++ l -> Forall (fresh_action w) l ->
  same_obj w w' u ->
  (P2 w u -> settled w' m u) ->
  (P3 w m u -> settled w' m u) ->
  settled w m u -> settled w' m u.
Proof.
  intros w w' m u l R D Hq Hfresh [Eid [Eow [Elab [Egr [Etr Epu]]]]] Hp2 Hp3 S.
  assert (Hbase : base_req (w_cl w' m) (uo_label (w_up w' u)) = base_req (w_cl w m) (uo_label (w_up w u))).
  { unfold base_req. rewrite R, Elab. reflexivity. }
  assert (Hsel : sel w' m u = sel w m u) by (unfold sel; rewrite Hbase, Etr; reflexivity).
  destruct S as [A|[B|[C|[D1 D2]]]].
  - left. unfold P1 in *. rewrite Hq, last_push_app, Etr.
    destruct (last_push u l) as [ts|] eqn:E; [|exact A].
    rewrite (last_push_fresh w u l ts Hfresh E). reflexivity.
  - apply Hp2. exact B.
  - apply Hp3. exact C.
  - right. right. right. split.
    + unfold insync in *. rewrite Hsel, Eid, D. exact D1.
    + intros g id ts r Hin. rewrite Hq in Hin. apply in_app_iff in Hin. rewrite Hbase, Hsel.
      destruct Hin as [Hin|Hin]; [eapply D2; eauto|].
      rewrite Forall_forall in Hfresh. specialize (Hfresh _ Hin). simpl in Hfresh. subst ts. reflexivity.
Qed.

Lemma settled_frame : forall w w' m u l,
  c_req (w_cl w' m) = c_req (w_cl w m) -> c_down (w_cl w' m) = c_down (w_cl w m) ->
  c_queue (w_cl w' m) = c_queue (w_cl w m) ++ l -> Forall (fresh_action w) l ->
  same_obj w w' u ->
  (P2 w u -> settled w' m u) ->
  (P3 w m u -> settled w' m u) ->
  settled w m u -> settled w' m u.
Proof.
  intros w w' m u l R D. apply settled_frame_gen; [exact R|rewrite D; reflexivity].
Qed.

Lemma P2_frame : forall w w' u,
  same_obj w w' u -> (forall t, In t (w_timers w) -> In t (w_timers w')) -> P2 w u -> P2 w' u.
Proof.
  intros w w' u [_ [_ [_ [_ [_ Epu]]]]] Ht [B1 [t [B2 B3]]]. split; [congruence|]. exists t. auto.
Qed.

Lemma P3_frame : forall w w' m u,
  same_obj w w' u ->
  (forall a, In a (c_queue (w_cl w (uo_owner (w_up w u)))) -> In a (c_queue (w_cl w' (uo_owner (w_up w u))))) ->
  P3 w m u -> P3 w' m u.
Proof.
  intros w w' m u [Eid [Eow [_ [Egr _]]]] Hq [id' [C1 C2]]. exists id'. rewrite Egr, Eow, Eid. auto.
Qed.

Lemma same_obj_evo : forall c w w' u, evo c None w w' -> u < w_nup w -> same_obj w w' u.
Proof.
  intros c w w' u [[_ H] _] Hu. destruct (H u Hu ltac:(discriminate)) as [A [B [C [D [_ [E [F _]]]]]]].
  repeat split; assumption.
Qed.

Lemma timers_evo : forall c w w', evo c None w w' -> forall t, In t (w_timers w) -> In t (w_timers w').
Proof.
  intros c w w' [_ [[l [Ht _]] _]] t Hin. rewrite Ht. apply in_app_iff. left. exact Hin.
Qed.

(* ---- the publisher serves a requestConns for m: the push of u is queued at m *)

Definition pushes (g id : nat) (l : list (nat * nat)) (w : world) : list action :=
  flat_map (fun idu =>
     if negb (Nat.eqb id 0) && negb (Nat.eqb id (fst idu)) then []
     else [APush g (fst idu) (Some (snd idu)) (uo_tracks (w_up w (snd idu))) (uo_replace (w_up w (snd idu)))]) l.

Lemma pushes_same_heap : forall g id l w1 w2, w_up w1 = w_up w2 -> pushes g id l w1 = pushes g id l w2.
Proof. intros g id l w1 w2 H. unfold pushes. rewrite H. reflexivity. Qed.

Lemma reqconns_fold_target : forall g t id l w,
  c_queue (w_cl (reqconns_fold g t id l w) t) = c_queue (w_cl w t) ++ pushes g id l w.
Proof.
  induction l as [|x r IH]; intros w; simpl; [rewrite app_nil_r; reflexivity|].
  destruct (negb (Nat.eqb id 0) && negb (Nat.eqb id (fst x))) eqn:E.
  - rewrite IH. reflexivity.
  - rewrite IH. autorewrite with sub. rewrite Nat.eqb_refl. rewrite <- app_assoc. simpl.
    rewrite (pushes_same_heap g id r (enq t (APush g (fst x) (Some (snd x)) (uo_tracks (w_up w (snd x))) (uo_replace (w_up w (snd x)))) w) w); reflexivity.
Qed.

Lemma in_pushes : forall g id l w i u,
  In (i, u) l -> (id = 0 \/ id = i) ->
  In (APush g i (Some u) (uo_tracks (w_up w u)) (uo_replace (w_up w u))) (pushes g id l w).
Proof.
  intros g id l w i u Hin Hid. unfold pushes. apply in_flat_map. exists (i, u). split; [exact Hin|].
  simpl. destruct Hid as [->| ->]; simpl.
  - left. reflexivity.
  - rewrite Nat.eqb_refl. rewrite andb_false_r. left. reflexivity.
Qed.

Lemma last_push_some_of_in : forall u q g id ts r, In (APush g id (Some u) ts r) q -> last_push u q <> None.
Proof.
  intros u q g id ts r Hin E. eapply last_push_none; eauto.
Qed.

Lemma pump_reqconns_queue : forall w p g m id' q,
  p < w_n w -> c_dead (w_cl w p) = false ->
  c_queue (w_cl w p) = AReqConns g m id' :: q -> c_group (w_cl w p) = Some g -> m <> p ->
  c_queue (w_cl (step w (OpPump p)) m) = c_queue (w_cl w m) ++ pushes g id' (c_up (w_cl w p)) w /\
  w_up (step w (OpPump p)) = w_up w /\ w_nup (step w (OpPump p)) = w_nup w.
Proof.
  intros w p g m id' q Hp Hd Eq Hg Hm. simpl.
  assert (E : Nat.ltb p (w_n w) && negb (c_dead (w_cl w p)) = true).
  { apply andb_true_intro. split; [apply Nat.ltb_lt; exact Hp|rewrite Hd; reflexivity]. }
  rewrite E, Eq. cbv beta iota zeta delta [handle_action].
  set (w0 := upd_cl p (set_queue q) w).
  assert (G0 : in_group g (w_cl w0 p) = true).
  { apply in_group_eq. unfold w0. rewrite upd_cl_same. exact Hg. }
  rewrite G0. unfold finish. cbn [fst snd].
  fold (reqconns_fold g m id' (c_up (w_cl w0 p)) w0).
  destruct (reqconns_fold_heap g m id' (c_up (w_cl w0 p)) w0) as [A [B _]].
  split; [|split; [rewrite B; reflexivity|rewrite A; reflexivity]].
  rewrite reqconns_fold_target.
  assert (Q0 : c_queue (w_cl w0 m) = c_queue (w_cl w m)).
  { unfold w0, upd_cl. simpl. destruct (Nat.eqb_spec m p); [contradiction|reflexivity]. }
  assert (U0 : c_up (w_cl w0 p) = c_up (w_cl w p)) by (unfold w0; rewrite upd_cl_same; reflexivity).
  rewrite Q0, U0. rewrite (pushes_same_heap g id' (c_up (w_cl w p)) w0 w); reflexivity.
Qed.

Lemma pushes_fresh : forall g id l w, Forall (fresh_action w) (pushes g id l w).
Proof.
  intros g id l w. unfold pushes. apply Forall_forall. intros a Ha.
  apply in_flat_map in Ha. destruct Ha as [[i u] [_ Ha]]. simpl in Ha.
  destruct (negb (Nat.eqb id 0) && negb (Nat.eqb id i)); [destruct Ha|].
  destruct Ha as [<-|[]]. simpl. reflexivity.
Qed.

Lemma pump_reqconns_P1 : forall w p g m id' q u,
  Inv w -> p < w_n w -> c_dead (w_cl w p) = false ->
  c_queue (w_cl w p) = AReqConns g m id' :: q -> m <> p ->
  u < w_nup w -> uo_closed (w_up w u) = false -> uo_owner (w_up w u) = p ->
  g = uo_group (w_up w u) -> (id' = 0 \/ id' = uo_id (w_up w u)) ->
  P1 (step w (OpPump p)) m u.
Proof.
  intros w p g m id' q u I Hp Hd Eq Hm Hu Hc Ho Hg Hid.
  destruct (inv_alive _ I u Hu Hc) as [Hl Hgp]. rewrite Ho in Hl, Hgp. rewrite <- Hg in Hgp.
  destruct (pump_reqconns_queue w p g m id' q Hp Hd Eq Hgp Hm) as [Q [U N]].
  unfold P1. rewrite Q, U, last_push_app.
  pose proof (in_pushes g id' (c_up (w_cl w p)) w _ u (lookup_in _ _ _ Hl) Hid) as Hin.
  destruct (last_push u (pushes g id' (c_up (w_cl w p)) w)) as [ts|] eqn:E.
  - rewrite (last_push_fresh w u _ ts (pushes_fresh _ _ _ _) E). reflexivity.
  - exfalso. eapply last_push_some_of_in; eauto.
Qed.

(* ---- another client acts *)

Lemma owner_live : forall w u, Inv w -> in_range w -> u < w_nup w -> uo_closed (w_up w u) = false ->
  uo_owner (w_up w u) < w_n w /\ c_dead (w_cl w (uo_owner (w_up w u))) = false /\
  c_group (w_cl w (uo_owner (w_up w u))) = Some (uo_group (w_up w u)).
Proof.
  intros w u I R Hu Hc. destruct (inv_alive _ I u Hu Hc) as [_ Hg].
  split; [eapply R; eauto|]. split; [|exact Hg].
  destruct (c_dead (w_cl w (uo_owner (w_up w u)))) eqn:E; [|reflexivity].
  apply (inv_dead _ I) in E. congruence.
Qed.

Lemma closed_back : forall c w w' u, evo c None w w' -> u < w_nup w ->
  uo_closed (w_up w' u) = false -> uo_closed (w_up w u) = false.
Proof.
  intros c w w' u [[_ H] _] Hu Hc.
  destruct (H u Hu ltac:(discriminate)) as [_ [_ [_ [_ [_ [_ [_ [X|[X [Y _]]]]]]]]]]; congruence.
Qed.

Lemma sync_other_actor : forall w o c m u,
  Inv w -> in_range w -> ok_op w o -> actor o = Some c -> c <> m ->
  SInv m w -> u < w_nup w -> relevant (step w o) m u -> settled (step w o) m u.
Proof.
  intros w o c m u I Hrange Hok Ha Hcm S Hu Hrel.
  pose proof (Inv_step w o I Hok) as I'. pose proof (in_range_step w o I Hok Hrange) as R'.
  assert (Ham : actor o <> Some m) by congruence.
  destruct (step_fresh w o m Ham) as [Hcore [l [Hq Hfresh]]].
  pose proof (step_evo w o c I Hok Ha) as HE.
  pose proof (same_obj_evo c w _ u HE Hu) as Hso.
  destruct Hrel as [Hu' [Hc' [Ho' [Hg' Hd']]]].
  destruct Hso as [Eid [Eow [Elab [Egr [Etr Epu]]]]].
  destruct (core_fields _ _ Hcore) as [G [_ [_ [_ [_ [_ [_ [_ Dd]]]]]]]].
  assert (Hc : uo_closed (w_up w u) = false) by (eapply closed_back; eauto).
  assert (Hrel : relevant w m u).
  { repeat split; auto; congruence. }
  destruct (core_fields _ _ Hcore) as [_ [_ [_ [_ [Rq [_ [Dn _]]]]]]].
  apply (settled_frame w (step w o) m u l); auto.
  - repeat split; assumption.
  - intro B. right. left. apply (P2_frame w (step w o) u); [repeat split; assumption|eapply timers_evo; eauto|exact B].
  - (* the requestConns in the publisher's queue *)
    intro C3. set (p := uo_owner (w_up w u)).
    destruct (owner_live w u I Hrange Hu Hc) as [Hp [Hdp Hgp]]. fold p in Hp, Hdp, Hgp.
    destruct (owner_live _ u I' R' Hu' Hc') as [Hp' [Hdp' Hgp']]. rewrite Eow in Hp', Hdp', Hgp'. fold p in Hp', Hdp', Hgp'.
    assert (Hsame : same_obj w (step w o) u) by (repeat split; assumption).
    destruct (Nat.eqb_spec p c) as [e|n].
    + (* the publisher itself acts *)
      subst c. destruct o as [c' msg|c'|c'|i|x k]; simpl in Ha; inversion Ha; subst c'.
      * destruct (msg_own w p msg I Hdp') as [[l' Hq'] _].
        right. right. left. eapply P3_frame; eauto. intros a Hin. fold p. rewrite Hq'. apply in_app_iff. left. exact Hin.
      * destruct (c_queue (w_cl w p)) as [|a q] eqn:Eq.
        { destruct C3 as [id' [Hin _]]. fold p in Hin. rewrite Eq in Hin. destruct Hin. }
        destruct (pump_own w p a q I Eq Hp Hdp Hdp') as [[l' Hq'] _].
        destruct C3 as [id' [Hin Hid]]. fold p in Hin. rewrite Eq in Hin. destruct Hin as [Hhead|Hin].
        -- left. subst a. apply (pump_reqconns_P1 w p (uo_group (w_up w u)) m id' q u); auto.
        -- right. right. left. exists id'. rewrite Egr, Eow, Eid. fold p. split; [|exact Hid].
           rewrite Hq'. apply in_app_iff. left. exact Hin.
      * exfalso. simpl in Hdp'.
        assert (X : Nat.ltb p (w_n w) && negb (c_dead (w_cl w p)) = true).
        { apply andb_true_intro. split; [apply Nat.ltb_lt; exact Hp|rewrite Hdp; reflexivity]. }
        rewrite X in Hdp'. rewrite error_close_dead in Hdp'. discriminate.
    + right. right. left. eapply P3_frame; eauto. intros a Hin. fold p.
      assert (P : passive p w (step w o)) by (apply step_passive; congruence).
      destruct P as [_ [l' Hq']]. rewrite Hq'. apply in_app_iff. left. exact Hin.
Qed.

(* ---- a stream created by this very step has its delayed push pending *)

Lemma nup_del_up_conn' : forall c id push w, w_nup (del_up_conn' c id push w) = w_nup w.
Proof.
  intros. unfold del_up_conn', del_up_conn. destruct (lookup id (c_up (w_cl w c))); [|reflexivity].
  destruct push; [destruct (c_group (w_cl w c))|]; autorewrite with sub; reflexivity.
Qed.

Lemma nup_leave_fold : forall c l w, w_nup (leave_fold c l w) = w_nup w.
Proof. induction l as [|x r IH]; intros w; [reflexivity|]. simpl. rewrite IH. apply nup_del_up_conn'. Qed.

Lemma nup_leave_group : forall c w, w_nup (leave_group c w) = w_nup w.
Proof.
  intros. unfold leave_group. destruct (c_group (w_cl w c)); [|reflexivity].
  change (w_nup (leave_fold c (c_up (w_cl w c)) w) = w_nup w). apply nup_leave_fold.
Qed.

Lemma nup_error_close : forall c w, w_nup (error_close c w) = w_nup w.
Proof. intros. unfold error_close. change (w_nup (leave_group c w) = w_nup w). apply nup_leave_group. Qed.

Lemma nup_finish : forall c r, w_nup (finish c r) = w_nup (fst r).
Proof. intros c [w e]. unfold finish. simpl. destruct e; [apply nup_error_close|reflexivity]. Qed.

Lemma nup_unpresent_fold : forall c l w, w_nup (unpresent_fold c l w) = w_nup w.
Proof.
  induction l as [|x r IH]; intros w; [reflexivity|]. simpl.
  pose proof (nup_del_up_conn' c (fst x) true w) as H. unfold del_up_conn' in H.
  destruct (del_up_conn c (fst x) true w); rewrite IH; [reflexivity|]. exact H.
Qed.

Lemma nup_handle_action : forall c a w, w_nup (fst (handle_action c a w)) = w_nup w.
Proof.
  intros c a w. destruct a as [g id up ts r|g t id|g give| |]; cbv beta iota zeta delta [handle_action].
  - destruct (in_group g (w_cl w c)); [|reflexivity]. destruct (push_down_conn_heap c id up ts r w) as [A _]. exact A.
  - destruct (in_group g (w_cl w c)); cbn [fst]; [|reflexivity].
    destruct (reqconns_fold_heap g t id (c_up (w_cl w c)) w) as [A _]. exact A.
  - destruct (in_group g (w_cl w c)); reflexivity.
  - destruct (c_group (w_cl w c)); cbn [fst]; [|reflexivity].
    destruct (c_present (w_cl w c)); cbn [fst]; [reflexivity|]. apply nup_unpresent_fold.
  - reflexivity.
Qed.

Lemma nup_offer_tail : forall c id replace u s w, w_nup (offer_tail c id replace u s w) = w_nup w.
Proof.
  intros. unfold offer_tail. set (w2 := if Nat.eqb replace 0 then w else _).
  assert (H : w_nup w2 = w_nup w).
  { unfold w2. destruct (Nat.eqb replace 0); [reflexivity|]. rewrite nup_del_up_conn'. reflexivity. }
  destruct s; [destruct (uo_closed (w_up w2 u))|..]; exact H.
Qed.

(* offer_tail does not touch the pushed flag nor the timers *)
Lemma offer_tail_pushed : forall c id replace u s w x,
  uo_pushed (w_up (offer_tail c id replace u s w) x) = uo_pushed (w_up w x) /\
  w_timers (offer_tail c id replace u s w) = w_timers w.
Proof.
  intros. unfold offer_tail. set (w2 := if Nat.eqb replace 0 then w else _).
  assert (H : uo_pushed (w_up w2 x) = uo_pushed (w_up w x) /\ w_timers w2 = w_timers w).
  { unfold w2. destruct (Nat.eqb replace 0); [auto|].
    unfold del_up_conn', del_up_conn. simpl.
    destruct (lookup replace (c_up (w_cl w c))); simpl.
    - destruct (Nat.eqb x n), (Nat.eqb x u); simpl; auto.
    - destruct (Nat.eqb x u); simpl; auto. }
  destruct s; [destruct (uo_closed (w_up w2 u))|..]; exact H.
Qed.

Definition newobj (w w' : world) : Prop :=
  forall u, w_nup w <= u -> u < w_nup w' ->
    uo_pushed (w_up w' u) = false /\ exists t, In t (w_timers w') /\ t_up t = u.

Lemma newobj_same : forall w w', w_nup w' = w_nup w -> newobj w w'.
Proof. intros w w' H u H1 H2. lia. Qed.

Lemma newobj_got_offer : forall c id label replace s w, newobj w (got_offer c id label replace s w).
Proof.
  intros. unfold got_offer.
  destruct (get_down id (c_down (w_cl w c))); [apply newobj_same; reflexivity|].
  destruct (lookup id (c_up (w_cl w c))); [apply newobj_same; apply nup_offer_tail|].
  assert (Hcase : forall g, newobj w (offer_tail c id replace (w_nup w) s (new_up_conn c id label g w))).
  { intros g u H1 H2. rewrite nup_offer_tail in H2. simpl in H2.
    assert (u = w_nup w) by lia. subst u.
    destruct (offer_tail_pushed c id replace (w_nup w) s (new_up_conn c id label g w) (w_nup w)) as [A B].
    rewrite A, B. unfold new_up_conn, new_timer. simpl. rewrite Nat.eqb_refl. simpl. split; [reflexivity|].
    exists (mkTimer (w_nup w) g). split; [apply in_app_iff; right; left; reflexivity|reflexivity]. }
  destruct s; destruct (c_group (w_cl w c)); try (apply newobj_same; reflexivity); apply Hcase.
Qed.

Lemma newobj_step : forall w o, Inv w -> ok_op w o -> newobj w (step w o).
Proof.
  intros w o I Hok.
  assert (Hfin : forall c r, newobj w (fst r) -> (forall x, uo_pushed (w_up (finish c r) x) = uo_pushed (w_up (fst r) x)) ->
                 w_timers (finish c r) = w_timers (fst r) -> newobj w (finish c r)).
  { intros c r H Hp Ht u H1 H2. rewrite nup_finish in H2. rewrite Hp, Ht. apply H; auto. }
  destruct o as [c msg|c|c|i|u k]; simpl.
  - destruct (Nat.ltb c (w_n w) && negb (c_dead (w_cl w c))); [|apply newobj_same; reflexivity].
    destruct msg as [g user pres op0|g|req|id req|id label replace s|id|id|id ok|dest|dest give];
      try solve [apply newobj_same; rewrite nup_finish; cbv beta iota zeta delta [handle_msg];
           repeat match goal with |- context [match ?x with _ => _ end] => destruct x end;
           cbn [fst]; autorewrite with sub; try reflexivity;
           try apply nup_leave_group; try apply nup_del_up_conn';
           try (unfold close_down_conn, negotiate; repeat match goal with |- context [if ?b then _ else _] => destruct b end; reflexivity)].
    (* the offer *)
    intros u H1 H2. rewrite nup_finish in H2.
    cbv beta iota zeta delta [handle_msg] in *.
    destruct (Nat.eqb id 0); cbn [fst] in *; [lia|].
    destruct (c_present (w_cl w c)); cbn [fst] in *.
    + unfold finish. cbn [fst snd]. apply newobj_got_offer; auto.
    + exfalso. revert H2. autorewrite with sub. destruct (Nat.eqb replace 0); [lia|rewrite nup_del_up_conn'; lia].
  - apply newobj_same.
    destruct (Nat.ltb c (w_n w) && negb (c_dead (w_cl w c))); [|reflexivity].
    destruct (c_queue (w_cl w c)); [reflexivity|]. rewrite nup_finish, nup_handle_action. reflexivity.
  - apply newobj_same. destruct (Nat.ltb c (w_n w) && negb (c_dead (w_cl w c))); [apply nup_error_close|reflexivity].
  - apply newobj_same. destruct (nth_error (w_timers w) i); [|reflexivity]. unfold fire_timer.
    destruct (uo_pushed _); [reflexivity|]. autorewrite with sub. reflexivity.
  - apply newobj_same. destruct (Nat.ltb u (w_nup w) && negb (uo_closed (w_up w u))); [|reflexivity].
    destruct (c_group (w_cl w (uo_owner (w_up w u)))); reflexivity.
Qed.

(* ---- a delayed push fires / OnTrack *)

Lemma relevant_passive_back : forall w w' m u,
  core (w_cl w' m) = core (w_cl w m) -> w_nup w' = w_nup w ->
  uo_closed (w_up w' u) = uo_closed (w_up w u) -> uo_owner (w_up w' u) = uo_owner (w_up w u) ->
  uo_group (w_up w' u) = uo_group (w_up w u) ->
  relevant w' m u -> relevant w m u.
Proof.
  intros w w' m u Hcore Hn Hc Ho Hg [A [B [C [D E]]]].
  destruct (core_fields _ _ Hcore) as [G [_ [_ [_ [_ [_ [_ [_ Dd]]]]]]]].
  repeat split; try congruence; lia.
Qed.

Lemma sync_timer : forall w i m u,
  Inv w -> in_range w -> SInv m w -> relevant (step w (OpTimer i)) m u -> settled (step w (OpTimer i)) m u.
Proof.
  intros w i m u I Hrange S Hrel.
  destruct (step_fresh w (OpTimer i) m ltac:(discriminate)) as [Hcore [l [Hq Hfresh]]].
  destruct (core_fields _ _ Hcore) as [G [_ [_ [_ [Rq [_ [Dn _]]]]]]].
  revert Hrel Hcore Hq G Rq Dn. simpl.
  destruct (nth_error (w_timers w) i) as [t|] eqn:Et; [|intros; apply S; assumption].
  assert (Hti : In t (w_timers w)) by (eapply nth_error_In; eauto).
  destruct (inv_timers _ I t Hti) as [Tlt Tg].
  set (w0 := set_timers (remove_nth i (w_timers w)) w).
  unfold fire_timer. change (w_up w0) with (w_up w).
  destruct (uo_pushed (w_up w (t_up t))) eqn:Ep.
  - (* somebody had pushed already: only the timer goes away *)
    intros Hrel Hcore Hq G Rq Dn.
    assert (Hrel0 : relevant w m u) by exact Hrel.
    apply (settled_frame w w0 m u l); auto.
    + repeat split.
    + intros [B1 [t' [B2 B3]]]. right. left. split; [exact B1|]. exists t'. split; [|exact B3].
      unfold w0. simpl. eapply in_remove_nth_other; eauto. intro X. subst t'. congruence.
    + intro C. right. right. left. exact C.
  - intros Hrel Hcore Hq G Rq Dn.
    set (w1 := upd_up (t_up t) (fun o => up_set_replace 0 (up_set_pushed true o)) w0) in *.
    set (a := APush (t_group t) (uo_id (w_up w (t_up t))) (Some (t_up t)) (uo_tracks (w_up w (t_up t)))
                    (uo_replace (w_up w (t_up t)))) in *.
    set (cs := others w0 (t_group t) (uo_owner (w_up w (t_up t)))) in *.
    assert (HU : forall x, w_up (enq_all cs a w1) x =
                 if Nat.eqb x (t_up t) then up_set_replace 0 (up_set_pushed true (w_up w x)) else w_up w x).
    { intro x. autorewrite with sub. reflexivity. }
    assert (Hso : forall x, x <> t_up t -> same_obj w (enq_all cs a w1) x).
    { intros x Hx. unfold same_obj. rewrite HU. destruct (Nat.eqb_spec x (t_up t)); [contradiction|]. repeat split. }
    assert (Hrel0 : relevant w m u).
    { destruct Hrel as [A [B [C [D E]]]]. rewrite HU in B, C, D. autorewrite with sub in A, D, E.
      destruct (Nat.eqb u (t_up t)); simpl in *; repeat split; auto. }
    destruct (Nat.eqb_spec u (t_up t)) as [e|ne].
    + (* the delayed push of u itself: the push is queued at m *)
      left. unfold P1. rewrite HU, <- e, Nat.eqb_refl. simpl.
      destruct Hrel0 as [Hu [Hc [Ho [Hg Hd]]]].
      assert (Hm : In m cs).
      { unfold cs. apply in_others. change (w_n w0) with (w_n w). change (w_cl w0) with (w_cl w).
        rewrite <- e. repeat split; auto; [eapply Hrange; eauto|]. rewrite Hg, Tg, e. reflexivity. }
      rewrite enq_all_c_queue, last_push_app.
      assert (Hin : In a (repeat a (count_in m cs))).
      { apply count_in_pos in Hm. destruct (count_in m cs); [congruence|left; reflexivity]. }
      destruct (last_push u (repeat a (count_in m cs))) as [ts|] eqn:E.
      * destruct (last_push_in _ _ _ E) as [g0 [id0 [r0 X]]]. apply repeat_spec in X.
        unfold a in X. injection X as E1 E2 E3 E4 E5. rewrite E4, e. reflexivity.
      * exfalso. unfold a in Hin, E. rewrite <- e in Hin, E. eapply last_push_some_of_in; [exact Hin|exact E].
    + apply (settled_frame w (enq_all cs a w1) m u l); auto.
      * intros [B1 [t' [B2 B3]]]. right. left. split; [rewrite HU; destruct (Nat.eqb_spec u (t_up t)); [contradiction|exact B1]|].
        exists t'. split; [|exact B3]. autorewrite with sub. unfold w0. simpl.
        eapply in_remove_nth_other; eauto. intro X. subst t'. congruence.
      * intro C. right. right. left. destruct (Hso u ne) as [Eid [Eow [_ [Egr _]]]].
        destruct C as [id' [C1 C2]]. exists id'. rewrite Egr, Eow, Eid. split; [|exact C2].
        apply in_enq_all_queue. left. exact C1.
Qed.

Lemma sync_track : forall w x k m u,
  Inv w -> in_range w -> SInv m w -> relevant (step w (OpTrack x k)) m u -> settled (step w (OpTrack x k)) m u.
Proof.
  intros w x k m u I Hrange S Hrel.
  destruct (step_fresh w (OpTrack x k) m ltac:(discriminate)) as [Hcore [l [Hq Hfresh]]].
  destruct (core_fields _ _ Hcore) as [G [_ [_ [_ [Rq [_ [Dn _]]]]]]].
  revert Hrel Hcore Hq G Rq Dn. simpl.
  destruct (Nat.ltb x (w_nup w) && negb (uo_closed (w_up w x))) eqn:Eg; [|intros; apply S; assumption].
  apply andb_prop in Eg. destruct Eg as [E1 E2]. apply Nat.ltb_lt in E1. apply negb_true_iff in E2.
  destruct (inv_alive _ I x E1 E2) as [_ Hgo]. rewrite Hgo.
  set (g := uo_group (w_up w x)).
  intros Hrel Hcore Hq G Rq Dn.
  set (w' := new_timer x g (upd_up x (up_add_track k) w)) in *.
  assert (HU : forall y, w_up w' y = if Nat.eqb y x then up_set_pushed false (up_add_track k (w_up w y)) else w_up w y).
  { intro y. unfold w', new_timer. simpl. destruct (Nat.eqb y x); reflexivity. }
  assert (HT : w_timers w' = w_timers w ++ [mkTimer x g]) by reflexivity.
  destruct (Nat.eqb_spec u x) as [e|ne].
  - (* a track of u arrives: its delayed push is pending *)
    right. left. split.
    + rewrite HU, e, Nat.eqb_refl. reflexivity.
    + exists (mkTimer x g). split; [rewrite HT; apply in_app_iff; right; left; reflexivity|simpl; auto].
  - assert (Hso : same_obj w w' u).
    { unfold same_obj. rewrite HU. destruct (Nat.eqb_spec u x); [contradiction|]. repeat split. }
    assert (Hrel0 : relevant w m u).
    { destruct Hrel as [A [B [C [D E]]]]. rewrite HU in B, C, D.
      destruct (Nat.eqb_spec u x); [contradiction|]. repeat split; auto. }
    apply (settled_frame w w' m u l); auto.
    + intro B. right. left. apply (P2_frame w w' u); auto. intros t Ht. rewrite HT. apply in_app_iff. left. exact Ht.
    + intro C. right. right. left. destruct Hso as [Eid [Eow [_ [Egr _]]]].
      destruct C as [id' [C1 C2]]. exists id'. rewrite Egr, Eow, Eid. split; [exact C1|exact C2].
Qed.

(* ---- the subscriber's own message *)

Definition plain_msg (msg : msg) : Prop :=
  match msg with
  | MOffer _ _ _ _ | MClose _ | MKick _ | MPerm _ _ => True
  | _ => False
  end.

Lemma own_plain_msg : forall w m msg,
  plain_msg msg -> snd (handle_msg m msg w) = false ->
  let w' := fst (handle_msg m msg w) in
  c_req (w_cl w' m) = c_req (w_cl w m) /\ c_down (w_cl w' m) = c_down (w_cl w m) /\
  c_group (w_cl w' m) = c_group (w_cl w m) /\
  exists l, c_queue (w_cl w' m) = c_queue (w_cl w m) ++ l /\ Forall (fresh_action w) l.
Proof.
  intros w m msg Hp He.
  assert (K : forall w1, keeps m w w1 ->
            c_req (w_cl w1 m) = c_req (w_cl w m) /\ c_down (w_cl w1 m) = c_down (w_cl w m) /\
            c_group (w_cl w1 m) = c_group (w_cl w m) /\
            exists l, c_queue (w_cl w1 m) = c_queue (w_cl w m) ++ l /\ Forall (fresh_action w) l).
  { intros w1 [A [B [C [D E]]]]. repeat split; auto. exists []. rewrite app_nil_r. split; [exact B|constructor]. }
  assert (Kenq : forall dest a, fresh_action w a ->
            c_req (w_cl (enq dest a w) m) = c_req (w_cl w m) /\ c_down (w_cl (enq dest a w) m) = c_down (w_cl w m) /\
            c_group (w_cl (enq dest a w) m) = c_group (w_cl w m) /\
            exists l, c_queue (w_cl (enq dest a w) m) = c_queue (w_cl w m) ++ l /\ Forall (fresh_action w) l).
  { intros dest a Ha. autorewrite with sub. repeat split. eexists. split; [reflexivity|].
    destruct (Nat.eqb m dest); [constructor; [exact Ha|constructor]|constructor]. }
  destruct msg as [g user pres op0|g|req|id req|id label replace s|id|id|id ok|dest|dest give];
    simpl in Hp; try contradiction; cbv beta iota zeta delta [handle_msg] in *.
  - destruct (Nat.eqb id 0); cbn [fst snd] in *; [discriminate|].
    destruct (c_present (w_cl w m)); cbn [fst snd] in *; [apply K; apply keeps_got_offer|].
    apply K. eapply keeps_trans; [|apply keeps_send]. eapply keeps_trans; [|apply keeps_send].
    destruct (Nat.eqb replace 0); [apply keeps_refl|apply keeps_del_up_conn'].
  - destruct (Nat.eqb id 0); cbn [fst snd] in *; [discriminate|]. apply K. apply keeps_del_up_conn'.
  - destruct (c_group (w_cl w m)); cbn [fst snd] in *; [|apply K; apply keeps_send].
    destruct (c_op (w_cl w m) && member_of w _ dest); cbn [fst snd] in *; [|apply K; apply keeps_send].
    apply Kenq. exact I.
  - destruct (c_group (w_cl w m)); cbn [fst snd] in *; [|apply K; apply keeps_send].
    destruct (c_op (w_cl w m) && member_of w _ dest); cbn [fst snd] in *; [|apply K; apply keeps_send].
    apply Kenq. exact I.
Qed.

Lemma step_own_msg_noerr : forall w m msg,
  c_dead (w_cl (step w (OpMsg m msg)) m) = false ->
  step w (OpMsg m msg) = w \/
  (m < w_n w /\ c_dead (w_cl w m) = false /\ snd (handle_msg m msg w) = false /\
   step w (OpMsg m msg) = fst (handle_msg m msg w)).
Proof.
  intros w m msg Hlive. simpl in *.
  destruct (Nat.ltb m (w_n w) && negb (c_dead (w_cl w m))) eqn:Eg; [|left; reflexivity].
  apply andb_prop in Eg. destruct Eg as [E1 E2]. apply Nat.ltb_lt in E1. apply negb_true_iff in E2.
  right. destruct (handle_msg m msg w) as [w' e]. unfold finish in *. simpl in *.
  destruct e; [rewrite error_close_dead in Hlive; discriminate|auto].
Qed.

Lemma base_req_nil : forall c l, c_req c = [] -> base_req c l = [].
Proof. intros c l H. unfold base_req. rewrite H. reflexivity. Qed.

Lemma sync_own_msg : forall w m msg u,
  Inv w -> in_range w -> ok_op w (OpMsg m msg) -> quiet_op m (OpMsg m msg) ->
  SInv m w -> u < w_nup w ->
  relevant (step w (OpMsg m msg)) m u -> settled (step w (OpMsg m msg)) m u.
Proof.
  intros w m msg u I Hrange Hok Hquiet S Hu Hrel.
  pose proof (Inv_step w _ I Hok) as I'. pose proof (in_range_step w _ I Hok Hrange) as R'.
  pose proof (step_evo w (OpMsg m msg) m I Hok eq_refl) as HE.
  pose proof (same_obj_evo m w _ u HE Hu) as Hso.
  destruct Hrel as [Hu' [Hc' [Ho' [Hg' Hd']]]].
  assert (Hc : uo_closed (w_up w u) = false) by (eapply closed_back; eauto).
  destruct (step_own_msg_noerr w m msg Hd') as [Esame|[Hm [Hd [Hne Estep]]]].
  { rewrite Esame in *. apply S. repeat split; auto. }
  destruct Hso as [Eid [Eow [Elab [Egr [Etr Epu]]]]].
  set (p := uo_owner (w_up w u)).
  assert (Hpm : p <> m) by (unfold p; congruence).
  assert (Pp : passive p w (step w (OpMsg m msg))) by (apply step_passive; simpl; congruence).
  destruct Pp as [Hcorep [lp Hqp]].
  assert (Hp3 : P3 w m u -> P3 (step w (OpMsg m msg)) m u).
  { apply P3_frame; [repeat split; assumption|]. intros a Hin. fold p. rewrite Hqp. apply in_app_iff. left. exact Hin. }
  assert (Hp2 : P2 w u -> P2 (step w (OpMsg m msg)) u).
  { apply P2_frame; [repeat split; assumption|]. eapply timers_evo; eauto. }
  destruct msg as [g user pres op0|g|req|id req|id label replace s|id|id|id ok|dest|dest give].
  - (* join: no request yet, nothing held *)
    rewrite Estep in *. cbv beta iota zeta delta [handle_msg] in *.
    destruct (c_group (w_cl w m)) eqn:Hg; cbn [fst snd] in *; [discriminate|].
    destruct (inv_nogroup _ I m Hg) as [_ [Dn [_ Rq]]].
    right. right. right.
    assert (R1 : c_req (w_cl (upd_cl m (set_joined g user pres op0) w) m) = []) by (rewrite upd_cl_same; exact Rq).
    assert (D1 : c_down (w_cl (upd_cl m (set_joined g user pres op0) w) m) = []) by (rewrite upd_cl_same; exact Dn).
    split.
    + unfold insync, sel. rewrite D1, (base_req_nil _ _ R1). reflexivity.
    + intros g0 id0 ts r0 _. unfold sel. rewrite (base_req_nil _ _ R1). reflexivity.
  - (* leave *)
    exfalso. rewrite Estep in Hg'. cbv beta iota zeta delta [handle_msg] in *.
    destruct (in_group g (w_cl w m)); cbn [fst snd] in *; [|discriminate].
    rewrite leave_group_group in Hg'. discriminate.
  - (* request: every publisher is asked to push again *)
    right. right. left. rewrite Estep in *. cbv beta iota zeta delta [handle_msg] in *.
    destruct (c_group (w_cl w m)) as [g|] eqn:Hg; cbn [fst snd] in *; [|discriminate].
    set (w1 := upd_cl m (set_req req) w) in *.
    assert (Gm : g = uo_group (w_up w u)).
    { revert Hg'. autorewrite with sub. unfold w1. rewrite upd_cl_same. simpl. rewrite Hg.
      change (w_up w1) with (w_up w). intro X. inversion X. reflexivity. }
    destruct (owner_live w u I Hrange Hu Hc) as [Hp [Hdp Hgp]]. fold p in Hp, Hdp, Hgp.
    exists 0. split; [|left; reflexivity].
    autorewrite with sub. change (w_up w1) with (w_up w). fold p.
    apply in_enq_all_queue. right. rewrite Gm. split; [reflexivity|].
    apply in_others. unfold w1. change (w_n (upd_cl m (set_req req) w)) with (w_n w).
    repeat split; auto. unfold upd_cl. simpl. destruct (Nat.eqb_spec p m); [contradiction|exact Hgp].
  - exfalso. simpl in Hquiet. congruence.
  - destruct (own_plain_msg w m (MOffer id label replace s) Logic.I Hne) as [Rq [Dn [Gq [l [Hq Hf]]]]].
    rewrite Estep in *. apply (settled_frame w _ m u l); auto; [repeat split; assumption| | |apply S; repeat split; auto; congruence];
      intro X; [right; left; apply Hp2; exact X|right; right; left; apply Hp3; exact X].
  - destruct (own_plain_msg w m (MClose id) Logic.I Hne) as [Rq [Dn [Gq [l [Hq Hf]]]]].
    rewrite Estep in *. apply (settled_frame w _ m u l); auto; [repeat split; assumption| | |apply S; repeat split; auto; congruence];
      intro X; [right; left; apply Hp2; exact X|right; right; left; apply Hp3; exact X].
  - exfalso. simpl in Hquiet. congruence.
  - exfalso. simpl in Hquiet. congruence.
  - destruct (own_plain_msg w m (MKick dest) Logic.I Hne) as [Rq [Dn [Gq [l [Hq Hf]]]]].
    rewrite Estep in *. apply (settled_frame w _ m u l); auto; [repeat split; assumption| | |apply S; repeat split; auto; congruence];
      intro X; [right; left; apply Hp2; exact X|right; right; left; apply Hp3; exact X].
  - destruct (own_plain_msg w m (MPerm dest give) Logic.I Hne) as [Rq [Dn [Gq [l [Hq Hf]]]]].
    rewrite Estep in *. apply (settled_frame w _ m u l); auto; [repeat split; assumption| | |apply S; repeat split; auto; congruence];
      intro X; [right; left; apply Hp2; exact X|right; right; left; apply Hp3; exact X].
Qed.

(* ---- the subscriber serves its own queue *)

(* pushDownConn leaves the other down streams and the request map alone *)
Lemma push_frame : forall m id up ts r w k,
  k <> id -> (r <> 0 -> k <> r) -> (forall u, up = Some u -> k <> uo_id (w_up w u)) ->
  let w' := fst (push_down_conn m id up ts r w) in
  get_down k (c_down (w_cl w' m)) = get_down k (c_down (w_cl w m)) /\
  c_req (w_cl w' m) = c_req (w_cl w m).
Proof.
  intros m id up ts r w k Hid Hr Hu. unfold push_down_conn.
  set (w1 := if Nat.eqb r 0 then w else del_down m r w).
  set (good := fun w' : world =>
        get_down k (c_down (w_cl w' m)) = get_down k (c_down (w_cl w m)) /\
        c_req (w_cl w' m) = c_req (w_cl w m)).
  assert (Good1 : good w1).
  { unfold good, w1. destruct (Nat.eqb_spec r 0); [auto|]. autorewrite with sub. rewrite Nat.eqb_refl.
    split; [|reflexivity]. apply get_down_remove_other. auto. }
  assert (Hclose : forall w' i, k <> i -> good w' -> good (close_down_conn m i false w')).
  { intros w' i Hi [A B]. unfold good, close_down_conn. autorewrite with sub. rewrite Nat.eqb_refl.
    split; [|exact B]. rewrite get_down_remove_other; auto. }
  assert (Hdef : forall w', good w' -> good (if Nat.eqb r 0 then w' else close_down_conn m r false w')).
  { intros w' G. destruct (Nat.eqb_spec r 0); [exact G|]. apply Hclose; auto. }
  assert (Hset : forall w' d, k <> d_id d -> good w' -> good (set_down_entry m d w')).
  { intros w' d Hd [A B]. unfold good. autorewrite with sub. rewrite Nat.eqb_refl.
    split; [|exact B]. rewrite get_down_replace_other; auto. }
  assert (Hneg : forall w' d r0, k <> d_id d -> good w' -> good (negotiate m d r0 w')).
  { intros w' d r0 Hd [A B]. unfold good.
    destruct (negotiate_own m d r0 w') as [_ [_ [_ [d2 [N1 [N2 N3]]]]]]. rewrite N3.
    split.
    - rewrite get_down_replace_other; [exact A|congruence].
    - unfold negotiate. destruct (d_havelocal d); autorewrite with sub; exact B. }
  match goal with |- context [match fst ?s with _ => _ end] => destruct (fst s) as [|i0 sel0] end.
  - cbn [fst]. apply Hdef. apply Hclose; auto.
  - destruct up as [u|]; [|cbn [fst]; apply Hdef; apply Hclose; auto].
    specialize (Hu u eq_refl).
    assert (U1 : w_up w1 = w_up w) by (unfold w1; destruct (Nat.eqb r 0); reflexivity).
    unfold add_down_conn. rewrite U1.
    destruct (lookup (uo_id (w_up w u)) (c_up (w_cl w1 m))); [cbn [fst]; apply Hdef; exact Good1|].
    destruct (get_down (uo_id (w_up w u)) (c_down (w_cl w1 m))) as [d0|] eqn:Eg.
    + rewrite Eg. destruct (replace_tracks d0 _ _) as [changed d'] eqn:Er.
      destruct (replace_tracks_same _ _ _ _ _ Er) as [R1 [R2 R3]].
      destruct (get_down_in _ _ _ Eg) as [_ Hid0].
      assert (Hk : k <> d_id d') by congruence.
      destruct changed; cbn [fst]; [apply Hneg; auto|apply Hdef; apply Hset; auto].
    + destruct (uo_closed (w_up w u)); [cbn [fst]; apply Hdef; exact Good1|].
      set (dn := mkDown (uo_id (w_up w u)) u None [] false false false).
      set (w2 := upd_cl m (fun c => set_down (c_down c ++ [dn]) c) w1).
      assert (Good2 : good w2).
      { destruct Good1 as [A B]. unfold good, w2. rewrite upd_cl_same. simpl. split; [|exact B].
        rewrite get_down_app, A. destruct (get_down k (c_down (w_cl w m))); [reflexivity|].
        simpl. destruct (Nat.eqb_spec (uo_id (w_up w u)) k); [congruence|reflexivity]. }
      assert (Eg2 : get_down (uo_id (w_up w u)) (c_down (w_cl w2 m)) = Some dn).
      { unfold w2. rewrite upd_cl_same. simpl. rewrite get_down_app, Eg. simpl. rewrite Nat.eqb_refl. reflexivity. }
      rewrite Eg2. destruct (replace_tracks dn _ _) as [changed d'] eqn:Er.
      destruct (replace_tracks_same _ _ _ _ _ Er) as [R1 [R2 R3]].
      assert (Hk : k <> d_id d') by (rewrite R2; simpl; auto).
      destruct changed; cbn [fst]; [apply Hneg; auto|apply Hdef; apply Hset; auto].
Qed.

(* dropping the head of the queue when it is not a push of u *)
Lemma settled_pop : forall w m u a q,
  c_queue (w_cl w m) = a :: q -> push_of u a = None -> uo_owner (w_up w u) <> m ->
  settled w m u -> settled (upd_cl m (set_queue q) w) m u.
Proof.
  intros w m u a q Eq Ha Hom S.
  set (w0 := upd_cl m (set_queue q) w).
  assert (F : c_req (w_cl w0 m) = c_req (w_cl w m) /\ c_down (w_cl w0 m) = c_down (w_cl w m) /\
              c_queue (w_cl w0 m) = q).
  { unfold w0. rewrite upd_cl_same. repeat split. }
  destruct F as [R [D Q]].
  assert (Hsel : sel w0 m u = sel w m u) by (unfold sel, base_req; rewrite R; reflexivity).
  destruct S as [A|[B|[C|[D1 D2]]]].
  - left. unfold P1 in *. rewrite Q. rewrite Eq in A. simpl in A. rewrite Ha in A.
    destruct (last_push u q); exact A.
  - right. left. exact B.
  - right. right. left. destruct C as [id' [C1 C2]]. exists id'. split; [|exact C2].
    change (w_up w0) with (w_up w). unfold w0, upd_cl. simpl.
    destruct (Nat.eqb_spec (uo_owner (w_up w u)) m); [contradiction|exact C1].
  - right. right. right. split.
    + unfold insync in *. rewrite Hsel, D. exact D1.
    + intros g id ts r Hin. rewrite Q in Hin. unfold base_req. rewrite R. fold (base_req (w_cl w m) (uo_label (w_up w u))).
      rewrite Hsel. apply (D2 g id ts r). rewrite Eq. right. exact Hin.
Qed.

Lemma step_own_pump_noerr : forall w m a q,
  c_queue (w_cl w m) = a :: q -> m < w_n w -> c_dead (w_cl w m) = false ->
  c_dead (w_cl (step w (OpPump m)) m) = false ->
  snd (handle_action m a (upd_cl m (set_queue q) w)) = false /\
  step w (OpPump m) = fst (handle_action m a (upd_cl m (set_queue q) w)).
Proof.
  intros w m a q Eq Hm Hd Hlive. simpl in *.
  assert (E : Nat.ltb m (w_n w) && negb (c_dead (w_cl w m)) = true).
  { apply andb_true_intro. split; [apply Nat.ltb_lt; exact Hm|rewrite Hd; reflexivity]. }
  rewrite E, Eq in *.
  destruct (handle_action m a (upd_cl m (set_queue q) w)) as [w' e]. unfold finish in *. cbn [fst snd] in *.
  destruct e; [rewrite error_close_dead in Hlive; discriminate|auto].
Qed.

(* actions other than a push: the actor's request and down streams stay *)
Lemma own_plain_action : forall w0 m a,
  (forall g id up ts r, a <> APush g id up ts r) ->
  let w' := fst (handle_action m a w0) in
  c_req (w_cl w' m) = c_req (w_cl w0 m) /\ c_down (w_cl w' m) = c_down (w_cl w0 m) /\
  exists l, c_queue (w_cl w' m) = c_queue (w_cl w0 m) ++ l /\ Forall (fresh_action w0) l.
Proof.
  intros w0 m a Hna.
  assert (K : forall w1, keeps m w0 w1 ->
            c_req (w_cl w1 m) = c_req (w_cl w0 m) /\ c_down (w_cl w1 m) = c_down (w_cl w0 m) /\
            exists l, c_queue (w_cl w1 m) = c_queue (w_cl w0 m) ++ l /\ Forall (fresh_action w0) l).
  { intros w1 [A [B [C [D E]]]]. repeat split; auto. exists []. rewrite app_nil_r. split; [exact B|constructor]. }
  destruct a as [g id up ts r|g t id|g give| |]; cbv beta iota zeta delta [handle_action].
  - exfalso. eapply Hna; reflexivity.
  - destruct (in_group g (w_cl w0 m)); cbn [fst]; [|apply K; apply keeps_refl].
    fold (reqconns_fold g t id (c_up (w_cl w0 m)) w0).
    assert (Pf : passiveP (fresh_action w0) m w0 (reqconns_fold g t id (c_up (w_cl w0 m)) w0)).
    { apply (passiveP_reqconns_fold (fresh_action w0) w0); [|reflexivity]. intros. simpl. reflexivity. }
    destruct Pf as [Hc [l [Hq Hf]]]. destruct (core_fields _ _ Hc) as [_ [_ [_ [_ [R [_ [D _]]]]]]].
    repeat split; auto. exists l. auto.
  - destruct (in_group g (w_cl w0 m)); cbn [fst]; [|apply K; apply keeps_refl].
    autorewrite with sub. rewrite Nat.eqb_refl, !upd_cl_same. cbn [c_req c_down c_queue set_present].
    repeat split. exists [APermsChanged]. split; [reflexivity|constructor; [exact I|constructor]].
  - destruct (c_group (w_cl w0 m)); cbn [fst]; [|apply K; apply keeps_refl].
    destruct (c_present (w_cl w0 m)); cbn [fst]; [apply K; apply keeps_refl|].
    apply K. apply keeps_unpresent_fold.
  - apply K. apply keeps_refl.
Qed.

Lemma push_req_base : forall w m u r, req_none m w ->
  push_req w m u r = base_req (w_cl w m) (uo_label (w_up w u)).
Proof.
  intros w m u r Hn. unfold push_req.
  destruct (get_down _ (c_down (w_cl w m))) as [d|] eqn:E; [|reflexivity].
  destruct (get_down_in _ _ _ E) as [Hin _]. rewrite (Hn d Hin). reflexivity.
Qed.

Lemma sync_own_pump : forall w m u,
  Inv w -> in_range w -> SInv m w -> req_none m w -> u < w_nup w ->
  relevant (step w (OpPump m)) m u -> settled (step w (OpPump m)) m u.
Proof.
  intros w m u I Hrange S Hrn Hu Hrel.
  assert (Hok : ok_op w (OpPump m)) by exact Logic.I.
  pose proof (Inv_step w _ I Hok) as I'.
  destruct Hrel as [Hu' [Hc' [Ho' [Hg' Hd']]]].
  destruct (Nat.ltb m (w_n w) && negb (c_dead (w_cl w m))) eqn:Eg.
  2:{ rewrite (step_noop w (OpPump m) m eq_refl Eg) in *. apply S. repeat split; auto. }
  apply andb_prop in Eg. destruct Eg as [E1 E2]. apply Nat.ltb_lt in E1. apply negb_true_iff in E2.
  destruct (c_queue (w_cl w m)) as [|a q] eqn:Eq.
  { assert (E : step w (OpPump m) = w).
    { simpl. rewrite Eq. destruct (Nat.ltb m (w_n w) && negb (c_dead (w_cl w m))); reflexivity. }
    rewrite E in *. apply S. repeat split; auto. }
  destruct (step_own_pump_noerr w m a q Eq E1 E2 Hd') as [Hne Estep].
  pose proof (step_evo w (OpPump m) m I Hok eq_refl) as HE.
  pose proof (same_obj_evo m w _ u HE Hu) as Hso.
  assert (Hc : uo_closed (w_up w u) = false) by (eapply closed_back; eauto).
  destruct (pump_own w m a q I Eq E1 E2 Hd') as [_ [Hgm _]].
  destruct Hso as [Eid [Eow [Elab [Egr [Etr Epu]]]]].
  assert (Hom : uo_owner (w_up w u) <> m) by congruence.
  assert (Hrel0 : relevant w m u) by (repeat split; auto; congruence).
  pose proof (S u Hrel0) as Sw.
  set (p := uo_owner (w_up w u)).
  assert (Pp : passive p w (step w (OpPump m))) by (apply step_passive; simpl; unfold p; congruence).
  destruct Pp as [_ [lp Hqp]].
  assert (Hsame : same_obj w (step w (OpPump m)) u) by (repeat split; assumption).
  assert (Hp3 : P3 w m u -> P3 (step w (OpPump m)) m u).
  { apply P3_frame; [exact Hsame|]. intros x Hin. fold p. rewrite Hqp. apply in_app_iff. left. exact Hin. }
  assert (Hp2 : P2 w u -> P2 (step w (OpPump m)) u).
  { apply P2_frame; [exact Hsame|]. eapply timers_evo; eauto. }
  set (w0 := upd_cl m (set_queue q) w) in *.
  assert (I0 : Inv w0).
  { apply Inv_pop; [exact I|]. intros x Hx. rewrite Eq. right. exact Hx. }
  assert (Ha0 : action_ok w0 m a).
  { eapply (action_ok_same_heap w); [reflexivity|reflexivity|].
    apply (inv_queue _ I). rewrite Eq. left. reflexivity. }
  assert (F0 : c_queue (w_cl w0 m) = q /\ c_group (w_cl w0 m) = c_group (w_cl w m) /\
               c_down (w_cl w0 m) = c_down (w_cl w m) /\ c_req (w_cl w0 m) = c_req (w_cl w m)).
  { unfold w0. rewrite upd_cl_same. repeat split. }
  destruct F0 as [Q0 [G0 [D0 R0]]].
  assert (Hgw : c_group (w_cl w m) = Some (uo_group (w_up w u))) by (destruct Hrel0 as [_ [_ [_ [X _]]]]; exact X).
  (* the head is not a push of u: drop it, then nothing relevant changes *)
  assert (Plain : forall l,
            push_of u a = None ->
            c_req (w_cl (step w (OpPump m)) m) = c_req (w_cl w0 m) ->
            get_down (uo_id (w_up w u)) (c_down (w_cl (step w (OpPump m)) m)) =
              get_down (uo_id (w_up w u)) (c_down (w_cl w0 m)) ->
            c_queue (w_cl (step w (OpPump m)) m) = c_queue (w_cl w0 m) ++ l -> Forall (fresh_action w0) l ->
            settled (step w (OpPump m)) m u).
  { intros l Hpa R D Hq Hf.
    pose proof (settled_pop w m u a q Eq Hpa Hom Sw) as S0. fold w0 in S0.
    apply (settled_frame_gen w0 _ m u l); auto.
    - intro B. right. left. apply Hp2. exact B.
    - intro C. right. right. left. apply Hp3. destruct C as [id' [C1 C2]]. exists id'. split; [|exact C2].
      revert C1. change (w_up w0) with (w_up w). unfold w0, upd_cl. simpl.
      destruct (Nat.eqb_spec (uo_owner (w_up w u)) m); [contradiction|auto]. }
  destruct a as [g id up ts r|g t id|g give| |].
  - (* a push *)
    rewrite Estep in *. cbv beta iota zeta delta [handle_action] in *.
    destruct (in_group g (w_cl w0 m)) eqn:Hig; cbn [fst snd] in *.
    2:{ (* wrong group: dropped *)
        apply (Plain []); auto; [|rewrite app_nil_r; reflexivity].
        destruct up as [v|]; [|reflexivity]. simpl. destruct (Nat.eqb_spec v u); [|reflexivity].
        exfalso. subst v. simpl in Ha0. destruct Ha0 as [_ [_ [A3 _]]]. change (w_up w0) with (w_up w) in A3.
        assert (X : in_group g (w_cl w0 m) = true) by (apply in_group_eq; rewrite G0, Hgw, A3; reflexivity).
        congruence. }
    apply in_group_eq in Hig.
    destruct (push_own m id up ts r w0 g I0 Ha0 Hig) as [Qp [Gp [Dp _]]].
    destruct (push_down_conn_heap m id up ts r w0) as [Np [Up [Tp _]]].
    destruct (Nat.eq_dec (match up with Some v => v | None => w_nup w end) u) as [e|ne].
    + (* the push of u itself *)
      destruct up as [v|]; [|lia]. subst v.
      simpl in Ha0. destruct Ha0 as [A1 [A2 [A3 [A4 [A5 A6]]]]]. change (w_up w0) with (w_up w) in *.
      assert (Hrn0 : req_none m w0) by (intros d Hd; apply Hrn; rewrite <- D0; exact Hd).
      destruct (push_exact m id u ts r w0 g I0 (conj A1 (conj A2 (conj A3 (conj A4 (conj A5 A6))))) Hig) as [_ Hex].
      rewrite (push_req_base w0 m u r Hrn0) in Hex. change (w_up w0) with (w_up w) in Hex.
      set (w' := fst (push_down_conn m id (Some u) ts r w0)) in *.
      assert (Rq' : c_req (w_cl w' m) = c_req (w_cl w m)).
      { destruct (push_frame m id (Some u) ts r w0 (1 + (id + r + uo_id (w_up w u)))) as [_ X];
          [lia|intros; lia|intros v Ev; inversion Ev; change (w_up w0) with (w_up w); lia|].
        fold w' in X. rewrite X. exact R0. }
      assert (Hbase : base_req (w_cl w' m) (uo_label (w_up w' u)) = base_req (w_cl w m) (uo_label (w_up w u))).
      { unfold base_req. rewrite Rq', Up. reflexivity. }
      assert (Hb0 : base_req (w_cl w0 m) (uo_label (w_up w u)) = base_req (w_cl w m) (uo_label (w_up w u))).
      { unfold base_req. rewrite R0. reflexivity. }
      assert (Htr : uo_tracks (w_up w' u) = uo_tracks (w_up w u)) by (rewrite Up; reflexivity).
      assert (Hselw : sel w' m u = sel w m u) by (unfold sel; rewrite Hbase, Htr; reflexivity).
      (* if ts is as good as the current tracks, the result is in sync *)
      assert (Hsync : requested_tracks (base_req (w_cl w m) (uo_label (w_up w u))) ts = sel w m u ->
                      insync w' m u).
      { intro Hts. unfold insync. rewrite Hselw, Up. change (w_up w0) with (w_up w).
        rewrite Hb0, Hts in Hex.
        destruct (get_down (uo_id (w_up w u)) (c_down (w_cl w' m))) as [d|].
        - exact Hex.
        - destruct Hex as [X|X]; [exact X|congruence]. }
      destruct Sw as [A|[B|[C|[D1 D2]]]].
      * unfold P1 in A. rewrite Eq in A. simpl in A. rewrite Nat.eqb_refl in A.
        destruct (last_push u q) as [ts'|] eqn:El.
        -- left. unfold P1. rewrite Qp, Q0, El, Htr. exact A.
        -- inversion A. subst ts. right. right. right. split.
           ++ apply Hsync. reflexivity.
           ++ intros g0 id0 ts0 r0 Hin. rewrite Qp, Q0 in Hin. exfalso. eapply last_push_none; eauto.
      * right. left. apply Hp2. exact B.
      * right. right. left. apply Hp3. exact C.
      * right. right. right. split.
        -- apply Hsync. apply (D2 g id ts r). rewrite Eq. left. reflexivity.
        -- intros g0 id0 ts0 r0 Hin. rewrite Qp, Q0 in Hin. rewrite Hbase, Hselw.
           apply (D2 g0 id0 ts0 r0). rewrite Eq. right. exact Hin.
    + (* a push of another stream, or a nil push *)
      assert (Hpa : push_of u (APush g id up ts r) = None).
      { destruct up as [v|]; [|reflexivity]. simpl. destruct (Nat.eqb_spec v u); [congruence|reflexivity]. }
      assert (Hk : uo_id (w_up w u) <> id /\ (r <> 0 -> uo_id (w_up w u) <> r) /\
                   (forall v, up = Some v -> uo_id (w_up w u) <> uo_id (w_up w0 v))).
      { change (w_up w0) with (w_up w). simpl in Ha0. destruct up as [v|].
        - destruct Ha0 as [A1 [A2 [A3 [A4 [A5 A6]]]]]. change (w_up w0) with (w_up w) in *.
          assert (Hvu : uo_id (w_up w u) <> uo_id (w_up w v)).
          { intro X. apply ne. symmetry. apply (inv_ids _ I); auto. }
          split; [congruence|]. split.
          + intros Hr X. destruct (A6 Hr) as [x [Hx [Hxid Hxc]]]. change (w_up w0) with (w_up w) in *.
            change (w_nup w0) with (w_nup w) in Hx.
            assert (x = u) by (apply (inv_ids _ I); auto; congruence). subst x. congruence.
          + intros v0 Ev. inversion Ev. subst v0. exact Hvu.
        - destruct Ha0 as [A1 A2]. split; [|split].
          + intro X. destruct A1 as [x [Hx [Hxid Hxc]]]. change (w_up w0) with (w_up w) in *.
            change (w_nup w0) with (w_nup w) in Hx.
            assert (x = u) by (apply (inv_ids _ I); auto; congruence). subst x. congruence.
          + intros Hr X. destruct (A2 Hr) as [x [Hx [Hxid Hxc]]]. change (w_up w0) with (w_up w) in *.
            change (w_nup w0) with (w_nup w) in Hx.
            assert (x = u) by (apply (inv_ids _ I); auto; congruence). subst x. congruence.
          + intros v0 Ev. discriminate. }
      destruct Hk as [K1 [K2 K3]].
      destruct (push_frame m id up ts r w0 (uo_id (w_up w u)) K1 K2 K3) as [Fd Fr].
      apply (Plain []); auto; [rewrite app_nil_r; exact Qp].
  - (* requestConns: m serves another client's request *)
    rewrite Estep in *.
    destruct (own_plain_action w0 m (AReqConns g t id) ltac:(discriminate)) as [R [D [l [Hq Hf]]]].
    apply (Plain l); auto. rewrite D. reflexivity.
  - rewrite Estep in *.
    destruct (own_plain_action w0 m (AChangePerm g give) ltac:(discriminate)) as [R [D [l [Hq Hf]]]].
    apply (Plain l); auto. rewrite D. reflexivity.
  - rewrite Estep in *.
    destruct (own_plain_action w0 m APermsChanged ltac:(discriminate)) as [R [D [l [Hq Hf]]]].
    apply (Plain l); auto. rewrite D. reflexivity.
  - simpl in Hne. discriminate.
Qed.

(* ---- the per-stream request stays nil for a subscriber that sends no requestStream *)

Lemma negotiate_downs_req : forall m d r w x,
  In x (c_down (w_cl (negotiate m d r w) m)) -> In x (c_down (w_cl w m)) \/ d_req x = d_req d.
Proof.
  intros m d r w x. unfold negotiate. destruct (d_havelocal d); autorewrite with sub; rewrite Nat.eqb_refl; intro H;
    apply in_replace_down in H; destruct H as [->|[[H _]|[H _]]]; auto.
Qed.

Lemma push_req_none : forall m id up ts r w,
  req_none m w -> req_none m (fst (push_down_conn m id up ts r w)).
Proof.
  intros m id up ts r w Hn. unfold push_down_conn.
  set (w1 := if Nat.eqb r 0 then w else del_down m r w).
  assert (N1 : req_none m w1).
  { unfold w1. destruct (Nat.eqb r 0); [exact Hn|]. intros d Hd. autorewrite with sub in Hd.
    rewrite Nat.eqb_refl in Hd. apply in_remove_down in Hd. apply Hn. tauto. }
  assert (Hclose : forall w' i, req_none m w' -> req_none m (close_down_conn m i false w')).
  { intros w' i H d Hd. unfold close_down_conn in Hd. autorewrite with sub in Hd. rewrite Nat.eqb_refl in Hd.
    apply in_remove_down in Hd. apply H. tauto. }
  assert (Hdef : forall w', req_none m w' -> req_none m (if Nat.eqb r 0 then w' else close_down_conn m r false w')).
  { intros w' H. destruct (Nat.eqb r 0); [exact H|apply Hclose; exact H]. }
  assert (Hset : forall w' d, d_req d = None -> req_none m w' -> req_none m (set_down_entry m d w')).
  { intros w' d Hd H x Hx. autorewrite with sub in Hx. rewrite Nat.eqb_refl in Hx.
    apply in_replace_down in Hx. destruct Hx as [->|[[Hx _]|[Hx _]]]; auto. }
  assert (Hneg : forall w' d r0, d_req d = None -> req_none m w' -> req_none m (negotiate m d r0 w')).
  { intros w' d r0 Hd H x Hx. destruct (negotiate_downs_req _ _ _ _ _ Hx) as [X|X]; [auto|congruence]. }
  match goal with |- context [match fst ?s with _ => _ end] => destruct (fst s) as [|i0 sel0] end.
  - cbn [fst]. apply Hdef. apply Hclose. exact N1.
  - destruct up as [u|]; [|cbn [fst]; apply Hdef; apply Hclose; exact N1].
    unfold add_down_conn.
    destruct (lookup _ (c_up (w_cl w1 m))); [cbn [fst]; apply Hdef; exact N1|].
    destruct (get_down (uo_id (w_up w1 u)) (c_down (w_cl w1 m))) as [d0|] eqn:Eg.
    + destruct (get_down (uo_id (w_up w u)) (c_down (w_cl w1 m))) as [d1|] eqn:Eg1; [|cbn [fst]; apply Hdef; exact N1].
      destruct (replace_tracks d1 _ _) as [changed d'] eqn:Er.
      destruct (replace_tracks_same _ _ _ _ _ Er) as [R1 [R2 R3]].
      destruct (get_down_in _ _ _ Eg1) as [Hin1 _].
      assert (Hd' : d_req d' = None) by (rewrite R3; apply N1; exact Hin1).
      destruct changed; cbn [fst]; [apply Hneg; auto|apply Hdef; apply Hset; auto].
    + destruct (uo_closed (w_up w1 u)); [cbn [fst]; apply Hdef; exact N1|].
      set (dn := mkDown (uo_id (w_up w1 u)) u None [] false false false).
      set (w2 := upd_cl m (fun c => set_down (c_down c ++ [dn]) c) w1).
      assert (N2 : req_none m w2).
      { intros d Hd. unfold w2 in Hd. rewrite upd_cl_same in Hd. simpl in Hd. apply in_app_iff in Hd.
        destruct Hd as [Hd|[<-|[]]]; [apply N1; exact Hd|reflexivity]. }
      destruct (get_down (uo_id (w_up w u)) (c_down (w_cl w2 m))) as [d1|] eqn:Eg1; [|cbn [fst]; apply Hdef; exact N2].
      destruct (replace_tracks d1 _ _) as [changed d'] eqn:Er.
      destruct (replace_tracks_same _ _ _ _ _ Er) as [R1 [R2 R3]].
      destruct (get_down_in _ _ _ Eg1) as [Hin1 _].
      assert (Hd' : d_req d' = None) by (rewrite R3; apply N2; exact Hin1).
      destruct changed; cbn [fst]; [apply Hneg; auto|apply Hdef; apply Hset; auto].
Qed.

Lemma req_none_step : forall w o m,
  Inv w -> ok_op w o -> quiet_op m o -> req_none m w -> req_none m (step w o).
Proof.
  intros w o m I Hok Hquiet Hn.
  pose proof (Inv_step w o I Hok) as I'.
  destruct (c_dead (w_cl (step w o) m)) eqn:Hdead.
  { (* the connection ended: nothing is held *)
    intros d Hd. apply (inv_dead _ I') in Hdead. destruct (inv_nogroup _ I' m Hdead) as [_ [X _]].
    rewrite X in Hd. destruct Hd. }
  destruct (actor o) as [c|] eqn:Ha.
  - destruct (Nat.eqb_spec c m) as [e|ne].
    + subst c. destruct o as [c' msg|c'|c'|i|x k]; simpl in Ha; inversion Ha; subst c'.
      * destruct (step_own_msg_noerr w m msg Hdead) as [Es|[Hm [Hd [Hne Es]]]]; [rewrite Es; exact Hn|].
        rewrite Es.
        destruct msg as [g user pres op0|g|req|id req|id label replace s|id|id|id ok|dest|dest give];
          try (simpl in Hquiet; congruence).
        -- cbv beta iota zeta delta [handle_msg] in *. destruct (c_group (w_cl w m)); cbn [fst snd] in *; [exact Hn|].
           intros d Hd0. rewrite upd_cl_same in Hd0. apply Hn. exact Hd0.
        -- cbv beta iota zeta delta [handle_msg] in *. destruct (in_group g (w_cl w m)); cbn [fst snd] in *; [|exact Hn].
           intros d Hd0. destruct (leave_group_own m w) as [X|X]; [rewrite X in Hd0; destruct Hd0|rewrite X in Hd0; auto].
        -- cbv beta iota zeta delta [handle_msg] in *. destruct (c_group (w_cl w m)); cbn [fst snd] in *; [|exact Hn].
           intros d Hd0. autorewrite with sub in Hd0. rewrite upd_cl_same in Hd0. apply Hn. exact Hd0.
        -- destruct (own_plain_msg w m (MOffer id label replace s) Logic.I Hne) as [_ [D _]].
           intros d Hd0. rewrite D in Hd0. auto.
        -- destruct (own_plain_msg w m (MClose id) Logic.I Hne) as [_ [D _]].
           intros d Hd0. rewrite D in Hd0. auto.
        -- destruct (own_plain_msg w m (MKick dest) Logic.I Hne) as [_ [D _]].
           intros d Hd0. rewrite D in Hd0. auto.
        -- destruct (own_plain_msg w m (MPerm dest give) Logic.I Hne) as [_ [D _]].
           intros d Hd0. rewrite D in Hd0. auto.
      * destruct (Nat.ltb m (w_n w) && negb (c_dead (w_cl w m))) eqn:Eg.
        2:{ rewrite (step_noop w (OpPump m) m eq_refl Eg). exact Hn. }
        apply andb_prop in Eg. destruct Eg as [E1 E2]. apply Nat.ltb_lt in E1. apply negb_true_iff in E2.
        destruct (c_queue (w_cl w m)) as [|a q] eqn:Eq.
        { assert (E : step w (OpPump m) = w).
          { simpl. rewrite Eq. destruct (Nat.ltb m (w_n w) && negb (c_dead (w_cl w m))); reflexivity. }
          rewrite E. exact Hn. }
        destruct (step_own_pump_noerr w m a q Eq E1 E2 Hdead) as [Hne Es]. rewrite Es.
        set (w0 := upd_cl m (set_queue q) w).
        assert (N0 : req_none m w0) by (intros d Hd0; unfold w0 in Hd0; rewrite upd_cl_same in Hd0; apply Hn; exact Hd0).
        destruct a as [g id up ts r|g t id|g give| |].
        -- cbv beta iota zeta delta [handle_action]. destruct (in_group g (w_cl w0 m)); [|exact N0].
           apply push_req_none. exact N0.
        -- destruct (own_plain_action w0 m (AReqConns g t id) ltac:(discriminate)) as [_ [D _]].
           intros d Hd0. rewrite D in Hd0. auto.
        -- destruct (own_plain_action w0 m (AChangePerm g give) ltac:(discriminate)) as [_ [D _]].
           intros d Hd0. rewrite D in Hd0. auto.
        -- destruct (own_plain_action w0 m APermsChanged ltac:(discriminate)) as [_ [D _]].
           intros d Hd0. rewrite D in Hd0. auto.
        -- destruct (own_plain_action w0 m AKick ltac:(discriminate)) as [_ [D _]].
           intros d Hd0. rewrite D in Hd0. auto.
      * destruct (Nat.ltb m (w_n w) && negb (c_dead (w_cl w m))) eqn:Eg.
        -- exfalso. simpl in Hdead. rewrite Eg in Hdead. rewrite error_close_dead in Hdead. discriminate.
        -- rewrite (step_noop w (OpDisconnect m) m eq_refl Eg). exact Hn.
    + assert (P : passive m w (step w o)) by (apply step_passive; congruence).
      destruct P as [Hc _]. destruct (core_fields _ _ Hc) as [_ [_ [_ [_ [_ [_ [D _]]]]]]].
      intros d Hd0. rewrite D in Hd0. auto.
  - assert (P : passive m w (step w o)) by (apply step_passive; congruence).
    destruct P as [Hc _]. destruct (core_fields _ _ Hc) as [_ [_ [_ [_ [_ [_ [D _]]]]]]].
    intros d Hd0. rewrite D in Hd0. auto.
Qed.

(* ---- SInv is an invariant *)

Theorem SInv_step : forall w o m,
  Inv w -> in_range w -> ok_op w o -> quiet_op m o -> req_none m w -> SInv m w -> SInv m (step w o).
Proof.
  intros w o m I Hrange Hok Hquiet Hrn S u Hrel.
  destruct (Nat.lt_ge_cases u (w_nup w)) as [Hu|Hu].
  - destruct (actor o) as [c|] eqn:Ha.
    + destruct (Nat.eqb_spec c m) as [e|ne].
      * subst c. destruct o as [c' msg|c'|c'|i|x k]; simpl in Ha; inversion Ha; subst c'.
        -- apply sync_own_msg; auto.
        -- apply sync_own_pump; auto.
        -- (* the connection ends: m is dead or nothing happened *)
           destruct (Nat.ltb m (w_n w) && negb (c_dead (w_cl w m))) eqn:Eg.
           ++ exfalso. destruct Hrel as [_ [_ [_ [_ Hd]]]]. simpl in Hd. rewrite Eg in Hd.
              rewrite error_close_dead in Hd. discriminate.
           ++ rewrite (step_noop w (OpDisconnect m) m eq_refl Eg) in *. apply S. exact Hrel.
      * eapply sync_other_actor; eauto.
    + destruct o as [c' msg|c'|c'|i|x k]; simpl in Ha; try discriminate.
      * apply sync_timer; auto.
      * apply sync_track; auto.
  - (* a stream created by this step: its delayed push is pending *)
    right. left. destruct Hrel as [Hu' _]. apply (newobj_step w o I Hok u Hu Hu').
Qed.

Lemma SInv_init : forall n m, SInv m (init n).
Proof. intros n m u [Hu _]. simpl in Hu. lia. Qed.

Lemma req_none_init : forall n m, req_none m (init n).
Proof. intros n m d Hd. simpl in Hd. destruct Hd. Qed.

Lemma sync_run : forall ops w m,
  Inv w -> in_range w -> req_none m w -> SInv m w ->
  ok_run w ops -> Forall (quiet_op m) ops ->
  Inv (run w ops) /\ in_range (run w ops) /\ SInv m (run w ops).
Proof.
  induction ops as [|o r IH]; intros w m I R N S Hok Hq; [auto|].
  simpl in *. destruct Hok as [H1 H2]. inversion Hq. subst.
  apply IH; auto.
  - apply Inv_step; auto.
  - apply in_range_step; auto.
  - apply req_none_step; auto.
  - apply SInv_step; auto.
Qed.

(* offered iff requested, at quiescence *)
Theorem offered_iff_requested : forall n ops m u,
  ok_run (init n) ops -> Forall (quiet_op m) ops ->
  let w := run (init n) ops in
  quiescentb w = true ->
  c_dead (w_cl w m) = false ->
  u < w_nup w -> uo_closed (w_up w u) = false -> uo_owner (w_up w u) <> m ->
  c_group (w_cl w m) = Some (uo_group (w_up w u)) ->
  insync w m u.
Proof.
  intros n ops m u Hok Hq w Hqu Hd Hu Hc Ho Hg.
  destruct (sync_run ops (init n) m (Inv_init n) (in_range_init n) (req_none_init n m) (SInv_init n m) Hok Hq)
    as [I [R S]].
  apply (sync_quiescent w m u I R S Hqu). repeat split; auto.
Qed.

(* C06, part 5: a packet that goes missing from a steadily arriving stream is
   requested.  Steady state of the loss window: valid, bits = 1, first = the
   last number received (what every in-order arrival leaves behind).  The
   number h is skipped, h+1, h+2, ... arrive in order through readLoop steps
   at a fixed rate: the first packets = clamp(rate/50, 2, 24) arrivals send
   nothing, arrival packets+1 sends the NACK (h, 0), which denotes exactly h. *)
From Coq Require Import ZArith List Bool Lia.
From Coq Require Import ZifyBool.
From Galene Require Import Lib.Word Model.Cache Model.Loss Proofs.LossBits Proofs.LossTrack.
Import ListNotations.
Open Scope Z_scope.
Ltac Zify.zify_post_hook ::= Z.div_mod_to_equations.

(* the bitmap part of a readLoop step that is allowed to send NACKs *)
Definition rl_bitmap (b : bitmap) (s rate : Z) : option (Z * Z) * bitmap :=
  let b1 := bm_set b s in
  let packets := rl_packets rate in
  let unnacked := rl_unnacked packets in
  if packets <? rl_delta s (bm_first b1) then
    let '((found, f, m), b2) := bm_get b1 (w16 (s - unnacked)) in
    ((if found then Some (f, m) else None), b2)
  else (None, b1).

Lemma lstep_read_bitmap c s kf rate :
  c_bitmap (fst (lstep c (LRead s kf rate true))) = snd (rl_bitmap (c_bitmap c) s rate) /\
  snd (lstep c (LRead s kf rate true)) = LONack (fst (rl_bitmap (c_bitmap c) s rate)).
Proof.
  cbn [lstep]. unfold read_loop_step, rl_bitmap.
  pose proof (store_bitmap c s 0 kf false payload) as [Hb Hf].
  destruct (store c s 0 kf false payload) as [[first i] c1]. cbn [fst snd] in *.
  rewrite Hf, <- Hb. destruct (_ <? _); [|split; reflexivity].
  pose proof (bitmap_get_bitmap c1 (w16 (s - rl_unnacked (rl_packets rate)))) as [Hr Hb2].
  destruct (bitmap_get c1 _) as [[[fd f] m] c2]. cbn [fst snd] in *.
  destruct (bm_get (c_bitmap c1) _) as [[[fd' f'] m'] b2]. cbn [fst snd] in *.
  inversion Hr; subst. destruct fd'; cbn [andb fst snd]; rewrite ?expect_bitmap; split; auto.
Qed.

Fixpoint louts (c : cache) (ops : list lop) : list lout :=
  match ops with
  | [] => []
  | o :: r => snd (lstep c o) :: louts (fst (lstep c o)) r
  end.
Lemma louts_app c h1 h2 : louts c (h1 ++ h2) = louts c h1 ++ louts (lrun c h1) h2.
Proof.
  revert c. induction h1 as [|o h1 IH]; intros c; [reflexivity|].
  cbn [app louts]. rewrite IH. reflexivity.
Qed.

(* ---------- bitmap.set on a number a little ahead ---------- *)
Lemma seqno_invalid_ahead s first : is16 s -> is16 first -> w16 (s - first) < 32768 ->
  seqno_invalid s first = false.
Proof.
  unfold seqno_invalid, cmp16, is16, w16. intros Hs Hf Hd.
  destruct (first =? s) eqn:E.
  - assert (first = s) by lia. subst. rewrite Z.sub_diag. reflexivity.
  - destruct (32768 <=? (s - first) mod 65536) eqn:E2; [lia|reflexivity].
Qed.

Lemma bm_set_ahead first bits s : is16 s -> is16 first -> w16 (s - first) < 32 ->
  bm_set (mkBitmap true first bits) s =
  let '(first2, bits2) :=
    if Z.odd bits
    then (w16 (first + trailing_ones 32 bits), shr32 bits (trailing_ones 32 bits))
    else (first, bits) in
  mkBitmap true first2 (Z.lor bits2 (shl32 1 (w16 (s - first2)))).
Proof.
  intros Hs Hf Hd. unfold bm_set. cbn [bm_valid bm_first bm_bits negb orb].
  rewrite seqno_invalid_ahead by (assumption || lia).
  rewrite cmp16_pos_iff by assumption.
  destruct (32768 <=? w16 (s - first)) eqn:E1; [lia|].
  destruct (32 <=? w16 (s - first)) eqn:E2; [lia|]. reflexivity.
Qed.

Definition steady (h : Z) : bitmap := mkBitmap true (w16 (h - 1)) 1.
Definition post_hole (h j : Z) : bitmap := mkBitmap true (w16 h) (2 ^ (j + 1) - 2).

Lemma pow2_ge2 k : 1 <= k -> 2 <= 2 ^ k.
Proof.
  intros Hk. replace k with (Z.succ (k - 1)) by lia. rewrite Z.pow_succ_r by lia.
  assert (0 < 2 ^ (k - 1)) by (apply Z.pow_pos_nonneg; lia). lia.
Qed.

Lemma set_first h : bm_set (steady h) (w16 (h + 1)) = post_hole h 1.
Proof.
  unfold steady, post_hole. rewrite bm_set_ahead; [|apply w16_range|apply w16_range|unfold w16; lia].
  change (Z.odd 1) with true. cbv iota.
  change (trailing_ones 32 1) with 1. change (shr32 1 1) with 0. rewrite Z.lor_0_l.
  replace (w16 (w16 (h + 1) - w16 (w16 (h - 1) + 1))) with 1 by (unfold w16; lia).
  f_equal. unfold w16; lia.
Qed.

Lemma set_next h j : 1 <= j <= 30 -> bm_set (post_hole h j) (w16 (h + j + 1)) = post_hole h (j + 1).
Proof.
  intros Hj. unfold post_hole.
  rewrite bm_set_ahead; [|apply w16_range|apply w16_range|unfold w16; lia].
  assert (Hodd : Z.odd (2 ^ (j + 1) - 2) = false).
  { replace (j + 1) with (Z.succ j) by lia. rewrite Z.pow_succ_r by lia.
    replace (2 * 2 ^ j - 2) with (2 * (2 ^ j - 1)) by lia. rewrite Z.odd_mul. reflexivity. }
  rewrite Hodd. replace (w16 (w16 (h + j + 1) - w16 h)) with (j + 1) by (unfold w16; lia).
  rewrite shl32_one by lia. f_equal.
  pose proof (pow2_ge2 (j + 1) ltac:(lia)).
  rewrite lor_small_pow2 by lia.
  replace (j + 1 + 1) with (Z.succ (j + 1)) by lia. rewrite Z.pow_succ_r by lia. lia.
Qed.

Lemma delta_after h j : 0 <= j < 32768 -> rl_delta (w16 (h + j)) (w16 h) = j.
Proof.
  intros Hj. unfold rl_delta. replace (w16 (w16 (h + j) - w16 h)) with j by (unfold w16; lia).
  destruct (32768 <=? j) eqn:E; lia.
Qed.

Lemma low_bits_post p count : 1 <= count <= p + 1 ->
  (2 ^ (p + 2) - 2) mod 2 ^ count = 2 ^ count - 2.
Proof.
  intros Hc. symmetry. apply (Z.mod_unique _ _ (2 ^ (p + 2 - count) - 1)).
  - left. pose proof (pow2_ge2 count ltac:(lia)). lia.
  - replace (p + 2) with (count + (p + 2 - count)) at 1 by lia.
    rewrite Z.pow_add_r by lia. lia.
Qed.

(* the BitmapGet of the (packets+1)-th arrival after the hole *)
Lemma get_after_hole h p u : 2 <= p <= 24 -> 2 <= u <= 4 -> u <= p ->
  fst (bm_get (post_hole h (p + 1)) (w16 (w16 (h + (p + 1)) - u))) = (true, w16 h, 0).
Proof.
  intros Hp Hu Hup. unfold bm_get, post_hole. cbn [bm_first bm_bits bm_valid].
  rewrite cmp16_nonneg_iff by apply w16_range.
  set (next := w16 (w16 (h + (p + 1)) - u)).
  assert (Hc0 : w16 (next - w16 h) = p + 1 - u) by (unfold next, w16; lia).
  rewrite Hc0.
  assert (Hne : (w16 h =? next) = false).
  { destruct (w16 h =? next) eqn:E; [|reflexivity].
    assert (next = w16 h) by lia. rewrite H, Z.sub_diag in Hc0. cbn in Hc0. lia. }
  rewrite Hne. destruct (32768 <=? p + 1 - u) eqn:E; [lia|]. cbn [orb].
  set (count := if 17 <? p + 1 - u then 17 else p + 1 - u).
  assert (Hcount : 1 <= count <= p + 1) by (unfold count; destruct (17 <? p + 1 - u) eqn:E2; lia).
  replace (p + 1 + 1) with (p + 2) by lia.
  rewrite (low_bits_post p count Hcount).
  replace (2 ^ count - 1 - (2 ^ count - 2)) with 1 by lia.
  reflexivity.
Qed.

(* ---------- single readLoop steps after the hole ---------- *)
Lemma post_hole_first h j : bm_first (post_hole h j) = w16 h.
Proof. reflexivity. Qed.

Lemma rl_first h rate : rl_bitmap (steady h) (w16 (h + 1)) rate = (None, post_hole h 1).
Proof.
  pose proof (rl_packets_range rate) as Hp. unfold rl_bitmap. rewrite set_first, post_hole_first.
  rewrite delta_after by lia. destruct (rl_packets rate <? 1) eqn:E; [lia|reflexivity].
Qed.

Lemma rl_next h rate j : 1 <= j -> j + 1 <= rl_packets rate ->
  rl_bitmap (post_hole h j) (w16 (h + j + 1)) rate = (None, post_hole h (j + 1)).
Proof.
  intros Hj Hle. pose proof (rl_packets_range rate) as Hp. unfold rl_bitmap.
  rewrite set_next by lia. rewrite post_hole_first.
  replace (h + j + 1) with (h + (j + 1)) by lia. rewrite delta_after by lia.
  destruct (rl_packets rate <? j + 1) eqn:E; [lia|reflexivity].
Qed.

Lemma rl_last h rate : let p := rl_packets rate in
  fst (rl_bitmap (post_hole h p) (w16 (h + p + 1)) rate) = Some (w16 h, 0).
Proof.
  intros p. pose proof (rl_packets_range rate) as Hp. fold p in Hp. unfold rl_bitmap.
  rewrite set_next by lia. rewrite post_hole_first.
  replace (h + p + 1) with (h + (p + 1)) by lia. rewrite delta_after by lia. fold p.
  destruct (p <? p + 1) eqn:E; [|lia].
  pose proof (rl_unnacked_range _ Hp) as [Hu Hup].
  pose proof (get_after_hole h p (rl_unnacked p) Hp Hu Hup) as Hg.
  destruct (bm_get _ _) as [[[fd f] m] b2]. cbn [fst] in Hg. inversion Hg; subst. reflexivity.
Qed.

(* ---------- the arrivals after the hole ---------- *)
Definition arrival (h rate j : Z) : lop := LRead (w16 (h + j)) false rate true.
Definition arrivals (h rate : Z) (n : nat) : list lop :=
  map (fun i => arrival h rate (Z.of_nat i)) (seq 1 n).

Lemma arrivals_S h rate n :
  arrivals h rate (S n) = arrivals h rate n ++ [arrival h rate (Z.of_nat (S n))].
Proof. unfold arrivals. rewrite seq_S, map_app. reflexivity. Qed.

Lemma quiet_prefix c h rate : c_bitmap c = steady h ->
  forall n, (1 <= n)%nat -> Z.of_nat n <= rl_packets rate ->
  c_bitmap (lrun c (arrivals h rate n)) = post_hole h (Z.of_nat n) /\
  louts c (arrivals h rate n) = repeat (LONack None) n.
Proof.
  intros Hst. pose proof (rl_packets_range rate) as Hp.
  induction n as [|n IH]; intros Hn Hle; [lia|].
  destruct (Nat.eq_dec n 0) as [->|Hn0].
  - (* first arrival after the hole *)
    unfold arrivals. cbn [seq map lrun fold_left louts repeat]. unfold arrival.
    pose proof (lstep_read_bitmap c (w16 (h + Z.of_nat 1)) false rate) as [Hb Ho].
    rewrite Hb, Ho, Hst. change (Z.of_nat 1) with 1. rewrite rl_first. split; reflexivity.
  - specialize (IH ltac:(lia) ltac:(lia)). destruct IH as [IHb IHo].
    rewrite arrivals_S, lrun_app, louts_app, IHo.
    cbn [lrun fold_left louts]. unfold arrival.
    pose proof (lstep_read_bitmap (lrun c (arrivals h rate n)) (w16 (h + Z.of_nat (S n))) false rate)
      as [Hb Ho].
    rewrite Hb, Ho, IHb.
    replace (h + Z.of_nat (S n)) with (h + Z.of_nat n + 1) by lia.
    rewrite rl_next by lia. cbn [fst snd]. split.
    + f_equal. lia.
    + replace (S n) with (n + 1)%nat by lia. rewrite repeat_app. reflexivity.
Qed.

Theorem hole_requested c h rate : c_bitmap c = steady h ->
  let p := Z.to_nat (rl_packets rate) in
  louts c (arrivals h rate (S p)) = repeat (LONack None) p ++ [LONack (Some (w16 h, 0))] /\
  nums (w16 h) 0 = [w16 h].
Proof.
  intros Hst p. pose proof (rl_packets_range rate) as Hp.
  assert (Hpz : Z.of_nat p = rl_packets rate) by (unfold p; lia).
  destruct (quiet_prefix c h rate Hst p ltac:(lia) ltac:(lia)) as [Hb Ho].
  split; [|reflexivity].
  rewrite arrivals_S, louts_app, Ho. f_equal.
  cbn [louts]. unfold arrival. f_equal.
  pose proof (lstep_read_bitmap (lrun c (arrivals h rate p)) (w16 (h + Z.of_nat (S p))) false rate)
    as [_ Hout].
  rewrite Hout, Hb. f_equal.
  replace (h + Z.of_nat (S p)) with (h + rl_packets rate + 1) by lia. rewrite Hpz.
  apply rl_last.
Qed.

(* the steady state is what in-order arrivals leave behind *)
Lemma steady_first_store cap s kf : is16 s ->
  c_bitmap (lrun (new_cache cap) [LStore s kf]) = steady (s + 1).
Proof.
  intros Hs. cbn [lrun fold_left lstep].
  pose proof (store_bitmap (new_cache cap) s 0 kf false payload) as [Hb _].
  destruct (store (new_cache cap) s 0 kf false payload) as [[f i] c1]. cbn [fst snd] in *.
  rewrite Hb. unfold steady. replace (s + 1 - 1) with s by lia. rewrite w16_small by exact Hs.
  reflexivity.
Qed.

Lemma steady_in_order c h kf : c_bitmap c = steady h ->
  c_bitmap (fst (lstep c (LStore (w16 h) kf))) = steady (h + 1).
Proof.
  intros Hst. cbn [lstep].
  pose proof (store_bitmap c (w16 h) 0 kf false payload) as [Hb _].
  destruct (store c (w16 h) 0 kf false payload) as [[f i] c1]. cbn [fst snd] in *.
  rewrite Hb, Hst. unfold steady.
  rewrite bm_set_ahead; [|apply w16_range|apply w16_range|unfold w16; lia].
  change (Z.odd 1) with true. cbv iota.
  change (trailing_ones 32 1) with 1. change (shr32 1 1) with 0. rewrite Z.lor_0_l.
  replace (w16 (w16 h - w16 (w16 (h - 1) + 1))) with 0 by (unfold w16; lia).
  f_equal. unfold w16; lia.
Qed.

(* C07, layer 2: every evaluation of a pushed stream gives the subscriber
   exactly the tracks that requestedTracks selects (or closes the stream when
   it selects none), and the summary of the invariants along a history. *)
From Coq Require Import List Bool Arith PeanoNat Lia.
From Galene Require Import Model.Subscribe Proofs.SubscribeFrame Proofs.SubscribeInv
  Proofs.SubscribeStep Proofs.SubscribeHeap Proofs.SubscribeOwn Proofs.SubscribeOut
  Proofs.SubscribeTeardown.
Import ListNotations.

Lemma mem_pair_in : forall p l, mem_pair p l = true <-> In p l.
Proof.
  intros [a b] l. unfold mem_pair. rewrite existsb_exists. split.
  - intros [[c d] [Hin H]]. simpl in H. apply andb_prop in H. destruct H as [H1 H2].
    apply Nat.eqb_eq in H1. apply Nat.eqb_eq in H2. subst. exact Hin.
  - intro Hin. exists (a, b). split; [exact Hin|]. simpl. rewrite !Nat.eqb_refl. reflexivity.
Qed.

Lemma filter_nil_forall : forall {A} (f : A -> bool) l, filter f l = [] -> forall x, In x l -> f x = false.
Proof.
  induction l as [|y r IH]; simpl; [tauto|]. destruct (f y) eqn:E; [discriminate|].
  intros H x [<-|Hx]; [exact E|apply IH; assumption].
Qed.

Lemma pair_eq_dec : forall a b : nat * nat, {a = b} + {a <> b}.
Proof. decide equality; apply Nat.eq_dec. Qed.

Lemma replace_tracks_exact : forall d remote limit changed d',
  replace_tracks d remote limit = (changed, d') ->
  (forall p, In p (d_tracks d') <-> In p remote) /\ d_limit d' = limit.
Proof.
  intros d remote limit changed d' H. unfold replace_tracks in H.
  set (add := filter (fun p => negb (mem_pair p (d_tracks d))) remote) in *.
  set (keep := filter (fun p => mem_pair p remote) (d_tracks d)) in *.
  set (del := filter (fun p => negb (mem_pair p remote)) (d_tracks d)) in *.
  assert (Hadd : forall p, In p add <-> In p remote /\ ~ In p (d_tracks d)).
  { intro p. unfold add. rewrite filter_In. split.
    - intros [A B]. split; [exact A|]. intro C. apply mem_pair_in in C. rewrite C in B. discriminate.
    - intros [A B]. split; [exact A|]. destruct (mem_pair p (d_tracks d)) eqn:E; [|reflexivity].
      exfalso. apply B. apply mem_pair_in. exact E. }
  assert (Hkeep : forall p, In p keep <-> In p (d_tracks d) /\ In p remote).
  { intro p. unfold keep. rewrite filter_In. split; intros [A B]; split; auto; apply mem_pair_in; exact B. }
  assert (Hdel : forall p, In p del <-> In p (d_tracks d) /\ ~ In p remote).
  { intro p. unfold del. rewrite filter_In. split.
    - intros [A B]. split; [exact A|]. intro C. apply mem_pair_in in C. rewrite C in B. discriminate.
    - intros [A B]. split; [exact A|]. destruct (mem_pair p remote) eqn:E; [|reflexivity].
      exfalso. apply B. apply mem_pair_in. exact E. }
  assert (Hgen : forall p, In p (keep ++ add) <-> In p remote).
  { intro p. rewrite in_app_iff, Hkeep, Hadd. split; [tauto|]. intro Hp.
    destruct (in_dec pair_eq_dec p (d_tracks d)); tauto. }
  destruct add as [|a0 add'] eqn:Eadd; [destruct del as [|b0 del'] eqn:Edel|].
  - inversion H. subst. simpl. split; [|reflexivity]. intro p. split; intro Hp.
    + destruct (in_dec pair_eq_dec p remote) as [X|X]; [exact X|].
      exfalso. assert (Y : In p []) by (apply Hdel; auto). destruct Y.
    + destruct (in_dec pair_eq_dec p (d_tracks d)) as [X|X]; [exact X|].
      exfalso. assert (Y : In p []) by (apply Hadd; auto). destruct Y.
  - inversion H. subst. simpl. split; [|reflexivity]. exact Hgen.
  - inversion H. subst. simpl. split; [|reflexivity]. exact Hgen.
Qed.

(* The result of pushDownConn for the pushed stream. *)
Lemma push_exact : forall m id u ts r w g,
  Inv w -> action_ok w m (APush g id (Some u) ts r) -> c_group (w_cl w m) = Some g ->
  let w' := fst (push_down_conn m id (Some u) ts r w) in
  let sel := requested_tracks (push_req w m u r) ts in
  snd (push_down_conn m id (Some u) ts r w) = false /\
  match get_down (uo_id (w_up w u)) (c_down (w_cl w' m)) with
  | None => fst sel = [] \/ uo_closed (w_up w u) = true
  | Some d =>
      fst sel <> [] /\ d_remote d = u /\
      (forall p, In p (d_tracks d) <-> In p (map (fun i => (u, i)) (fst sel))) /\
      d_limit d = snd sel
  end.
Proof.
  intros m id u ts r w g I Ha Hg. simpl in Ha. destruct Ha as [A1 [A2 [A3 [A4 [A5 A6]]]]].
  unfold push_down_conn. fold (push_req w m u r).
  set (sel := requested_tracks (push_req w m u r) ts).
  set (w1 := if Nat.eqb r 0 then w else del_down m r w).
  assert (U1 : w_up w1 = w_up w) by (unfold w1; destruct (Nat.eqb r 0); reflexivity).
  assert (UP1 : c_up (w_cl w1 m) = c_up (w_cl w m)).
  { unfold w1. destruct (Nat.eqb r 0); [reflexivity|]. autorewrite with sub. reflexivity. }
  assert (D1 : c_down (w_cl w1 m) = (if Nat.eqb r 0 then c_down (w_cl w m) else remove_down r (c_down (w_cl w m)))).
  { unfold w1. destruct (Nat.eqb r 0); autorewrite with sub; rewrite ?Nat.eqb_refl; reflexivity. }
  (* the replaced stream has another id than the pushed one *)
  assert (Hnr : r <> 0 -> uo_id (w_up w u) <> r \/ uo_closed (w_up w u) = true).
  { intros Hr. destruct (Nat.eqb_spec (uo_id (w_up w u)) r); [|left; assumption]. right.
    destruct (A6 Hr) as [v [Hv [Hvid Hvc]]].
    assert (v = u) by (apply (inv_ids _ I); auto; congruence). subst v. exact Hvc. }
  (* the deferred close of the replaced stream does not touch the pushed one unless it has ended *)
  assert (Hdef : forall w',
     let w'' := if Nat.eqb r 0 then w' else close_down_conn m r false w' in
     get_down (uo_id (w_up w u)) (c_down (w_cl w'' m)) =
       (if Nat.eqb r 0 then get_down (uo_id (w_up w u)) (c_down (w_cl w' m))
        else if Nat.eqb (uo_id (w_up w u)) r then None else get_down (uo_id (w_up w u)) (c_down (w_cl w' m)))).
  { intros w'. cbv zeta. destruct (Nat.eqb_spec r 0); [reflexivity|].
    destruct (close_down_conn_own m r false w') as [_ [_ [_ X]]]. rewrite X.
    destruct (Nat.eqb_spec (uo_id (w_up w u)) r); [rewrite e; apply get_down_remove_same|].
    apply get_down_remove_other. assumption. }
  destruct (fst sel) as [|i0 rest] eqn:Esel.
  - (* nothing selected: closed *)
    cbn [fst snd]. split; [reflexivity|].
    rewrite Hdef. destruct (close_down_conn_own m id false w1) as [_ [_ [_ X]]].
    assert (Y : get_down (uo_id (w_up w u)) (c_down (w_cl (close_down_conn m id false w1) m)) = None).
    { rewrite X, A2. apply get_down_remove_same. }
    rewrite Y. destruct (Nat.eqb r 0); [left; reflexivity|]. destruct (Nat.eqb _ r); left; reflexivity.
  - assert (Hne : i0 :: rest <> []) by discriminate.
    unfold add_down_conn. rewrite U1, UP1.
    destruct (lookup (uo_id (w_up w u)) (c_up (w_cl w m))) as [v|] eqn:Hl.
    { (* the subscriber publishes a stream with this id: impossible, ids are unique *)
      exfalso. destruct (inv_ups _ I m _ v Hl) as [V1 [V2 [V3 V4]]].
      assert (v = u) by (apply (inv_ids _ I); auto). subst v. contradiction. }
    destruct (get_down (uo_id (w_up w u)) (c_down (w_cl w1 m))) as [d0|] eqn:Eg.
    + rewrite Eg. destruct (replace_tracks d0 _ _) as [changed d'] eqn:Er.
      destruct (replace_tracks_same _ _ _ _ _ Er) as [R1 [R2 R3]].
      destruct (replace_tracks_exact _ _ _ _ _ Er) as [X1 X2].
      destruct (get_down_in _ _ _ Eg) as [Hin0 Hid0].
      (* the existing connection is attached to u: ids are unique *)
      assert (Hin0' : In d0 (c_down (w_cl w m))).
      { rewrite D1 in Hin0. destruct (Nat.eqb r 0); [exact Hin0|]. apply in_remove_down in Hin0. tauto. }
      destruct (inv_downs _ I m d0 Hin0') as [B1 [B2 _]].
      assert (Hrem : d_remote d0 = u) by (apply (inv_ids _ I); auto; congruence).
      assert (Hex : get_down (d_id d') (c_down (w_cl w1 m)) <> None) by (rewrite R2, Hid0, Eg; discriminate).
      assert (G3 : get_down (uo_id (w_up w u)) (c_down (w_cl (set_down_entry m d' w1) m)) = Some d').
      { autorewrite with sub. rewrite Nat.eqb_refl. rewrite <- Hid0, <- R2.
        apply get_down_replace_same. exact Hex. }
      assert (Hres : fst sel <> [] -> i0 :: rest <> [] /\ d_remote d' = u /\
                (forall p, In p (d_tracks d') <-> In p (map (fun i => (u, i)) (i0 :: rest))) /\ d_limit d' = snd sel).
      { intros _. repeat split; auto; try congruence; apply X1. }
      (* the deleted id r is not the id of the stream (else d0 would not be there) *)
      assert (Hrne : r <> 0 -> uo_id (w_up w u) <> r).
      { intros Hr E. rewrite D1 in Eg. destruct (Nat.eqb_spec r 0); [contradiction|].
        rewrite E in Eg. rewrite get_down_remove_same in Eg. discriminate. }
      destruct changed; cbn [fst snd].
      * split; [reflexivity|].
        destruct (negotiate_own m d' r (set_down_entry m d' w1)) as [_ [_ [_ [d2 [N1 [N2 N3]]]]]].
        assert (G4 : get_down (uo_id (w_up w u)) (c_down (w_cl (negotiate m d' r (set_down_entry m d' w1)) m)) = Some d2).
        { rewrite N3. rewrite <- Hid0, <- R2, <- N1. apply get_down_replace_same.
          rewrite N1, R2, Hid0, G3. discriminate. }
        rewrite G4.
        (* d2 differs from d' in the signalling flags only *)
        assert (T2 : d_tracks d2 = d_tracks d' /\ d_limit d2 = d_limit d').
        { unfold negotiate in N3. destruct (d_havelocal d'); autorewrite with sub in N3;
            rewrite Nat.eqb_refl in N3.
          - assert (Z : Some d2 = Some (down_set_sig true true d')).
            { rewrite <- (get_down_replace_same d2 (replace_down d' (c_down (w_cl w1 m)))).
              + rewrite <- N3. rewrite N1. change (d_id d') with (d_id (down_set_sig true true d')).
                apply get_down_replace_same. simpl.
                rewrite (get_down_replace_same d'); [discriminate|exact Hex].
              + rewrite N1. rewrite (get_down_replace_same d'); [discriminate|exact Hex]. }
            inversion Z. simpl. auto.
          - assert (Z : Some d2 = Some (down_set_sig true false d')).
            { rewrite <- (get_down_replace_same d2 (replace_down d' (c_down (w_cl w1 m)))).
              + rewrite <- N3. rewrite N1. change (d_id d') with (d_id (down_set_sig true false d')).
                apply get_down_replace_same. simpl.
                rewrite (get_down_replace_same d'); [discriminate|exact Hex].
              + rewrite N1. rewrite (get_down_replace_same d'); [discriminate|exact Hex]. }
            inversion Z. simpl. auto. }
        destruct T2 as [T2 T3]. destruct (Hres ltac:(rewrite Esel; discriminate)) as [Q1 [Q2 [Q3 Q4]]].
        repeat split; try congruence; rewrite T2; apply Q3.
      * split; [reflexivity|]. rewrite Hdef, G3.
        destruct (Nat.eqb_spec r 0); [apply Hres; rewrite Esel; discriminate|].
        destruct (Nat.eqb_spec (uo_id (w_up w u)) r); [exfalso; eapply Hrne; eauto|].
        apply Hres. rewrite Esel. discriminate.
    + destruct (uo_closed (w_up w u)) eqn:Ec.
      * cbn [fst snd]. split; [reflexivity|]. rewrite Hdef, Eg.
        destruct (Nat.eqb r 0); [right; reflexivity|]. destruct (Nat.eqb _ r); right; reflexivity.
      * set (dn := mkDown (uo_id (w_up w u)) u None [] false false false).
        set (w2 := upd_cl m (fun c => set_down (c_down c ++ [dn]) c) w1).
        assert (Eg2 : get_down (uo_id (w_up w u)) (c_down (w_cl w2 m)) = Some dn).
        { unfold w2, upd_cl. simpl. rewrite Nat.eqb_refl. simpl. rewrite get_down_app, Eg. simpl.
          rewrite Nat.eqb_refl. reflexivity. }
        rewrite Eg2. destruct (replace_tracks dn _ _) as [changed d'] eqn:Er.
        destruct (replace_tracks_same _ _ _ _ _ Er) as [R1 [R2 R3]].
        destruct (replace_tracks_exact _ _ _ _ _ Er) as [X1 X2].
        assert (Hex : get_down (d_id d') (c_down (w_cl w2 m)) <> None).
        { rewrite R2. change (d_id dn) with (uo_id (w_up w u)). rewrite Eg2. discriminate. }
        assert (G3 : get_down (uo_id (w_up w u)) (c_down (w_cl (set_down_entry m d' w2) m)) = Some d').
        { autorewrite with sub. rewrite Nat.eqb_refl. change (uo_id (w_up w u)) with (d_id dn). rewrite <- R2.
          apply get_down_replace_same. exact Hex. }
        assert (Hres : i0 :: rest <> [] /\ d_remote d' = u /\
                  (forall p, In p (d_tracks d') <-> In p (map (fun i => (u, i)) (i0 :: rest))) /\ d_limit d' = snd sel).
        { repeat split; auto; try (rewrite R1; reflexivity); apply X1. }
        assert (Hrne : r <> 0 -> uo_id (w_up w u) <> r).
        { intros Hr. destruct (Hnr Hr) as [X|X]; [exact X|congruence]. }
        destruct changed; cbn [fst snd].
        -- split; [reflexivity|].
           destruct (negotiate_own m d' r (set_down_entry m d' w2)) as [_ [_ [_ [d2 [N1 [N2 N3]]]]]].
           assert (G4 : get_down (uo_id (w_up w u)) (c_down (w_cl (negotiate m d' r (set_down_entry m d' w2)) m)) = Some d2).
           { rewrite N3. change (uo_id (w_up w u)) with (d_id dn). rewrite <- R2, <- N1. apply get_down_replace_same.
             rewrite N1, R2. change (d_id dn) with (uo_id (w_up w u)). rewrite G3. discriminate. }
           rewrite G4.
           assert (T2 : d_tracks d2 = d_tracks d' /\ d_limit d2 = d_limit d').
           { unfold negotiate in N3. destruct (d_havelocal d'); autorewrite with sub in N3;
               rewrite Nat.eqb_refl in N3.
             - assert (Z : Some d2 = Some (down_set_sig true true d')).
               { rewrite <- (get_down_replace_same d2 (replace_down d' (c_down (w_cl w2 m)))).
                 + rewrite <- N3. rewrite N1. change (d_id d') with (d_id (down_set_sig true true d')).
                   apply get_down_replace_same. simpl.
                   rewrite (get_down_replace_same d'); [discriminate|exact Hex].
                 + rewrite N1. rewrite (get_down_replace_same d'); [discriminate|exact Hex]. }
               inversion Z. simpl. auto.
             - assert (Z : Some d2 = Some (down_set_sig true false d')).
               { rewrite <- (get_down_replace_same d2 (replace_down d' (c_down (w_cl w2 m)))).
                 + rewrite <- N3. rewrite N1. change (d_id d') with (d_id (down_set_sig true false d')).
                   apply get_down_replace_same. simpl.
                   rewrite (get_down_replace_same d'); [discriminate|exact Hex].
                 + rewrite N1. rewrite (get_down_replace_same d'); [discriminate|exact Hex]. }
               inversion Z. simpl. auto. }
           destruct T2 as [T2 T3]. destruct Hres as [Q1 [Q2 [Q3 Q4]]].
           repeat split; try congruence; rewrite T2; apply Q3.
        -- split; [reflexivity|]. rewrite Hdef, G3.
           destruct (Nat.eqb_spec r 0); [exact Hres|].
           destruct (Nat.eqb_spec (uo_id (w_up w u)) r); [exfalso; eapply Hrne; eauto|exact Hres].
Qed.

(* ---- everything that holds along a history *)

Lemma reach_all : forall ops w,
  Inv w -> in_range w -> KInv w -> ok_run w ops ->
  Inv (run w ops) /\ in_range (run w ops) /\ KInv (run w ops).
Proof.
  induction ops as [|o r IH]; intros w I R K Hok; [auto|].
  simpl in *. destruct Hok as [H1 H2]. apply IH; auto.
  - apply Inv_step; auto.
  - apply in_range_step; auto.
  - apply KInv_step; auto.
Qed.

Lemma reach_init : forall n ops, ok_run (init n) ops ->
  Inv (run (init n) ops) /\ in_range (run (init n) ops) /\ KInv (run (init n) ops).
Proof.
  intros. apply reach_all; auto; [apply Inv_init|apply in_range_init|apply KInv_init].
Qed.

(* C14, part 10: the property theorems in their final form (quantified over
   operation sequences from the empty world), and a concrete history for
   the non-vacuity examples. *)
From Coq Require Import ZArith List Bool String Arith Lia Permutation.
From Galene Require Import Generated.Guards Model.Signal Model.SignalUsers
  Proofs.SignalFrame Proofs.SignalSafe Proofs.SignalUsersBase Proofs.SignalUsersFrame
  Proofs.SignalUsersInv Proofs.SignalUsersAnnounce Proofs.SignalUsersLeave
  Proofs.SignalUsersJoin Proofs.SignalUsersMisc Proofs.SignalUsersSteps Proofs.SignalUsersThms.
Import ListNotations.
Open Scope string_scope.
Open Scope list_scope.

Lemma reach : forall ops w s,
  Forall op_ok ops -> run_log empty_world no_log ops = Some (w, s) -> reachable w s.
Proof. intros ops w s H1 H2. exists ops. auto. Qed.

Lemma c14_convergence : forall ops w s,
  Forall op_ok ops -> run_log empty_world no_log ops = Some (w, s) -> quiescent w ->
  forall g h, In h (members w g) ->
    Permutation (fold_user_events (received w s h)) (true_list w g) /\
    forall id, view_lookup id (fold_user_events (received w s h)) = truth w g id.
Proof.
  intros ops w s H1 H2 Hq g h Hin. split.
  - eapply convergence_list; eauto using reach.
  - eapply convergence; eauto using reach.
Qed.

Lemma c14_event_order : forall ops w s,
  Forall op_ok ops -> run_log empty_world no_log ops = Some (w, s) ->
  forall g h, In h (members w g) ->
  exists c, get_client w h = Some c /\ c_group c = Some g /\ c_closed c = false /\
    forall id, key_view id (Some g) (received w s h) (c_queue c) = truth w g id \/
               change_pending w g id.
Proof. intros ops w s H1 H2. apply event_order. eapply reach; eauto. Qed.

Lemma c14_no_cross_group : forall ops w s,
  Forall op_ok ops -> run_log empty_world no_log ops = Some (w, s) -> quiescent w ->
  forall g h, In h (members w g) ->
  forall i u p, In (i, u, p) (fold_user_events (received w s h)) ->
    (exists x cx, In x (members w g) /\ get_client w x = Some cx /\
                  c_id cx = i /\ c_username cx = u /\ c_perms cx = p) \/
    (recording w g = true /\ (i, (u, p)) = (rec_id, rec_entry)).
Proof. intros ops w s H1 H2. apply no_cross_group. eapply reach; eauto. Qed.

Lemma c14_join_symmetry : forall ops w s,
  Forall op_ok ops -> run_log empty_world no_log ops = Some (w, s) ->
  forall h c m r c' g,
  get_client w h = Some c -> c_closed c = false -> c_group c = None ->
  handle_join w h c m = Ok r -> get_client (r_world r) h = Some c' -> c_group c' = Some g ->
  let w' := r_world r in
  let announce := add_act g c' in
  members w' g = members w g ++ [h] /\
  c_queue c' = c_queue c ++ [AJoined g "join"; announce] ++
               (if recording w g then [rec_act g] else []) ++ adds_for w g (members w g) /\
  (forall x cx, In x (members w g) -> get_client w x = Some cx ->
     In (add_act g cx) (adds_for w g (members w g))) /\
  (forall x cx, In x (members w g) -> get_client w x = Some cx ->
     get_client w' x = Some (set_queue cx (c_queue cx ++ [announce]))) /\
  (forall x, x <> h -> ~ In x (members w g) -> get_client w' x = get_client w x).
Proof. intros ops w s H1 H2. apply (join_symmetry w s (reach ops w s H1 H2)). Qed.

Lemma c14_delete_once : forall ops w s,
  Forall op_ok ops -> run_log empty_world no_log ops = Some (w, s) ->
  forall h c g e, get_client w h = Some c -> c_group c = Some g ->
  let del := APushClient g "delete" (c_id c) (c_username c) [] [] in
  forall w', w' = leave_group w h \/ w' = error_close w h e ->
  (forall g2, members w' g2 = if String.eqb g2 g then filter (not_h h) (members w g) else members w g2) /\
  (forall M cm, M <> h -> get_client w M = Some cm ->
     exists cm', get_client w' M = Some cm' /\
       pushes (c_queue cm') = pushes (c_queue cm) ++
         (if existsb (Nat.eqb M) (members w g) then [del] else [])).
Proof.
  intros ops w s H1 H2 h c g e Hc Hg del w' Hw'.
  destruct (delete_once w s (reach ops w s H1 H2) h c g Hc Hg) as [Hm Hq].
  destruct Hw' as [-> | ->]; split; try assumption.
  - intros g2. rewrite error_close_members. apply Hm.
  - intros M cm HM Hcm. rewrite (error_close_others w h e M HM). apply Hq; assumption.
Qed.

Lemma c14_changes_announced : forall ops w s,
  Forall op_ok ops -> run_log empty_world no_log ops = Some (w, s) ->
  forall h c g, get_client w h = Some c -> c_group c = Some g ->
  (* a permission change is applied and its announcement queued *)
  (forall kind res, is_perm_kind kind = true ->
     handle_action w h c (AChangePerms g kind) = Ok res ->
     exists p, change_perms (match find_group w g with
                             | Some gr => d_allowrec (g_desc gr) | None => false end)
                            kind (c_perms c) = Some p /\
       r_err res = ENone /\
       get_client (r_world res) h = Some (set_queue (set_perms c p) (c_queue c ++ [APermsChanged])) /\
       forall i, i <> h -> get_client (r_world res) i = get_client w i) /\
  (* the announcement tells every member the permissions of that moment *)
  (forall res, handle_action w h c APermsChanged = Ok res ->
     r_err res = ENone /\
     forall M cm, get_client w M = Some cm ->
       exists cm', get_client (r_world res) M = Some cm' /\
         pushes (c_queue cm') = pushes (c_queue cm) ++
           (if existsb (Nat.eqb M) (members w g)
            then [APushClient g "change" (c_id c) (c_username c) (c_perms c) (c_data c)] else [])) /\
  (* setdata is announced at once with the new data *)
  (forall m l res, m_kind m = "setdata" -> m_value m = VMap l ->
     handle_useraction w h c m = Ok res -> r_auth res = Passed ->
     let d := update_data_all (c_data c) l in
     r_err res = ENone /\
     get_client (r_world res) h =
       Some (set_queue (set_data c d)
               (c_queue c ++ [APushClient g "change" (c_id c) (c_username c) (c_perms c) d])) /\
     forall M cm, M <> h -> get_client w M = Some cm ->
       get_client (r_world res) M =
         Some (if existsb (Nat.eqb M) (members w g)
               then set_queue cm (c_queue cm ++ [APushClient g "change" (c_id c) (c_username c) (c_perms c) d])
               else cm)).
Proof.
  intros ops w s H1 H2 h c g Hc Hg. pose proof (reach ops w s H1 H2) as Hr. split; [|split].
  - intros kind res Hk H. eapply perm_change_applied; eauto.
  - intros res H. eapply perm_change_announced; eauto.
  - intros m l res Hk Hv H Ha. eapply setdata_announced; eauto.
Qed.

(* ------------------------------------------------------------------ *)
(* A concrete history: an operator and two plain members join, the
   operator makes one of them a presenter, the other leaves, a third
   connection is refused (wrong password); then everything is served. *)

Definition ex_desc : desc :=
  mkDesc [mkUser "oper" "pwo" false ["op"; "present"; "message"];
          mkUser "ann" "pwa" false ["message"];
          mkUser "bob" "pwb" false ["message"]] None "" false 0.

Definition ex_msg (t k : str) : msg :=
  mkMsg t k "" "" "" "" None "" "" "" VNone false SdpBad "" RNone false [].

Definition ex_join (g u pw : str) : msg :=
  mkMsg "join" "join" "" "" "" "" (Some u) pw "" g VNone false SdpBad "" RNone false [].
Definition ex_leave (g : str) : msg :=
  mkMsg "join" "leave" "" "" "" "" None "" "" g VNone false SdpBad "" RNone false [].
Definition ex_useraction (k dest : str) : msg :=
  mkMsg "useraction" k "" "" "" dest None "" "" "" VNone false SdpBad "" RNone false [].

Definition ex_ops : list op :=
  [ OpMkGroup "g" ex_desc; OpMkGroup "other" ex_desc;
    OpClient "ida"; OpClient "idb"; OpClient "idc"; OpClient "idd";
    OpMsg 0 (ex_join "g" "oper" "pwo");
    OpMsg 1 (ex_join "g" "ann" "pwa");
    OpMsg 2 (ex_join "g" "bob" "pwb");
    OpMsg 3 (ex_join "other" "bob" "pwb");
    OpPump 1;
    OpMsg 0 (ex_useraction "present" "idb");
    OpDrain 1;
    OpMsg 2 (ex_leave "g");
    OpMsg 2 (ex_join "g" "bob" "wrong");
    OpPump 1;
    OpQuiesce ].

Lemma ex_ops_ok : Forall op_ok ex_ops.
Proof. repeat constructor; discriminate. Qed.

(* C03: a concrete history for the end-to-end theorems of Proofs/ForwardNack.v
   (non-vacuity), and the witness that their window hypothesis is necessary. *)
From Coq Require Import ZArith List Bool.
From Galene Require Import Lib.Word Generated.Consts Model.PacketMap Model.Cache Model.Forward.
From Galene Require Import Proofs.ForwardProps Proofs.RewriteMarker Proofs.ForwardNack.
Import ListNotations.
Open Scope Z_scope.

(* non-vacuity (VP8, 15-bit picture ids): the rate estimate is far above the
   allowed maximum; packet 100 (temporal layer 0) is forwarded; packet 101
   (temporal layer 1) is withheld; packet 102 is forwarded under number 101
   with picture id 12 - 1 = 11 and the marker set; 103 is forwarded as 102;
   then NACKs for 101, 100, 103 and 99: the first two are answered with the
   identical bytes, the other two (103: not sent yet; 99: never sent) with
   nothing. *)
Definition ex_buf (s p : Z) : list Z :=
  [128; 96; 0; s; 0;0;0;1; 0;0;18;52; 128; 128; 128; p; 7;7;s].
Definition ex_f100 := Layers.mkFlags 100 false true true true 10 0 0 false false false.
Definition ex_f101 := Layers.mkFlags 101 false true true false 11 1 0 true false false.
Definition ex_f102 := Layers.mkFlags 102 false true true false 12 0 0 false false false.
Definition ex_f103 := Layers.mkFlags 103 false true true false 13 0 0 false false false.
Definition ex_pre : list Forward.op :=
  [ORates 1000000 100000 0;
   OCStore 100 1000 true false ex_f100 (ex_buf 100 10); OWrite ex_f100 (ex_buf 100 10);
   OCStore 101 1000 false false ex_f101 (ex_buf 101 11); OWrite ex_f101 (ex_buf 101 11);
   OCStore 102 1000 false false ex_f102 (ex_buf 102 12)].
Definition ex_post : list Forward.op :=
  [OAdjust; OCStore 103 1000 false false ex_f103 (ex_buf 103 13); OWrite ex_f103 (ex_buf 103 13)].
Definition ex_ops : list Forward.op := ex_pre ++ OWrite ex_f102 (ex_buf 102 12) :: ex_post.
Definition ex_sent101 : list Z := [128; 224; 0; 101; 0;0;0;1; 0;0;18;52; 128; 128; 128; 11; 7;7;102].
Definition ex_sent100 : list Z := [128; 224; 0; 100; 0;0;0;1; 0;0;18;52; 128; 128; 128; 10; 7;7;100].

Lemma example_history :
  fouts true (f_init 8) (ex_ops ++ [ONack [101; 100; 103; 99]]) =
  [RNone; RNone; RWrite (WSent ex_sent100) 0 false;
   RNone; RWrite WNone 16777216 false;
   RNone; RWrite (WSent ex_sent101) 16777216 false;
   RLayer 16777216; RNone;
   RWrite (WSent [128; 224; 0; 102; 0;0;0;1; 0;0;18;52; 128; 128; 128; 12; 7;7;103]) 16777216 false;
   RNack [WSent ex_sent101; WSent ex_sent100] 16777216].
Proof. vm_compute. reflexivity. Qed.

(* and the hypotheses of nack_same_or_nothing hold of that history, for the
   transmission of packet 102 *)
Lemma example_hypotheses :
  Forall wf_fop ex_ops /\ bytes_ok (ex_buf 102 12) /\ hdr_seq (ex_buf 102 12) = 102 /\
  only_store ex_ops 102 ex_f102 (ex_buf 102 12) /\
  snd (fst (write true (frun true (f_init 8) ex_pre) ex_f102 (ex_buf 102 12))) = WSent ex_sent101 /\
  insync_all (nxt (track None ex_pre) 102) ex_post /\
  track None ex_ops = Some 104 /\ src (track None ex_pre) 102 = 102 /\
  nack1 true (frun true (f_init 8) ex_ops) (hdr_seq ex_sent101)
    = (frun true (f_init 8) ex_ops, [WSent ex_sent101], false).
Proof.
  split.
  { unfold ex_ops, ex_pre, ex_post. cbn [app].
    repeat (apply Forall_cons; [cbn [wf_fop]; try exact I; try (vm_compute; intuition congruence)|]).
    apply Forall_nil. }
  split; [unfold bytes_ok; apply (proj1 (Forall_forall _ _)); repeat constructor; vm_compute; intuition congruence|].
  split; [reflexivity|].
  split.
  { intros ts kf m f' buf' H. unfold ex_ops, ex_pre, ex_post in H. cbn [app In] in H.
    repeat (destruct H as [H|H]; [try discriminate H; try (inversion H; split; reflexivity)|]).
    destruct H. }
  split; [vm_compute; reflexivity|].
  split; [vm_compute; auto|].
  split; [vm_compute; reflexivity|].
  split; [vm_compute; reflexivity|].
  vm_compute. reflexivity.
Qed.

(* The hypothesis that the map does not re-synchronise is necessary.  Full
   statements without it (refuted by the witness below): *)
Definition same_without_sync_statement : Prop :=
  forall vp8 cap pre f buf post d,
  let ops := pre ++ OWrite f buf :: post in
  let st_i := frun vp8 (f_init cap) pre in
  let st := frun vp8 (f_init cap) ops in
  let R := src (track None pre) (Layers.f_seqno f) in
  Forall wf_fop ops -> bytes_ok buf -> hdr_seq buf = Layers.f_seqno f ->
  only_store ops (Layers.f_seqno f) f buf ->
  snd (fst (write vp8 st_i f buf)) = WSent d ->
  match track None ops with Some N => N - R <= 8192 | None => False end ->
  forall st' rs stop, nack1 vp8 st (hdr_seq d) = (st', rs, stop) ->
  forall d', rs = [WSent d'] -> agree_but_marker d d'.

Definition withheld_without_sync_statement : Prop :=
  forall vp8 cap pre f buf post,
  let ops := pre ++ OWrite f buf :: post in
  let st_i := frun vp8 (f_init cap) pre in
  let st := frun vp8 (f_init cap) ops in
  let R := src (track None pre) (Layers.f_seqno f) in
  Forall wf_fop ops ->
  snd (fst (write_decision st_i f)) = true ->
  fst (pm_drop (fs_map st_i) (Layers.f_seqno f) (Layers.f_pid f)) = true ->
  match track None ops with Some N => N - R <= 8192 | None => False end ->
  forall o st' rs stop, nack1 vp8 st o = (st', rs, stop) ->
    forall p, pm_reverse (fs_map st) o = (true, Layers.f_seqno f, p) -> rs = [] \/ rs = [WNone].

(* Witness: as in the example, 100 forwarded, 101 withheld, 102 forwarded as
   101; then the publisher's numbers jump to 30000 and back to 103.  Each jump
   is more than 8192, so Map restarts the numbering twice and forgets that 101
   was withheld and that 102 went out as 101; next is 104 again, so 101 and
   102 count as recent.  A NACK for 101 is now answered with source packet
   101 - the packet that was deliberately withheld - instead of 102. *)
Definition rs_f30000 := Layers.mkFlags 30000 false true true false 13 0 0 false false false.
Definition rs_post : list Forward.op :=
  [OWrite rs_f30000 (ex_buf 30000 13); OWrite ex_f103 (ex_buf 103 13)].
Definition rs_ops : list Forward.op := ex_pre ++ OWrite ex_f102 (ex_buf 102 12) :: rs_post.
Definition rs_answer : list Z := [128; 224; 0; 101; 0;0;0;1; 0;0;18;52; 128; 128; 128; 11; 7;7;101].

Lemma rs_wf : Forall wf_fop rs_ops.
Proof.
  unfold rs_ops, ex_pre, rs_post. cbn [app].
  repeat (apply Forall_cons; [cbn [wf_fop]; try exact I; try (vm_compute; intuition congruence)|]).
  apply Forall_nil.
Qed.

Lemma rs_nack : snd (fst (nack1 true (frun true (f_init 8) rs_ops) 101)) = [WSent rs_answer].
Proof. vm_compute. reflexivity. Qed.

Theorem resync_refuted :
  ~ same_without_sync_statement /\ ~ withheld_without_sync_statement.
Proof.
  split; intros H.
  - specialize (H true 8 ex_pre ex_f102 (ex_buf 102 12) rs_post ex_sent101). cbv zeta in H.
    fold rs_ops in H.
    assert (H1 : bytes_ok (ex_buf 102 12))
      by (unfold bytes_ok; apply (proj1 (Forall_forall _ _)); repeat constructor; vm_compute; intuition congruence).
    assert (H2 : only_store rs_ops 102 ex_f102 (ex_buf 102 12)).
    { intros ts kf m f' buf' Hin. unfold rs_ops, ex_pre, rs_post in Hin. cbn [app In] in Hin.
      repeat (destruct Hin as [Hin|Hin]; [try discriminate Hin; try (inversion Hin; split; reflexivity)|]).
      destruct Hin. }
    specialize (H rs_wf H1 eq_refl H2 ltac:(vm_compute; reflexivity) ltac:(vm_compute; intuition congruence)).
    change (hdr_seq ex_sent101) with 101 in H.
    destruct (nack1 true (frun true (f_init 8) rs_ops) 101) as [[st' rs] stop] eqn:E.
    pose proof rs_nack as Hn. rewrite E in Hn. cbn [fst snd] in Hn.
    destruct (H st' rs stop eq_refl rs_answer Hn) as (_ & Hj & _).
    specialize (Hj 18%nat ltac:(discriminate)). vm_compute in Hj. discriminate.
  - specialize (H true 8 (firstn 4 ex_pre) ex_f101 (ex_buf 101 11)
                  (OCStore 102 1000 false false ex_f102 (ex_buf 102 12) :: OWrite ex_f102 (ex_buf 102 12) :: rs_post)).
    cbv zeta in H.
    change (firstn 4 ex_pre ++ OWrite ex_f101 (ex_buf 101 11)
              :: OCStore 102 1000 false false ex_f102 (ex_buf 102 12) :: OWrite ex_f102 (ex_buf 102 12) :: rs_post)
      with rs_ops in H.
    specialize (H rs_wf ltac:(vm_compute; reflexivity) ltac:(vm_compute; reflexivity)
                  ltac:(vm_compute; intuition congruence) 101).
    destruct (nack1 true (frun true (f_init 8) rs_ops) 101) as [[st' rs] stop] eqn:E.
    pose proof rs_nack as Hn. rewrite E in Hn. cbn [fst snd] in Hn.
    destruct (H st' rs stop eq_refl 0 ltac:(vm_compute; reflexivity)) as [Hx|Hx];
      rewrite Hn in Hx; discriminate.
Qed.

(* C07, layer 2: a renegotiation is deferred only while an offer is unanswered.
   negotiate sends no offer while the previous one is outstanding
   (have-local-offer) and marks the down connection; the answer triggers the
   deferred offer.  Invariant: the mark implies an outstanding offer, for every
   client, along every history - so what a subscriber was last offered is what
   its down connection holds, or an offer is outstanding whose answer will
   trigger the next one. *)
From Coq Require Import List Bool Arith PeanoNat Lia.
From Galene Require Import Model.Subscribe Proofs.SubscribeFrame Proofs.SubscribeInv
  Proofs.SubscribeStep Proofs.SubscribeHeap Proofs.SubscribeOwn Proofs.SubscribeOut
  Proofs.SubscribeTeardown Proofs.SubscribeExact Proofs.SubscribeFresh Proofs.SubscribeSync.
Import ListNotations.

Definition neg_ok (d : down) : Prop := d_neg d = true -> d_havelocal d = true.

Definition negs_ok (m : nat) (w : world) : Prop :=
  forall d, In d (c_down (w_cl w m)) -> neg_ok d.

Lemma replace_tracks_flags : forall d r l b d',
  replace_tracks d r l = (b, d') -> d_havelocal d' = d_havelocal d /\ d_neg d' = d_neg d.
Proof.
  unfold replace_tracks. intros d r l b d'.
  destruct (filter _ r); destruct (filter (fun p => negb (mem_pair p r)) (d_tracks d));
    intro H; inversion H; subst; simpl; auto.
Qed.

Lemma negotiate_downs_neg : forall m d r w x,
  In x (c_down (w_cl (negotiate m d r w) m)) -> In x (c_down (w_cl w m)) \/ neg_ok x.
Proof.
  intros m d r w x. unfold negotiate. destruct (d_havelocal d); autorewrite with sub; rewrite Nat.eqb_refl; intro H;
    apply in_replace_down in H; destruct H as [->|[[H _]|[H _]]]; auto; right; unfold neg_ok; simpl; auto.
Qed.

Lemma push_negs_ok : forall m id up ts r w,
  negs_ok m w -> negs_ok m (fst (push_down_conn m id up ts r w)).
Proof.
  intros m id up ts r w Hn. unfold push_down_conn.
  set (w1 := if Nat.eqb r 0 then w else del_down m r w).
  assert (N1 : negs_ok m w1).
  { unfold w1. destruct (Nat.eqb r 0); [exact Hn|]. intros d Hd. autorewrite with sub in Hd.
    rewrite Nat.eqb_refl in Hd. apply in_remove_down in Hd. apply Hn. tauto. }
  assert (Hclose : forall w' i, negs_ok m w' -> negs_ok m (close_down_conn m i false w')).
  { intros w' i H d Hd. unfold close_down_conn in Hd. autorewrite with sub in Hd. rewrite Nat.eqb_refl in Hd.
    apply in_remove_down in Hd. apply H. tauto. }
  assert (Hdef : forall w', negs_ok m w' -> negs_ok m (if Nat.eqb r 0 then w' else close_down_conn m r false w')).
  { intros w' H. destruct (Nat.eqb r 0); [exact H|apply Hclose; exact H]. }
  assert (Hset : forall w' d, neg_ok d -> negs_ok m w' -> negs_ok m (set_down_entry m d w')).
  { intros w' d Hd H x Hx. autorewrite with sub in Hx. rewrite Nat.eqb_refl in Hx.
    apply in_replace_down in Hx. destruct Hx as [->|[[Hx _]|[Hx _]]]; auto. }
  assert (Hneg : forall w' d r0, neg_ok d -> negs_ok m w' -> negs_ok m (negotiate m d r0 w')).
  { intros w' d r0 Hd H x Hx. destruct (negotiate_downs_neg _ _ _ _ _ Hx) as [X|X]; auto. }
  match goal with |- context [match fst ?s with _ => _ end] => destruct (fst s) as [|i0 sel0] end.
  - cbn [fst]. apply Hdef. apply Hclose. exact N1.
  - destruct up as [u|]; [|cbn [fst]; apply Hdef; apply Hclose; exact N1].
    unfold add_down_conn.
    destruct (lookup _ (c_up (w_cl w1 m))); [cbn [fst]; apply Hdef; exact N1|].
    destruct (get_down (uo_id (w_up w1 u)) (c_down (w_cl w1 m))) as [d0|] eqn:Eg.
    + destruct (get_down (uo_id (w_up w u)) (c_down (w_cl w1 m))) as [d1|] eqn:Eg1; [|cbn [fst]; apply Hdef; exact N1].
      destruct (replace_tracks d1 _ _) as [changed d'] eqn:Er.
      destruct (replace_tracks_same _ _ _ _ _ Er) as [R1 [R2 R3]].
      destruct (get_down_in _ _ _ Eg1) as [Hin1 _].
      destruct (replace_tracks_flags _ _ _ _ _ Er) as [F1 F2].
      assert (Hd' : neg_ok d') by (unfold neg_ok; rewrite F1, F2; apply N1; exact Hin1).
      destruct changed; cbn [fst]; [apply Hneg; auto|apply Hdef; apply Hset; auto].
    + destruct (uo_closed (w_up w1 u)); [cbn [fst]; apply Hdef; exact N1|].
      set (dn := mkDown (uo_id (w_up w1 u)) u None [] false false false).
      set (w2 := upd_cl m (fun c => set_down (c_down c ++ [dn]) c) w1).
      assert (N2 : negs_ok m w2).
      { intros d Hd. unfold w2 in Hd. rewrite upd_cl_same in Hd. simpl in Hd. apply in_app_iff in Hd.
        destruct Hd as [Hd|[<-|[]]]; [apply N1; exact Hd|unfold neg_ok; simpl; discriminate]. }
      destruct (get_down (uo_id (w_up w u)) (c_down (w_cl w2 m))) as [d1|] eqn:Eg1; [|cbn [fst]; apply Hdef; exact N2].
      destruct (replace_tracks d1 _ _) as [changed d'] eqn:Er.
      destruct (replace_tracks_same _ _ _ _ _ Er) as [R1 [R2 R3]].
      destruct (get_down_in _ _ _ Eg1) as [Hin1 _].
      destruct (replace_tracks_flags _ _ _ _ _ Er) as [F1 F2].
      assert (Hd' : neg_ok d') by (unfold neg_ok; rewrite F1, F2; apply N2; exact Hin1).
      destruct changed; cbn [fst]; [apply Hneg; auto|apply Hdef; apply Hset; auto].
Qed.


Lemma replace_down_twice : forall d1 d2 l, d_id d1 = d_id d2 ->
  replace_down d2 (replace_down d1 l) = replace_down d2 l.
Proof.
  intros d1 d2 l E. induction l as [|x r IH]; simpl; [reflexivity|].
  rewrite E. destruct (Nat.eqb_spec (d_id x) (d_id d2)) as [e|n]; simpl.
  - rewrite E, Nat.eqb_refl. reflexivity.
  - destruct (Nat.eqb_spec (d_id x) (d_id d2)); [contradiction|]. rewrite IH. reflexivity.
Qed.

Lemma negs_ok_step : forall w o m,
  Inv w -> ok_op w o -> negs_ok m w -> negs_ok m (step w o).
Proof.
  intros w o m I Hok Hn.
  pose proof (Inv_step w o I Hok) as I'.
  destruct (c_dead (w_cl (step w o) m)) eqn:Hdead.
  { intros d Hd. apply (inv_dead _ I') in Hdead. destruct (inv_nogroup _ I' m Hdead) as [_ [X _]].
    rewrite X in Hd. destruct Hd. }
  destruct (actor o) as [c|] eqn:Ha.
  - destruct (Nat.eqb_spec c m) as [e|ne].
    + subst c. destruct o as [c' msg|c'|c'|i|x k]; simpl in Ha; inversion Ha; subst c'.
      * destruct (step_own_msg_noerr w m msg Hdead) as [Es|[Hm [Hd [Hne Es]]]]; [rewrite Es; exact Hn|].
        rewrite Es.
        assert (Hclose : forall id0 msg0, negs_ok m (close_down_conn m id0 msg0 w)).
        { intros id0 msg0 d Hd0. destruct (close_down_conn_own m id0 msg0 w) as [_ [_ [_ X]]]. rewrite X in Hd0.
          apply in_remove_down in Hd0. apply Hn. tauto. }
        assert (Hset : forall d1, neg_ok d1 -> negs_ok m (set_down_entry m d1 w)).
        { intros d1 H1 x Hx. autorewrite with sub in Hx. rewrite Nat.eqb_refl in Hx.
          apply in_replace_down in Hx. destruct Hx as [->|[[Hx _]|[Hx _]]]; auto. }
        destruct msg as [g user pres op0|g|req|id req|id label replace s|id|id|id ok|dest|dest give].
        -- cbv beta iota zeta delta [handle_msg] in *. destruct (c_group (w_cl w m)); cbn [fst snd] in *; [exact Hn|].
           intros d Hd0. rewrite upd_cl_same in Hd0. apply Hn. exact Hd0.
        -- cbv beta iota zeta delta [handle_msg] in *. destruct (in_group g (w_cl w m)); cbn [fst snd] in *; [|exact Hn].
           intros d Hd0. destruct (leave_group_own m w) as [X|X]; [rewrite X in Hd0; destruct Hd0|rewrite X in Hd0; auto].
        -- cbv beta iota zeta delta [handle_msg] in *. destruct (c_group (w_cl w m)); cbn [fst snd] in *; [|exact Hn].
           intros d Hd0. autorewrite with sub in Hd0. rewrite upd_cl_same in Hd0. apply Hn. exact Hd0.
        -- cbv beta iota zeta delta [handle_msg] in *.
           destruct (get_down id (c_down (w_cl w m))) as [d0|] eqn:Eg; [|exact Hn].
           destruct (c_group (w_cl w m)); cbn [fst snd] in *; [|exact Hn].
           destruct (get_down_in _ _ _ Eg) as [Hin0 _].
           intros d Hd0. rewrite enq_c_down in Hd0. apply (Hset (down_set_req req d0)); [|exact Hd0].
           unfold neg_ok. simpl. apply Hn. exact Hin0.
        -- destruct (own_plain_msg w m (MOffer id label replace s) Logic.I Hne) as [_ [D _]].
           intros d Hd0. rewrite D in Hd0. auto.
        -- destruct (own_plain_msg w m (MClose id) Logic.I Hne) as [_ [D _]].
           intros d Hd0. rewrite D in Hd0. auto.
        -- cbv beta iota zeta delta [handle_msg] in *. destruct (Nat.eqb id 0); cbn [fst snd] in *; [exact Hn|apply Hclose].
        -- cbv beta iota zeta delta [handle_msg] in *. destruct (Nat.eqb id 0); cbn [fst snd] in *; [exact Hn|].
           destruct (get_down id (c_down (w_cl w m))) as [d0|] eqn:Eg; cbn [fst snd] in *; [|apply Hclose].
           destruct (ok && d_havelocal d0); cbn [fst snd] in *; [|apply Hclose].
           destruct (get_down_in _ _ _ Eg) as [Hin0 _].
           destruct (d_neg d0) eqn:En; cbn [fst snd] in *.
           ++ (* the deferred renegotiation is sent now *)
              intros d Hd0. unfold negotiate in Hd0. cbn [d_havelocal down_set_sig] in Hd0.
              autorewrite with sub in Hd0. rewrite Nat.eqb_refl in Hd0.
              rewrite replace_down_twice in Hd0 by reflexivity.
              apply in_replace_down in Hd0. destruct Hd0 as [->|[[Hd0 _]|[Hd0 _]]]; auto.
              unfold neg_ok. simpl. discriminate.
           ++ apply Hset. unfold neg_ok. simpl. discriminate.
        -- destruct (own_plain_msg w m (MKick dest) Logic.I Hne) as [_ [D _]].
           intros d Hd0. rewrite D in Hd0. auto.
        -- destruct (own_plain_msg w m (MPerm dest give) Logic.I Hne) as [_ [D _]].
           intros d Hd0. rewrite D in Hd0. auto.
      * destruct (Nat.ltb m (w_n w) && negb (c_dead (w_cl w m))) eqn:Eg.
        2:{ rewrite (step_noop w (OpPump m) m eq_refl Eg). exact Hn. }
        apply andb_prop in Eg. destruct Eg as [E1 E2]. apply Nat.ltb_lt in E1. apply negb_true_iff in E2.
        destruct (c_queue (w_cl w m)) as [|a q] eqn:Eq.
        { assert (E : step w (OpPump m) = w).
          { simpl. rewrite Eq. destruct (Nat.ltb m (w_n w) && negb (c_dead (w_cl w m))); reflexivity. }
          rewrite E. exact Hn. }
        destruct (step_own_pump_noerr w m a q Eq E1 E2 Hdead) as [Hne Es]. rewrite Es.
        set (w0 := upd_cl m (set_queue q) w).
        assert (N0 : negs_ok m w0) by (intros d Hd0; unfold w0 in Hd0; rewrite upd_cl_same in Hd0; apply Hn; exact Hd0).
        destruct a as [g id up ts r|g t id|g give| |].
        -- cbv beta iota zeta delta [handle_action]. destruct (in_group g (w_cl w0 m)); [|exact N0].
           apply push_negs_ok. exact N0.
        -- destruct (own_plain_action w0 m (AReqConns g t id) ltac:(discriminate)) as [_ [D _]].
           intros d Hd0. rewrite D in Hd0. auto.
        -- destruct (own_plain_action w0 m (AChangePerm g give) ltac:(discriminate)) as [_ [D _]].
           intros d Hd0. rewrite D in Hd0. auto.
        -- destruct (own_plain_action w0 m APermsChanged ltac:(discriminate)) as [_ [D _]].
           intros d Hd0. rewrite D in Hd0. auto.
        -- destruct (own_plain_action w0 m AKick ltac:(discriminate)) as [_ [D _]].
           intros d Hd0. rewrite D in Hd0. auto.
      * destruct (Nat.ltb m (w_n w) && negb (c_dead (w_cl w m))) eqn:Eg.
        -- exfalso. simpl in Hdead. rewrite Eg in Hdead. rewrite error_close_dead in Hdead. discriminate.
        -- rewrite (step_noop w (OpDisconnect m) m eq_refl Eg). exact Hn.
    + assert (P : passive m w (step w o)) by (apply step_passive; congruence).
      destruct P as [Hc _]. destruct (core_fields _ _ Hc) as [_ [_ [_ [_ [_ [_ [D _]]]]]]].
      intros d Hd0. rewrite D in Hd0. auto.
  - assert (P : passive m w (step w o)) by (apply step_passive; congruence).
    destruct P as [Hc _]. destruct (core_fields _ _ Hc) as [_ [_ [_ [_ [_ [_ [D _]]]]]]].
    intros d Hd0. rewrite D in Hd0. auto.
Qed.

Theorem deferred_only_while_outstanding : forall n ops m d,
  ok_run (init n) ops ->
  In d (c_down (w_cl (run (init n) ops) m)) -> d_neg d = true -> d_havelocal d = true.
Proof.
  intros n ops m d Hok.
  assert (H : forall ops w, Inv w -> negs_ok m w -> ok_run w ops -> negs_ok m (run w ops)).
  { induction ops0 as [|o r IH]; intros w I N Ho; [exact N|]. simpl in *. destruct Ho as [H1 H2].
    apply IH; auto; [apply Inv_step; auto|apply negs_ok_step; auto]. }
  intros Hin. apply (H ops (init n) (Inv_init n)); auto.
  intros x Hx. simpl in Hx. destruct Hx.
Qed.

(* C14, part 5: leaveGroup (group.DelClient and the resets) and the end of a
   connection preserve the invariant. *)
From Coq Require Import ZArith List Bool String Arith Lia.
From Galene Require Import Generated.Guards Model.Signal Model.SignalUsers
  Proofs.SignalFrame Proofs.SignalSafe Proofs.SignalUsersBase Proofs.SignalUsersFrame
  Proofs.SignalUsersInv Proofs.SignalUsersAnnounce.
Import ListNotations.
Open Scope string_scope.
Open Scope list_scope.

(* ------------------------------------------------------------------ *)
(* upd_group                                                           *)

Lemma find_group_in_map : forall gs g f g2,
  (forall gr, g_name (f gr) = g_name gr) ->
  find_group_in (map (fun gr => if String.eqb (g_name gr) g then f gr else gr) gs) g2 =
  if String.eqb g2 g then option_map f (find_group_in gs g) else find_group_in gs g2.
Proof.
  intros gs g f g2 Hf. induction gs as [|gr gs IH]; cbn [map find_group_in].
  - destruct (String.eqb g2 g); reflexivity.
  - assert (Hn : g_name (if String.eqb (g_name gr) g then f gr else gr) = g_name gr).
    { destruct (String.eqb (g_name gr) g); [apply Hf | reflexivity]. }
    rewrite Hn. destruct (String.eqb (g_name gr) g2) eqn:E2.
    + apply eqb_true in E2. subst g2. destruct (String.eqb (g_name gr) g) eqn:E; reflexivity.
    + rewrite IH. destruct (String.eqb g2 g) eqn:Eg; [|reflexivity].
      apply eqb_true in Eg. subst g2. rewrite E2. reflexivity.
Qed.

Lemma members_upd_group : forall w g f g2,
  (forall gr, g_name (f gr) = g_name gr) ->
  members (upd_group w g f) g2 =
  if String.eqb g2 g
  then match find_group w g with Some gr => g_members (f gr) | None => [] end
  else members w g2.
Proof.
  intros w g f g2 Hf. unfold members, find_group, upd_group. cbn [w_groups wset_groups].
  rewrite find_group_in_map by exact Hf.
  destruct (String.eqb g2 g); [|reflexivity].
  destruct (find_group_in (w_groups w) g); reflexivity.
Qed.

Lemma recording_upd_group : forall w g f g2,
  (forall gr, g_name (f gr) = g_name gr) -> (forall gr, g_recording (f gr) = g_recording gr) ->
  recording (upd_group w g f) g2 = recording w g2.
Proof.
  intros w g f g2 Hf Hr. unfold recording, find_group, upd_group. cbn [w_groups wset_groups].
  rewrite find_group_in_map by exact Hf.
  destruct (String.eqb g2 g) eqn:E; [|reflexivity]. apply eqb_true in E. subst g2.
  destruct (find_group_in (w_groups w) g); cbn; [apply Hr | reflexivity].
Qed.

Lemma names_upd_group : forall w g f,
  (forall gr, g_name (f gr) = g_name gr) ->
  map g_name (w_groups (upd_group w g f)) = map g_name (w_groups w).
Proof.
  intros w g f Hf. unfold upd_group. cbn [w_groups wset_groups]. rewrite map_map.
  apply map_ext. intros gr. destruct (String.eqb (g_name gr) g); [apply Hf | reflexivity].
Qed.

Lemma get_client_upd_group : forall w g f i, get_client (upd_group w g f) i = get_client w i.
Proof. reflexivity. Qed.

(* ------------------------------------------------------------------ *)
(* upd and enq_all on different clients commute                        *)

Lemma upd_nth_comm : forall (A : Type) (f g : A -> A) l i j, i <> j ->
  upd_nth i f (upd_nth j g l) = upd_nth j g (upd_nth i f l).
Proof.
  intros A f g l. induction l as [|x l IH]; intros [|i] [|j] H; cbn; try reflexivity; try congruence.
  f_equal. apply IH. congruence.
Qed.

Lemma upd_comm : forall w i j f g, i <> j -> upd (upd w i f) j g = upd (upd w j g) i f.
Proof.
  intros. unfold upd, wset_clients. cbn. f_equal. apply upd_nth_comm. congruence.
Qed.

Lemma upd_enq_all_comm : forall hs w h f a, ~ In h hs ->
  upd (enq_all w hs a) h f = enq_all (upd w h f) hs a.
Proof.
  induction hs as [|x hs IH]; intros w h f a Hn; [reflexivity|].
  unfold enq_all in *. cbn [fold_left]. rewrite IH by (intro; apply Hn; right; assumption).
  f_equal. unfold enq. apply upd_comm. intro. apply Hn. left. congruence.
Qed.

(* ------------------------------------------------------------------ *)
(* find on a filtered list                                             *)

Lemma find_filter : forall (P Q : nat -> bool) l,
  (forall x, In x l -> P x = true -> Q x = true) -> find P (filter Q l) = find P l.
Proof.
  intros P Q l. induction l as [|a l IH]; intros H; [reflexivity|]. cbn [filter find].
  destruct (Q a) eqn:Eq; cbn [find].
  - destruct (P a); [reflexivity|]. apply IH. intros. apply H; [right|]; assumption.
  - destruct (P a) eqn:Ep.
    + rewrite (H a (or_introl eq_refl) Ep) in Eq. discriminate.
    + apply IH. intros. apply H; [right|]; assumption.
Qed.

(* ------------------------------------------------------------------ *)
(* Detaching a member: it is removed from the member list, told so, and
   reset.  Its key becomes the pair still to be announced.             *)

Definition not_h (h : nat) : nat -> bool := fun x => negb (Nat.eqb x h).

Definition reset_client (c : client) : client :=
  set_group (set_requested (set_data (set_perms c []) []) []) None.

Definition detach (w : world) (h : nat) (g : str) : world :=
  upd (enq (upd_group w g (fun gr => gset_members gr (filter (not_h h) (g_members gr))))
           h (AJoined g "leave")) h reset_client.

Lemma members_detach : forall w h g g2,
  members (detach w h g) g2 = if String.eqb g2 g then filter (not_h h) (members w g) else members w g2.
Proof.
  intros. unfold detach. rewrite members_upd. unfold enq. rewrite members_upd.
  rewrite members_upd_group by reflexivity.
  destruct (String.eqb g2 g); [|reflexivity].
  unfold members. destruct (find_group w g); reflexivity.
Qed.

Lemma get_client_detach_self : forall w h g c, get_client w h = Some c ->
  get_client (detach w h g) h =
  Some (reset_client (set_queue c (c_queue c ++ [AJoined g "leave"]))).
Proof.
  intros. unfold detach.
  rewrite (get_client_upd_self _ h reset_client (set_queue c (c_queue c ++ [AJoined g "leave"]))); [reflexivity|].
  apply get_client_enq_self. rewrite get_client_upd_group. exact H.
Qed.

Lemma get_client_detach_other : forall w h g i, i <> h -> get_client (detach w h g) i = get_client w i.
Proof.
  intros. unfold detach. rewrite get_client_upd_other, get_client_enq_other by assumption.
  apply get_client_upd_group.
Qed.

Lemma in_filter_not_h : forall h x l, In x (filter (not_h h) l) <-> In x l /\ x <> h.
Proof.
  intros. rewrite filter_In. unfold not_h. rewrite negb_true_iff, Nat.eqb_neq. tauto.
Qed.

Lemma inv_detach : forall w s ph pend h c g,
  Inv_p w s ph pend None -> get_client w h = Some c -> c_group c = Some g ->
  Inv_p (detach w h g) s ph pend (Some (g, c_id c)).
Proof.
  intros w s ph pend h c g [HS HV] Hc Hg.
  set (w' := detach w h g).
  set (c' := reset_client (set_queue c (c_queue c ++ [AJoined g "leave"]))).
  assert (Hc' : get_client w' h = Some c') by (apply get_client_detach_self; exact Hc).
  assert (Ho : forall i, i <> h -> get_client w' i = get_client w i)
    by (intros; apply get_client_detach_other; assumption).
  assert (Hm : forall g2, members w' g2 =
                 if String.eqb g2 g then filter (not_h h) (members w g) else members w g2)
    by (intros; apply members_detach).
  assert (Hin : In h (members w g)) by (apply (s_memb w HS h c g Hc); exact Hg).
  assert (Hsub : forall g2 x, In x (members w' g2) -> In x (members w g2) /\ x <> h).
  { intros g2 x Hx. rewrite Hm in Hx. destruct (String.eqb g2 g) eqn:E.
    - apply eqb_true in E. subst g2. apply in_filter_not_h. exact Hx.
    - split; [exact Hx|]. intros ->. apply (s_memb w HS h c g2 Hc) in Hx.
      rewrite Hg in Hx. inversion Hx. subst. rewrite String.eqb_refl in E. discriminate. }
  assert (Hsup : forall g2 x, In x (members w g2) -> x <> h -> In x (members w' g2)).
  { intros g2 x Hx Hne. rewrite Hm. destruct (String.eqb g2 g) eqn:E; [|exact Hx].
    apply eqb_true in E. subst g2. apply in_filter_not_h. auto. }
  assert (Hrec : forall g2, recording w' g2 = recording w g2).
  { intros. unfold w', detach. rewrite recording_upd. unfold enq. rewrite recording_upd.
    apply recording_upd_group; reflexivity. }
  assert (HS' : Sinv w').
  { constructor.
    - unfold w', detach. cbn [w_groups upd enq wset_clients].
      rewrite names_upd_group by reflexivity. apply (s_names w HS).
    - intros i ci g2 Hi. destruct (Nat.eq_dec i h) as [->|Hne].
      + rewrite Hc' in Hi. inversion Hi; subst ci. cbn. split; [discriminate|].
        intros Hx. apply Hsub in Hx. destruct Hx as [_ Hx]. congruence.
      + rewrite (Ho i Hne) in Hi. rewrite (s_memb w HS i ci g2 Hi). split.
        * intros Hx. apply Hsup; assumption.
        * intros Hx. apply Hsub in Hx. tauto.
    - intros g2 x Hx. apply Hsub in Hx. destruct Hx as [Hx Hne].
      rewrite (Ho x Hne). apply (s_valid w HS g2 x Hx).
    - intros g2. rewrite Hm. destruct (String.eqb g2 g); [apply NoDup_filter|]; apply (s_nodup w HS).
    - intros i ci Hi Hcl. destruct (Nat.eq_dec i h) as [->|Hne].
      + rewrite Hc' in Hi. inversion Hi; subst ci. reflexivity.
      + rewrite (Ho i Hne) in Hi. apply (s_closed w HS i ci Hi Hcl).
    - intros g2 h1 h2 c1 c2 H1 H2 E1 E2 Hid. apply Hsub in H1, H2.
      destruct H1 as [H1 N1], H2 as [H2 N2]. rewrite (Ho _ N1) in E1. rewrite (Ho _ N2) in E2.
      eapply (s_ids w HS); eauto.
    - intros i ci Hi. destruct (Nat.eq_dec i h) as [->|Hne].
      + rewrite Hc' in Hi. inversion Hi; subst ci. cbn. apply (s_noq w HS h c Hc).
      + rewrite (Ho i Hne) in Hi. apply (s_noq w HS i ci Hi). }
  (* truth, away from the detached key *)
  assert (Hid : forall id x, has_id w' id x = has_id w id x).
  { intros id x. unfold has_id. destruct (Nat.eq_dec x h) as [->|Hne]; [|rewrite (Ho x Hne); reflexivity].
    rewrite Hc, Hc'. reflexivity. }
  assert (Ht : forall g2 id, (g2 <> g \/ id <> c_id c) -> truth w' g2 id = truth w g2 id).
  { intros g2 id Hne. unfold truth. rewrite !get_member_unfold, Hrec.
    assert (Hf : find (has_id w' id) (members w' g2) = find (has_id w id) (members w g2)).
    { rewrite (find_ext_eq _ _ _ (members w' g2) (Hid id)), Hm.
      destruct (String.eqb g2 g) eqn:E; [|reflexivity]. apply eqb_true in E. subst g2.
      apply find_filter. intros x Hx Hp. unfold not_h. apply negb_true_iff, Nat.eqb_neq. intros ->.
      unfold has_id in Hp. rewrite Hc in Hp. apply eqb_true in Hp.
      destruct Hne as [Hne | Hne]; congruence. }
    rewrite Hf. destruct (find (has_id w id) (members w g2)) as [x|] eqn:E; [|reflexivity].
    apply find_some in E. destruct E as [Hx Hp].
    destruct (Nat.eq_dec x h) as [->|Hxh]; [|rewrite (Ho x Hxh); reflexivity].
    exfalso. unfold has_id in Hp. rewrite Hc in Hp. apply eqb_true in Hp.
    apply (s_memb w HS h c g2 Hc) in Hx. destruct Hne as [Hne | Hne]; congruence. }
  split; [exact HS'|]. constructor.
  - intros i Hi. apply (v_seen _ _ _ _ _ HV). destruct (Nat.eq_dec i h) as [->|Hne]; [congruence|].
    rewrite <- (Ho i Hne). exact Hi.
  - intros i ci id Hi Hcl Hgr. destruct (Nat.eq_dec i h) as [->|Hne].
    + rewrite Hc' in Hi. inversion Hi; subst ci.
      rewrite (effq_ext ph pend h c c' [AJoined g "leave"]) by reflexivity.
      apply nm_ok_app_leave.
    + rewrite (Ho i Hne) in Hi. apply (v_nm _ _ _ _ _ HV i ci id Hi Hcl Hgr).
  - intros i ci g2 id Hi Hgr. destruct (Nat.eq_dec i h) as [->|Hne].
    { rewrite Hc' in Hi. inversion Hi; subst ci. cbn in Hgr. discriminate. }
    rewrite (Ho i Hne) in Hi.
    destruct (string_dec g2 g) as [->|Hg2]; [destruct (string_dec id (c_id c)) as [->|Hidne]|].
    + right. right. reflexivity.
    + rewrite Ht by (right; exact Hidne).
      destruct (v_view _ _ _ _ _ HV i ci g id Hi Hgr) as [H | [H | H]]; [left; exact H | | discriminate H].
      right. left. destruct H as (x & cx & Hx1 & Hx2 & Hx3 & Hx4).
      assert (Hxh : x <> h) by (intros ->; rewrite Hc in Hx2; inversion Hx2; congruence).
      exists x, cx. rewrite (Ho x Hxh). split; [apply Hsup; assumption | auto].
    + rewrite Ht by (left; exact Hg2).
      destruct (v_view _ _ _ _ _ HV i ci g2 id Hi Hgr) as [H | [H | H]]; [left; exact H | | discriminate H].
      right. left. destruct H as (x & cx & Hx1 & Hx2 & Hx3 & Hx4).
      assert (Hxh : x <> h).
      { intros ->. apply (s_memb w HS h c g2 Hc) in Hx1. congruence. }
      exists x, cx. rewrite (Ho x Hxh). split; [apply Hsup; assumption | auto].
Qed.

(* after the detachment nobody in the group has the departed id *)
Lemma truth_detach_none : forall w h c g, Sinv w -> get_client w h = Some c -> c_group c = Some g ->
  truth (detach w h g) g (c_id c) = None.
Proof.
  intros w h c g HS Hc Hg. unfold truth. rewrite get_member_unfold, members_detach, String.eqb_refl.
  assert (Hrec_id : String.eqb (c_id c) rec_id = false).
  { apply String.eqb_neq. apply (s_noq w HS h c Hc). }
  rewrite find_none.
  - rewrite Hrec_id, andb_false_r. reflexivity.
  - intros y Hy. apply in_filter_not_h in Hy. destruct Hy as [Hy Hne].
    unfold has_id. rewrite get_client_detach_other by exact Hne.
    destruct (get_client w y) as [cy|] eqn:Ey; [|reflexivity].
    apply String.eqb_neq. intros E. apply Hne.
    eapply (s_ids w HS g y h cy c); eauto. apply (s_memb w HS h c g Hc). exact Hg.
Qed.

(* leaveGroup *)
Lemma leave_group_decompose : forall w h c g,
  get_client w h = Some c -> c_group c = Some g -> Sinv w ->
  exists w2 c2, neutral w w2 /\ get_client w2 h = Some c2 /\ core c2 = core c /\
    leave_group w h =
    push_client_all (detach w2 h g) g (members (detach w2 h g) g) "delete" (c_id c) (c_username c) [] [].
Proof.
  intros w h c g Hc Hg HS. unfold leave_group. rewrite Hc, Hg. cbv zeta.
  set (w1 := del_all_ups (c_up c) w h).
  set (w2 := upd w1 h (fun c0 => set_down c0 [])).
  assert (Hn : neutral w w2).
  { unfold w2, w1. eapply neutral_trans; [apply neutral_del_all_ups|].
    apply neutral_upd_fields; reflexivity. }
  destruct (neutral_client w w2 h c Hn Hc) as (c2 & Hc2 & [Hco _]).
  exists w2, c2. split; [exact Hn|]. split; [exact Hc2|]. split; [exact Hco|].
  unfold push_client_all.
  set (w3 := upd_group w2 g _). set (w4 := enq w3 h (AJoined g "leave")).
  assert (Hmem : members (detach w2 h g) g = members w4 g).
  { unfold detach. rewrite members_upd. reflexivity. }
  rewrite Hmem. unfold detach. fold (not_h h).
  change (upd_group w2 g (fun gr => gset_members gr (filter (not_h h) (g_members gr)))) with w3.
  fold w4. fold reset_client.
  apply upd_enq_all_comm.
  unfold w4, enq. rewrite members_upd. unfold w3. rewrite members_upd_group by reflexivity.
  rewrite String.eqb_refl. destruct (find_group w2 g); [|intros []].
  cbn. intro Hx. apply in_filter_not_h in Hx. destruct Hx as [_ Hx]. congruence.
Qed.

Lemma inv_leave_group : forall w s ph pend h,
  Inv_p w s ph pend None -> Inv_p (leave_group w h) s ph pend None.
Proof.
  intros w s ph pend h HI.
  destruct (get_client w h) as [c|] eqn:Hc; [|unfold leave_group; rewrite Hc; exact HI].
  destruct (c_group c) as [g|] eqn:Hg; [|unfold leave_group; rewrite Hc, Hg; exact HI].
  destruct (leave_group_decompose w h c g Hc Hg (proj1 HI)) as (w2 & c2 & Hn & Hc2 & Hco & ->).
  pose proof (inv_neutral w w2 s ph pend None HI Hn) as HI2.
  assert (Hg2 : c_group c2 = Some g) by (unfold core in Hco; congruence).
  assert (Hid : c_id c2 = c_id c) by (unfold core in Hco; congruence).
  pose proof (inv_detach w2 s ph pend h c2 g HI2 Hc2 Hg2) as HI3. rewrite Hid in HI3.
  eapply inv_announce; [exact HI3 | intros; apply key_step_delete |].
  rewrite <- Hid. apply truth_detach_none; [apply HI2 | exact Hc2 | exact Hg2].
Qed.

Lemma leave_group_nogroup : forall w h c', get_client (leave_group w h) h = Some c' -> c_group c' = None.
Proof.
  intros w h c' H. apply leave_group_self in H.
  destruct H as [(c & Hc & Hg & Hgp) | [Hg _]]; [|exact Hg].
  unfold gp in Hgp. congruence.
Qed.

(* ------------------------------------------------------------------ *)
(* The end of a connection                                             *)

Lemma inv_close : forall w s h pend pend' c,
  Inv_p w s h pend None -> get_client w h = Some c -> c_group c = None ->
  Inv_p (upd w h (fun c0 => set_closed c0 true)) s h pend' None.
Proof.
  intros w s h pend pend' c [HS HV] Hc Hg.
  set (w' := upd w h (fun c0 => set_closed c0 true)).
  assert (Hc' : get_client w' h = Some (set_closed c true))
    by (apply (get_client_upd_self w h (fun c0 => set_closed c0 true) c Hc)).
  assert (Ho : forall i, i <> h -> get_client w' i = get_client w i)
    by (intros; apply get_client_upd_other; assumption).
  assert (Hnm : forall g, ~ In h (members w g)).
  { intros g Hin. apply (s_memb w HS h c g Hc) in Hin. congruence. }
  assert (HS' : Sinv w').
  { constructor; try apply HS.
    - intros i ci g Hi. destruct (Nat.eq_dec i h) as [->|Hne].
      + rewrite Hc' in Hi. inversion Hi; subst ci. cbn. apply (s_memb w HS h c g Hc).
      + rewrite (Ho i Hne) in Hi. apply (s_memb w HS i ci g Hi).
    - intros g x Hx. destruct (Nat.eq_dec x h) as [->|Hne]; [eauto|].
      rewrite (Ho x Hne). apply (s_valid w HS g x Hx).
    - intros i ci Hi Hcl. destruct (Nat.eq_dec i h) as [->|Hne].
      + rewrite Hc' in Hi. inversion Hi; subst ci. exact Hg.
      + rewrite (Ho i Hne) in Hi. apply (s_closed w HS i ci Hi Hcl).
    - intros g h1 h2 c1 c2 H1 H2 E1 E2 Hid.
      assert (N1 : h1 <> h) by (intros ->; eapply Hnm; eauto).
      assert (N2 : h2 <> h) by (intros ->; eapply Hnm; eauto).
      rewrite (Ho _ N1) in E1. rewrite (Ho _ N2) in E2. eapply (s_ids w HS); eauto.
    - intros i ci Hi. destruct (Nat.eq_dec i h) as [->|Hne].
      + rewrite Hc' in Hi. inversion Hi; subst ci. apply (s_noq w HS h c Hc).
      + rewrite (Ho i Hne) in Hi. apply (s_noq w HS i ci Hi). }
  assert (Ht : forall g id, truth w' g id = truth w g id).
  { intros. apply truth_ext; try reflexivity. intros x Hx.
    assert (x <> h) by (intros ->; eapply Hnm; eauto). rewrite (Ho x H). reflexivity. }
  split; [exact HS'|]. constructor.
  - intros i Hi. apply (v_seen _ _ _ _ _ HV). destruct (Nat.eq_dec i h) as [->|Hne]; [congruence|].
    rewrite <- (Ho i Hne). exact Hi.
  - intros i ci id Hi Hcl Hgr. destruct (Nat.eq_dec i h) as [->|Hne].
    + rewrite Hc' in Hi. inversion Hi; subst ci. discriminate Hcl.
    + rewrite (Ho i Hne) in Hi. rewrite effq_other by exact Hne.
      rewrite <- (effq_other h pend i ci Hne). apply (v_nm _ _ _ _ _ HV i ci id Hi Hcl Hgr).
  - intros i ci g id Hi Hgr. destruct (Nat.eq_dec i h) as [->|Hne].
    { rewrite Hc' in Hi. inversion Hi; subst ci. cbn in Hgr. congruence. }
    rewrite (Ho i Hne) in Hi. rewrite Ht, effq_other by exact Hne.
    rewrite <- (effq_other h pend i ci Hne).
    destruct (v_view _ _ _ _ _ HV i ci g id Hi Hgr) as [H | [H | H]]; [left; exact H | | discriminate H].
    right. left. destruct H as (x & cx & Hx1 & Hx2 & Hx3 & Hx4).
    assert (Hxh : x <> h) by (intros ->; eapply Hnm; eauto).
    exists x, cx. rewrite (Ho x Hxh). rewrite effq_other in * by exact Hxh. auto.
Qed.

Lemma leave_group_client : forall w s ph pend h c,
  Inv_p w s ph pend None -> get_client w h = Some c ->
  exists c1, get_client (leave_group w h) h = Some c1 /\ c_group c1 = None.
Proof.
  intros w s ph pend h c HI Hc.
  destruct (c_group c) as [g|] eqn:Hg.
  2:{ exists c. unfold leave_group. rewrite Hc, Hg. auto. }
  destruct (leave_group_decompose w h c g Hc Hg (proj1 HI)) as (w2 & c2 & Hn & Hc2 & Hco & ->).
  pose proof (inv_neutral w w2 s ph pend None HI Hn) as HI2.
  assert (Hg2 : c_group c2 = Some g) by (unfold core in Hco; congruence).
  pose proof (inv_detach w2 s ph pend h c2 g HI2 Hc2 Hg2) as [HS3 _].
  unfold push_client_all. rewrite get_client_enq_all by apply (s_nodup _ HS3).
  rewrite (get_client_detach_self w2 h g c2 Hc2).
  destruct (existsb _ _); cbn; eexists; split; reflexivity.
Qed.

Lemma inv_error_close : forall w s h pend e,
  Inv_p w s h pend None -> Inv_p (error_close w h e) s h [] None.
Proof.
  intros w s h pend e HI. unfold error_close.
  destruct (get_client w h) as [c|] eqn:Hc.
  2:{ (* no such client: the pending part is vacuous *)
    destruct HI as [HS HV]. split; [exact HS|]. constructor.
    - apply (v_seen _ _ _ _ _ HV).
    - intros i ci id Hi Hcl Hgr. assert (i <> h) by congruence.
      rewrite effq_other by assumption. rewrite <- (effq_other h pend i ci H).
      apply (v_nm _ _ _ _ _ HV i ci id Hi Hcl Hgr).
    - intros i ci g id Hi Hgr. assert (i <> h) by congruence.
      rewrite effq_other by assumption. rewrite <- (effq_other h pend i ci H).
      destruct (v_view _ _ _ _ _ HV i ci g id Hi Hgr) as [H0 | [H0 | H0]]; [left; exact H0 | | discriminate H0].
      right. left. destruct H0 as (x & cx & Hx1 & Hx2 & Hx3 & Hx4). assert (x <> h) by congruence.
      exists x, cx. rewrite effq_other in * by assumption. auto. }
  cbv zeta.
  pose proof (inv_leave_group w s h pend h HI) as H1.
  destruct (leave_group_client w s h pend h c HI Hc) as (c1 & Hc1 & Hg1).
  set (w1 := leave_group w h) in *.
  set (w2 := match e with
             | EProto s0 => send w1 h (out_error (c_id c) s0)
             | EUser s0 => send w1 h (out_error (c_id c) s0)
             | EKick id user message =>
                 send w1 h (mkOut "usermessage" "kicked" id "" (c_id c) user true []
                                  (if is_empty message then "you have been kicked out" else message)
                                  "" "" false)
             | _ => w1 end).
  set (w3 := send w2 h (mkOut "__close__" "" (fst (close_text e)) "" "" None false [] "" "" "" false)).
  assert (Hn : neutral w1 w3).
  { unfold w3, w2. destruct e; ntl. }
  pose proof (inv_neutral w1 w3 s h pend None H1 Hn) as H3.
  destruct (neutral_client w1 w3 h c1 Hn Hc1) as (c3 & Hc3 & [Hco3 _]).
  eapply inv_close; [exact H3 | exact Hc3 |]. unfold core in Hco3. congruence.
Qed.

(* C15, message-level part, over Model/Signal.v: exact effect of a chat /
   usermessage / clearchat message and of the replay on join on every outbox
   and every history, for every state (hence every reachable one), and
   provenance of every chat-like message and history entry over ALL operation
   sequences. *)
From Coq Require Import ZArith List Bool String Arith Lia.
From Galene Require Import Generated.Guards Model.Signal Proofs.SignalFrame Proofs.SignalSafe
  Proofs.SignalChatFrame Proofs.SignalChatInv.
Import ListNotations.
Open Scope string_scope.
Open Scope list_scope.
Open Scope nat_scope.

(* ------------------------------------------------------------------ *)
(* Exact deliveries                                                   *)

Definition add_out (c : client) (l : list outmsg) : client := set_out c (c_out c ++ l).

Lemma add_out_nil : forall c, add_out c [] = c.
Proof. intros []. unfold add_out. cbn. rewrite app_nil_r. reflexivity. Qed.
Lemma add_out_add_out : forall c l1 l2, add_out (add_out c l1) l2 = add_out c (l1 ++ l2).
Proof. intros. unfold add_out. cbn. rewrite app_assoc. reflexivity. Qed.

(* w' is w with L i appended to the outbox of client i, for every i; nothing
   else in any client record changes *)
Definition delivers (w w' : world) (L : nat -> list outmsg) : Prop :=
  forall i, get_client w' i = option_map (fun c => add_out c (L i)) (get_client w i).

Lemma delivers_refl : forall w, delivers w w (fun _ => []).
Proof. intros w i. destruct (get_client w i); cbn; [rewrite add_out_nil|]; reflexivity. Qed.

Lemma delivers_ext : forall w w' L L', (forall i, L i = L' i) -> delivers w w' L -> delivers w w' L'.
Proof. intros w w' L L' H D i. rewrite <- H. apply D. Qed.

Lemma delivers_trans : forall w w1 w2 L1 L2,
  delivers w w1 L1 -> delivers w1 w2 L2 -> delivers w w2 (fun i => L1 i ++ L2 i).
Proof.
  intros w w1 w2 L1 L2 D1 D2 i. rewrite D2, D1.
  destruct (get_client w i); cbn; [rewrite add_out_add_out|]; reflexivity.
Qed.

Lemma delivers_send : forall w h m,
  delivers w (send w h m) (fun i => if Nat.eqb i h then [m] else []).
Proof.
  intros w h m i. unfold send. rewrite get_client_upd.
  destruct (Nat.eqb i h); destruct (get_client w i); cbn; try reflexivity.
  rewrite add_out_nil. reflexivity.
Qed.

Lemma delivers_send_all : forall hs w m,
  delivers w (send_all w hs m) (fun i => repeat m (count_occ Nat.eq_dec hs i)).
Proof.
  induction hs as [|a hs IH]; intros w m.
  - apply delivers_refl.
  - unfold send_all. cbn [fold_left]. fold (send_all (send w a m) hs m).
    eapply delivers_ext; [|eapply delivers_trans; [apply delivers_send | apply IH]].
    intros i. cbn [count_occ]. destruct (Nat.eq_dec a i) as [->|Hne].
    + rewrite Nat.eqb_refl. reflexivity.
    + assert (Nat.eqb i a = false) by (apply Nat.eqb_neq; congruence). rewrite H. reflexivity.
Qed.

Lemma delivers_out : forall w w' L i c, delivers w w' L -> get_client w i = Some c ->
  exists c', get_client w' i = Some c' /\ c_out c' = c_out c ++ L i /\
             c_id c' = c_id c /\ c_group c' = c_group c /\ c_username c' = c_username c /\
             c_perms c' = c_perms c /\ c_queue c' = c_queue c /\ c_closed c' = c_closed c.
Proof.
  intros w w' L i c D Hc. specialize (D i). rewrite Hc in D. cbn in D.
  eexists. split; [exact D|]. cbn. repeat split; reflexivity.
Qed.

(* ------------------------------------------------------------------ *)
(* The message a chat/usermessage turns into                           *)

Definition chat_type (m : msg) : Prop := m_type m = "chat" \/ m_type m = "usermessage".

(* the id: the client's, or fresh ("?" stands for 8 random bytes) for a
   broadcast chat without id *)
Definition chat_id (m : msg) : str :=
  if String.eqb (m_type m) "chat" && is_empty (m_dest m) && is_empty (m_id m) then "?" else m_id m.

Definition chat_out (c : client) (m : msg) : outmsg :=
  mkOut (m_type m) (m_kind m) (chat_id m) (m_source m) (m_dest m) (m_username m)
        (mem "op" (c_perms c)) [] (value_text (m_value m)) "" "" false.

Definition chat_entry (m : msg) : chatentry :=
  mkChat (chat_id m) (m_source m) (m_username m) (m_kind m) (value_text (m_value m)).

(* exactly the broadcast messages of type chat are stored *)
Definition stores (m : msg) : bool := String.eqb (m_type m) "chat" && is_empty (m_dest m).

(* the two tests at the top of handleClientMessage *)
Definition spoof_source (c : client) (m : msg) : bool :=
  negb (is_empty (m_source m)) && negb (String.eqb (m_source m) (c_id c)).
Definition spoof_user (c : client) (m : msg) : bool :=
  negb (String.eqb (m_type m) "join") &&
  match m_username m with Some u => negb (String.eqb u (c_username c)) | None => false end.

Definition authentic_fields (c : client) (m : msg) : Prop :=
  (m_source m = "" \/ m_source m = c_id c) /\
  (m_username m = None \/ m_username m = Some (c_username c)).

Lemma is_empty_true : forall s, is_empty s = true <-> s = "".
Proof. intros s. unfold is_empty. apply String.eqb_eq. Qed.
Lemma is_empty_false : forall s, is_empty s = false <-> s <> "".
Proof. intros s. unfold is_empty. apply String.eqb_neq. Qed.

Lemma no_spoof_authentic : forall c m,
  spoof_source c m = false -> spoof_user c m = false -> m_type m <> "join" ->
  authentic_fields c m.
Proof.
  intros c m Hs Hu Ht. unfold spoof_source, spoof_user in *. split.
  - destruct (is_empty (m_source m)) eqn:E1; [left; apply is_empty_true; exact E1|].
    cbn in Hs. right. apply negb_false_iff in Hs. apply eqb_true. exact Hs.
  - apply String.eqb_neq in Ht. rewrite Ht in Hu. cbn in Hu.
    destruct (m_username m) as [u|]; [|left; reflexivity].
    right. apply negb_false_iff in Hu. apply eqb_true in Hu. subst. reflexivity.
Qed.

Lemma authentic_no_spoof : forall c m,
  authentic_fields c m -> spoof_source c m = false /\ spoof_user c m = false.
Proof.
  intros c m [[Hs|Hs] [Hu|Hu]]; unfold spoof_source, spoof_user; rewrite Hs, Hu;
    cbn; rewrite ?String.eqb_refl; cbn; rewrite ?andb_false_r; auto.
Qed.

Lemma chat_type_not_join : forall m, chat_type m -> m_type m <> "join".
Proof. intros m [H|H]; rewrite H; discriminate. Qed.

(* ------------------------------------------------------------------ *)
(* handleClientMessage on a chat / usermessage                         *)

Lemma hcm_spoof_source : forall w h c m, spoof_source c m = true ->
  handle_client_message w h c m = failed w (EProto "spoofed client id") Invalid.
Proof. intros w h c m H. unfold handle_client_message. unfold spoof_source in H. rewrite H. reflexivity. Qed.

Lemma hcm_spoof_user : forall w h c m, spoof_source c m = false -> spoof_user c m = true ->
  handle_client_message w h c m = failed w (EProto "spoofed username") Invalid.
Proof.
  intros w h c m H1 H2. unfold handle_client_message. unfold spoof_source in H1. unfold spoof_user in H2.
  rewrite H1, H2. reflexivity.
Qed.

Lemma hcm_chat : forall w h c m, chat_type m ->
  spoof_source c m = false -> spoof_user c m = false ->
  handle_client_message w h c m = handle_chat w h c m.
Proof.
  intros w h c m Ht H1 H2. unfold handle_client_message.
  unfold spoof_source in H1. unfold spoof_user in H2. rewrite H1, H2. cbv zeta.
  destruct Ht as [Ht|Ht]; rewrite Ht; reflexivity.
Qed.

Lemma needs_member_chat : forall m, chat_type m -> needs_member (m_type m) (m_kind m) = true.
Proof. intros m [H|H]; rewrite H; [apply nm_chat | apply nm_usermessage]. Qed.

(* not a member: refused, the sender is told, nothing else happens *)
Lemma handle_chat_nonmember : forall w h c m, chat_type m -> c_group c = None ->
  handle_chat w h c m = refused (send_error w h c "join a group first") JoinFirst.
Proof. intros w h c m Ht Hg. unfold handle_chat. rewrite needs_member_chat by exact Ht. rewrite Hg. reflexivity. Qed.

(* a member without the permission (message; caption for chat/caption) *)
Lemma handle_chat_noperm : forall w h c m g, chat_type m -> c_group c = Some g ->
  has_perms c (m_type m) (m_kind m) = false ->
  handle_chat w h c m = refused (send_error w h c "not authorised") NotAuth.
Proof.
  intros w h c m g Ht Hg Hp. unfold handle_chat. rewrite needs_member_chat by exact Ht.
  rewrite Hg, Hp. reflexivity.
Qed.

Definition chat_world (w : world) (g : str) (m : msg) : world :=
  if stores m
  then upd_group w g (fun gr => gset_history gr (hist_add (g_history gr) (chat_entry m)))
  else w.

Lemma handle_chat_member : forall w h c m g, chat_type m -> c_group c = Some g ->
  has_perms c (m_type m) (m_kind m) = true ->
  handle_chat w h c m =
  let w1 := chat_world w g m in
  if is_empty (m_dest m) then
    ok (send_all w1 (if m_noecho m then others w1 g h else members w1 g) (chat_out c m))
  else match get_member w1 g (m_dest m) with
       | None => ok (send_error w1 h c "user unknown")
       | Some d => ok (send w1 d (chat_out c m))
       end.
Proof.
  intros w h c m g Ht Hg Hp. unfold handle_chat. rewrite needs_member_chat by exact Ht.
  rewrite Hg, Hp. reflexivity.
Qed.

Lemma chat_world_clients : forall w g m i, get_client (chat_world w g m) i = get_client w i.
Proof. intros. unfold chat_world. destruct (stores m); reflexivity. Qed.

Lemma chat_world_members : forall w g m g', members (chat_world w g m) g' = members w g'.
Proof.
  intros. unfold chat_world. destruct (stores m); [|reflexivity].
  rewrite members_upd_group by (intro; reflexivity).
  unfold members. destruct (String.eqb g' g); [|reflexivity]. destruct (find_group w g'); reflexivity.
Qed.

Lemma hist_of_upd_group : forall w g f g',
  (forall gr, g_name (f gr) = g_name gr) ->
  hist_of (upd_group w g f) g' =
  if String.eqb g' g
  then match find_group w g' with Some gr => g_history (f gr) | None => [] end
  else hist_of w g'.
Proof.
  intros w g f g' Hf. unfold hist_of. rewrite find_group_upd_group by exact Hf.
  destruct (find_group w g') as [gr|] eqn:Eg; cbn.
  - rewrite (find_group_name _ _ _ Eg). destruct (String.eqb g' g); reflexivity.
  - destruct (String.eqb g' g); reflexivity.
Qed.

(* the history after a chat: the sender's group gets the entry iff the
   message is a broadcast of type chat; no other history changes *)
Lemma chat_world_hist : forall w g m g',
  find_group w g <> None ->
  hist_of (chat_world w g m) g' =
  if stores m && String.eqb g' g then hist_add (hist_of w g') (chat_entry m) else hist_of w g'.
Proof.
  intros w g m g' Hex. unfold chat_world. destruct (stores m); cbn [andb]; [|reflexivity].
  rewrite hist_of_upd_group by (intro; reflexivity).
  destruct (String.eqb g' g) eqn:E; [|reflexivity]. apply eqb_true in E. subst g'.
  unfold hist_of. destruct (find_group w g); [reflexivity | congruence].
Qed.

Lemma get_member_chat_world : forall w g m g' id,
  get_member (chat_world w g m) g' id = get_member w g' id.
Proof.
  intros. apply get_member_same; [|apply chat_world_members].
  intro i. rewrite chat_world_clients. reflexivity.
Qed.

Lemma delivers_chat_world : forall w g m w' L,
  delivers (chat_world w g m) w' L -> delivers w w' L.
Proof. intros w g m w' L D i. rewrite D, chat_world_clients. reflexivity. Qed.

(* ------------------------------------------------------------------ *)
(* leaveGroup sends nothing                                            *)

Definition out_same (w w' : world) : Prop := forall i, out_of w' i = out_of w i.

Lemma os_refl : forall w, out_same w w.
Proof. intros w i. reflexivity. Qed.
Lemma os_trans : forall a b c, out_same a b -> out_same b c -> out_same a c.
Proof. intros a b c H1 H2 i. rewrite H2, H1. reflexivity. Qed.
Lemma os_peel : forall a b c, out_same b c -> out_same a b -> out_same a c.
Proof. intros. eapply os_trans; eauto. Qed.
Lemma os_upd : forall w h f, (forall c, c_out (f c) = c_out c) -> out_same w (upd w h f).
Proof.
  intros w h f Hf i. rewrite out_of_upd. destruct (Nat.eqb i h); [|reflexivity].
  unfold out_of. destruct (get_client w i); [apply Hf | reflexivity].
Qed.
Lemma os_enq : forall w h a, out_same w (enq w h a).
Proof. intros. apply os_upd. intro; reflexivity. Qed.
Lemma os_enq_all : forall hs w a, out_same w (enq_all w hs a).
Proof.
  induction hs as [|x hs IH]; intros w a; [apply os_refl|].
  unfold enq_all. cbn [fold_left]. eapply os_trans; [apply os_enq | apply IH].
Qed.
Lemma os_upd_group : forall w g f, out_same w (upd_group w g f).
Proof. intros w g f i. reflexivity. Qed.
Lemma os_del_up_conn : forall w h id push, out_same w (fst (del_up_conn w h id push)).
Proof.
  intros. unfold del_up_conn.
  destruct (get_client w h) as [c|]; [|apply os_refl].
  destruct (find_up c id); [|apply os_refl]. cbn [fst].
  destruct (c_group c); [destruct push|].
  - eapply os_peel; [apply os_enq_all | apply os_upd; intro; reflexivity].
  - apply os_upd; intro; reflexivity.
  - apply os_upd; intro; reflexivity.
Qed.
Lemma os_del_all_ups : forall l w h, out_same w (del_all_ups l w h).
Proof.
  induction l as [|u l IH]; intros w h; cbn [del_all_ups]; [apply os_refl|].
  eapply os_trans; [apply os_del_up_conn | apply IH].
Qed.

Lemma leave_group_out : forall w h, out_same w (leave_group w h).
Proof.
  intros w h. unfold leave_group.
  destruct (get_client w h) as [c|]; [|apply os_refl].
  destruct (c_group c); [|apply os_refl]. cbv zeta.
  unfold push_client_all.
  eapply os_peel; [apply os_upd; intro; reflexivity|].
  eapply os_peel; [apply os_enq_all|].
  eapply os_peel; [apply os_enq|].
  eapply os_peel; [apply os_upd_group|].
  eapply os_peel; [apply os_upd; intro; reflexivity|].
  apply os_del_all_ups.
Qed.

Lemma leave_group_closed : forall w h i,
  option_map c_closed (get_client (leave_group w h) i) = option_map c_closed (get_client w i).
Proof.
  intros w h i.
  assert (G : forall w h f, (forall c, c_closed (f c) = c_closed c) ->
           option_map c_closed (get_client (upd w h f) i) = option_map c_closed (get_client w i)).
  { intros w0 h0 f Hf. rewrite get_client_upd. destruct (Nat.eqb i h0); [|reflexivity].
    destruct (get_client w0 i); cbn; [rewrite Hf|]; reflexivity. }
  assert (GA : forall hs w a,
           option_map c_closed (get_client (enq_all w hs a) i) = option_map c_closed (get_client w i)).
  { induction hs as [|x hs IH]; intros w0 a; [reflexivity|].
    unfold enq_all. cbn [fold_left]. fold (enq_all (enq w0 x a) hs a). rewrite IH.
    apply G. intro; reflexivity. }
  assert (GD : forall w h id push,
           option_map c_closed (get_client (fst (del_up_conn w h id push)) i) =
           option_map c_closed (get_client w i)).
  { intros w0 h0 id push. unfold del_up_conn.
    destruct (get_client w0 h0) as [c|]; [|reflexivity].
    destruct (find_up c id); [|reflexivity]. cbn [fst].
    destruct (c_group c); [destruct push|]; rewrite ?GA; apply G; intro; reflexivity. }
  assert (GL : forall l w h,
           option_map c_closed (get_client (del_all_ups l w h) i) = option_map c_closed (get_client w i)).
  { induction l as [|u l IH]; intros w0 h0; cbn [del_all_ups]; [reflexivity|]. rewrite IH. apply GD. }
  unfold leave_group.
  destruct (get_client w h) as [c|] eqn:Ec; [|reflexivity].
  destruct (c_group c); [|reflexivity]. cbv zeta.
  rewrite G by (intro; reflexivity). unfold push_client_all. rewrite GA.
  unfold enq. rewrite G by (intro; reflexivity).
  change (get_client (upd_group ?w0 _ _) i) with (get_client w0 i).
  rewrite G by (intro; reflexivity). apply GL.
Qed.

(* ------------------------------------------------------------------ *)
(* One step of the scheduler on a chat-like message                    *)

Definition close_msg (code : str) : outmsg :=
  mkOut "__close__" "" code "" "" None false [] "" "" "" false.

(* the end of a connection on an error, as seen by everybody: only the
   client itself is sent anything, it ends up closed and in no group, no
   history changes, member lists only shrink *)
Definition err_msgs (c : client) (e : err) : list outmsg :=
  match e with
  | EProto s => [out_error (c_id c) s]
  | EUser s => [out_error (c_id c) s]
  | EKick id user message =>
      [mkOut "usermessage" "kicked" id "" (c_id c) user true []
             (if is_empty message then "you have been kicked out" else message) "" "" false]
  | _ => []
  end.

Lemma error_close_spec : forall w h c e,
  MInv w -> get_client w h = Some c ->
  let w' := error_close w h e in
  (exists c', get_client w' h = Some c' /\ c_closed c' = true /\ c_group c' = None /\
              c_id c' = c_id c /\
              c_out c' = c_out c ++ err_msgs c e ++ [close_msg (fst (close_text e))]) /\
  (forall i, i <> h -> out_of w' i = out_of w i) /\
  (forall g, hist_of w' g = hist_of w g) /\
  (forall g, ~ In h (members w' g)) /\
  (forall g, incl (members w' g) (members w g)).
Proof.
  intros w h c e HI Hc w'.
  pose proof (leave_group_out w h) as Hlo.
  (* the world after leaveGroup *)
  set (wl := leave_group w h) in *.
  assert (Hcl : exists cl, get_client wl h = Some cl /\ c_group cl = None /\ c_id cl = c_id c /\
                           c_out cl = c_out c).
  { destruct (c_group c) as [g|] eqn:Eg.
    - destruct (leave_group_self w h c g Hc Eg) as (cl & Hcl & Hgl & Hidl).
      exists cl. repeat split; auto.
      specialize (Hlo h). unfold out_of in Hlo. fold wl in Hcl. rewrite Hcl, Hc in Hlo. exact Hlo.
    - unfold wl. rewrite (leave_group_nogroup w h c Hc Eg). exists c. auto. }
  destruct Hcl as (cl & Hcl & Hgl & Hidl & Hol).
  (* what is sent after leaveGroup goes to h only *)
  assert (Hw' : exists l, w' = upd (send (fold_left (fun w m => send w h m) l wl) h
                                   (close_msg (fst (close_text e)))) h (fun c => set_closed c true) /\
                          l = err_msgs c e).
  { unfold w', error_close. rewrite Hc. cbv zeta. fold wl. exists (err_msgs c e). split; [|reflexivity].
    unfold close_msg. destruct e; reflexivity. }
  destruct Hw' as (l & Hw' & Hl).
  assert (Hfold : forall l w0 c0, get_client w0 h = Some c0 ->
            get_client (fold_left (fun w m => send w h m) l w0) h = Some (add_out c0 l) /\
            (forall i, i <> h -> get_client (fold_left (fun w m => send w h m) l w0) i = get_client w0 i) /\
            w_groups (fold_left (fun w m => send w h m) l w0) = w_groups w0).
  { induction l0 as [|m l0 IH]; intros w0 c0 H0; cbn [fold_left].
    - rewrite add_out_nil. auto.
    - assert (H1 : get_client (send w0 h m) h = Some (add_out c0 [m])).
      { unfold send. rewrite get_client_upd, Nat.eqb_refl, H0. reflexivity. }
      destruct (IH _ _ H1) as (A & Bq & C). rewrite add_out_add_out in A. split; [exact A|]. split.
      + intros i Hi. rewrite Bq by exact Hi. unfold send. rewrite get_client_upd.
        destruct (Nat.eqb_spec i h); [congruence | reflexivity].
      + rewrite C. reflexivity. }
  destruct (Hfold l wl cl Hcl) as (Fh & Fo & Fg).
  split; [|split; [|split; [|split]]].
  - rewrite Hw'. rewrite get_client_upd, Nat.eqb_refl. unfold send at 1.
    rewrite get_client_upd, Nat.eqb_refl, Fh. cbn. eexists. split; [reflexivity|]. cbn.
    rewrite Hol, Hl, <- app_assoc. auto.
  - intros i Hi. rewrite Hw'. unfold out_of. rewrite get_client_upd.
    destruct (Nat.eqb_spec i h); [congruence|]. unfold send. rewrite get_client_upd.
    destruct (Nat.eqb_spec i h); [congruence|]. rewrite Fo by exact Hi.
    apply (Hlo i).
  - intros g. eapply fr_hist. apply (error_close_fr none).
  - intros g Hin.
    assert (Hm : members w' g = members wl g).
    { apply members_groups_eq. rewrite Hw'. cbn [upd wset_clients w_groups send]. exact Fg. }
    rewrite Hm in Hin. unfold wl in Hin.
    destruct (c_group c) as [g0|] eqn:Eg.
    + rewrite (leave_group_members w h c g0 Hc Eg) in Hin.
      destruct (String.eqb g g0) eqn:E.
      * apply filter_neq_In in Hin. destruct Hin as [_ Hne]. congruence.
      * destruct (mi_mem_group w HI g h Hin) as (c0 & Hc0 & Hg0).
        rewrite Hc in Hc0. inversion Hc0; subst c0. rewrite Eg in Hg0. inversion Hg0; subst.
        rewrite String.eqb_refl in E. discriminate.
    + rewrite (leave_group_nogroup w h c Hc Eg) in Hin.
      destruct (mi_mem_group w HI g h Hin) as (c0 & Hc0 & Hg0). congruence.
  - intros g j Hin.
    assert (Hm : members w' g = members wl g).
    { apply members_groups_eq. rewrite Hw'. cbn [upd wset_clients w_groups send]. exact Fg. }
    rewrite Hm in Hin. unfold wl in Hin.
    destruct (c_group c) as [g0|] eqn:Eg.
    + rewrite (leave_group_members w h c g0 Hc Eg) in Hin.
      destruct (String.eqb g g0); [apply filter_neq_In in Hin; tauto | exact Hin].
    + rewrite (leave_group_nogroup w h c Hc Eg) in Hin. exact Hin.
Qed.


(* ------------------------------------------------------------------ *)
(* Who is a member                                                     *)

Definition member_of (w : world) (i : nat) (g : str) : bool :=
  match get_client w i with
  | Some ci => opt_eqb (c_group ci) (Some g)
  | None => false
  end.

Lemma opt_eqb_some : forall a g, opt_eqb a (Some g) = true <-> a = Some g.
Proof.
  intros [x|] g; cbn; split; intro H; try discriminate.
  - apply eqb_true in H. congruence.
  - inversion H. apply String.eqb_refl.
Qed.

Lemma member_of_In : forall w i g, MInv w -> member_of w i g = true <-> In i (members w g).
Proof.
  intros w i g Hi. unfold member_of. split.
  - destruct (get_client w i) as [ci|] eqn:Ec; [|discriminate]. intro H.
    apply opt_eqb_some in H. eapply mi_group_mem; eauto.
  - intro H. destruct (mi_mem_group w Hi g i H) as (c & Hc & Hg). rewrite Hc.
    apply opt_eqb_some. exact Hg.
Qed.

Lemma count_members : forall w g i, MInv w ->
  count_occ Nat.eq_dec (members w g) i = if member_of w i g then 1 else 0.
Proof.
  intros w g i Hi. pose proof (mi_nodup w Hi g) as Hn.
  rewrite (NoDup_count_occ Nat.eq_dec) in Hn. specialize (Hn i).
  destruct (member_of w i g) eqn:Em.
  - apply member_of_In in Em; [|exact Hi]. apply (count_occ_In Nat.eq_dec) in Em. lia.
  - destruct (count_occ Nat.eq_dec (members w g) i) eqn:Ec; [reflexivity|].
    assert (Hin : In i (members w g)) by (apply (count_occ_In Nat.eq_dec); lia).
    apply member_of_In in Hin; [|exact Hi]. congruence.
Qed.

Lemma count_filter_neq : forall l h i,
  count_occ Nat.eq_dec (filter (fun x => negb (Nat.eqb x h)) l) i =
  if Nat.eqb i h then 0 else count_occ Nat.eq_dec l i.
Proof.
  induction l as [|a l IH]; intros h i; cbn [filter count_occ].
  - destruct (Nat.eqb i h); reflexivity.
  - destruct (Nat.eqb_spec a h) as [->|Hne]; cbn [negb].
    + rewrite IH. destruct (Nat.eq_dec h i) as [->|Hn].
      * rewrite Nat.eqb_refl. reflexivity.
      * destruct (Nat.eqb i h); reflexivity.
    + cbn [count_occ]. rewrite IH. destruct (Nat.eq_dec a i) as [->|Hn].
      * assert (Nat.eqb i h = false) by (apply Nat.eqb_neq; exact Hne). rewrite H. reflexivity.
      * reflexivity.
Qed.

(* g.GetClient(id) in a reachable state: THE member with that id *)
Lemma get_member_spec : forall w g d j, MInv w ->
  get_member w g d = Some j <->
  exists cj, get_client w j = Some cj /\ c_group cj = Some g /\ c_id cj = d.
Proof.
  intros w g d j Hi. split.
  - intros H. apply get_member_some in H. destruct H as (Hin & cj & Hc & Hid).
    destruct (mi_mem_group w Hi g j Hin) as (c0 & Hc0 & Hg0). rewrite Hc in Hc0. inversion Hc0; subst.
    exists c0. auto.
  - intros (cj & Hc & Hg & Hid).
    assert (Hin : In j (members w g)) by (eapply mi_group_mem; eauto).
    destruct (get_member w g d) as [j'|] eqn:E.
    + apply get_member_some in E. destruct E as (Hin' & cj' & Hc' & Hid').
      f_equal. eapply (mi_ids w Hi g j' j); eauto. congruence.
    + exfalso. eapply get_member_none; eauto.
Qed.

Lemma get_member_none_spec : forall w g d, MInv w ->
  get_member w g d = None <->
  forall j cj, get_client w j = Some cj -> c_group cj = Some g -> c_id cj <> d.
Proof.
  intros w g d Hi. split.
  - intros H j cj Hc Hg. eapply get_member_none; eauto. eapply mi_group_mem; eauto.
  - intros H. destruct (get_member w g d) as [j|] eqn:E; [|reflexivity].
    apply (get_member_spec w g d j Hi) in E. destruct E as (cj & Hc & Hg & Hid).
    exfalso. eapply H; eauto.
Qed.

(* ------------------------------------------------------------------ *)
(* The permission a chat needs (tied to Generated/Guards.v)            *)

Lemma required_chat : forall k,
  required "chat" k = if String.eqb k "caption" then ["caption"] else ["message"].
Proof.
  intros k. unfold required, guard_of, guards.
  cbn [lookup_guard String.eqb Ascii.eqb Bool.eqb andb].
  destruct (String.eqb k "caption") eqn:E1.
  - reflexivity.
  - destruct (String.eqb k "_"); reflexivity.
Qed.

Lemma required_usermessage : forall k, required "usermessage" k = ["message"].
Proof.
  intros k. unfold required, guard_of, guards.
  cbn [lookup_guard String.eqb Ascii.eqb Bool.eqb andb].
  destruct (String.eqb k "_"); reflexivity.
Qed.

Lemma required_clearchat : required "groupaction" "clearchat" = ["op"].
Proof. reflexivity. Qed.

Lemma subset_single : forall p l, subset [p] l = mem p l.
Proof. intros. unfold subset. cbn. apply andb_true_r. Qed.

(* chat needs `message`, a caption (type chat, kind caption) needs `caption`,
   a usermessage of any kind needs `message` *)
Lemma has_perms_chat : forall c k,
  has_perms c "chat" k = mem (if String.eqb k "caption" then "caption" else "message") (c_perms c).
Proof.
  intros. unfold has_perms. rewrite required_chat.
  destruct (String.eqb k "caption"); apply subset_single.
Qed.
Lemma has_perms_usermessage : forall c k, has_perms c "usermessage" k = mem "message" (c_perms c).
Proof. intros. unfold has_perms. rewrite required_usermessage. apply subset_single. Qed.
Lemma has_perms_clearchat : forall c, has_perms c "groupaction" "clearchat" = mem "op" (c_perms c).
Proof. intros. unfold has_perms. rewrite required_clearchat. apply subset_single. Qed.

(* the permission the message needs, as the code computes it *)
Definition chat_perm (m : msg) : str :=
  if String.eqb (m_type m) "chat" && String.eqb (m_kind m) "caption" then "caption" else "message".

Lemma has_perms_chat_type : forall c m, chat_type m ->
  has_perms c (m_type m) (m_kind m) = mem (chat_perm m) (c_perms c).
Proof.
  intros c m [H|H]; unfold chat_perm; rewrite H.
  - rewrite has_perms_chat. cbn [String.eqb Ascii.eqb Bool.eqb andb].
    destruct (String.eqb (m_kind m) "caption"); reflexivity.
  - rewrite has_perms_usermessage. reflexivity.
Qed.

(* ------------------------------------------------------------------ *)
(* Steps of the scheduler                                             *)

Lemma step_msg_ok : forall w h c m w',
  get_client w h = Some c -> c_closed c = false ->
  forall a, handle_client_message w h c m = Ok (mkRes w' ENone a) ->
  step w (OpMsg h m) = Running w' (RAuth a ENone).
Proof.
  intros w h c m w' Hc Hcl a H. cbn [step]. unfold step_msg. rewrite Hc, Hcl, H. reflexivity.
Qed.

Lemma step_msg_err : forall w h c m w1 e a,
  get_client w h = Some c -> c_closed c = false -> e <> ENone ->
  handle_client_message w h c m = Ok (mkRes w1 e a) ->
  step w (OpMsg h m) = Running (error_close w1 h e) (RAuth a e).
Proof.
  intros w h c m w1 e a Hc Hcl He H. cbn [step]. unfold step_msg. rewrite Hc, Hcl, H.
  unfold finish. cbn [r_err r_world r_auth]. destruct e; try reflexivity. congruence.
Qed.

(* --- spoofing: the connection is closed, nothing is delivered, no history
   changes --- *)
Definition spoofed (c : client) (m : msg) : Prop :=
  (m_source m <> "" /\ m_source m <> c_id c) \/
  (m_type m <> "join" /\ exists u, m_username m = Some u /\ u <> c_username c).

Lemma spoofed_iff : forall c m,
  spoofed c m <-> spoof_source c m = true \/ spoof_user c m = true.
Proof.
  intros c m. unfold spoofed, spoof_source, spoof_user. split.
  - intros [[H1 H2] | [H1 (u & Hu & Hne)]].
    + left. apply is_empty_false in H1. rewrite H1. apply String.eqb_neq in H2. rewrite H2. reflexivity.
    + right. apply String.eqb_neq in H1. rewrite H1, Hu. apply String.eqb_neq in Hne. rewrite Hne. reflexivity.
  - intros [H|H].
    + left. apply andb_prop in H. destruct H as [H1 H2].
      apply negb_true_iff in H1, H2. split; [apply is_empty_false; exact H1 | apply String.eqb_neq; exact H2].
    + right. apply andb_prop in H. destruct H as [H1 H2]. apply negb_true_iff in H1.
      split; [apply String.eqb_neq; exact H1|].
      destruct (m_username m) as [u|]; [|discriminate]. exists u. split; [reflexivity|].
      apply negb_true_iff in H2. apply String.eqb_neq. exact H2.
Qed.

Theorem spoof_closes : forall w h c m,
  MInv w -> get_client w h = Some c -> c_closed c = false -> spoofed c m ->
  exists s, (s = "spoofed client id" \/ s = "spoofed username") /\
  let w' := error_close w h (EProto s) in
  step w (OpMsg h m) = Running w' (RAuth Invalid (EProto s)) /\
  (exists c', get_client w' h = Some c' /\ c_closed c' = true /\ c_group c' = None /\
              c_out c' = c_out c ++ [out_error (c_id c) s; close_msg "protocol"]) /\
  (forall i, i <> h -> out_of w' i = out_of w i) /\
  (forall g, hist_of w' g = hist_of w g) /\
  (forall g, ~ In h (members w' g)) /\
  (forall m', step w' (OpMsg h m') = Running w' RDead).
Proof.
  intros w h c m Hi Hc Hcl Hs. apply spoofed_iff in Hs.
  assert (Hcase : exists s, (s = "spoofed client id" \/ s = "spoofed username") /\
            handle_client_message w h c m = failed w (EProto s) Invalid).
  { destruct (spoof_source c m) eqn:E1.
    - eexists. split; [left; reflexivity | apply hcm_spoof_source; exact E1].
    - destruct Hs as [Hs|Hs]; [discriminate|].
      eexists. split; [right; reflexivity | apply hcm_spoof_user; assumption]. }
  destruct Hcase as (s & Hs' & Hh). exists s. split; [exact Hs'|]. cbv zeta.
  destruct (error_close_spec w h c (EProto s) Hi Hc) as (Hself & Hoth & Hhist & Hmem & _).
  split; [|split; [|split; [|split; [|split]]]]; auto.
  - eapply step_msg_err; eauto. discriminate.
  - destruct Hself as (c' & Hc' & Hcl' & Hg' & _ & Ho'). exists c'. repeat split; auto.
  - intros m'. destruct Hself as (c' & Hc' & Hcl' & _). cbn [step]. unfold step_msg.
    rewrite Hc', Hcl'. reflexivity.
Qed.

(* --- refusals: not a member / no permission --- *)
Theorem chat_refused : forall w h c m,
  get_client w h = Some c -> chat_type m -> authentic_fields c m ->
  (c_group c = None \/ mem (chat_perm m) (c_perms c) = false) ->
  exists v a, (c_group c = None /\ v = "join a group first" /\ a = JoinFirst \/
               c_group c <> None /\ v = "not authorised" /\ a = NotAuth) /\
  let w' := send_error w h c v in
  handle_client_message w h c m = Ok (mkRes w' ENone a) /\
  delivers w w' (fun i => if Nat.eqb i h then [out_error (c_id c) v] else []) /\
  w_groups w' = w_groups w.
Proof.
  intros w h c m Hc Ht Ha Hr.
  destruct (authentic_no_spoof c m Ha) as [S1 S2].
  pose proof (hcm_chat w h c m Ht S1 S2) as Hh.
  destruct (c_group c) as [g|] eqn:Eg.
  - destruct Hr as [Hr|Hr]; [discriminate|].
    exists "not authorised", NotAuth. split; [right; repeat split; congruence|]. cbv zeta.
    rewrite (handle_chat_noperm w h c m g Ht Eg) in Hh
      by (rewrite has_perms_chat_type by exact Ht; exact Hr).
    split; [exact Hh|]. split; [apply delivers_send | reflexivity].
  - exists "join a group first", JoinFirst. split; [left; auto|]. cbv zeta.
    rewrite (handle_chat_nonmember w h c m Ht Eg) in Hh.
    split; [exact Hh|]. split; [apply delivers_send | reflexivity].
Qed.

(* --- a chat / usermessage of a member holding the permission --- *)
Definition chat_targets (w : world) (h : nat) (c : client) (g : str) (m : msg) (i : nat) : list outmsg :=
  if is_empty (m_dest m) then
    if member_of w i g && negb (m_noecho m && Nat.eqb i h) then [chat_out c m] else []
  else match get_member w g (m_dest m) with
       | Some d => if Nat.eqb i d then [chat_out c m] else []
       | None => if Nat.eqb i h then [out_error (c_id c) "user unknown"] else []
       end.

Theorem chat_step : forall w h c g m,
  MInv w -> get_client w h = Some c ->
  chat_type m -> authentic_fields c m ->
  c_group c = Some g -> mem (chat_perm m) (c_perms c) = true ->
  exists w', handle_client_message w h c m = Ok (mkRes w' ENone Passed) /\
    delivers w w' (chat_targets w h c g m) /\
    (forall g', hist_of w' g' =
       if stores m && String.eqb g' g then hist_add (hist_of w g') (chat_entry m) else hist_of w g') /\
    (forall g', members w' g' = members w g').
Proof.
  intros w h c g m Hi Hc Ht Ha Hg Hp.
  destruct (authentic_no_spoof c m Ha) as [S1 S2].
  pose proof (hcm_chat w h c m Ht S1 S2) as Hh.
  rewrite (handle_chat_member w h c m g Ht Hg) in Hh
    by (rewrite has_perms_chat_type by exact Ht; exact Hp).
  cbv zeta in Hh.
  assert (Hex : find_group w g <> None).
  { pose proof (mi_group_mem w Hi h c g Hc Hg) as Hin. unfold members in Hin.
    destruct (find_group w g); [discriminate | destruct Hin]. }
  set (w1 := chat_world w g m) in *.
  assert (Hgroups : forall w2, w_groups w2 = w_groups w1 ->
            (forall g', hist_of w2 g' =
               if stores m && String.eqb g' g then hist_add (hist_of w g') (chat_entry m) else hist_of w g') /\
            (forall g', members w2 g' = members w g')).
  { intros w2 H2. split; intro g'.
    - transitivity (hist_of w1 g'); [unfold hist_of, find_group; rewrite H2; reflexivity|].
      apply chat_world_hist. exact Hex.
    - rewrite (members_groups_eq _ _ H2). apply chat_world_members. }
  unfold chat_targets.
  destruct (is_empty (m_dest m)) eqn:Ed.
  - (* broadcast *)
    eexists. split; [exact Hh|]. split.
    + apply (delivers_chat_world w g m). fold w1.
      eapply delivers_ext; [|apply delivers_send_all].
      intros i. cbn beta.
      destruct (m_noecho m); cbn [andb negb].
      * unfold others. rewrite count_filter_neq. unfold w1. rewrite chat_world_members.
        rewrite count_members by exact Hi.
        destruct (Nat.eqb i h); cbn [negb]; [rewrite andb_false_r; reflexivity|].
        rewrite andb_true_r. destruct (member_of w i g); reflexivity.
      * unfold w1. rewrite chat_world_members, count_members by exact Hi.
        rewrite andb_true_r. destruct (member_of w i g); reflexivity.
    + apply Hgroups.
      assert (G : forall hs w0 x, w_groups (send_all w0 hs x) = w_groups w0).
      { induction hs as [|a hs IH]; intros; [reflexivity|].
        unfold send_all. cbn [fold_left]. fold (send_all (send w0 a x) hs x). rewrite IH. reflexivity. }
      apply G.
  - (* directed *)
    unfold w1 in Hh. rewrite get_member_chat_world in Hh. fold w1 in Hh.
    destruct (get_member w g (m_dest m)) as [d|] eqn:Egm.
    + eexists. split; [exact Hh|]. split.
      * apply (delivers_chat_world w g m). fold w1. apply delivers_send.
      * apply Hgroups. reflexivity.
    + eexists. split; [exact Hh|]. split.
      * apply (delivers_chat_world w g m). fold w1. apply delivers_send.
      * apply Hgroups. reflexivity.
Qed.

(* ------------------------------------------------------------------ *)
(* clearchat                                                          *)

Lemma hcm_groupaction : forall w h c m, m_type m = "groupaction" ->
  spoof_source c m = false -> spoof_user c m = false ->
  handle_client_message w h c m = handle_groupaction w h c m.
Proof.
  intros w h c m Ht H1 H2. unfold handle_client_message.
  unfold spoof_source in H1. unfold spoof_user in H2. rewrite H1, H2. cbv zeta.
  rewrite Ht. reflexivity.
Qed.

(* the arguments ClearChatHistory is called with, or None when the value
   is refused ("bad value in clearchat") *)
Definition clearchat_args (v : value) : option (str * str) :=
  match v with
  | VNone => Some ("", "")
  | VMap l =>
      let id := map_get l "id" in
      let userId := map_get l "userId" in
      if is_empty userId && negb (is_empty id) then None else Some (id, userId)
  | _ => None
  end.

Definition clearchat_msg (v : value) : outmsg :=
  mkOut "usermessage" "clearchat" "" "" "" None true []
        (match v with VNone => "" | _ => lib_error end) "" "" false.

Lemma handle_groupaction_clearchat : forall w h c m g,
  m_kind m = "clearchat" -> c_group c = Some g ->
  handle_groupaction w h c m =
  if negb (mem "op" (c_perms c)) then refused (send_error w h c "not authorised") NotAuth
  else match clearchat_args (m_value m) with
       | None => ok (send_error w h c "bad value in clearchat")
       | Some (id, uid) =>
           let w1 := upd_group w g (fun gr => gset_history gr (hist_clear (g_history gr) id uid)) in
           ok (send_all w1 (members w1 g) (clearchat_msg (m_value m)))
       end.
Proof.
  intros w h c m g Hk Hg. unfold handle_groupaction. cbv zeta. rewrite Hk.
  rewrite nm_groupaction, Hg. cbn [String.eqb Ascii.eqb Bool.eqb].
  rewrite has_perms_clearchat.
  destruct (mem "op" (c_perms c)); cbn [negb]; [|reflexivity].
  unfold clearchat_args, clearchat_msg.
  destruct (m_value m); try reflexivity.
  destruct (is_empty (map_get l "userId") && negb (is_empty (map_get l "id"))); reflexivity.
Qed.

Lemma send_all_groups : forall hs w0 x, w_groups (send_all w0 hs x) = w_groups w0.
Proof.
  induction hs as [|a hs IH]; intros; [reflexivity|].
  unfold send_all. cbn [fold_left]. fold (send_all (send w0 a x) hs x). rewrite IH. reflexivity.
Qed.

Theorem clearchat_step : forall w h c g m,
  MInv w -> get_client w h = Some c ->
  m_type m = "groupaction" -> m_kind m = "clearchat" -> authentic_fields c m ->
  c_group c = Some g ->
  (* not an operator: refused, nothing happens *)
  (mem "op" (c_perms c) = false ->
     let w' := send_error w h c "not authorised" in
     handle_client_message w h c m = Ok (mkRes w' ENone NotAuth) /\
     delivers w w' (fun i => if Nat.eqb i h then [out_error (c_id c) "not authorised"] else []) /\
     w_groups w' = w_groups w) /\
  (mem "op" (c_perms c) = true ->
     match clearchat_args (m_value m) with
     | None =>
         (* not a map, or an id without a userId *)
         let w' := send_error w h c "bad value in clearchat" in
         handle_client_message w h c m = Ok (mkRes w' ENone Passed) /\
         delivers w w' (fun i => if Nat.eqb i h then [out_error (c_id c) "bad value in clearchat"] else []) /\
         w_groups w' = w_groups w
     | Some (id, uid) =>
         exists w', handle_client_message w h c m = Ok (mkRes w' ENone Passed) /\
           (forall g', hist_of w' g' =
              if String.eqb g' g then hist_clear (hist_of w g') id uid else hist_of w g') /\
           (forall g', members w' g' = members w g') /\
           delivers w w' (fun i => if member_of w i g then [clearchat_msg (m_value m)] else [])
     end).
Proof.
  intros w h c g m Hi Hc Ht Hk Ha Hg.
  assert (Hnj : m_type m <> "join") by (rewrite Ht; discriminate).
  destruct (authentic_no_spoof c m Ha) as [S1 S2].
  pose proof (hcm_groupaction w h c m Ht S1 S2) as Hh.
  rewrite (handle_groupaction_clearchat w h c m g Hk Hg) in Hh.
  split; intro Hop; rewrite Hop in Hh; cbn [negb] in Hh.
  - cbv zeta. split; [exact Hh|]. split; [apply delivers_send | reflexivity].
  - destruct (clearchat_args (m_value m)) as [[id uid]|].
    + cbv zeta in Hh. eexists. split; [exact Hh|].
      assert (Hex : find_group w g <> None).
      { pose proof (mi_group_mem w Hi h c g Hc Hg) as Hin. unfold members in Hin.
        destruct (find_group w g); [discriminate | destruct Hin]. }
      set (w1 := upd_group w g (fun gr => gset_history gr (hist_clear (g_history gr) id uid))).
      assert (Hm1 : forall g', members w1 g' = members w g').
      { intro g'. unfold w1. rewrite members_upd_group by (intro; reflexivity).
        unfold members. destruct (String.eqb g' g); [|reflexivity]. destruct (find_group w g'); reflexivity. }
      split; [|split].
      * intros g'. transitivity (hist_of w1 g').
        { unfold hist_of, find_group. rewrite send_all_groups. reflexivity. }
        unfold w1. rewrite hist_of_upd_group by (intro; reflexivity).
        destruct (String.eqb g' g) eqn:E; [|reflexivity]. apply eqb_true in E. subst g'.
        unfold hist_of. destruct (find_group w g); [reflexivity | congruence].
      * intros g'. rewrite (members_groups_eq w1) by apply send_all_groups. apply Hm1.
      * intros i. rewrite (delivers_send_all (members w1 g) w1 _ i).
        change (get_client w1 i) with (get_client w i).
        rewrite Hm1, count_members by exact Hi. destruct (member_of w i g); reflexivity.
    + cbv zeta. split; [exact Hh|]. split; [apply delivers_send | reflexivity].
Qed.

(* ------------------------------------------------------------------ *)
(* Replay on join                                                      *)

Lemma delivers_fold_send : forall (A : Type) (f : A -> outmsg) h l w,
  delivers w (fold_left (fun w e => send w h (f e)) l w)
           (fun i => if Nat.eqb i h then map f l else []).
Proof.
  intros A f h l. induction l as [|e l IH]; intros w; cbn [fold_left map].
  - eapply delivers_ext; [|apply delivers_refl]. intro i. destruct (Nat.eqb i h); reflexivity.
  - eapply delivers_ext; [|eapply delivers_trans; [apply delivers_send | apply IH]].
    intros i. cbn beta. destruct (Nat.eqb i h); reflexivity.
Qed.

Lemma fold_send_groups : forall (A : Type) (f : A -> outmsg) h l w,
  w_groups (fold_left (fun w e => send w h (f e)) l w) = w_groups w.
Proof. intros A f h l. induction l as [|e l IH]; intros w; cbn [fold_left]; [reflexivity|]. rewrite IH. reflexivity. Qed.

(* the joinedAction of kind "join": the `joined` message, then exactly the
   group's CURRENT history, oldest first, one chathistory message per entry
   with the stored id, source, username, kind and value; nobody else is sent
   anything and no history changes *)
Theorem replay_step : forall w h c g gr,
  g <> "" -> find_group w g = Some gr ->
  exists w', handle_action w h c (AJoined g "join") = Ok (mkRes w' ENone Passed) /\
    delivers w w' (fun i => if Nat.eqb i h
       then out_joined "join" g (c_username c) (c_perms c) "" ""
                       (match g_locked gr with Some _ => true | None => false end)
            :: map out_chathistory (hist_of w g)
       else []) /\
    w_groups w' = w_groups w.
Proof.
  intros w h c g gr Hne Hf. unfold handle_action. cbv zeta.
  apply is_empty_false in Hne. rewrite Hne, Hf. cbn [String.eqb Ascii.eqb Bool.eqb].
  eexists. split; [reflexivity|]. split.
  - eapply delivers_ext; [|eapply delivers_trans; [apply delivers_send | apply delivers_fold_send]].
    intros i. cbn beta. unfold hist_of. rewrite Hf. destruct (Nat.eqb i h); reflexivity.
  - rewrite fold_send_groups. reflexivity.
Qed.

(* any other kind of joinedAction (change, leave, fail) replays nothing *)
Lemma joined_other_kind : forall w h c g k, k <> "join" ->
  exists x, handle_action w h c (AJoined g k) = ok (send w h x) /\ o_type x = "joined".
Proof.
  intros w h c g k Hk. unfold handle_action. cbv zeta.
  apply String.eqb_neq in Hk. rewrite Hk. eexists. split; reflexivity.
Qed.

(* the batch of a pump runs the queue in order *)
Lemma run_batch_cons : forall a q w h c res,
  get_client w h = Some c -> handle_action w h c a = Ok res -> r_err res = ENone ->
  run_batch (a :: q) w h = run_batch q (r_world res) h.
Proof. intros a q w h c res Hc Ha He. cbn [run_batch]. rewrite Hc, Ha, He. reflexivity. Qed.

(* ------------------------------------------------------------------ *)
(* What one operation can add to an outbox or to a history             *)

(* a chat-like message appended by operation o in state w that is not one
   of the server's own: the replay of a stored entry, or the forwarding of
   the message read by o, with the sender's state at that moment *)
Definition StepE (w : world) (o : op) (x : outmsg) : Prop :=
  replay_of w x \/
  exists h m c, o = OpMsg h m /\ get_client w h = Some c /\ c_closed c = false /\
    chat_type m /\ authentic_fields c m /\ (exists g, c_group c = Some g) /\
    mem (chat_perm m) (c_perms c) = true /\ x = chat_out c m.

(* a history entry added by operation o in state w *)
Definition StepH (w : world) (o : op) (g : str) (e : chatentry) : Prop :=
  exists h m c, o = OpMsg h m /\ get_client w h = Some c /\ c_closed c = false /\
    m_type m = "chat" /\ m_dest m = "" /\ authentic_fields c m /\ c_group c = Some g /\
    mem (chat_perm m) (c_perms c) = true /\ e = chat_entry m.

Definition outs_grow (E : outmsg -> Prop) (w w' : world) : Prop :=
  forall i, exists l, out_of w' i = out_of w i ++ l /\ Forall (okE E) l.

(* histories unchanged *)
Definition Gr (E : outmsg -> Prop) (w w' : world) : Prop :=
  (forall g, hist_of w' g = hist_of w g) /\ outs_grow E w w'.
(* every history is unchanged, or got one entry satisfying H through
   AddToChatHistory, or went through ClearChatHistory *)
Definition hist_step (H : str -> chatentry -> Prop) (w w' : world) : Prop :=
  forall g, hist_of w' g = hist_of w g \/
            (exists e, H g e /\ hist_of w' g = hist_add (hist_of w g) e) \/
            (exists id uid, hist_of w' g = hist_clear (hist_of w g) id uid).
Definition GrH (E : outmsg -> Prop) (H : str -> chatentry -> Prop) (w w' : world) : Prop :=
  hist_step H w w' /\ outs_grow E w w'.

Lemma og_refl : forall E w, outs_grow E w w.
Proof. intros E w i. exists []. rewrite app_nil_r. auto. Qed.
Lemma og_trans : forall E a b c, outs_grow E a b -> outs_grow E b c -> outs_grow E a c.
Proof.
  intros E a b c H1 H2 i. destruct (H1 i) as (l1 & E1 & F1). destruct (H2 i) as (l2 & E2 & F2).
  exists (l1 ++ l2). rewrite E2, E1, app_assoc. split; [reflexivity | apply Forall_app; auto].
Qed.
Lemma og_mono : forall (E E' : outmsg -> Prop) w w',
  (forall x, E x -> E' x) -> outs_grow E w w' -> outs_grow E' w w'.
Proof.
  intros E E' w w' HE H i. destruct (H i) as (l & Hl & Hf). exists l. split; [exact Hl|].
  eapply Forall_impl; [|exact Hf]. intros x [Hx|Hx]; [left | right]; auto.
Qed.

Lemma gr_refl : forall E w, Gr E w w.
Proof. intros. split; [reflexivity | apply og_refl]. Qed.
Lemma gr_trans : forall E a b c, Gr E a b -> Gr E b c -> Gr E a c.
Proof.
  intros E a b c [H1 O1] [H2 O2]. split; [intro g; rewrite H2, H1; reflexivity | eapply og_trans; eauto].
Qed.
Lemma gr_mono : forall (E E' : outmsg -> Prop) w w',
  (forall x, E x -> E' x) -> Gr E w w' -> Gr E' w w'.
Proof. intros E E' w w' HE [H O]. split; [exact H | eapply og_mono; eauto]. Qed.
Lemma fr_gr : forall E x w w', Fr E q_hist x w w' -> Gr E w w'.
Proof. intros E x w w' H. split; [eapply fr_hist; eauto | destruct H as (_ & _ & C); exact C]. Qed.

Lemma gr_grh : forall E H w w', Gr E w w' -> GrH E H w w'.
Proof. intros E H w w' [Hh O]. split; [|exact O]. intros g. left. apply Hh. Qed.
Lemma grh_gr : forall E H a b c, GrH E H a b -> Gr E b c -> GrH E H a c.
Proof.
  intros E H a b c [H1 O1] [H2 O2]. split; [|eapply og_trans; eauto].
  intros g. rewrite H2. apply H1.
Qed.

Lemma replay_of_same : forall w w' x, (forall g, hist_of w' g = hist_of w g) -> replay_of w' x -> replay_of w x.
Proof. intros w w' x H (g & e & He & Hx). exists g, e. rewrite <- H. auto. Qed.

Lemma delivers_og : forall E w w' L, delivers w w' L -> (forall i, Forall (okE E) (L i)) -> outs_grow E w w'.
Proof.
  intros E w w' L D HL i. unfold out_of. rewrite D. destruct (get_client w i) as [c|]; cbn.
  - exists (L i). split; [reflexivity | apply HL].
  - exists []. auto.
Qed.

Lemma groups_hist : forall w w', w_groups w' = w_groups w -> forall g, hist_of w' g = hist_of w g.
Proof. intros w w' H g. unfold hist_of, find_group. rewrite H. reflexivity. Qed.

Lemma hist_add_In : forall h e x, In x (hist_add h e) -> In x h \/ x = e.
Proof.
  intros h e x H. unfold hist_add in H. apply in_app_or in H. destruct H as [H|[H|[]]]; [|right; auto].
  left. destruct (Nat.leb maxChatHistory (List.length h)); [|exact H].
  destruct h; [destruct H | right; exact H].
Qed.

Lemma hist_clear_In : forall h id uid x, In x (hist_clear h id uid) -> In x h.
Proof.
  intros h id uid x H. unfold hist_clear in H.
  destruct (is_empty id && is_empty uid); [destruct H|]. apply filter_In in H. tauto.
Qed.

Lemma handle_groupaction_nonmember : forall w h c m, c_group c = None ->
  handle_groupaction w h c m = refused (send_error w h c "join a group first") JoinFirst.
Proof. intros w h c m Hg. unfold handle_groupaction. cbv zeta. rewrite nm_groupaction, Hg. reflexivity. Qed.

(* every message type other than chat, usermessage and groupaction/clearchat *)
Lemma hcm_other_fr : forall E w h c m r,
  String.eqb (m_type m) "chat" || String.eqb (m_type m) "usermessage" = false ->
  String.eqb (m_type m) "groupaction" && String.eqb (m_kind m) "clearchat" = false ->
  handle_client_message w h c m = Ok r -> Fr E q_hist (Some h) w (r_world r).
Proof.
  intros E w h c m r Hc1 Hc2 H. unfold handle_client_message in H.
  match type of H with (if ?b then _ else _) = _ => destruct b end; [finish_ok H; apply fr_refl|].
  match type of H with (if ?b then _ else _) = _ => destruct b end; [finish_ok H; apply fr_refl|].
  cbv zeta in H. rewrite Hc1 in H.
  destruct (String.eqb (m_type m) "join"); [eapply handle_join_fr; eauto|].
  destruct (String.eqb (m_type m) "request");
    [apply fr_weaken, fr_all_hist; eapply handle_request_fr; eauto|].
  destruct (String.eqb (m_type m) "requestStream");
    [apply fr_weaken, fr_all_hist; eapply handle_request_stream_fr; eauto|].
  destruct (String.eqb (m_type m) "offer");
    [apply fr_weaken, fr_all_hist; eapply handle_offer_fr; eauto|].
  destruct (String.eqb (m_type m) "answer");
    [apply fr_weaken, fr_all_hist; eapply handle_answer_fr; eauto|].
  destruct (String.eqb (m_type m) "renegotiate");
    [apply fr_weaken, fr_all_hist; eapply handle_renegotiate_fr; eauto|].
  destruct (String.eqb (m_type m) "close");
    [apply fr_weaken, fr_all_hist; eapply handle_close_fr; eauto|].
  destruct (String.eqb (m_type m) "abort");
    [apply fr_weaken, fr_all_hist; eapply handle_abort_fr; eauto|].
  destruct (String.eqb (m_type m) "ice");
    [apply fr_weaken, fr_all_hist; eapply handle_ice_fr; eauto|].
  destruct (String.eqb (m_type m) "groupaction").
  { cbn [andb] in Hc2. apply fr_weaken, fr_all_hist. eapply handle_groupaction_other_fr; eauto. }
  destruct (String.eqb (m_type m) "useraction");
    [apply fr_weaken, fr_all_hist; eapply handle_useraction_fr; eauto|].
  destruct (String.eqb (m_type m) "pong"); [finish_ok H; apply fr_refl|].
  destruct (String.eqb (m_type m) "ping"); [finish_ok H; frm|].
  finish_ok H. apply fr_refl.
Qed.

Lemma chat_targets_ok : forall w o h c g m i,
  o = OpMsg h m -> get_client w h = Some c -> c_closed c = false ->
  chat_type m -> authentic_fields c m -> c_group c = Some g ->
  mem (chat_perm m) (c_perms c) = true ->
  Forall (okE (StepE w o)) (chat_targets w h c g m i).
Proof.
  intros w o h c g m i Ho Hc Hcl Ht Ha Hg Hp.
  assert (Hx : okE (StepE w o) (chat_out c m)).
  { right. right. exists h, m, c. repeat split; eauto; apply Ha. }
  assert (He : okE (StepE w o) (out_error (c_id c) "user unknown")) by (left; reflexivity).
  unfold chat_targets.
  destruct (is_empty (m_dest m)).
  - destruct (_ && _); auto.
  - destruct (get_member w g (m_dest m)); destruct (Nat.eqb _ _); auto.
Qed.

Lemma stores_true : forall m, stores m = true -> m_type m = "chat" /\ m_dest m = "".
Proof.
  intros m H. unfold stores in H. apply andb_prop in H. destruct H as [H1 H2].
  split; [apply eqb_true; exact H1 | apply is_empty_true; exact H2].
Qed.

(* handleClientMessage, every type *)
Lemma hcm_prov : forall w h c m res,
  MInv w -> get_client w h = Some c -> c_closed c = false ->
  handle_client_message w h c m = Ok res ->
  GrH (StepE w (OpMsg h m)) (StepH w (OpMsg h m)) w (r_world res).
Proof.
  intros w h c m res Hi Hc Hcl H.
  destruct (spoof_source c m) eqn:S1.
  { rewrite hcm_spoof_source in H by exact S1. finish_ok H. apply gr_grh, gr_refl. }
  destruct (spoof_user c m) eqn:S2.
  { rewrite hcm_spoof_user in H by assumption. finish_ok H. apply gr_grh, gr_refl. }
  destruct (String.eqb (m_type m) "chat" || String.eqb (m_type m) "usermessage") eqn:Ec.
  - (* chat, usermessage *)
    assert (Ht : chat_type m).
    { apply orb_prop in Ec. destruct Ec as [E|E]; apply eqb_true in E; [left | right]; exact E. }
    pose proof (no_spoof_authentic c m S1 S2 (chat_type_not_join m Ht)) as Ha.
    destruct (c_group c) as [g|] eqn:Eg.
    + destruct (mem (chat_perm m) (c_perms c)) eqn:Ep.
      * destruct (chat_step w h c g m Hi Hc Ht Ha Eg Ep) as (w' & Hh & D & Hhist & _).
        rewrite Hh in H. inversion H; subst res. cbn [r_world]. split.
        -- intros g'. rewrite Hhist.
           destruct (stores m && String.eqb g' g) eqn:Es; [|left; reflexivity].
           apply andb_prop in Es. destruct Es as [Es Egg]. apply eqb_true in Egg. subst g'.
           right. left. exists (chat_entry m). split; [|reflexivity].
           destruct (stores_true m Es) as [Hty Hd].
           exists h, m, c. repeat split; auto; apply Ha.
        -- eapply delivers_og; [exact D|]. intro i. eapply chat_targets_ok; eauto.
      * destruct (chat_refused w h c m Hc Ht Ha (or_intror Ep)) as (v & a & _ & Hh & D & Hg).
        cbv zeta in Hh. rewrite Hh in H. inversion H; subst res. cbn [r_world].
        apply gr_grh. split; [apply groups_hist; exact Hg|].
        eapply delivers_og; [exact D|]. intro i. cbn beta. destruct (Nat.eqb i h); constructor; auto.
        left. reflexivity.
    + destruct (chat_refused w h c m Hc Ht Ha (or_introl Eg)) as (v & a & _ & Hh & D & Hg).
      cbv zeta in Hh. rewrite Hh in H. inversion H; subst res. cbn [r_world].
      apply gr_grh. split; [apply groups_hist; exact Hg|].
      eapply delivers_og; [exact D|]. intro i. cbn beta. destruct (Nat.eqb i h); constructor; auto.
 left. reflexivity.
  - destruct (String.eqb (m_type m) "groupaction" && String.eqb (m_kind m) "clearchat") eqn:Ek.
    + (* clearchat *)
      apply andb_prop in Ek. destruct Ek as [Et Ek]. apply eqb_true in Et, Ek.
      assert (Hnj : m_type m <> "join") by (rewrite Et; discriminate).
      pose proof (no_spoof_authentic c m S1 S2 Hnj) as Ha.
      destruct (c_group c) as [g|] eqn:Eg.
      * destruct (clearchat_step w h c g m Hi Hc Et Ek Ha Eg) as [Hno Hyes].
        destruct (mem "op" (c_perms c)) eqn:Eop.
        -- specialize (Hyes eq_refl). destruct (clearchat_args (m_value m)) as [[id uid]|].
           ++ destruct Hyes as (w' & Hh & Hhist & _ & D).
              rewrite Hh in H. inversion H; subst res. cbn [r_world]. split.
              ** intros g'. rewrite Hhist.
                 destruct (String.eqb g' g); [right; right; exists id, uid | left]; reflexivity.
              ** eapply delivers_og; [exact D|]. intro i. cbn beta. destruct (member_of w i g); constructor; auto.
                 left. unfold clearchat_msg. destruct (m_value m); reflexivity.
           ++ cbv zeta in Hyes. destruct Hyes as (Hh & D & Hg).
              rewrite Hh in H. inversion H; subst res. cbn [r_world].
              apply gr_grh. split; [apply groups_hist; exact Hg|].
              eapply delivers_og; [exact D|]. intro i. cbn beta. destruct (Nat.eqb i h); constructor; auto.
              left. reflexivity.
        -- specialize (Hno eq_refl). cbv zeta in Hno. destruct Hno as (Hh & D & Hg).
           rewrite Hh in H. inversion H; subst res. cbn [r_world].
           apply gr_grh. split; [apply groups_hist; exact Hg|].
           eapply delivers_og; [exact D|]. intro i. cbn beta. destruct (Nat.eqb i h); constructor; auto.
           left. reflexivity.
      * assert (Hh : handle_client_message w h c m = handle_groupaction w h c m)
          by (apply hcm_groupaction; assumption).
        rewrite Hh, (handle_groupaction_nonmember w h c m Eg) in H. finish_ok H.
        apply gr_grh, (fr_gr _ None). frm.
    + apply gr_grh. eapply fr_gr. eapply hcm_other_fr; eauto.
Qed.

(* ------------------------------------------------------------------ *)
(* Pump, quiesce, every operation                                      *)

Lemma error_close_gr : forall E w h e, Gr E w (error_close w h e).
Proof. intros. eapply fr_gr. apply error_close_fr. Qed.

Lemma handle_action_gr : forall w h c a r,
  handle_action w h c a = Ok r -> Gr (replay_of w) w (r_world r).
Proof. intros. eapply fr_gr, fr_all_hist, handle_action_fr. eauto. Qed.

Lemma run_batch_gr : forall q w h r, run_batch q w h = Ok r -> Gr (replay_of w) w (r_world r).
Proof.
  induction q as [|a q IH]; intros w h r H; cbn [run_batch] in H.
  - finish_ok H. apply gr_refl.
  - destruct (get_client w h) as [c|] eqn:Ec; [|finish_ok H; apply gr_refl].
    destruct (handle_action w h c a) as [res|] eqn:Ea; [|discriminate].
    pose proof (handle_action_gr _ _ _ _ _ Ea) as G1.
    destruct (r_err res) eqn:Ee; try (inversion H; subst; exact G1).
    eapply gr_trans; [exact G1|].
    eapply gr_mono; [|eapply IH; exact H].
    intros x Hx. eapply replay_of_same; [|exact Hx]. apply G1.
Qed.

Lemma step_pump_gr : forall w h w' r, step_pump w h = Running w' r -> Gr (replay_of w) w w'.
Proof.
  intros w h w' r H. unfold step_pump in H.
  destruct (get_client w h) as [c|] eqn:Ec; [|inversion H; subst; apply gr_refl].
  destruct (c_closed c); [inversion H; subst; apply gr_refl|].
  cbv zeta in H. unfold finish in H.
  destruct (run_batch _ _ _) as [res|] eqn:Eb; [|discriminate].
  apply run_batch_gr in Eb.
  assert (G0 : Gr (replay_of w) w (r_world res)).
  { eapply (gr_trans _ _ (upd w h (fun c => set_queue c [])));
      [eapply (fr_gr _ None); apply fr_upd_pres; intro; reflexivity|].
    eapply gr_mono; [|exact Eb]. intros x Hx. eapply replay_of_same; [|exact Hx].
    intro g. reflexivity. }
  destruct (r_err res); inversion H; subst; try exact G0;
    (eapply gr_trans; [exact G0 | apply error_close_gr]).
Qed.

Lemma pump_round_gr : forall hs w w', pump_round hs w = Some w' -> Gr (replay_of w) w w'.
Proof.
  induction hs as [|h hs IH]; intros w w' H; cbn [pump_round] in H.
  - inversion H; subst. apply gr_refl.
  - destruct (get_client w h) as [c|]; [|apply IH; exact H].
    destruct (runnable c); [|apply IH; exact H].
    destruct (step_pump w h) as [w1 r1|] eqn:Es; [|discriminate].
    apply step_pump_gr in Es. eapply gr_trans; [exact Es|].
    eapply gr_mono; [|apply IH; exact H].
    intros x Hx. eapply replay_of_same; [|exact Hx]. apply Es.
Qed.

Lemma quiesce_gr : forall fuel w w', quiesce fuel w = Some w' -> Gr (replay_of w) w w'.
Proof.
  induction fuel as [|f IH]; intros w w' H; cbn [quiesce] in H.
  - inversion H; subst. apply gr_refl.
  - destruct (existsb runnable (w_clients w)); [|inversion H; subst; apply gr_refl].
    destruct (pump_round _ w) as [w1|] eqn:Ep; [|discriminate].
    apply pump_round_gr in Ep. eapply gr_trans; [exact Ep|].
    eapply gr_mono; [|apply IH; exact H].
    intros x Hx. eapply replay_of_same; [|exact Hx]. apply Ep.
Qed.

(* one operation: every outbox is extended (or emptied by a drain) by
   messages that are server-generated, not chat-like, a replay of a stored
   entry, or the forwarding of the message just read with the checked
   fields; every history entry is an old one or the broadcast chat just read *)
Theorem step_prov : forall w o w' r, MInv w -> step w o = Running w' r ->
  (forall i, (exists l, out_of w' i = out_of w i ++ l /\ Forall (okE (StepE w o)) l) \/
             out_of w' i = []) /\
  hist_step (StepH w o) w w'.
Proof.
  intros w o w' r Hi H.
  assert (Hgr : forall E, Gr E w w' ->
            (forall x, E x -> StepE w o x) ->
            (forall i, (exists l, out_of w' i = out_of w i ++ l /\ Forall (okE (StepE w o)) l) \/
                       out_of w' i = []) /\
            hist_step (StepH w o) w w').
  { intros E [Hh Ho] HE. split.
    - intro i. left. apply (og_mono E _ w w' HE Ho).
    - intros g. left. apply Hh. }
  destruct o; cbn [step] in H.
  - (* mkgroup *)
    apply (Hgr none); [|intros x []].
    destruct (find_group w name) eqn:Ef; inversion H; subst; [apply gr_refl|].
    split; [|intro i; exists []; rewrite app_nil_r; split; [reflexivity | constructor]].
    intro g. unfold hist_of, find_group in *. cbn [w_groups wset_groups].
    destruct (find_group_in (w_groups w) g) eqn:Eg.
    + erewrite find_group_in_app_some by exact Eg. reflexivity.
    + rewrite find_group_in_app_none by exact Eg. cbn [g_name]. destruct (String.eqb name g); reflexivity.
  - (* client *)
    inversion H; subst. split.
    + intro i. left. exists []. rewrite app_nil_r. split; [|constructor].
      unfold out_of, get_client. cbn [w_clients wset_clients].
      destruct (Nat.lt_ge_cases i (List.length (w_clients w))) as [Hl|Hl].
      * rewrite nth_error_app1 by exact Hl. reflexivity.
      * rewrite nth_error_app2 by exact Hl.
        assert (Hn : nth_error (w_clients w) i = None) by (apply nth_error_None; exact Hl).
        rewrite Hn. destruct (i - List.length (w_clients w)) as [|k]; cbn; [reflexivity|].
        destruct k; reflexivity.
    + intros g. left. reflexivity.
  - (* a message *)
    unfold step_msg in H.
    destruct (get_client w h) as [c|] eqn:Ec;
      [|inversion H; subst; apply (Hgr none); [apply gr_refl | intros x []]].
    destruct (c_closed c) eqn:Ecl;
      [inversion H; subst; apply (Hgr none); [apply gr_refl | intros x []]|].
    unfold finish in H.
    destruct (handle_client_message w h c m) as [res|] eqn:Eh; [|discriminate].
    pose proof (hcm_prov w h c m res Hi Ec Ecl Eh) as G.
    assert (G' : GrH (StepE w (OpMsg h m)) (StepH w (OpMsg h m)) w w').
    { destruct (r_err res); inversion H; subst; try exact G;
        (eapply grh_gr; [exact G | apply error_close_gr]). }
    destruct G' as [Gh Go]. split; [intro i; left; apply Go | exact Gh].
  - (* pump *)
    apply (Hgr (replay_of w)); [eapply step_pump_gr; exact H | intros x Hx; left; exact Hx].
  - (* disconnect *)
    unfold step_disconnect in H. apply (Hgr none); [|intros x []].
    destruct (get_client w h) as [c|]; [|inversion H; subst; apply gr_refl].
    destruct (c_closed c); inversion H; subst; [apply gr_refl | apply error_close_gr].
  - (* quiesce *)
    destruct (quiesce 1000 w) as [w1|] eqn:Eq; [|discriminate]. inversion H; subst.
    apply (Hgr (replay_of w)); [eapply quiesce_gr; exact Eq | intros x Hx; left; exact Hx].
  - (* drain *)
    destruct (get_client w h) as [c|] eqn:Ec; inversion H; subst.
    + split; [|intros g; left; reflexivity].
      intro i. rewrite out_of_upd. destruct (Nat.eqb_spec i h).
      * right. subst. rewrite Ec. reflexivity.
      * left. exists []. rewrite app_nil_r. auto.
    + apply (Hgr none); [apply gr_refl | intros x []].
Qed.

(* ------------------------------------------------------------------ *)
(* Provenance over ALL operation sequences                             *)

(* the message m was read from connection h in the state reached by a
   prefix of the history, and P holds of that state *)
Definition sent_in (ops : list op) (P : world -> nat -> client -> msg -> Prop) : Prop :=
  exists ops1 h m ops2 w1 c,
    ops = ops1 ++ OpMsg h m :: ops2 /\ reach ops1 w1 /\
    get_client w1 h = Some c /\ c_closed c = false /\ P w1 h c m.

Lemma sent_in_snoc : forall ops o P, sent_in ops P -> sent_in (ops ++ [o]) P.
Proof.
  intros ops o P (ops1 & h & m & ops2 & w1 & c & -> & H).
  exists ops1, h, m, (ops2 ++ [o]), w1, c. split; [|exact H].
  rewrite <- app_assoc. reflexivity.
Qed.

(* a forwarded chat / usermessage: source and username were checked against
   the sender's own id and username, the sender was a member holding the
   permission, and the privileged flag is "the sender held op" *)
Definition forwarded (x : outmsg) : world -> nat -> client -> msg -> Prop :=
  fun w h c m =>
    chat_type m /\ authentic_fields c m /\ (exists g, c_group c = Some g) /\
    mem (chat_perm m) (c_perms c) = true /\ x = chat_out c m.

(* a stored entry: a broadcast message of type chat of a member of g *)
Definition stored (g : str) (e : chatentry) : world -> nat -> client -> msg -> Prop :=
  fun w h c m =>
    m_type m = "chat" /\ m_dest m = "" /\ authentic_fields c m /\ c_group c = Some g /\
    mem (chat_perm m) (c_perms c) = true /\ e = chat_entry m.

Definition msg_prov (ops : list op) (x : outmsg) : Prop :=
  server_ok x = true \/
  sent_in ops (forwarded x) \/
  (exists g e, sent_in ops (stored g e) /\ x = out_chathistory e).

Theorem provenance : forall ops w, reach ops w ->
  (forall i x, In x (out_of w i) -> msg_prov ops x) /\
  (forall g e, In e (hist_of w g) -> sent_in ops (stored g e)).
Proof.
  induction ops as [|o ops IH] using rev_ind; intros w H.
  - unfold reach in H. cbn in H. inversion H; subst. split.
    + intros i x Hx. unfold out_of, get_client in Hx. cbn in Hx. destruct i; destruct Hx.
    + intros g e He. destruct He.
  - apply reach_snoc in H. destruct H as (w0 & r & H0 & Hs).
    destruct (IH w0 H0) as [IHo IHh].
    destruct (step_prov w0 o w r (reach_minv _ _ H0) Hs) as [So Sh].
    assert (Hst : forall g e, StepH w0 o g e -> sent_in (ops ++ [o]) (stored g e)).
    { intros g e (h & m & c & -> & Hc & Hcl & Ht & Hd & Ha & Hg & Hp & He).
      exists ops, h, m, [], w0, c. repeat split; auto; apply Ha. }
    assert (Hh : forall g e, In e (hist_of w g) -> sent_in (ops ++ [o]) (stored g e)).
    { intros g e He. destruct (Sh g) as [Eq | [(e0 & He0 & Eq) | (id & uid & Eq)]]; rewrite Eq in He.
      - apply sent_in_snoc. apply IHh. exact He.
      - apply hist_add_In in He. destruct He as [He | ->].
        + apply sent_in_snoc. apply IHh. exact He.
        + apply Hst. exact He0.
      - apply hist_clear_In in He. apply sent_in_snoc. apply IHh. exact He. }
    split; [|exact Hh].
    intros i x Hx. destruct (So i) as [(l & Hl & Hf) | Hnil]; [|rewrite Hnil in Hx; destruct Hx].
    rewrite Hl in Hx. apply in_app_or in Hx. destruct Hx as [Hx|Hx].
    + destruct (IHo i x Hx) as [A|[A|(g & e & A & ->)]].
      * left. exact A.
      * right. left. apply sent_in_snoc. exact A.
      * right. right. exists g, e. split; [apply sent_in_snoc; exact A | reflexivity].
    + rewrite Forall_forall in Hf. destruct (Hf x Hx) as [A|[A|A]].
      * left. exact A.
      * destruct A as (g & e & He & ->). right. right. exists g, e. split; [|reflexivity].
        apply sent_in_snoc. apply IHh. exact He.
      * destruct A as (h & m & c & -> & Hc & Hcl & Ht & Ha & Hg & Hp & ->).
        right. left. exists ops, h, m, [], w0, c. repeat split; auto; apply Ha.
Qed.

(* ------------------------------------------------------------------ *)
(* A successful join queues the joinedAction that triggers the replay  *)

Definition queue_of (w : world) (i : nat) : list action :=
  match get_client w i with Some c => c_queue c | None => [] end.

Definition is_push (a : action) : Prop :=
  match a with APushClient _ _ _ _ _ _ => True | _ => False end.

Lemma queue_of_enq : forall w j a h,
  exists r, queue_of (enq w j a) h = queue_of w h ++ r /\ (r = [] \/ r = [a]).
Proof.
  intros. unfold queue_of, enq. rewrite get_client_upd.
  destruct (Nat.eqb h j); destruct (get_client w h); cbn.
  - exists [a]. auto.
  - exists []. auto.
  - exists []. rewrite app_nil_r. auto.
  - exists []. auto.
Qed.

Lemma queue_of_enq_self : forall w h a c, get_client w h = Some c ->
  queue_of (enq w h a) h = queue_of w h ++ [a] /\ exists c', get_client (enq w h a) h = Some c'.
Proof.
  intros. unfold queue_of, enq. rewrite get_client_upd, Nat.eqb_refl, H. cbn. eauto.
Qed.

Lemma fold_push_queue : forall (F : world -> nat -> world) h l w,
  (forall w cc, exists r, queue_of (F w cc) h = queue_of w h ++ r /\ Forall is_push r) ->
  exists r, queue_of (fold_left F l w) h = queue_of w h ++ r /\ Forall is_push r.
Proof.
  intros F h l. induction l as [|a l IH]; intros w HF; cbn [fold_left].
  - exists []. rewrite app_nil_r. auto.
  - destruct (HF w a) as (r1 & E1 & F1). destruct (IH (F w a) HF) as (r2 & E2 & F2).
    exists (r1 ++ r2). rewrite E2, E1, app_assoc. split; [reflexivity | apply Forall_app; auto].
Qed.

Lemma add_client_queue : forall w h c g u pw tk w' c0,
  add_client w h c g u pw tk = (w', None) -> get_client w h = Some c0 ->
  exists rest, queue_of w' h = queue_of w h ++ AJoined g "join" :: rest /\ Forall is_push rest.
Proof.
  intros w h c g u pw tk w' c0 H Hc0. unfold add_client in H. cbv zeta in H.
  destruct (find_group w g) as [gr|]; [|inversion H].
  match type of H with
  | match ?s with inl _ => _ | inr _ => _ end = _ => destruct s as [[w1 c1]|[w1 e]] eqn:Es
  end; [|inversion H].
  (* the first phase changes the permissions and username of h at most *)
  assert (H1 : queue_of w1 h = queue_of w h /\ exists c1', get_client w1 h = Some c1').
  { repeat break_eq; inv_eqs; try (split; [reflexivity | eauto]).
    all: unfold queue_of; rewrite get_client_upd, Nat.eqb_refl, Hc0; cbn; eauto. }
  destruct H1 as [Hq1 (c1' & Hc1')].
  destruct (is_empty (c_id c1)); [inversion H|].
  destruct (get_member w1 g (c_id c1)); [inversion H|].
  inversion H as [Hw']. clear H.
  set (w2 := upd_group w1 g (fun gr => gset_members gr (g_members gr ++ [h]))).
  assert (Hc2 : get_client w2 h = Some c1') by exact Hc1'.
  destruct (queue_of_enq_self w2 h (AJoined g "join") c1' Hc2) as [Q3 (c3 & Hc3)].
  set (w3 := enq w2 h (AJoined g "join")) in *.
  set (a4 := APushClient g "add" (c_id c1) (c_username c1) (c_perms c1) (c_data c1)).
  destruct (queue_of_enq_self w3 h a4 c3 Hc3) as [Q4 (c4 & Hc4)].
  set (w4 := enq w3 h a4) in *.
  assert (Hq2 : queue_of w2 h = queue_of w h) by (rewrite <- Hq1; reflexivity).
  match goal with |- exists rest, queue_of (fold_left ?F ?l ?w0) h = _ /\ _ =>
    destruct (fold_push_queue F h l w0) as (r & Er & Fr) end.
  { intros w0 cc. destruct (get_client w0 cc) as [ccr|].
    - match goal with |- exists r, queue_of (enq (enq w0 h ?a1) cc ?a2) h = _ /\ _ =>
        destruct (queue_of_enq w0 h a1 h) as (r1 & E1 & D1);
        destruct (queue_of_enq (enq w0 h a1) cc a2 h) as (r2 & E2 & D2) end.
      exists (r1 ++ r2). rewrite E2, E1, app_assoc. split; [reflexivity|].
      apply Forall_app. split; [destruct D1 as [-> | ->] | destruct D2 as [-> | ->]];
        repeat constructor.
    - exists []. rewrite app_nil_r. auto. }
  rewrite Er. destruct (g_recording gr).
  - match goal with |- exists rest, queue_of (enq w4 h ?a5) h ++ r = _ /\ _ =>
      destruct (queue_of_enq_self w4 h a5 c4 Hc4) as [Q5 _]; rewrite Q5 end.
    rewrite Q4, Q3, Hq2. exists ([a4; APushClient g "add" "?" "RECORDING" ["system"] []] ++ r).
    rewrite <- !app_assoc. split; [reflexivity|]. apply Forall_app. split; [repeat constructor | exact Fr].
  - rewrite Q4, Q3, Hq2. exists ([a4] ++ r).
    rewrite <- !app_assoc. split; [reflexivity|]. apply Forall_app. split; [repeat constructor | exact Fr].
Qed.

Lemma join_enqueues : forall w h c m r c' g,
  get_client w h = Some c -> c_group c = None -> handle_join w h c m = Ok r ->
  get_client (r_world r) h = Some c' -> c_group c' = Some g ->
  g = m_group m /\
  exists rest, queue_of (r_world r) h = queue_of w h ++ AJoined g "join" :: rest /\ Forall is_push rest.
Proof.
  intros w h c m r c' g Hc Hg H Hc' Hg'. unfold handle_join in H.
  destruct (String.eqb (m_kind m) "leave").
  { rewrite Hg in H. finish_ok H; cbn [r_world] in Hc'. congruence. }
  destruct (negb (String.eqb (m_kind m) "join")); [finish_ok H; cbn [r_world] in Hc'; congruence|].
  rewrite Hg in H. cbv zeta in H.
  match type of H with (if ?b then _ else _) = _ => destruct b end.
  { finish_ok H; cbn [r_world] in Hc'. unfold send in Hc'. rewrite get_client_upd, Nat.eqb_refl, Hc in Hc'.
    cbn in Hc'. inversion Hc'; subst c'. cbn in Hg'. congruence. }
  set (w0 := upd w h (fun c => set_data c (m_data m))) in *.
  assert (Hc0 : get_client w0 h = Some (set_data c (m_data m))).
  { unfold w0. rewrite get_client_upd, Nat.eqb_refl, Hc. reflexivity. }
  destruct (add_client _ _ _ _ _ _ _) as [w1 oe] eqn:Ea.
  destruct oe as [e|].
  - exfalso. apply add_client_fail in Ea. destruct Ea as [_ Hig].
    destruct (join_fail_text e) as [ec v]. finish_ok H; cbn [r_world] in Hc'.
    unfold send in Hc'. rewrite !get_client_upd, !Nat.eqb_refl in Hc'.
    specialize (Hig h). rewrite Hc0 in Hig. cbn in Hig.
    destruct (get_client w1 h) as [c1|]; [|discriminate]. cbn in Hig, Hc'. unfold ig in Hig.
    inversion Hig. inversion Hc'; subst c'. cbn in Hg'. congruence.
  - finish_ok H; cbn [r_world] in Hc'. rewrite get_client_upd, Nat.eqb_refl in Hc'.
    destruct (add_client_queue _ _ _ _ _ _ _ _ _ Ea Hc0) as (rest & Hq & Hf).
    destruct (get_client w1 h) as [c1|] eqn:Ec1; [|discriminate].
    cbn in Hc'. inversion Hc'; subst c'. cbn in Hg'. inversion Hg'; subst g.
    split; [reflexivity|]. exists rest. split; [|exact Hf].
    unfold queue_of in *. rewrite get_client_upd, Nat.eqb_refl, Ec1. cbn.
    rewrite Ec1, Hc0 in Hq. cbn in Hq. rewrite Hc. exact Hq.
Qed.

(* C07: executable checker of the hypothesis on histories, and concrete
   histories: one on which everything the theorems need holds (non-vacuity),
   and the schedules that show why each hypothesis is there. *)
From Coq Require Import List Bool Arith PeanoNat Lia.
From Galene Require Import Model.Subscribe Proofs.SubscribeFrame Proofs.SubscribeInv.
Import ListNotations.

Definition is_some {A} (o : option A) : bool := match o with Some _ => true | None => false end.

Definition ok_opb (w : world) (o : op) : bool :=
  match o with
  | OpMsg c (MOffer id label replace s) =>
      (is_some (lookup id (c_up (w_cl w c))) ||
       forallb (fun v => negb (Nat.eqb (uo_id (w_up w v)) id)) (seq 0 (w_nup w))) &&
      (Nat.eqb replace 0 ||
       (negb (is_some (lookup id (c_up (w_cl w c)))) && is_some (lookup replace (c_up (w_cl w c)))))
  | _ => true
  end.

Fixpoint ok_runb (w : world) (ops : list op) : bool :=
  match ops with
  | [] => true
  | o :: r => ok_opb w o && ok_runb (step w o) r
  end.

Lemma ok_opb_sound : forall w o, ok_opb w o = true -> ok_op w o.
Proof.
  intros w o H. destruct o as [c m|c|c|i|u k]; simpl; auto.
  destruct m; simpl; auto. simpl in H. apply andb_prop in H. destruct H as [H1 H2]. split.
  - intros Hl v Hv. rewrite Hl in H1. simpl in H1. rewrite forallb_forall in H1.
    specialize (H1 v). assert (X : In v (seq 0 (w_nup w))) by (apply in_seq; lia).
    specialize (H1 X). apply negb_true_iff in H1. apply Nat.eqb_neq in H1. exact H1.
  - intro Hr. apply orb_prop in H2. destruct H2 as [H2|H2].
    + apply Nat.eqb_eq in H2. contradiction.
    + apply andb_prop in H2. destruct H2 as [A B]. split.
      * destruct (lookup id (c_up (w_cl w c))); [discriminate|reflexivity].
      * destruct (lookup replace (c_up (w_cl w c))); [discriminate|discriminate].
Qed.

Lemma ok_runb_sound : forall ops w, ok_runb w ops = true -> ok_run w ops.
Proof.
  induction ops as [|o r IH]; intros w H; simpl in *; [exact I|].
  apply andb_prop in H. destruct H as [H1 H2]. split; [apply ok_opb_sound; exact H1|apply IH; exact H2].
Qed.

(* ---- a history on which everything happens as the property says *)

(* clients 0 (publisher), 1 (requests audio+video), 2 (requests nothing), group 1 *)
Definition good_history : list op :=
  [ OpMsg 0 (MJoin 1 1 true false); OpMsg 1 (MJoin 1 4 false false); OpMsg 2 (MJoin 1 8 false false);
    OpMsg 1 (MRequest [(0, [RAudio; RVideo])]);
    OpPump 0; OpPump 2;
    OpMsg 0 (MOffer 1 1 0 SGood);
    OpTrack 0 KAudio; OpTrack 0 KVideo;
    OpTimer 0; OpTimer 0; OpTimer 0;
    OpPump 1; OpPump 2 ].

Definition good_world : world := run (init 3) good_history.

Example good_history_ok : ok_run (init 3) good_history.
Proof. apply ok_runb_sound. vm_compute. reflexivity. Qed.

Example good_history_quiescent : quiescentb good_world = true.
Proof. vm_compute. reflexivity. Qed.

(* client 1 holds the stream with exactly the audio and the video track, was
   sent one offer carrying the publisher's id 0 and username 1; client 2 holds
   nothing and was sent a close for the stream it was never offered *)
Example good_history_result :
  map (fun d => (d_id d, d_remote d, d_tracks d)) (c_down (w_cl good_world 1)) = [(1, 0, [(0, 0); (0, 1)])] /\
  c_out (w_cl good_world 1) = [OOffer 1 1 0 0 1] /\
  c_down (w_cl good_world 2) = [] /\ c_out (w_cl good_world 2) = [OClose 1].
Proof. vm_compute. repeat split. Qed.

(* the publisher closes the stream: at quiescence nobody holds it, the
   subscriber was sent a close *)
Definition good_close : list op := good_history ++ [OpMsg 0 (MClose 1); OpPump 1; OpPump 2].

Example good_close_ok : ok_run (init 3) good_close.
Proof. apply ok_runb_sound. vm_compute. reflexivity. Qed.

Example good_close_result :
  quiescentb (run (init 3) good_close) = true /\
  c_down (w_cl (run (init 3) good_close) 1) = [] /\
  c_out (w_cl (run (init 3) good_close) 1) = [OOffer 1 1 0 0 1; OClose 1].
Proof. vm_compute. repeat split. Qed.

(* ---- the late joiner (finding F26, repaired: the delayed push reads the
   group's clients when it fires) *)

(* The publisher offers a stream; client 1 joins inside the push delay and
   requests video; it is pushed the stream, which has no track yet (close);
   OnTrack fires; the first delayed push fires: it now pushes to the clients
   that are in the group at that moment, client 1 included. *)
Definition late_joiner : list op :=
  [ OpMsg 0 (MJoin 1 1 true false);
    OpMsg 0 (MOffer 1 0 0 SGood);
    OpMsg 1 (MJoin 1 4 false false);
    OpMsg 1 (MRequest [(0, [RVideo])]);
    OpPump 0; OpPump 1;
    OpTrack 0 KVideo;
    OpTimer 0; OpTimer 0; OpPump 1 ].

Example late_joiner_ok : ok_run (init 2) late_joiner.
Proof. apply ok_runb_sound. vm_compute. reflexivity. Qed.

Example late_joiner_offered :
  let w := run (init 2) late_joiner in
  quiescentb w = true /\
  map (fun d => (d_id d, d_remote d, d_tracks d)) (c_down (w_cl w 1)) = [(1, 0, [(0, 0)])] /\
  c_out (w_cl w 1) = [OClose 1; OOffer 1 0 0 0 1].
Proof. vm_compute. repeat split. Qed.

(* ---- why ids must be unique: another publisher's offer with the same id *)

Definition collision : list op :=
  [ OpMsg 0 (MJoin 1 1 true false); OpMsg 1 (MJoin 1 5 true false); OpMsg 2 (MJoin 1 8 false false);
    OpMsg 2 (MRequest [(0, [RAudio; RVideo])]);
    OpPump 0; OpPump 1;
    OpMsg 0 (MOffer 1 0 0 SGood); OpTrack 0 KAudio; OpTimer 0; OpTimer 0; OpPump 2;
    (* client 1 offers the same id 1 *)
    OpMsg 1 (MOffer 1 0 0 SGood); OpTrack 1 KVideo; OpTimer 0; OpTimer 0; OpPump 2 ].

Example collision_not_ok : ok_runb (init 3) collision = false.
Proof. vm_compute. reflexivity. Qed.

(* the down stream of client 2 is the one labelled with publisher 0; its audio
   track is gone and it now carries the video track of the object of publisher 1 *)
Example collision_splices_tracks :
  let w := run (init 3) collision in
  map (fun d => (d_id d, uo_owner (w_up w (d_remote d)), d_tracks d)) (c_down (w_cl w 2)) =
    [(1, 0, [(1, 0)])].
Proof. vm_compute. reflexivity. Qed.

(* and client 1 can close the stream of client 0 at every subscriber *)
Example collision_closes_foreign_stream :
  let w := run (init 3) (collision ++ [OpMsg 1 (MClose 1); OpPump 2]) in
  c_down (w_cl w 2) = [] /\ uo_closed (w_up w 0) = false /\
  lookup 1 (c_up (w_cl w 0)) = Some 0.
Proof. vm_compute. repeat split. Qed.

(* ---- why `replace` must come with the first offer of the replacing stream *)

Definition replace_on_existing : list op :=
  [ OpMsg 0 (MJoin 1 1 true false); OpMsg 1 (MJoin 1 4 false false);
    OpMsg 1 (MRequest [(0, [RAudio])]); OpPump 0;
    OpMsg 0 (MOffer 1 0 0 SGood); OpTrack 0 KAudio; OpTimer 0; OpTimer 0;
    OpMsg 0 (MOffer 2 0 0 SGood); OpTrack 1 KAudio; OpTimer 0; OpTimer 0;
    OpPump 1; OpPump 1;
    (* a second offer for the existing stream 1 carrying replace = 2 *)
    OpMsg 0 (MOffer 1 0 2 SGood) ].

Example replace_on_existing_not_ok : ok_runb (init 2) replace_on_existing = false.
Proof. vm_compute. reflexivity. Qed.

(* stream 2 has ended, everything is quiescent, and client 1 still holds it *)
Example replace_on_existing_breaks_teardown :
  let w := run (init 2) replace_on_existing in
  quiescentb w = true /\ uo_closed (w_up w 1) = true /\
  map d_id (c_down (w_cl w 1)) = [1; 2].
Proof. vm_compute. repeat split. Qed.


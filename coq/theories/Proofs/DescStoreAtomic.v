(* Atomic replacement of a group file: rewriteDescriptionFile as a sequence of
   system calls (Model/DescStore.v) with a crash, or a reader, between any two
   of them.  The operating system is a parameter: any state type [D], read
   function [rd] (what opening and reading a name yields) and step function
   [ex] that satisfy [os_ok] -- each call affects only the names it is given,
   and rename is ONE step that makes the target read as the source did.  The
   reference implementation [exec_sys] of the model satisfies [os_ok]. *)
From Coq Require Import ZArith List Bool Lia.
From Galene Require Import Model.Etag Proofs.EtagSpec Model.DescStore.
Import ListNotations.
Open Scope Z_scope.

Record os_ok (D : Type) (rd : D -> fname -> option str) (ex : D -> sys -> D) : Prop := {
  os_create_tmp : forall d t, rd (ex d (SCreate t)) t = Some [];
  os_create_other : forall d t n, n <> t -> rd (ex d (SCreate t)) n = rd d n;
  os_write_tmp : forall d t c x, rd d t = Some x -> rd (ex d (SWrite t c)) t = Some (x ++ c);
  os_write_other : forall d t c n, n <> t -> rd (ex d (SWrite t c)) n = rd d n;
  os_sync : forall d t n, rd (ex d (SSync t)) n = rd d n;
  os_close : forall d t n, rd (ex d (SClose t)) n = rd d n;
  os_rename_to : forall d a b x, rd d a = Some x -> rd (ex d (SRename a b)) b = Some x;
  os_rename_other : forall d a b n, n <> a -> n <> b -> rd (ex d (SRename a b)) n = rd d n;
  os_remove : forall d a, rd (ex d (SRemove a)) a = None;
  os_remove_other : forall d a n, n <> a -> rd (ex d (SRemove a)) n = rd d n
}.

(* ------------------------------------------------------------ names *)

Lemma is_group_file_json : forall g, is_group_file (group_file g) = true.
Proof.
  intro g. unfold is_group_file, has_suffix, group_file.
  rewrite rev_app_distr. unfold suffix_json. cbn. destruct (rev g); reflexivity.
Qed.

Lemma is_group_file_temp : forall r, is_group_file (temp_name r) = false.
Proof.
  intro r. unfold is_group_file, has_suffix, temp_name.
  rewrite rev_app_distr. unfold suffix_json, suffix_temp. cbn. reflexivity.
Qed.

Lemma temp_not_group : forall r n, is_group_file n = true -> n <> temp_name r.
Proof. intros r n H E. subst n. rewrite is_group_file_temp in H. discriminate. Qed.

(* ------------------------------------------------------------ the abstract OS *)

Section Atomic.
  Variable D : Type.
  Variable rd : D -> fname -> option str.
  Variable ex : D -> sys -> D.
  Hypothesis OS : os_ok D rd ex.

  (* calls that touch only the temp file *)
  Definition tmp_only (tmp : fname) (s : sys) : Prop :=
    match s with
    | SCreate t | SWrite t _ | SRemove t => t = tmp
    | SSync _ | SClose _ => True
    | SRename _ _ => False
    end.

  Lemma tmp_only_step : forall tmp s d n,
    tmp_only tmp s -> n <> tmp -> rd (ex d s) n = rd d n.
  Proof.
    intros tmp s d n H N. destruct s; cbn [tmp_only] in H; subst.
    - apply (os_create_other _ _ _ OS). exact N.
    - apply (os_write_other _ _ _ OS). exact N.
    - apply (os_sync _ _ _ OS).
    - apply (os_close _ _ _ OS).
    - contradiction.
    - apply (os_remove_other _ _ _ OS). exact N.
  Qed.

  Lemma tmp_only_run : forall tmp l d n,
    Forall (tmp_only tmp) l -> n <> tmp -> rd (fold_left ex l d) n = rd d n.
  Proof.
    intros tmp. induction l as [|s l IH]; intros d n F N; cbn [fold_left]; [reflexivity|].
    inversion F; subst. rewrite IH by assumption. apply (tmp_only_step tmp); assumption.
  Qed.

  Lemma writes_run : forall tmp chunks d x,
    rd d tmp = Some x ->
    rd (fold_left ex (map (SWrite tmp) chunks) d) tmp = Some (x ++ concat chunks).
  Proof.
    intros tmp. induction chunks as [|c cs IH]; intros d x H; cbn [map fold_left concat].
    - rewrite app_nil_r. exact H.
    - rewrite (IH _ (x ++ c)).
      + rewrite <- app_assoc. reflexivity.
      + apply (os_write_tmp _ _ _ OS). exact H.
  Qed.

  (* everything before the rename *)
  Definition pre_steps (tmp : fname) (chunks : list str) : list sys :=
    SCreate tmp :: map (SWrite tmp) chunks ++ [SSync tmp; SClose tmp].

  Lemma rewrite_steps_split : forall target tmp chunks,
    rewrite_steps target tmp chunks = pre_steps tmp chunks ++ [SRename tmp target].
  Proof.
    intros. unfold rewrite_steps, pre_steps. cbn [app]. f_equal.
    rewrite <- app_assoc. reflexivity.
  Qed.

  Lemma pre_steps_tmp_only : forall tmp chunks, Forall (tmp_only tmp) (pre_steps tmp chunks).
  Proof.
    intros. unfold pre_steps. constructor; [reflexivity|].
    apply Forall_app. split.
    - apply Forall_forall. intros s Hs. apply in_map_iff in Hs.
      destruct Hs as (c & E & _). subst s. reflexivity.
    - repeat constructor.
  Qed.

  Lemma pre_steps_temp_complete : forall tmp chunks d,
    rd (fold_left ex (pre_steps tmp chunks) d) tmp = Some (concat chunks).
  Proof.
    intros. unfold pre_steps. cbn [fold_left]. rewrite fold_left_app. cbn [fold_left].
    rewrite (os_close _ _ _ OS), (os_sync _ _ _ OS).
    rewrite (writes_run tmp chunks _ []); [reflexivity|].
    apply (os_create_tmp _ _ _ OS).
  Qed.

  Lemma Forall_firstn : forall A (P : A -> Prop) k l, Forall P l -> Forall P (firstn k l).
  Proof.
    intros A P. induction k; intros l F; cbn [firstn]; [constructor|].
    destruct l; [constructor|]. inversion F; subst. constructor; auto.
  Qed.

  (* A crash (or a reader) after any number k of the system calls of one
     rewrite of group g with the new bytes [concat chunks], however the kernel
     splits the write and whatever the random temp name: the definition of g is
     the complete old one or the complete new one; it is the new one once all
     calls are done; no other *.json entry is affected. *)
  Theorem rewrite_atomic : forall d g r chunks k,
    let tgt := group_file g in
    let tmp := temp_name r in
    let dk := fold_left ex (firstn k (rewrite_steps tgt tmp chunks)) d in
    (rd dk tgt = rd d tgt \/ rd dk tgt = Some (concat chunks)) /\
    ((length (rewrite_steps tgt tmp chunks) <= k)%nat -> rd dk tgt = Some (concat chunks)) /\
    ((k < length (rewrite_steps tgt tmp chunks))%nat -> rd dk tgt = rd d tgt) /\
    (forall n, is_group_file n = true -> n <> tgt -> rd dk n = rd d n).
  Proof.
    intros d g r chunks k tgt tmp dk.
    assert (Nt : tgt <> tmp).
    { apply temp_not_group. apply is_group_file_json. }
    pose proof (rewrite_steps_split tgt tmp chunks) as Sp.
    pose proof (pre_steps_tmp_only tmp chunks) as Po.
    destruct (Nat.le_gt_cases (length (rewrite_steps tgt tmp chunks)) k) as [Hk|Hk].
    - (* all calls done *)
      assert (Ed : dk = ex (fold_left ex (pre_steps tmp chunks) d) (SRename tmp tgt)).
      { subst dk. rewrite firstn_all2 by exact Hk. rewrite Sp, fold_left_app. reflexivity. }
      assert (New : rd dk tgt = Some (concat chunks)).
      { rewrite Ed. apply (os_rename_to _ _ _ OS). apply pre_steps_temp_complete. }
      split; [right; exact New|]. split; [intros _; exact New|]. split; [lia|].
      intros n Hn Nn. rewrite Ed.
      rewrite (os_rename_other _ _ _ OS) by (try assumption; apply temp_not_group; assumption).
      apply (tmp_only_run tmp); [exact Po | apply temp_not_group; assumption].
    - (* the rename has not happened *)
      assert (Fk : Forall (tmp_only tmp) (firstn k (rewrite_steps tgt tmp chunks))).
      { rewrite Sp in *. rewrite app_length in Hk. cbn [length] in Hk.
        rewrite firstn_app.
        replace (k - length (pre_steps tmp chunks))%nat with 0%nat by lia.
        cbn [firstn]. rewrite app_nil_r. apply Forall_firstn. exact Po. }
      assert (Old : forall n, n <> tmp -> rd dk n = rd d n).
      { intros n Nn. subst dk. apply (tmp_only_run tmp); assumption. }
      split; [left; apply Old; exact Nt|]. split; [lia|]. split; [intros _; apply Old; exact Nt|].
      intros n Hn _. apply Old. apply temp_not_group. assumption.
  Qed.

  (* The run in which call number k fails (k >= 1: the temp file exists; the
     failing call has no effect) and the cleanup follows: at every point of it
     the definition is the old one, and at its end the temp file is gone. *)
  Theorem rewrite_failure_keeps_old : forall d g r chunks k j,
    let tgt := group_file g in
    let tmp := temp_name r in
    (k < length (rewrite_steps tgt tmp chunks))%nat ->
    let steps := rewrite_steps_failing tgt tmp chunks k in
    (forall n, is_group_file n = true ->
       rd (fold_left ex (firstn j steps) d) n = rd d n) /\
    rd (fold_left ex steps d) tmp = None.
  Proof.
    intros d g r chunks k j tgt tmp Hk steps.
    pose proof (rewrite_steps_split tgt tmp chunks) as Sp.
    pose proof (pre_steps_tmp_only tmp chunks) as Po.
    assert (Fs : Forall (tmp_only tmp) steps).
    { subst steps. unfold rewrite_steps_failing. apply Forall_app. split.
      - rewrite Sp in *. rewrite app_length in Hk. cbn [length] in Hk.
        rewrite firstn_app.
        replace (k - length (pre_steps tmp chunks))%nat with 0%nat by lia.
        cbn [firstn]. rewrite app_nil_r. apply Forall_firstn. exact Po.
      - repeat constructor. }
    split.
    - intros n Hn. apply (tmp_only_run tmp).
      + apply Forall_firstn. exact Fs.
      + apply temp_not_group. assumption.
    - subst steps. unfold rewrite_steps_failing. rewrite fold_left_app. cbn [fold_left].
      apply (os_remove _ _ _ OS).
  Qed.
End Atomic.

(* ------------------------------------------------------------ the reference OS *)

Lemma lookup_set_eq : forall n x d, lookup n (set_file n x d) = Some x.
Proof. intros. unfold set_file. cbn [lookup]. rewrite str_eqb_refl. reflexivity. Qed.

Lemma lookup_remove_eq : forall n d, lookup n (remove n d) = None.
Proof.
  intros n. induction d as [|[k x] d IH]; cbn [remove lookup]; [reflexivity|].
  destruct (str_eqb k n) eqn:E; [exact IH|]. cbn [lookup]. rewrite E. exact IH.
Qed.

Lemma lookup_remove_neq : forall n m d, n <> m -> lookup n (remove m d) = lookup n d.
Proof.
  intros n m. induction d as [|[k x] d IH]; intro N; cbn [remove lookup]; [reflexivity|].
  destruct (str_eqb k m) eqn:E.
  - apply str_eqb_eq in E. subst k.
    destruct (str_eqb m n) eqn:E2; [apply str_eqb_eq in E2; congruence | auto].
  - cbn [lookup]. destruct (str_eqb k n); auto.
Qed.

Lemma lookup_set_neq : forall n m x d, n <> m -> lookup n (set_file m x d) = lookup n d.
Proof.
  intros n m x d N. unfold set_file. cbn [lookup].
  destruct (str_eqb m n) eqn:E; [apply str_eqb_eq in E; congruence|].
  apply lookup_remove_neq. exact N.
Qed.

Theorem exec_sys_os_ok : os_ok dir (fun d n => lookup n d) exec_sys.
Proof.
  constructor; intros; cbn [exec_sys].
  - apply lookup_set_eq.
  - apply lookup_set_neq. assumption.
  - rewrite H. apply lookup_set_eq.
  - destruct (lookup t d); [apply lookup_set_neq; assumption | reflexivity].
  - reflexivity.
  - reflexivity.
  - rewrite H. apply lookup_set_eq.
  - destruct (lookup a d); [|reflexivity].
    rewrite lookup_set_neq by assumption. apply lookup_remove_neq. assumption.
  - apply lookup_remove_eq.
  - apply lookup_remove_neq. assumption.
Qed.

(* a leftover temp file is never listed as a group *)
Lemma group_files_no_temp : forall d r, ~ In (temp_name r) (group_files d).
Proof.
  intros d r H. unfold group_files in H. apply filter_In in H. destruct H as [_ H].
  rewrite is_group_file_temp in H. discriminate.
Qed.

(* Histories of the token store: the invariant along a history, the mirror
   property, finality of revocation, conditional writes, atomicity. *)
From Coq Require Import ZArith List Bool Lia Permutation.
From Galene Require Import Model.TokenStore Proofs.TokenStoreBasics Proofs.TokenStoreInv.
Import ListNotations.
Open Scope Z_scope.

(* ================= histories ================= *)

Definition op_stamps (o : op) : list stamp :=
  match o with
  | ODo w | OCrash w _ _ | OFail w _ => wop_stamps w
  | OExternal _ st => [st]
  | _ => []
  end.

(* the property's hypothesis: every stamp the file system hands out is new
   (and is not the zero time) *)
Fixpoint fresh (used : list stamp) (h : list op) : Prop :=
  match h with
  | [] => True
  | o :: r => fresh_stamps used (op_stamps o) /\ fresh (op_stamps o ++ used) r
  end.

Fixpoint used_run (used : list stamp) (h : list op) : list stamp :=
  match h with
  | [] => used
  | o :: r => used_run (op_stamps o ++ used) r
  end.

(* an I/O error inside Expire is outside the theorems (see
   expire_io_error_breaks_mirror) *)
Definition ok_op (o : op) : Prop :=
  match o with OFail w _ => not_expire w | _ => True end.

Lemma fresh_app : forall h1 h2 used,
  fresh used (h1 ++ h2) <-> fresh used h1 /\ fresh (used_run used h1) h2.
Proof.
  induction h1 as [|o r IH]; intros h2 used; cbn [app fresh used_run]; [tauto|].
  rewrite IH. tauto.
Qed.

Lemma used_run_incl : forall h used st, In st used -> In st (used_run used h).
Proof.
  induction h as [|o r IH]; intros used st H; cbn [used_run]; [exact H|].
  apply IH. apply in_or_app; right; exact H.
Qed.

Lemma used_run_app : forall h1 h2 used, used_run used (h1 ++ h2) = used_run (used_run used h1) h2.
Proof. induction h1 as [|o r IH]; intros; cbn [app used_run]; [reflexivity | apply IH]. Qed.

Lemma run_app : forall h1 h2 s, run s (h1 ++ h2) = run (run s h1) h2.
Proof. induction h1 as [|o r IH]; intros; cbn [app run]; [reflexivity | apply IH]. Qed.

Lemma zero_not_fresh : forall used l st, fresh_stamps used l -> In st l -> st <> zero_stamp.
Proof. intros used l st H Hi ->. apply (H _ Hi). reflexivity. Qed.

Lemma step_Inv : forall used s o,
  Inv used s -> fresh_stamps used (op_stamps o) -> ok_op o ->
  Inv (op_stamps o ++ used) (fst (step s o)).
Proof.
  intros used [m f] o HI Hf Hok. destruct o as [n | g | w | c st | | | w k mid | w k].
  - cbn [step s_mem s_file op_stamps app].
    destruct (load m f) as [m1 lr] eqn:L. pose proof (proj1 (load_Inv _ _ _ _ _ HI L)) as H1.
    destruct lr; [destruct (tlookup n (m_tokens m1))|]; exact H1.
  - cbn [step s_mem s_file op_stamps app].
    destruct (load m f) as [m1 lr] eqn:L. pose proof (proj1 (load_Inv _ _ _ _ _ HI L)) as H1.
    destruct lr; exact H1.
  - apply do_Inv; assumption.
  - cbn [step s_mem s_file op_stamps fst] in *.
    assert (Hst : ~ In st used /\ st_mtime st <> 0) by (apply Hf; left; reflexivity).
    destruct Hst as [Hnew Hmt].
    assert (Hw : Inv ([st] ++ used) (mkState m f)).
    { apply Inv_weaken; [exact HI|]. intros x [<-|[]]; exact Hmt. }
    destruct Hw as [W1 W2 W3 W4 W5]. cbn [s_mem s_file] in *.
    constructor; cbn [s_mem s_file]; auto.
    + destruct c as [ls|]; [| discriminate].
      intros fl E; inversion E; subst; cbn; auto.
    + destruct c as [ls|]; cbn [file_mirror f_st]; [| trivial].
      intros E. exfalso. destruct (inv_memst _ _ HI) as [Z|Hin]; cbn [s_mem] in *.
      * rewrite Z in E. subst st. apply Hmt; reflexivity.
      * rewrite E in Hin. contradiction.
  - cbn [step s_mem s_file op_stamps app fst].
    apply Inv_reset; [apply (inv_filest _ _ HI) | apply (inv_used _ _ HI)].
  - cbn [step s_mem s_file op_stamps app fst].
    destruct HI as [H1 H2 H3 H4 H5]. cbn [s_mem s_file] in *.
    constructor; cbn [s_mem s_file m_tokens m_st]; auto.
    destruct f as [fl|]; cbn [file_mirror]; [| trivial].
    intros E. exfalso. apply (H4 (f_st fl)); [apply H3; reflexivity | rewrite <- E; reflexivity].
  - apply crash_Inv; assumption.
  - apply fail_Inv; assumption.
Qed.

Lemma run_Inv : forall h used s,
  Inv used s -> fresh used h -> Forall ok_op h -> Inv (used_run used h) (run s h).
Proof.
  induction h as [|o r IH]; intros used s HI Hf Hok; cbn [run used_run]; [exact HI|].
  destruct Hf as [Hf1 Hf2]. inversion Hok; subst.
  apply IH; [apply step_Inv; assumption | exact Hf2 | assumption].
Qed.

(* ================= mirror ================= *)

Definition restart_state (s : state) : state := mkState reset_mem (s_file s).

(* the running server and a freshly started one load the same map *)
Lemma load_restart_equiv : forall used m f m1 lr m1' lr',
  Inv used (mkState m f) -> load m f = (m1, lr) -> load reset_mem f = (m1', lr') ->
  lr = lr' /\ eqm (m_tokens m1) (m_tokens m1') /\
  NoDup (names (m_tokens m1)) /\ NoDup (names (m_tokens m1')).
Proof.
  intros used m f m1 lr m1' lr' HI L L'.
  assert (Hnd : NoDup (names (m_tokens m1))).
  { eapply load_NoDup; [apply (inv_nodup _ _ HI) | exact L]. }
  assert (Hnd' : NoDup (names (m_tokens m1'))).
  { eapply load_NoDup; [| exact L']. constructor. }
  split; [| split; [| split; assumption]].
  - destruct f as [fl|].
    + assert (Hz : stamp_eqb (m_st reset_mem) (f_st fl) = false).
      { apply stamp_eqb_neq. cbn. intros E.
        apply (inv_used _ _ HI (f_st fl)); [apply (inv_filest _ _ HI); reflexivity | rewrite <- E; reflexivity]. }
      cbn [load] in L, L'. rewrite Hz in L'.
      destruct (stamp_eqb (m_st m) (f_st fl)) eqn:E.
      * apply stamp_eqb_eq in E. destruct (inv_mirror _ _ HI E) as (ts & Hp & _).
        cbn [s_file] in Hp. rewrite Hp in L'. inversion L; inversion L'; subst.
        unfold etag_of; cbn [m_st]. rewrite E. reflexivity.
      * destruct (parse (f_lines fl)); inversion L; inversion L'; subst; reflexivity.
    + rewrite load_none in L, L'. inversion L; inversion L'; subst; reflexivity.
  - destruct f as [fl|].
    + assert (Hz : stamp_eqb (m_st reset_mem) (f_st fl) = false).
      { apply stamp_eqb_neq. cbn. intros E.
        apply (inv_used _ _ HI (f_st fl)); [apply (inv_filest _ _ HI); reflexivity | rewrite <- E; reflexivity]. }
      cbn [load] in L, L'. rewrite Hz in L'.
      destruct (stamp_eqb (m_st m) (f_st fl)) eqn:E.
      * apply stamp_eqb_eq in E. destruct (inv_mirror _ _ HI E) as (ts & Hp & He).
        cbn [s_file s_mem] in Hp, He. rewrite Hp in L'. inversion L; inversion L'; subst. exact He.
      * destruct (parse (f_lines fl)); inversion L; inversion L'; subst; apply eqm_refl.
    + rewrite load_none in L, L'. inversion L; inversion L'; subst; apply eqm_refl.
Qed.

Lemma mirror_get : forall used s n, Inv used s ->
  snd (step s (OGet n)) = snd (step (restart_state s) (OGet n)).
Proof.
  intros used [m f] n HI. unfold restart_state. cbn [step s_mem s_file].
  destruct (load m f) as [m1 lr] eqn:L. destruct (load reset_mem f) as [m1' lr'] eqn:L'.
  destruct (load_restart_equiv _ _ _ _ _ _ _ HI L L') as (-> & He & _ & _).
  destruct lr' as [e|]; [| reflexivity].
  rewrite (He n). destruct (tlookup n (m_tokens m1')); reflexivity.
Qed.

Lemma mirror_list : forall used s g, Inv used s ->
  let o := snd (step s (OList g)) in
  let o' := snd (step (restart_state s) (OList g)) in
  o_res o = o_res o' /\ o_etag o = o_etag o' /\ (forall t, In t (o_toks o) <-> In t (o_toks o')).
Proof.
  intros used [m f] g HI. unfold restart_state. cbn [step s_mem s_file].
  destruct (load m f) as [m1 lr] eqn:L. destruct (load reset_mem f) as [m1' lr'] eqn:L'.
  destruct (load_restart_equiv _ _ _ _ _ _ _ HI L L') as (-> & He & Hnd & Hnd').
  destruct lr' as [e|]; cbn [snd o_res o_etag o_toks]; [| repeat split; auto].
  split; [reflexivity|]. split; [reflexivity|].
  intros t. rewrite !list_mem_In.
  assert (Hin : In t (m_tokens m1) <-> In t (m_tokens m1')).
  { split; intros Hi.
    - assert (H1 : tlookup (tk_name t) (m_tokens m1) = Some t) by (apply (tlookup_iff _ Hnd); auto).
      rewrite He in H1. apply (tlookup_iff _ Hnd') in H1. apply H1.
    - assert (H1 : tlookup (tk_name t) (m_tokens m1') = Some t) by (apply (tlookup_iff _ Hnd'); auto).
      rewrite <- He in H1. apply (tlookup_iff _ Hnd) in H1. apply H1. }
  tauto.
Qed.

(* ================= revocation is final ================= *)

Definition absent (n : Z) (s : state) : Prop :=
  ~ In n (names (m_tokens (s_mem s))) /\ ~ In n (rec_names (lines_of (s_file s))).

(* the operations that may bring the name n back *)
Definition wrecreates (n : Z) (w : wop) : Prop :=
  match w with WUpdate t _ _ _ => tk_name t = n | _ => False end.
Definition recreates (n : Z) (o : op) : Prop :=
  match o with
  | ODo w | OCrash w _ _ | OFail w _ => wrecreates n w
  | OExternal (Some ls) _ => In n (rec_names ls)
  | _ => False
  end.

Definition entry_ok (n : Z) (e : entry) : Prop :=
  match e with Rec t => tk_name t <> n | Junk => True end.
Definition sys_ok (n : Z) (c : sys) : Prop :=
  match c with SysWriteTmp e | SysAppend e _ => entry_ok n e | _ => True end.
Definition disk_absent (n : Z) (d : disk) : Prop :=
  ~ In n (rec_names (main_lines d)) /\
  match d_tmp d with Some l => ~ In n (rec_names l) | None => True end.

Lemma rec_names_snoc : forall n l e, ~ In n (rec_names l) -> entry_ok n e -> ~ In n (rec_names (l ++ [e])).
Proof.
  intros n l e Hl He. rewrite rec_names_app. intros H. apply in_app_or in H. destruct H as [H|H]; [auto|].
  destruct e as [t|]; cbn in H; [| exact H]. destruct H as [H|[]]. apply He; exact H.
Qed.

Lemma sys_step_absent : forall n d c, disk_absent n d -> sys_ok n c -> disk_absent n (sys_step d c).
Proof.
  intros n d c [Hm Ht] Hc. unfold disk_absent, main_lines in *.
  destruct c; cbn [sys_step sys_ok] in *.
  - cbn; auto.
  - destruct (d_tmp d) as [l|] eqn:E; cbn [d_main d_tmp]; [| rewrite E; auto].
    split; [exact Hm | apply rec_names_snoc; assumption].
  - auto.
  - destruct (d_tmp d) as [l|] eqn:E; cbn [d_main d_tmp f_lines]; [auto | rewrite E; auto].
  - cbn; auto.
  - cbn; auto.
  - destruct (d_main d) as [fl|] eqn:E; cbn [d_main d_tmp f_lines]; [rewrite E; auto | cbn; auto].
  - cbn [d_main d_tmp f_lines]. split; [apply rec_names_snoc; assumption | exact Ht].
Qed.

Lemma sys_torn_absent : forall n d c, disk_absent n d -> disk_absent n (sys_torn d c).
Proof.
  intros n d c [Hm Ht]. unfold disk_absent, main_lines in *.
  destruct c; cbn [sys_torn]; auto.
  - destruct (d_tmp d) as [l|] eqn:E; cbn [d_main d_tmp]; [| rewrite E; auto].
    split; [exact Hm | apply rec_names_snoc; [assumption | exact I]].
  - cbn [d_main d_tmp f_lines]. split; [apply rec_names_snoc; [assumption | exact I] | exact Ht].
Qed.

Lemma run_sys_absent : forall n prog d, disk_absent n d -> Forall (sys_ok n) prog -> disk_absent n (run_sys d prog).
Proof.
  induction prog as [|c r IH]; intros d Hd Hp; [exact Hd|].
  inversion Hp; subst. cbn [run_sys fold_left]. apply IH; [apply sys_step_absent|]; assumption.
Qed.

Lemma Forall_firstn : forall {A} (P : A -> Prop) k l, Forall P l -> Forall P (firstn k l).
Proof.
  intros A P. induction k as [|k IH]; intros l H; [constructor|].
  destruct l as [|x r]; [constructor|]. inversion H; subst. cbn [firstn]. constructor; auto.
Qed.

Lemma crash_disk_absent : forall n prog d k mid,
  disk_absent n d -> Forall (sys_ok n) prog -> disk_absent n (crash_disk d prog k mid).
Proof.
  intros n prog d k mid Hd Hp. unfold crash_disk.
  assert (H : disk_absent n (run_sys d (firstn k prog))) by (apply run_sys_absent; [| apply Forall_firstn]; assumption).
  destruct mid; [| exact H]. destruct (nth_error prog k); [apply sys_torn_absent|]; exact H.
Qed.

Lemma load_absent : forall n m f m1 lr,
  ~ In n (names (m_tokens m)) -> ~ In n (rec_names (lines_of f)) ->
  load m f = (m1, lr) -> ~ In n (names (m_tokens m1)).
Proof.
  intros n m f m1 lr Hm Hf L.
  destruct (load_cases _ _ _ _ L) as [->|[->|(fl & ts & -> & Hp & ->)]]; [exact Hm | cbn; tauto |].
  cbn [m_tokens]. intros H. apply Hf. cbn [lines_of]. eapply parse_names; eassumption.
Qed.

Lemma names_list_mem : forall n m g, In n (names (list_mem m g)) -> In n (names (m_tokens m)).
Proof.
  intros n m g H. unfold names in *. apply in_map_iff in H. destruct H as (t & <- & Hi).
  unfold list_mem in Hi. apply (proj1 (sort_exp_In _ _)) in Hi. apply filter_In in Hi. apply in_map. apply Hi.
Qed.

Lemma writes_ok : forall n l, ~ In n (names l) -> Forall (sys_ok n) (writes l).
Proof.
  intros n l H. unfold writes. apply Forall_forall. intros c Hc.
  apply in_map_iff in Hc. destruct Hc as (t & <- & Hi). cbn. intros E. apply H. rewrite <- E. apply in_map; exact Hi.
Qed.

Lemma wkind_absent : forall n w m1 toks2 st rb x,
  wkind w m1 toks2 st rb -> ~ wrecreates n w -> ~ In n (names (m_tokens m1)) ->
  ~ In n (names toks2) /\ ~ In n (names (m_tokens (rb (mkMem toks2 x)))).
Proof.
  intros n w m1 toks2 st rb x K Hr Hm.
  destruct K as [t e st0 st m1 old Lk _ | k e st m1 old Lk _ | now st m1 _]; cbn [wrecreates m_tokens] in *.
  - assert (Ho : tk_name old <> n).
    { intros E. apply Hm. rewrite <- E. destruct (tlookup_In _ _ _ Lk) as [Hi _]. apply in_map; exact Hi. }
    assert (H2 : ~ In n (names (tset t (m_tokens m1)))).
    { intros H. apply names_tset in H. destruct H as [H|H]; [apply Hr; auto | auto]. }
    split; [exact H2|]. intros H. apply names_tset in H. destruct H as [H|H]; [apply Ho; auto | auto].
  - assert (Ho : tk_name old <> n).
    { intros E. apply Hm. rewrite <- E. destruct (tlookup_In _ _ _ Lk) as [Hi _]. apply in_map; exact Hi. }
    assert (H2 : ~ In n (names (tremove k (m_tokens m1)))).
    { intros H. apply names_remove in H. tauto. }
    split; [exact H2|]. intros H. apply names_tset in H. destruct H as [H|H]; [apply Ho; auto | auto].
  - assert (H2 : ~ In n (names (filter (fun t => negb (swept now t)) (m_tokens m1)))).
    { intros H. apply names_filter in H. auto. }
    split; exact H2.
Qed.

(* a write operation that does not name n keeps n out of the memory, and
   writes no record named n *)
Lemma wplan_absent : forall n m f w,
  ~ In n (names (m_tokens m)) -> ~ In n (rec_names (lines_of f)) -> ~ wrecreates n w ->
  let p := wplan m f w in
  Forall (sys_ok n) (pl_prog p) /\ ~ In n (names (m_tokens (pl_ok p))) /\ ~ In n (names (m_tokens (pl_fail p))).
Proof.
  intros n m f w Hm Hf Hr. cbv zeta.
  destruct (wplan_cases m f w) as [m1 lr r L -> _ | m1 e0 fl toks2 st rb L -> Hst K -> | m1 e0 t st0 st L -> Lk ->].
  - pose proof (load_absent _ _ _ _ _ Hm Hf L) as H1. cbn; repeat split; auto.
  - pose proof (load_absent _ _ _ _ _ Hm Hf L) as H1. rewrite Hst.
    destruct (wkind_absent n _ _ _ _ _ (f_st fl) K Hr H1) as [H2 H3].
    destruct (rewrite_plan_cases toks2 fl st rb) as [[-> ->]|[_ ->]]; cbn [pl_prog pl_ok pl_fail m_tokens].
    + split; [repeat constructor | split; [cbn; tauto | exact H3]].
    + split; [| split; [exact H2 | exact H3]].
      unfold rewrite_prog. constructor; [exact I|]. apply Forall_app. split; [| repeat constructor].
      apply writes_ok. intros H. apply names_list_mem in H. exact (H2 H).
  - pose proof (load_absent _ _ _ _ _ Hm Hf L) as H1. cbn [pl_prog pl_ok pl_fail m_tokens wrecreates] in *.
    split; [repeat constructor; exact Hr | split; [| exact H1]].
    intros H. apply names_tset in H. destruct H as [H|H]; [apply Hr; auto | auto].
Qed.

Lemma absent_step : forall n s o, absent n s -> ~ recreates n o -> absent n (fst (step s o)).
Proof.
  intros n [m f] o [Hm Hf] Hr. unfold absent in *. cbn [s_mem s_file] in *.
  assert (Hd : disk_absent n (mkDisk f None)) by (split; [exact Hf | exact I]).
  destruct o as [k | g | w | c st | | | w k mid | w k]; cbn [step s_mem s_file recreates] in *.
  - destruct (load m f) as [m1 lr] eqn:L. pose proof (load_absent _ _ _ _ _ Hm Hf L).
    destruct lr; [destruct (tlookup k (m_tokens m1))|]; cbn; auto.
  - destruct (load m f) as [m1 lr] eqn:L. pose proof (load_absent _ _ _ _ _ Hm Hf L).
    destruct lr; cbn; auto.
  - destruct (wplan_absent n m f w Hm Hf Hr) as (Hp & Ho & _). cbn [fst s_mem s_file].
    split; [exact Ho|]. apply (run_sys_absent n _ _ Hd Hp).
  - cbn [fst s_mem s_file]. split; [exact Hm|]. destruct c as [ls|]; cbn [lines_of f_lines]; auto.
  - cbn; auto.
  - cbn [fst s_mem s_file m_tokens]. auto.
  - destruct (wplan_absent n m f w Hm Hf Hr) as (Hp & _ & _). cbn [fst s_mem s_file].
    split; [cbn; tauto|]. apply (crash_disk_absent n _ _ k mid Hd Hp).
  - destruct (wplan_absent n m f w Hm Hf Hr) as (Hp & Ho & Hfl).
    destruct (k <? length (pl_prog (wplan m f w)))%nat; cbn [fst s_mem s_file].
    + split; [exact Hfl|]. rewrite fail_disk_main. apply (crash_disk_absent n _ _ k false Hd Hp).
    + split; [exact Ho|]. apply (run_sys_absent n _ _ Hd Hp).
Qed.

Lemma absent_run : forall n h s, absent n s -> Forall (fun o => ~ recreates n o) h -> absent n (run s h).
Proof.
  induction h as [|o r IH]; intros s Ha Hh; cbn [run]; [exact Ha|].
  inversion Hh; subst. apply IH; [apply absent_step|]; assumption.
Qed.

(* a name that is absent is refused, now and by a restarted server *)
Lemma absent_get : forall n s, absent n s -> o_res (snd (step s (OGet n))) <> ROk.
Proof.
  intros n [m f] [Hm Hf]. cbn [step s_mem s_file] in *.
  destruct (load m f) as [m1 lr] eqn:L. pose proof (load_absent _ _ _ _ _ Hm Hf L) as H1.
  destruct lr; [| cbn; discriminate].
  apply tlookup_None in H1. rewrite H1. cbn; discriminate.
Qed.

Lemma absent_restart : forall n s, absent n s -> absent n (restart_state s).
Proof. intros n s [_ Hf]. split; [cbn; tauto | exact Hf]. Qed.

Lemma rec_names_list_mem : forall n toks x,
  In n (rec_names (map Rec (list_mem (mkMem toks x) None))) -> In n (names toks).
Proof. intros n toks x H. rewrite rec_names_map_Rec in H. apply names_list_mem in H. exact H. Qed.

Lemma delete_absent : forall s n e st,
  o_res (snd (step s (ODo (WDelete n e st)))) = ROk ->
  absent n (fst (step s (ODo (WDelete n e st)))).
Proof.
  intros [m f] n e st. cbn [step s_mem s_file snd fst o_res].
  destruct (wplan_cases m f (WDelete n e st)) as [m1 lr r L -> Hr | m1 e0 fl toks2 st' rb L -> Hst K -> | m1 e0 t st0 st' L E Lk ->];
    [| | discriminate E].
  - cbn [pl_res noplan]. intros ->. destruct (Hr eq_refl) as (? & ? & ?). discriminate.
  - intros _. inversion K; subst. rewrite Hst.
    assert (H2 : ~ In n (names (tremove n (m_tokens m1)))) by (intros H; apply names_remove in H; tauto).
    destruct (rewrite_plan_cases (tremove n (m_tokens m1)) fl st' (fun m' => mkMem (tset old (m_tokens m')) (m_st m')))
      as [[E ->]|[_ ->]]; cbn [pl_ok pl_prog]; split; cbn [s_mem s_file m_tokens].
    + exact H2.
    + cbn; tauto.
    + exact H2.
    + rewrite run_rewrite_prog. cbn [d_main lines_of f_lines]. intros H. apply rec_names_list_mem in H. exact (H2 H).
Qed.

Lemma expire_absent : forall used s now st n t,
  Inv used s ->
  snd (step s (OGet n)) = mkOut ROk (o_etag (snd (step s (OGet n)))) [t] ->
  swept now t = true ->
  o_res (snd (step s (ODo (WExpire now st)))) = ROk ->
  absent n (fst (step s (ODo (WExpire now st)))).
Proof.
  intros used [m f] now st n t HI. cbn [step s_mem s_file snd fst o_res wplan].
  destruct (load m f) as [m1 lr] eqn:L.
  destruct lr as [e0|]; [| cbn; discriminate].
  destruct (tlookup n (m_tokens m1)) as [t1|] eqn:Lk; [| cbn; discriminate].
  cbn [snd o_etag]. intros E; inversion E; subst t1. intros Hsw _.
  assert (Hex : existsb (swept now) (m_tokens m1) = true).
  { apply existsb_exists. exists t. split; [apply (tlookup_In _ _ _ Lk) | exact Hsw]. }
  rewrite Hex.
  destruct (load_nonempty _ _ _ _ L (lookup_nonempty _ _ _ Lk)) as (fl & e' & -> & _ & Hst).
  assert (Hnd1 : NoDup (names (m_tokens m1))).
  { eapply load_NoDup; [apply (inv_nodup _ _ HI) | exact L]. }
  assert (H2 : ~ In n (names (filter (fun t0 => negb (swept now t0)) (m_tokens m1)))).
  { intros H. apply tlookup_None in H; [exact H|].
    rewrite (tlookup_filter _ _ Hnd1), Lk, Hsw. reflexivity. }
  rewrite Hst.
  destruct (rewrite_plan_cases (filter (fun t0 => negb (swept now t0)) (m_tokens m1)) fl st (fun m' => m'))
    as [[E' ->]|[_ ->]]; cbn [pl_ok pl_prog]; split; cbn [s_mem s_file m_tokens].
  + exact H2.
  + cbn; tauto.
  + exact H2.
  + rewrite run_rewrite_prog. cbn [d_main lines_of f_lines]. intros H. apply rec_names_list_mem in H. exact (H2 H).
Qed.

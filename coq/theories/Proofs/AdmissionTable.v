(* C10: the group table (one name): which *Group object the admission rules
   are evaluated on.  Lemmas about the table layer of Model/Admission.v. *)
From Coq Require Import ZArith List Bool Lia PeanoNat.
From Galene Require Import Model.Admission Proofs.Admission.
Import ListNotations.
Open Scope Z_scope.

(* ------------------------------------------------------------ upd *)

Lemma upd_length {A} k (x : A) l : length (upd k x l) = length l.
Proof.
  revert k. induction l as [|y l IH]; intros [|k]; cbn [upd length]; try reflexivity.
  rewrite IH. reflexivity.
Qed.

Lemma nth_error_upd_same {A} k (x y : A) l :
  nth_error l k = Some y -> nth_error (upd k x l) k = Some x.
Proof.
  revert k. induction l as [|z l IH]; intros [|k]; cbn [upd nth_error]; try discriminate.
  - reflexivity.
  - apply IH.
Qed.

Lemma nth_error_upd_other {A} k j (x : A) l :
  j <> k -> nth_error (upd k x l) j = nth_error l j.
Proof.
  revert k j. induction l as [|z l IH]; intros [|k] [|j] H; cbn [upd nth_error]; try reflexivity.
  - contradiction.
  - apply IH. intros E. apply H. f_equal. exact E.
Qed.

Lemma nth_error_upd_inv {A} k j (x y : A) l :
  nth_error (upd k x l) j = Some y ->
  (j = k /\ y = x) \/ (j <> k /\ nth_error l j = Some y).
Proof.
  intros H. destruct (Nat.eq_dec j k) as [->|Hn].
  - left. split; [reflexivity|].
    destruct (nth_error l k) eqn:E.
    + rewrite (nth_error_upd_same k x a l E) in H. inversion H; reflexivity.
    + exfalso. apply nth_error_None in E.
      assert (nth_error (upd k x l) k = None) by (apply nth_error_None; rewrite upd_length; exact E).
      congruence.
  - right. split; [exact Hn|]. rewrite nth_error_upd_other in H by exact Hn. exact H.
Qed.

Lemma Forall_upd {A} (P : A -> Prop) k x l : Forall P l -> P x -> Forall P (upd k x l).
Proof.
  intros Hl Hx. revert k. induction Hl as [|y l Hy Hl IH]; intros [|k]; cbn [upd]; constructor; auto.
Qed.

Lemma no_clients_nil g : no_clients g = true <-> g_clients g = [].
Proof. unfold no_clients. destruct (g_clients g); split; intros; congruence. Qed.

(* ------------------------------------------------------------ texec *)

Lemma texec_step t l pre s r post :
  In (pre, s, r, post) (texec t l) -> tstep pre s = (post, r).
Proof.
  revert t. induction l as [|s0 l IH]; intros t; cbn [texec]; [intros []|].
  intros [H|H].
  - inversion H; subst. destruct (tstep pre s); reflexivity.
  - eapply IH, H.
Qed.

Lemma texec_invariant (P : table -> Prop) l t :
  P t ->
  (forall pre s r post, In (pre, s, r, post) (texec t l) -> P pre -> P post) ->
  P (trun t l) /\ forall pre s r post, In (pre, s, r, post) (texec t l) -> P pre /\ P post.
Proof.
  revert t. induction l as [|s0 l IH]; intros t Ht Hstep; cbn [trun texec].
  - split; [exact Ht | intros ? ? ? ? []].
  - assert (Ht' : P (fst (tstep t s0))).
    { apply (Hstep t s0 (snd (tstep t s0)) (fst (tstep t s0))); [left; reflexivity | exact Ht]. }
    destruct (IH (fst (tstep t s0)) Ht') as [Hend Hall].
    { intros pre s r post Hin. apply (Hstep pre s r post). right. exact Hin. }
    split; [exact Hend|].
    intros pre s r post [H|H].
    + inversion H; subst. split; assumption.
    + apply (Hall pre s r post H).
Qed.

(* ------------------------------------------------------------ the registered
   object is never replaced while it has members *)

Lemma tstep_keeps_members t s k g :
  t_cur t = Some k -> nth_error (t_objs t) k = Some g -> g_clients g <> [] ->
  t_cur (fst (tstep t s)) = Some k /\
  exists g', nth_error (t_objs (fst (tstep t s))) k = Some g'.
Proof.
  intros Hc Hn Hm.
  assert (Hnc : no_clients g = false).
  { destruct (no_clients g) eqn:E; [apply no_clients_nil in E; contradiction | reflexivity]. }
  destruct s as [f| |j s|]; cbn [tstep].
  - cbn [fst t_cur t_objs]. split; [first [exact Hc | reflexivity] | exists g; exact Hn].
  - rewrite Hc, Hn. destruct (t_dirty t).
    + destruct (t_file t).
      * cbn [fst t_cur t_objs]. split; [first [exact Hc | reflexivity]|]. eexists. eapply nth_error_upd_same, Hn.
      * rewrite Hnc. cbn [fst]. split; [first [exact Hc | reflexivity] | exists g; exact Hn].
    + cbn [fst t_cur t_objs]. split; [first [exact Hc | reflexivity]|]. eexists. eapply nth_error_upd_same, Hn.
  - destruct s as [r|now jn|id uid|b m]; try (cbn [fst]; split; [first [exact Hc | reflexivity] | exists g; exact Hn]);
      (destruct (nth_error (t_objs t) j) as [gj|] eqn:Ej;
       [|cbn [fst]; split; [first [exact Hc | reflexivity] | exists g; exact Hn]]);
      cbn [fst t_cur t_objs]; (split; [first [exact Hc | reflexivity]|]);
      (destruct (Nat.eq_dec k j) as [->|Hkj];
       [eexists; eapply nth_error_upd_same, Ej
       | exists g; rewrite nth_error_upd_other by exact Hkj; exact Hn]).
  - rewrite Hc, Hn, Hnc. cbn [fst]. split; [first [exact Hc | reflexivity] | exists g; exact Hn].
Qed.

(* ------------------------------------------------------------ every object,
   registered or not, is a group history: all per-object theorems apply *)

Definition is_history (g : group) : Prop := exists d l, g = run (created d) l.

Lemma is_history_step g s : is_history g -> is_history (fst (step g s)).
Proof.
  intros (d & l & ->). exists d, (l ++ [s]). rewrite run_app. reflexivity.
Qed.

Lemma tstep_histories t s :
  Forall is_history (t_objs t) -> Forall is_history (t_objs (fst (tstep t s))).
Proof.
  intros H.
  assert (Hnth : forall k g, nth_error (t_objs t) k = Some g -> is_history g).
  { intros k g E. rewrite Forall_forall in H. apply H. eapply nth_error_In, E. }
  destruct s as [f| |j s|]; cbn [tstep].
  - exact H.
  - destruct (t_cur t) as [k|].
    + destruct (nth_error (t_objs t) k) as [g|] eqn:E; [|exact H].
      destruct (t_dirty t).
      * destruct (t_file t) as [d|].
        -- cbn [fst t_objs]. apply Forall_upd; [exact H|].
           apply (is_history_step g (SAdd (Some d))). eapply Hnth, E.
        -- destruct (no_clients g); exact H.
      * cbn [fst t_objs]. apply Forall_upd; [exact H|].
        apply (is_history_step g (SAdd None)). eapply Hnth, E.
    + destruct (t_file t) as [d|]; [|exact H].
      cbn [fst t_objs]. apply Forall_app. split; [exact H|].
      constructor; [|constructor]. exists d, []. reflexivity.
  - destruct s as [r|now jn|id uid|b m]; try exact H;
      (destruct (nth_error (t_objs t) j) as [g|] eqn:E; [|exact H]);
      cbn [fst t_objs]; (apply Forall_upd; [exact H|]);
      apply is_history_step; eapply Hnth, E.
  - destruct (t_cur t) as [k|]; [|exact H].
    destruct (nth_error (t_objs t) k) as [g|]; [|exact H].
    destruct (no_clients g); exact H.
Qed.

Lemma trun_histories l t :
  Forall is_history (t_objs t) -> Forall is_history (t_objs (trun t l)).
Proof.
  revert t. induction l as [|s l IH]; intros t H; cbn [trun]; [exact H|].
  apply IH, tstep_histories, H.
Qed.

Lemma objects_are_histories l k g :
  nth_error (t_objs (trun tinit l)) k = Some g -> is_history g.
Proof.
  intros E. pose proof (trun_histories l tinit (Forall_nil _)) as H.
  rewrite Forall_forall in H. apply H. eapply nth_error_In, E.
Qed.

(* ------------------------------------------------------------ the rules hold
   for the NAME when every admission step runs on the registered object *)

Definition admissions_on_current (t : table) (l : list top) : Prop :=
  forall pre k now j r post,
    In (pre, TOn k (SAddClient now j), r, post) (texec t l) -> t_cur pre = Some k.

(* members exist only in the registered object *)
Definition TI (t : table) : Prop :=
  (forall k, t_cur t = Some k -> (k < length (t_objs t))%nat) /\
  (forall j g, nth_error (t_objs t) j = Some g -> t_cur t <> Some j -> g_clients g = []).

Lemma step_keeps_empty g s :
  g_clients g = [] -> (forall now j, s <> SAddClient now j) ->
  g_clients (fst (step g s)) = [].
Proof.
  intros He Hs. destruct s as [r|now j|id uid|b m].
  - cbn [step]. rewrite do_add_clients. exact He.
  - exfalso. apply (Hs now j). reflexivity.
  - cbn [step]. unfold del_client. rewrite He. cbn [lookup fst]. exact He.
  - cbn [step]. unfold set_locked. cbn [fst g_clients]. exact He.
Qed.

Lemma tstep_TI t s :
  TI t ->
  (forall k now j, s = TOn k (SAddClient now j) -> t_cur t = Some k) ->
  TI (fst (tstep t s)).
Proof.
  intros [Hb He] Hs. assert (Hsame : TI t) by (split; assumption).
  destruct s as [f| |k s|]; cbn [tstep].
  - split; cbn [fst t_cur t_objs]; assumption.
  - destruct (t_cur t) as [k|] eqn:Hc.
    + destruct (nth_error (t_objs t) k) as [g|] eqn:E; [|cbn [fst]; exact Hsame].
      assert (Hupd : forall x, TI (mkTable (upd k x (t_objs t)) (Some k) (t_file t) false)).
      { intros x. split; cbn [t_cur t_objs].
        - intros k' Hk'. inversion Hk'; subst. rewrite upd_length. apply Hb. reflexivity.
        - intros j g0 Hn Hj. apply nth_error_upd_inv in Hn.
          destruct Hn as [[-> _]|[Hjk Hn]]; [exfalso; apply Hj; reflexivity|].
          apply (He j g0 Hn). intros E'; rewrite ?Hc in E'; inversion E'; subst; contradiction. }
      destruct (t_dirty t).
      * destruct (t_file t) as [d|]; [cbn [fst]; rewrite ?Hc; apply Hupd|].
        destruct (no_clients g) eqn:Hn; [|cbn [fst]; exact Hsame].
        cbn [fst]. split; cbn [t_cur t_objs]; [discriminate|].
        intros j g0 Hj _. destruct (Nat.eq_dec j k) as [->|Hjk].
        -- rewrite E in Hj. inversion Hj; subst. apply no_clients_nil, Hn.
        -- apply (He j g0 Hj). intros E'; rewrite ?Hc in E'; inversion E'; subst; contradiction.
      * cbn [fst]. rewrite ?Hc. apply Hupd.
    + destruct (t_file t) as [d|]; [|cbn [fst]; exact Hsame].
      cbn [fst]. split; cbn [t_cur t_objs].
      * intros k Hk. inversion Hk; subst. rewrite app_length. cbn [length]. lia.
      * intros j g0 Hj Hne.
        destruct (Nat.lt_ge_cases j (length (t_objs t))) as [Hlt|Hge].
        -- rewrite nth_error_app1 in Hj by exact Hlt. apply (He j g0 Hj). discriminate.
        -- exfalso. rewrite nth_error_app2 in Hj by exact Hge.
           destruct (j - length (t_objs t))%nat as [|n] eqn:En.
           ++ apply Hne. f_equal. lia.
           ++ cbn [nth_error] in Hj. destruct n; discriminate.
  - destruct s as [r|now j|id uid|b m]; [exact Hsame| | |];
      (destruct (nth_error (t_objs t) k) as [g|] eqn:E; [|exact Hsame]);
      cbn [fst]; (split; cbn [t_cur t_objs];
      [intros k' Hk'; rewrite upd_length; apply Hb, Hk'|]);
      intros j0 g0 Hn Hj; apply nth_error_upd_inv in Hn;
      (destruct Hn as [[-> ->]|[Hjk Hn]]; [|apply (He j0 g0 Hn Hj)]).
    + exfalso. apply Hj. apply (Hs k now j). reflexivity.
    + apply step_keeps_empty; [apply (He k g E Hj) | intros; discriminate].
    + apply step_keeps_empty; [apply (He k g E Hj) | intros; discriminate].
  - destruct (t_cur t) as [k|] eqn:Hc; [|cbn [fst]; exact Hsame].
    destruct (nth_error (t_objs t) k) as [g|] eqn:E; [|cbn [fst]; exact Hsame].
    destruct (no_clients g) eqn:Hn; [|cbn [fst]; exact Hsame].
    cbn [fst]. split; cbn [t_cur t_objs]; [discriminate|].
    intros j g0 Hj _. destruct (Nat.eq_dec j k) as [->|Hjk].
    + rewrite E in Hj. inversion Hj; subst. apply no_clients_nil, Hn.
    + apply (He j g0 Hj). intros E'; rewrite ?Hc in E'; inversion E'; subst; contradiction.
Qed.

Lemma tinit_TI : TI tinit.
Proof.
  split; cbn.
  - discriminate.
  - intros j g H. destruct j; discriminate.
Qed.

Lemma members_only_in_registered l :
  admissions_on_current tinit l ->
  TI (trun tinit l) /\
  forall pre s r post, In (pre, s, r, post) (texec tinit l) -> TI pre /\ TI post.
Proof.
  intros Hc. apply texec_invariant; [apply tinit_TI|].
  intros pre s r post Hin Hpre.
  pose proof (texec_step _ _ _ _ _ _ Hin) as Hst.
  replace post with (fst (tstep pre s)) by (rewrite Hst; reflexivity).
  apply tstep_TI; [exact Hpre|].
  intros k now j ->. apply (Hc pre k now j r post Hin).
Qed.

(* ------------------------------------------------------------ without that
   hypothesis the rules do NOT hold for the name: a joiner whose Add returned
   an object that is dropped (empty, description unreadable) before its
   admission step becomes the member of an unregistered object; the next
   join creates a second object *)
Definition orphan_schedule : list top :=
  let d := demo_desc 1 false false in
  [TWrite (Some d); TAdd;                            (* U: Add -> object 0 *)
   TWrite None; TAdd;                                (* X: Add fails, object 0 (empty) dropped *)
   TOn 0 (SAddClient 0 (mkJoiner 1 [117] false false 2));  (* U: accepted to object 0 *)
   TWrite (Some d); TAdd;                            (* V: Add -> object 1 *)
   TOn 1 (SAddClient 0 (mkJoiner 2 [117] false false 2))]. (* V: accepted, same id, max-clients 1 *)

Lemma orphan_witness :
  let t := trun tinit orphan_schedule in
  t_cur t = Some 1%nat /\
  map (fun g => ids (g_clients g)) (t_objs t) = [[[117]]; [[117]]] /\
  map (fun g => d_max_clients (g_desc g)) (t_objs t) = [1; 1] /\
  map (fun x => match snd (fst x) with TOut o => Some (o_res o) | _ => None end)
      (texec tinit orphan_schedule) =
    [None; None; None; None; Some RAccepted; None; None; Some RAccepted].
Proof. vm_compute. repeat split; reflexivity. Qed.

(* executable form of [admissions_on_current], for concrete schedules *)
Fixpoint on_current_b (t : table) (l : list top) : bool :=
  match l with
  | [] => true
  | s :: l' =>
      match s with
      | TOn k (SAddClient _ _) =>
          match t_cur t with Some k' => Nat.eqb k k' | None => false end
      | _ => true
      end && on_current_b (fst (tstep t s)) l'
  end.

Lemma on_current_b_sound l t : on_current_b t l = true -> admissions_on_current t l.
Proof.
  revert t. induction l as [|s l IH]; intros t H; unfold admissions_on_current; cbn [texec].
  - intros ? ? ? ? ? ? [].
  - cbn [on_current_b] in H. apply andb_true_iff in H. destruct H as [H1 H2].
    intros pre k now j r post [Hin|Hin].
    + inversion Hin; subst. destruct (t_cur pre) as [k'|]; [|discriminate].
      apply Nat.eqb_eq in H1. subst. reflexivity.
    + exact (IH _ H2 pre k now j r post Hin).
Qed.

(* C10: the group table (one name): which *Group object the admission rules
   are evaluated on.  Lemmas about the table layer of Model/Admission.v. *)
From Coq Require Import ZArith List Bool Lia PeanoNat.
From Galene Require Import Model.Admission Proofs.Admission.
Import ListNotations.
Open Scope Z_scope.

(* ------------------------------------------------------------ upd *)

Lemma upd_length {A} k (x : A) l : length (upd k x l) = length l.
Proof.
  revert k. induction l as [|y l IH]; intros [|k]; cbn [upd length]; try reflexivity.
  rewrite IH. reflexivity.
Qed.

Lemma nth_error_upd_same {A} k (x y : A) l :
  nth_error l k = Some y -> nth_error (upd k x l) k = Some x.
Proof.
  revert k. induction l as [|z l IH]; intros [|k]; cbn [upd nth_error]; try discriminate.
  - reflexivity.
  - apply IH.
Qed.

Lemma nth_error_upd_other {A} k j (x : A) l :
  j <> k -> nth_error (upd k x l) j = nth_error l j.
Proof.
  revert k j. induction l as [|z l IH]; intros [|k] [|j] H; cbn [upd nth_error]; try reflexivity.
  - contradiction.
  - apply IH. intros E. apply H. f_equal. exact E.
Qed.

Lemma nth_error_upd_inv {A} k j (x y : A) l :
  nth_error (upd k x l) j = Some y ->
  (j = k /\ y = x) \/ (j <> k /\ nth_error l j = Some y).
Proof.
  intros H. destruct (Nat.eq_dec j k) as [->|Hn].
  - left. split; [reflexivity|].
    destruct (nth_error l k) eqn:E.
    + rewrite (nth_error_upd_same k x a l E) in H. inversion H; reflexivity.
    + exfalso. apply nth_error_None in E.
      assert (nth_error (upd k x l) k = None) by (apply nth_error_None; rewrite upd_length; exact E).
      congruence.
  - right. split; [exact Hn|]. rewrite nth_error_upd_other in H by exact Hn. exact H.
Qed.

Lemma Forall_upd {A} (P : A -> Prop) k x l : Forall P l -> P x -> Forall P (upd k x l).
Proof.
  intros Hl Hx. revert k. induction Hl as [|y l Hy Hl IH]; intros [|k]; cbn [upd]; constructor; auto.
Qed.

Lemma no_clients_nil g : no_clients g = true <-> g_clients g = [].
Proof. unfold no_clients. destruct (g_clients g); split; intros; congruence. Qed.

(* ------------------------------------------------------------ TOn *)

Definition ton_run (t : table) (k : nat) (s : op) : table * tres :=
  match nth_error (t_objs t) k with
  | None => (t, TNone)
  | Some g =>
      let r := step g s in
      (mkTable (upd k (fst r) (t_objs t)) (t_cur t) (t_file t) (t_dirty t), TOut (snd r))
  end.

Lemma is_cur_true t k : is_cur t k = true <-> t_cur t = Some k.
Proof.
  unfold is_cur. destruct (t_cur t) as [k'|]; [|split; discriminate].
  rewrite Nat.eqb_eq. split; intros H; [subst; reflexivity | inversion H; reflexivity].
Qed.

(* a step on an object either leaves the table as it is, or is [ton_run] of
   a step that is not an Add; since 35083b1 an entry step only runs on the
   registered object *)
Lemma tstep_TOn_cases fixed t k s :
  fst (tstep_gen fixed t (TOn k s)) = t \/
  (tstep_gen fixed t (TOn k s) = ton_run t k s /\ (forall r, s <> SAdd r) /\
   (fixed = true -> forall now j, s = SAddClient now j -> t_cur t = Some k)).
Proof.
  destruct s as [r|now j|id uid|b m]; cbn [tstep_gen].
  - left. reflexivity.
  - destruct fixed; cbn [andb].
    + destruct (is_cur t k) eqn:E; cbn [negb].
      * right. split; [reflexivity|]. split; [intros; discriminate|].
        intros _ ? ? _. apply is_cur_true, E.
      * left. reflexivity.
    + right. split; [reflexivity|]. split; [intros; discriminate | discriminate].
  - right. split; [reflexivity|]. split; [intros; discriminate | intros _ ? ? H; discriminate H].
  - right. split; [reflexivity|]. split; [intros; discriminate | intros _ ? ? H; discriminate H].
Qed.

(* ------------------------------------------------------------ texec *)

Lemma texec_step t l pre s r post :
  In (pre, s, r, post) (texec t l) -> tstep pre s = (post, r).
Proof.
  revert t. induction l as [|s0 l IH]; intros t; cbn [texec]; [intros []|].
  intros [H|H].
  - inversion H; subst. destruct (tstep pre s); reflexivity.
  - eapply IH, H.
Qed.

Lemma texec_invariant (P : table -> Prop) l t :
  P t ->
  (forall pre s r post, In (pre, s, r, post) (texec t l) -> P pre -> P post) ->
  P (trun t l) /\ forall pre s r post, In (pre, s, r, post) (texec t l) -> P pre /\ P post.
Proof.
  revert t. induction l as [|s0 l IH]; intros t Ht Hstep; cbn [trun texec].
  - split; [exact Ht | intros ? ? ? ? []].
  - assert (Ht' : P (fst (tstep t s0))).
    { apply (Hstep t s0 (snd (tstep t s0)) (fst (tstep t s0))); [left; reflexivity | exact Ht]. }
    destruct (IH (fst (tstep t s0)) Ht') as [Hend Hall].
    { intros pre s r post Hin. apply (Hstep pre s r post). right. exact Hin. }
    split; [exact Hend|].
    intros pre s r post [H|H].
    + inversion H; subst. split; assumption.
    + apply (Hall pre s r post H).
Qed.

(* ------------------------------------------------------------ the registered
   object is never replaced while it has members *)

Lemma ton_run_keeps_members t j s k g :
  t_cur t = Some k -> nth_error (t_objs t) k = Some g ->
  t_cur (fst (ton_run t j s)) = Some k /\
  exists g', nth_error (t_objs (fst (ton_run t j s))) k = Some g'.
Proof.
  intros Hc Hn. unfold ton_run.
  destruct (nth_error (t_objs t) j) as [gj|] eqn:Ej; cbn [fst t_cur t_objs].
  - split; [exact Hc|]. destruct (Nat.eq_dec k j) as [->|Hkj].
    + eexists. eapply nth_error_upd_same, Ej.
    + exists g. rewrite nth_error_upd_other by exact Hkj. exact Hn.
  - split; [exact Hc | exists g; exact Hn].
Qed.

Lemma tstep_keeps_members fixed t s k g :
  t_cur t = Some k -> nth_error (t_objs t) k = Some g -> g_clients g <> [] ->
  t_cur (fst (tstep_gen fixed t s)) = Some k /\
  exists g', nth_error (t_objs (fst (tstep_gen fixed t s))) k = Some g'.
Proof.
  intros Hc Hn Hm.
  assert (Hnc : no_clients g = false).
  { destruct (no_clients g) eqn:E; [apply no_clients_nil in E; contradiction | reflexivity]. }
  destruct s as [f| |j s|].
  - cbn [tstep_gen fst t_cur t_objs]. split; [exact Hc | exists g; exact Hn].
  - cbn [tstep_gen]. rewrite Hc, Hn. destruct (t_dirty t).
    + destruct (t_file t).
      * cbn [fst t_cur t_objs]. split; [reflexivity|]. eexists. eapply nth_error_upd_same, Hn.
      * rewrite Hnc. cbn [fst]. split; [exact Hc | exists g; exact Hn].
    + cbn [fst t_cur t_objs]. split; [reflexivity|]. eexists. eapply nth_error_upd_same, Hn.
  - destruct (tstep_TOn_cases fixed t j s) as [E|(E & _)].
    + rewrite E. split; [exact Hc | exists g; exact Hn].
    + rewrite E. apply ton_run_keeps_members with (g := g); assumption.
  - cbn [tstep_gen]. rewrite Hc, Hn, Hnc. cbn [fst]. split; [exact Hc | exists g; exact Hn].
Qed.

(* ------------------------------------------------------------ every object,
   registered or not, is a group history: all per-object theorems apply *)

Definition is_history (g : group) : Prop := exists d l, g = run (created d) l.

Lemma is_history_step g s : is_history g -> is_history (fst (step g s)).
Proof.
  intros (d & l & ->). exists d, (l ++ [s]). rewrite run_app. reflexivity.
Qed.

Lemma tstep_histories fixed t s :
  Forall is_history (t_objs t) -> Forall is_history (t_objs (fst (tstep_gen fixed t s))).
Proof.
  intros H.
  assert (Hnth : forall k g, nth_error (t_objs t) k = Some g -> is_history g).
  { intros k g E. rewrite Forall_forall in H. apply H. eapply nth_error_In, E. }
  destruct s as [f| |j s|].
  - exact H.
  - cbn [tstep_gen]. destruct (t_cur t) as [k|].
    + destruct (nth_error (t_objs t) k) as [g|] eqn:E; [|exact H].
      destruct (t_dirty t).
      * destruct (t_file t) as [d|].
        -- cbn [fst t_objs]. apply Forall_upd; [exact H|].
           apply (is_history_step g (SAdd (Some d))). eapply Hnth, E.
        -- destruct (no_clients g); exact H.
      * cbn [fst t_objs]. apply Forall_upd; [exact H|].
        apply (is_history_step g (SAdd None)). eapply Hnth, E.
    + destruct (t_file t) as [d|]; [|exact H].
      cbn [fst t_objs]. apply Forall_app. split; [exact H|].
      constructor; [|constructor]. exists d, []. reflexivity.
  - destruct (tstep_TOn_cases fixed t j s) as [E|(E & _)]; rewrite E; [exact H|].
    unfold ton_run. destruct (nth_error (t_objs t) j) as [g|] eqn:Ej; [|exact H].
    cbn [fst t_objs]. apply Forall_upd; [exact H|]. apply is_history_step. eapply Hnth, Ej.
  - cbn [tstep_gen]. destruct (t_cur t) as [k|]; [|exact H].
    destruct (nth_error (t_objs t) k) as [g|]; [|exact H].
    destruct (no_clients g); exact H.
Qed.

Lemma trun_histories l t :
  Forall is_history (t_objs t) -> Forall is_history (t_objs (trun t l)).
Proof.
  revert t. induction l as [|s l IH]; intros t H; cbn [trun]; [exact H|].
  apply IH. apply (tstep_histories true), H.
Qed.

Lemma objects_are_histories l k g :
  nth_error (t_objs (trun tinit l)) k = Some g -> is_history g.
Proof.
  intros E. pose proof (trun_histories l tinit (Forall_nil _)) as H.
  rewrite Forall_forall in H. apply H. eapply nth_error_In, E.
Qed.

(* ------------------------------------------------------------ the rules hold
   for the NAME: members exist only in the registered object *)

Definition TI (t : table) : Prop :=
  (forall k, t_cur t = Some k -> (k < length (t_objs t))%nat) /\
  (forall j g, nth_error (t_objs t) j = Some g -> t_cur t <> Some j -> g_clients g = []).

Lemma step_keeps_empty g s :
  g_clients g = [] -> (forall now j, s <> SAddClient now j) -> (forall r, s <> SAdd r) ->
  g_clients (fst (step g s)) = [].
Proof.
  intros He Hs Ha. destruct s as [r|now j|id uid|b m].
  - exfalso. apply (Ha r). reflexivity.
  - exfalso. apply (Hs now j). reflexivity.
  - cbn [step]. unfold del_client. rewrite He. cbn [lookup fst]. exact He.
  - cbn [step]. unfold set_locked. cbn [fst g_clients]. exact He.
Qed.

Lemma tstep_TI t s : TI t -> TI (fst (tstep t s)).
Proof.
  intros [Hb He]. assert (Hsame : TI t) by (split; assumption).
  unfold tstep. destruct s as [f| |k s|].
  - cbn [tstep_gen]. split; cbn [fst t_cur t_objs]; assumption.
  - cbn [tstep_gen]. destruct (t_cur t) as [k|] eqn:Hc.
    + destruct (nth_error (t_objs t) k) as [g|] eqn:E; [|cbn [fst]; exact Hsame].
      assert (Hupd : forall x, TI (mkTable (upd k x (t_objs t)) (Some k) (t_file t) false)).
      { intros x. split; cbn [t_cur t_objs].
        - intros k' Hk'. inversion Hk'; subst. rewrite upd_length. apply Hb. reflexivity.
        - intros j g0 Hn Hj. apply nth_error_upd_inv in Hn.
          destruct Hn as [[-> _]|[Hjk Hn]]; [exfalso; apply Hj; reflexivity|].
          apply (He j g0 Hn). intros E'; rewrite ?Hc in E'; inversion E'; subst; contradiction. }
      destruct (t_dirty t).
      * destruct (t_file t) as [d|]; [cbn [fst]; rewrite ?Hc; apply Hupd|].
        destruct (no_clients g) eqn:Hn; [|cbn [fst]; exact Hsame].
        cbn [fst]. split; cbn [t_cur t_objs]; [discriminate|].
        intros j g0 Hj _. destruct (Nat.eq_dec j k) as [->|Hjk].
        -- rewrite E in Hj. inversion Hj; subst. apply no_clients_nil, Hn.
        -- apply (He j g0 Hj). intros E'; rewrite ?Hc in E'; inversion E'; subst; contradiction.
      * cbn [fst]. rewrite ?Hc. apply Hupd.
    + destruct (t_file t) as [d|]; [|cbn [fst]; exact Hsame].
      cbn [fst]. split; cbn [t_cur t_objs].
      * intros k Hk. inversion Hk; subst. rewrite app_length. cbn [length]. lia.
      * intros j g0 Hj Hne.
        destruct (Nat.lt_ge_cases j (length (t_objs t))) as [Hlt|Hge].
        -- rewrite nth_error_app1 in Hj by exact Hlt. apply (He j g0 Hj). discriminate.
        -- exfalso. rewrite nth_error_app2 in Hj by exact Hge.
           destruct (j - length (t_objs t))%nat as [|n] eqn:En.
           ++ apply Hne. f_equal. lia.
           ++ cbn [nth_error] in Hj. destruct n; discriminate.
  - destruct (tstep_TOn_cases true t k s) as [E|(E & Hadd & Hcur)]; rewrite E; [exact Hsame|].
    unfold ton_run. destruct (nth_error (t_objs t) k) as [g|] eqn:Ek; [|exact Hsame].
    cbn [fst]. split; cbn [t_cur t_objs].
    + intros k' Hk'. rewrite upd_length. apply Hb, Hk'.
    + intros j0 g0 Hn Hj. apply nth_error_upd_inv in Hn.
      destruct Hn as [[-> ->]|[Hjk Hn]]; [|apply (He j0 g0 Hn Hj)].
      apply step_keeps_empty; [apply (He k g Ek Hj) | | exact Hadd].
      intros now j ->. apply Hj. apply (Hcur eq_refl now j eq_refl).
  - cbn [tstep_gen]. destruct (t_cur t) as [k|] eqn:Hc; [|cbn [fst]; exact Hsame].
    destruct (nth_error (t_objs t) k) as [g|] eqn:E; [|cbn [fst]; exact Hsame].
    destruct (no_clients g) eqn:Hn; [|cbn [fst]; exact Hsame].
    cbn [fst]. split; cbn [t_cur t_objs]; [discriminate|].
    intros j g0 Hj _. destruct (Nat.eq_dec j k) as [->|Hjk].
    + rewrite E in Hj. inversion Hj; subst. apply no_clients_nil, Hn.
    + apply (He j g0 Hj). intros E'; rewrite ?Hc in E'; inversion E'; subst; contradiction.
Qed.

Lemma tinit_TI : TI tinit.
Proof.
  split; cbn.
  - discriminate.
  - intros j g H. destruct j; discriminate.
Qed.

Lemma members_only_in_registered l :
  TI (trun tinit l) /\
  forall pre s r post, In (pre, s, r, post) (texec tinit l) -> TI pre /\ TI post.
Proof.
  apply texec_invariant; [apply tinit_TI|].
  intros pre s r post Hin Hpre.
  pose proof (texec_step _ _ _ _ _ _ Hin) as Hst.
  replace post with (fst (tstep pre s)) by (rewrite Hst; reflexivity).
  apply tstep_TI. exact Hpre.
Qed.

(* an entry step never runs on an object that is not registered *)
Lemma no_entry_into_dropped_object t k now j :
  t_cur t <> Some k -> tstep t (TOn k (SAddClient now j)) = (t, TRetry).
Proof.
  intros H. unfold tstep. cbn [tstep_gen andb].
  destruct (is_cur t k) eqn:E; [apply is_cur_true in E; contradiction | reflexivity].
Qed.

(* ------------------------------------------------------------ regression of
   F30: before 35083b1 a joiner whose Add returned an object that was dropped
   (empty, description unreadable) before its entry step became the member of
   an unregistered object, and the next join created a second object *)
Definition orphan_schedule : list top :=
  let d := demo_desc 1 false false in
  [TWrite (Some d); TAdd;                            (* U: Add -> object 0 *)
   TWrite None; TAdd;                                (* X: Add fails, object 0 (empty) dropped *)
   TOn 0 (SAddClient 0 (mkJoiner 1 [117] false false 2));  (* U: entry step on object 0 *)
   TWrite (Some d); TAdd;                            (* V: Add -> object 1 *)
   TOn 1 (SAddClient 0 (mkJoiner 2 [117] false false 2))]. (* V: same id, max-clients 1 *)

Lemma orphan_witness_prefix :
  let t := trun_prefix tinit orphan_schedule in
  t_cur t = Some 1%nat /\
  map (fun g => ids (g_clients g)) (t_objs t) = [[[117]]; [[117]]] /\
  map (fun g => d_max_clients (g_desc g)) (t_objs t) = [1; 1].
Proof. vm_compute. repeat split; reflexivity. Qed.

(* the same schedule on the current code: U has to look the name up again *)
Lemma orphan_schedule_now :
  let t := trun tinit orphan_schedule in
  map (fun g => ids (g_clients g)) (t_objs t) = [[]; [[117]]] /\
  map (fun x => snd (fst x)) (texec tinit orphan_schedule) =
    [TWritten; TAddOk 0 []; TWritten; TAddErr; TRetry; TWritten; TAddOk 1 [];
     TOut (mkOut RAccepted [EJoined 2 KJoin; EPush 2 true [117]])].
Proof. vm_compute. repeat split; reflexivity. Qed.

(* C17: what the admin check accepts (for all environments, scopes and
   credentials) and what a refused request gets (for all requests). *)
From Coq Require Import List String Bool ZArith.
From Galene Require Import Model.Api.
Import ListNotations.
Open Scope string_scope.

Section WithHash.
Variable H : string -> string -> string.

(* ------------------------------------------------------------------ *)
(* refused requests                                                     *)

Lemma eqb_false_of_neq : forall a b : string, a <> b -> String.eqb a b = false.
Proof. intros a b Hn. apply String.eqb_neq. exact Hn. Qed.

Definition refused (e : env) (x : env * response) : Prop :=
  fst x = e /\ (rs_status (snd x) = 401%Z \/ rs_status (snd x) = 404%Z) /\
  rs_body (snd x) = BOFixed.

Lemma refuse : forall e s m c b,
  m <> "OPTIONS" -> authorised H e s c = false ->
  refused e (dispatch H e s m c b).
Proof.
  intros e s m c b Hm Ha.
  assert (Hc : api_cors m = false) by (apply eqb_false_of_neq; exact Hm).
  unfold refused.
  destruct s; cbn [dispatch authorised] in *;
    unfold stats_handler, group_list_handler, group_handler, user_list_handler, user_handler,
      password_handler, keys_handler, tokens_handler, auth_not_found_handler;
    rewrite ?Hc; try rewrite Ha; cbn; auto.
Qed.

(* a path that exists nowhere, and an unknown kind below a group, are
   answered before/without looking at the method *)
Lemma refuse_any_method : forall e s m c b,
  (s = SNotFound \/ exists g, s = SAuthNotFound g) -> authorised H e s c = false ->
  refused e (dispatch H e s m c b).
Proof.
  intros e s m c b [-> | [g ->]] Ha; unfold refused; cbn in *.
  - auto.
  - unfold auth_not_found_handler. rewrite Ha. cbn. auto.
Qed.

(* a CORS preflight has no effect and carries no data *)
Lemma preflight : forall e s m c b,
  m = "OPTIONS" ->
  fst (dispatch H e s m c b) = e /\
  (rs_body (snd (dispatch H e s m c b)) = BOEmpty \/
   rs_body (snd (dispatch H e s m c b)) = BOFixed).
Proof.
  intros e s m c b ->.
  destruct s; cbn [dispatch];
    unfold stats_handler, group_list_handler, group_handler, user_list_handler, user_handler,
      password_handler, keys_handler, tokens_handler, auth_not_found_handler; cbn; auto.
  destruct (is_admin H e g c); cbn; auto.
Qed.

(* ------------------------------------------------------------------ *)
(* which credentials pass                                               *)

Lemma cred_none : forall e g, is_admin H e g CNone = false.
Proof.
  intros e g. unfold is_admin, is_admin_or_explicit.
  destruct (String.eqb g ""); [reflexivity|].
  destruct (get_description e g) as [[d sub]|]; [|reflexivity].
  cbn. reflexivity.
Qed.

(* a server administrator (config.json: matching password, "admin") passes
   every check *)
Lemma cred_server_admin : forall e g user u p,
  global_admin_match H e u p = Some true ->
  is_admin_or_explicit H e g user (CBasic u p) = true.
Proof. intros e g user u p Hm. unfold is_admin_or_explicit. rewrite Hm. reflexivity. Qed.

(* an entry of config.json whose password cannot be evaluated refuses that
   user name everywhere *)
Lemma cred_server_error : forall e g user u p,
  global_admin_match H e u p = None ->
  is_admin_or_explicit H e g user (CBasic u p) = false.
Proof. intros e g user u p Hm. unfold is_admin_or_explicit. rewrite Hm. reflexivity. Qed.

(* Basic credentials at the server scope: only config.json counts *)
Lemma cred_basic_global : forall e u p,
  is_admin H e "" (CBasic u p) = true <-> global_admin_match H e u p = Some true.
Proof.
  intros e u p. unfold is_admin, is_admin_or_explicit. cbn [String.eqb].
  destruct (global_admin_match H e u p) as [[|]|]; split; intro X; try reflexivity; try discriminate.
Qed.

(* Basic credentials at a group scope *)
Lemma cred_basic_group : forall e g u p,
  g <> "" -> global_admin_match H e u p = Some false ->
  is_admin H e g (CBasic u p) =
  match get_description e g with
  | None => false
  | Some (d, _) =>
      match get_password_permission H d u p with
      | Some ps => valid_username u && mem "admin" (perm_list (Some d) ps)
      | None => false
      end
  end.
Proof.
  intros e g u p Hg Hm. unfold is_admin, is_admin_or_explicit. rewrite Hm.
  rewrite (eqb_false_of_neq _ _ Hg).
  destruct (get_description e g) as [[d sub]|]; [|reflexivity].
  cbn [String.eqb negb andb]. unfold get_permission.
  destruct (get_password_permission H d u p); [|reflexivity].
  destruct (valid_username u); reflexivity.
Qed.

(* never an ordinary user of the group: a user entry of the addressed group
   whose permissions do not contain "admin" is refused, whatever password is
   presented *)
Lemma cred_ordinary_user : forall e g u p d sub ud,
  global_admin_match H e u p = Some false ->
  get_description e g = Some (d, sub) ->
  assoc_get (d_users d) u = Some ud ->
  mem "admin" (perm_list (Some d) (u_perms ud)) = false ->
  is_admin H e g (CBasic u p) = false.
Proof.
  intros e g u p d sub ud Hm Hd Hu Hp.
  destruct (String.eqb g "") eqn:Eg.
  - apply String.eqb_eq in Eg. subst g.
    destruct (is_admin H e "" (CBasic u p)) eqn:E; [|reflexivity].
    apply cred_basic_global in E. congruence.
  - apply String.eqb_neq in Eg. rewrite (cred_basic_group e g u p Eg Hm), Hd.
    unfold get_password_permission. rewrite Hu.
    destruct (pw_match H (u_password ud) p) as [[|]|]; try reflexivity.
    rewrite Hp. apply andb_false_r.
Qed.

(* the decision for scope g reads config.json, the token store and the
   description that g resolves to -- nothing else: no other group's users,
   administrators or keys matter *)
Lemma cred_local : forall e1 e2 g user c,
  e_conf e1 = e_conf e2 -> e_tokens e1 = e_tokens e2 ->
  get_description e1 g = get_description e2 g ->
  is_admin_or_explicit H e1 g user c = is_admin_or_explicit H e2 g user c.
Proof.
  intros e1 e2 g user c Hc Ht Hd.
  unfold is_admin_or_explicit, global_admin_match, check_global_admin_token, get_permission,
    parse_token.
  rewrite Hc, Ht, Hd. reflexivity.
Qed.

(* never another group's administrator: a name that is neither in
   config.json nor a user of the addressed group, in a group whose wildcard
   user (if any) is no administrator, is refused *)
Lemma cred_foreign_user : forall e g u p,
  assoc_get (e_conf e) u = None ->
  (forall d sub, get_description e g = Some (d, sub) ->
     assoc_get (d_users d) u = None /\
     match d_wildcard d with
     | Some w => mem "admin" (perm_list (Some d) (u_perms w)) = false
     | None => True end) ->
  is_admin H e g (CBasic u p) = false.
Proof.
  intros e g u p Hc Hd.
  assert (Hm : global_admin_match H e u p = Some false)
    by (unfold global_admin_match; rewrite Hc; reflexivity).
  destruct (String.eqb g "") eqn:Eg.
  - apply String.eqb_eq in Eg. subst g.
    destruct (is_admin H e "" (CBasic u p)) eqn:E; [|reflexivity].
    apply cred_basic_global in E. congruence.
  - apply String.eqb_neq in Eg. rewrite (cred_basic_group e g u p Eg Hm).
    destruct (get_description e g) as [[d sub]|] eqn:Ed; [|reflexivity].
    destruct (Hd d sub eq_refl) as [Hu Hw].
    unfold get_password_permission. rewrite Hu.
    destruct (d_wildcard d) as [w|]; [|reflexivity].
    destruct (pw_match H (u_password w) p) as [[|]|]; try reflexivity.
    rewrite Hw. apply andb_false_r.
Qed.

(* bearer tokens at a group scope *)
Lemma cred_bearer_group : forall e g b,
  g <> "" ->
  is_admin H e g (CBearer b) =
  match get_description e g with
  | None => false
  | Some (d, _) =>
      let r := parse_token e (d_keys d) b in
      negb (needs_username r) &&
      match tok_check r g with
      | Some (un, ps) => valid_username un && mem "admin" ps
      | None => false
      end
  end.
Proof.
  intros e g b Hg. unfold is_admin, is_admin_or_explicit.
  rewrite (eqb_false_of_neq _ _ Hg).
  destruct (get_description e g) as [[d sub]|]; [|reflexivity].
  cbn [String.eqb negb andb]. unfold get_permission. cbv zeta.
  destruct (parse_token e (d_keys d) b) eqn:Ep; cbn [needs_username tok_check negb andb].
  - reflexivity.
  - destruct (st_user t); cbn [negb andb]; [|reflexivity].
    destruct (st_match t g && st_time_ok t); [|reflexivity].
    destruct (valid_username s); reflexivity.
  - destruct (existsb _ (j_aud j)); [|reflexivity].
    destruct (valid_username (j_sub j)); reflexivity.
Qed.

Lemma cred_bearer_global : forall e b,
  is_admin H e "" (CBearer b) = check_global_admin_token e b.
Proof. intros. reflexivity. Qed.

(* never an out-of-scope token: a stored token that does not match the
   addressed group, is outside its validity window, or lacks "admin" *)
Lemma tok_check_bad : forall t g (f : string -> bool),
  st_match t g = false \/ st_time_ok t = false \/ mem "admin" (st_perms t) = false ->
  match tok_check (TStateful t) g with
  | Some (un, ps) => f un && mem "admin" ps
  | None => false
  end = false.
Proof.
  intros t g f Hbad. unfold tok_check.
  destruct (st_match t g) eqn:Em; destruct (st_time_ok t) eqn:Et; cbn [andb]; try reflexivity.
  destruct Hbad as [X | [X | X]]; try discriminate. rewrite X. apply andb_false_r.
Qed.

Lemma cred_token_out_of_scope : forall e g s t,
  find_token (e_tokens e) s = Some t ->
  st_match t g = false \/ st_time_ok t = false \/ mem "admin" (st_perms t) = false ->
  is_admin H e g (CBearer (BName s)) = false.
Proof.
  intros e g s t Hf Hbad.
  destruct (String.eqb g "") eqn:Eg.
  - apply String.eqb_eq in Eg. subst g. rewrite cred_bearer_global.
    unfold check_global_admin_token, parse_token. rewrite Hf.
    pose proof (tok_check_bad t "" (fun _ => true) Hbad) as K.
    destruct (tok_check (TStateful t) "") as [[un ps]|]; [exact K|reflexivity].
  - apply String.eqb_neq in Eg. rewrite (cred_bearer_group e g _ Eg).
    destruct (get_description e g) as [[d sub]|]; [|reflexivity].
    cbv zeta. unfold parse_token. rewrite Hf.
    rewrite (tok_check_bad t g valid_username Hbad). apply andb_false_r.
Qed.

(* an unknown token name is refused *)
Lemma cred_token_unknown : forall e g s,
  find_token (e_tokens e) s = None -> is_admin H e g (CBearer (BName s)) = false.
Proof.
  intros e g s Hf.
  destruct (String.eqb g "") eqn:Eg.
  - apply String.eqb_eq in Eg. subst g. rewrite cred_bearer_global.
    unfold check_global_admin_token, parse_token. rewrite Hf. reflexivity.
  - apply String.eqb_neq in Eg. rewrite (cred_bearer_group e g _ Eg).
    destruct (get_description e g) as [[d sub]|]; [|reflexivity].
    cbv zeta. unfold parse_token. rewrite Hf. reflexivity.
Qed.

(* a JWT counts only if it verifies under a key of the addressed group, names
   that group in its audience, and carries "admin"; never at the server scope *)
Lemma cred_jwt : forall e g j,
  is_admin H e g (CBearer (BJwt j)) = true ->
  g <> "" /\ exists d sub, get_description e g = Some (d, sub) /\
  mem (j_key j) (d_keys d) = true /\ j_claims_ok j = true /\
  existsb (fun a => fst a && match_group (snd a) g (j_subgroups j)) (j_aud j) = true /\
  mem "admin" (j_perms j) = true.
Proof.
  intros e g j Ha.
  destruct (String.eqb g "") eqn:Eg.
  - apply String.eqb_eq in Eg. subst g. rewrite cred_bearer_global in Ha.
    unfold check_global_admin_token, parse_token in Ha. cbn in Ha.
    rewrite andb_false_r in Ha. discriminate.
  - apply String.eqb_neq in Eg. split; [exact Eg|].
    rewrite (cred_bearer_group e g _ Eg) in Ha.
    destruct (get_description e g) as [[d sub]|]; [|discriminate].
    exists d, sub. split; [reflexivity|]. cbv zeta in Ha. unfold parse_token in Ha.
    destruct (j_claims_ok j) eqn:Ec; cbn [andb] in Ha; [|discriminate].
    destruct (mem (j_key j) (d_keys d)) eqn:Ek; [|discriminate].
    cbn [needs_username tok_check negb andb] in Ha.
    destruct (existsb _ (j_aud j)) eqn:Ea; [|discriminate].
    apply andb_prop in Ha. destruct Ha as [_ Hp]. auto.
Qed.

(* the password endpoint: beyond administrators, exactly a request that
   presents, with Basic credentials, the current password of the addressed
   (named, existing) user *)
Lemma cred_own_password : forall e g user c,
  is_admin_or_explicit H e g user c = true -> is_admin H e g c = false ->
  user <> "" /\ g <> "" /\ has_basic c = true /\
  exists d sub ud, get_description e g = Some (d, sub) /\
    assoc_get (d_users d) user = Some ud /\
    pw_match H (u_password ud) (cred_password c) = Some true.
Proof.
  intros e g user c Ht Hf. unfold is_admin in Hf. unfold is_admin_or_explicit in Ht, Hf.
  assert (K : forall (X Y : bool),
     (match c with
      | CBasic u p => match global_admin_match H e u p with
                      | None => false | Some true => true | Some false => X end
      | _ => X end) = true ->
     (match c with
      | CBasic u p => match global_admin_match H e u p with
                      | None => false | Some true => true | Some false => Y end
      | _ => Y end) = false -> X = true /\ Y = false).
  { intros X Y A B. destruct c as [|u p|b]; auto.
    destruct (global_admin_match H e u p) as [[|]|]; auto; discriminate. }
  destruct (K _ _ Ht Hf) as [Ht' Hf']. clear K Hf Ht. rename Ht' into Ht.
  destruct (String.eqb g "") eqn:Eg.
  - rewrite Ht in Hf'. discriminate.
  - apply String.eqb_neq in Eg.
    destruct (get_description e g) as [[d sub]|]; [|discriminate].
    cbn [String.eqb negb andb] in Hf'.
    destruct (String.eqb user "") eqn:Eu; cbn [negb andb] in Ht.
    + rewrite Ht in Hf'. discriminate.
    + apply String.eqb_neq in Eu. split; [exact Eu|]. split; [exact Eg|].
      destruct (has_basic c) eqn:Eb; cbn [andb] in Ht; [|rewrite Ht in Hf'; discriminate].
      split; [reflexivity|].
      exists d, sub.
      destruct (assoc_get (d_users d) user) as [ud|].
      * exists ud. split; [reflexivity|]. split; [reflexivity|].
        destruct (pw_match H (u_password ud) (cred_password c)) as [[|]|]; try reflexivity;
          rewrite Ht in Hf'; discriminate.
      * rewrite Ht in Hf'. discriminate.
Qed.

(* without Basic credentials (no Authorization header, or a bearer token)
   the own-password exception never applies: the password check is exactly
   the administrator check, whatever the stored password of the user is
   (type "wildcard" and the empty password included; fix b111378, F25) *)
Lemma own_password_needs_credentials : forall e g user c,
  has_basic c = false ->
  is_admin_or_explicit H e g user c = is_admin H e g c.
Proof.
  intros e g user c Hb. unfold is_admin, is_admin_or_explicit.
  rewrite Hb, !andb_false_r. destruct c; try discriminate; reflexivity.
Qed.

Lemma own_password_no_credentials : forall e g user,
  is_admin_or_explicit H e g user CNone = false.
Proof.
  intros e g user. rewrite (own_password_needs_credentials e g user CNone eq_refl).
  apply cred_none.
Qed.

End WithHash.

(* The common time origin of the tracks of one recording, part 2: what the
   invariant means for the container timestamps of two tracks, the 24 orders
   of the first samples and the sender reports of two tracks, the findings
   N3 (a sender report moves an origin after samples were written) and N4
   (a resize keyframe is dropped with an invalid origin), adjustOrigin. *)
From Coq Require Import ZArith List Bool Lia ZifyBool.
From Galene Require Import Lib.Word Model.Disk Model.DiskOrigin.
From Galene Require Import Proofs.DiskTime Proofs.DiskOriginInv.
Import ListNotations.
Open Scope Z_scope.
Ltac Zify.zify_post_hook ::= Z.div_mod_to_equations.

(* ------------------------------------------------------------------ *)
(* (a) one common origin                                               *)

(* two tracks that both have an origin and a sender report: their origins
   were sampled at the same publisher time, up to the bound *)
Lemma common_origin k c tA tB oA oB :
  Inv k c -> In tA (tc_tracks c) -> In tB (tc_tracks c) ->
  tt_origin tA = Some oA -> tt_ntp tA <> 0 ->
  tt_origin tB = Some oB -> tt_ntp tB <> 0 ->
  Z.abs (capture_time tA oA - capture_time tB oB)
  <= sync_bound k (tt_rate tA) + sync_bound k (tt_rate tB).
Proof.
  intros [_ _ _ I4] HA HB HoA HnA HoB HnB.
  rewrite Forall_forall in I4.
  destruct (I4 tA HA oA HoA HnA) as [_ SA].
  destruct (I4 tB HB oB HoB HnB) as [_ SB]. lia.
Qed.

(* floor forms of the conversions *)
Lemma td_floor tm hz :
  1 <= hz -> 0 <= tm <= 2147483648 ->
  0 <= tm * second - hz * to_duration tm hz < hz.
Proof.
  intros Hz Ht. unfold to_duration. replace (tm <? 0) with false by lia.
  pose proof (Z.div_mod (tm * second) hz ltac:(lia)) as E.
  pose proof (Z.mod_pos_bound (tm * second) hz ltac:(lia)) as B.
  assert (0 <= tm * second / hz) by (apply Z.div_pos; unfold second; lia).
  assert (tm * second / hz <= tm * second).
  { apply Z.div_le_upper_bound; [lia|]. unfold second in *. nia. }
  rewrite i64_small by (unfold second in *; lia). lia.
Qed.

Lemma fd_floor d hz :
  1 <= hz <= 1000000 -> 0 <= d <= 4294967296 * second ->
  0 <= d * hz - second * from_duration d hz < second.
Proof.
  intros Hz Hd. unfold from_duration. replace (d <? 0) with false by lia.
  assert (0 <= d * hz <= 4294967296 * second * 1000000) by (unfold second in *; nia).
  rewrite i64_small by (unfold second in *; lia). unfold second in *. lia.
Qed.

(* the ticks between the origin and a sample that is written *)
Lemma ticks_split s o R :
  near (i32 (s - R)) -> near (i32 (o - R)) -> before_origin o s = false ->
  w32 (s - o) = i32 (s - R) - i32 (o - R).
Proof.
  unfold near, before_origin, i32, w32. intros H1 H2 H3.
  destruct ((s - R) mod 4294967296 <? 2147483648) eqn:E1;
    destruct ((o - R) mod 4294967296 <? 2147483648) eqn:E2;
    destruct ((s - o) mod 4294967296 <? 2147483648) eqn:E3; lia.
Qed.

(* the container timestamp of a written sample is the time between the
   capture of the origin and the capture of the sample, in milliseconds
   rounded down (clock rate a multiple of 1000), up to 2 ns *)
Lemma tm_capture t o s q :
  tt_rate t = 1000 * q -> 1 <= q <= 1000 ->
  near (i32 (s - tt_rtp t)) -> near (i32 (o - tt_rtp t)) -> before_origin o s = false ->
  -1000001 <= tm_of o (tt_rate t) s * 1000000 - (capture_time t s - capture_time t o) <= 1.
Proof.
  intros Hr Hq Hs Ho Hb. unfold capture_time, tsub, tm_of.
  rewrite (ticks_split s o (tt_rtp t) Hs Ho Hb).
  rewrite Hr. replace (1000 * q / 1000) with q by lia.
  set (u := i32 (s - tt_rtp t)) in *. set (v := i32 (o - tt_rtp t)) in *.
  assert (Huv : 0 <= u - v).
  { pose proof (ticks_split s o (tt_rtp t) Hs Ho Hb) as E. fold u v in E.
    rewrite <- E. unfold w32. lia. }
  destruct (td_spec u (1000 * q) ltac:(lia) ltac:(unfold near in *; lia)) as [A _].
  destruct (td_spec v (1000 * q) ltac:(lia) ltac:(unfold near in *; lia)) as [B _].
  set (a := to_duration u (1000 * q)) in *. set (b := to_duration v (1000 * q)) in *.
  pose proof (Z.mul_div_le (u - v) q ltac:(lia)) as M1.
  pose proof (Z.mul_succ_div_gt (u - v) q ltac:(lia)) as M2.
  set (m := (u - v) / q) in *.
  replace (ntp_to_time (tt_ntp t) + a - (ntp_to_time (tt_ntp t) + b)) with (a - b) by lia.
  assert (G : - (1000002 * q) < q * (m * 1000000 - (a - b)) < 2 * q)
    by (unfold second in *; lia).
  split.
  - assert (~ (m * 1000000 - (a - b) <= -1000002)); [|lia].
    intros C. assert (q * (m * 1000000 - (a - b)) <= q * -1000002)
      by (apply Z.mul_le_mono_nonneg_l; lia). lia.
  - assert (~ (2 <= m * 1000000 - (a - b))); [|lia].
    intros C. assert (q * 2 <= q * (m * 1000000 - (a - b)))
      by (apply Z.mul_le_mono_nonneg_l; lia). lia.
Qed.

(* Two tracks with an origin and a sender report each, in a state that
   satisfies the invariant: a sample of A with timestamp sA and a sample of
   B with timestamp sB that are written (not before their origins) get
   container timestamps (milliseconds) whose difference is the difference
   of their capture times, up to 1 ms of rounding down, the sync bound of
   each track (k ticks and 3k ns) and 2 ns. *)
Lemma two_track_container_times k c tA tB oA oB sA sB qA qB :
  Inv k c -> In tA (tc_tracks c) -> In tB (tc_tracks c) ->
  tt_origin tA = Some oA -> tt_ntp tA <> 0 ->
  tt_origin tB = Some oB -> tt_ntp tB <> 0 ->
  tt_rate tA = 1000 * qA -> 1 <= qA <= 1000 ->
  tt_rate tB = 1000 * qB -> 1 <= qB <= 1000 ->
  near (i32 (sA - tt_rtp tA)) -> near (i32 (oA - tt_rtp tA)) -> before_origin oA sA = false ->
  near (i32 (sB - tt_rtp tB)) -> near (i32 (oB - tt_rtp tB)) -> before_origin oB sB = false ->
  Z.abs ((tm_of oA (tt_rate tA) sA - tm_of oB (tt_rate tB) sB) * 1000000
         - (capture_time tA sA - capture_time tB sB))
  <= 1000002 + sync_bound k (tt_rate tA) + sync_bound k (tt_rate tB).
Proof.
  intros I HA HB HoA HnA HoB HnB HrA HqA HrB HqB N1 N2 B1 N3 N4 B2.
  pose proof (common_origin k c tA tB oA oB I HA HB HoA HnA HoB HnB) as C.
  pose proof (tm_capture tA oA sA qA HrA HqA N1 N2 B1) as TA.
  pose proof (tm_capture tB oB sB qB HrB HqB N3 N4 B2) as TB.
  lia.
Qed.

(* the bounds for the clock rates that occur: Opus 48000, video 90000 *)
Lemma sync_bound_values :
  sync_bound 1 48000 = 20836 /\ sync_bound 1 90000 = 11114 /\
  sync_bound 2 48000 = 41672 /\ sync_bound 2 90000 = 22228.
Proof. vm_compute. repeat split; reflexivity. Qed.

(* ------------------------------------------------------------------ *)
(* (c) adjustOrigin                                                    *)

(* adjustOrigin runs only while the file is closed: no sample of the file
   that is being opened was written before it *)
Lemma init_writer_time cn i w h ts :
  cn_time (fst (fst (init_writer cn i w h ts))) =
  if cn_open cn then cn_time cn else adjust_origin (cn_time cn) i ts.
Proof.
  unfold init_writer. destruct (cn_open cn); [|reflexivity].
  destruct ((w =? cn_w cn) && (h =? cn_h cn)); reflexivity.
Qed.

(* FromDuration(ToDuration(x)) is x or x - 1 *)
Lemma fd_td x r :
  rate_ok r -> 0 <= x <= 2147483648 ->
  x - 1 <= from_duration (to_duration x r) r <= x.
Proof.
  unfold rate_ok. intros Hr Hx.
  pose proof (td_floor x r ltac:(lia) Hx) as T.
  destruct (td_spec x r ltac:(lia) ltac:(lia)) as [_ [P [_ Q]]].
  pose proof (fd_floor (to_duration x r) r ltac:(lia) ltac:(unfold second in *; lia)) as F.
  set (D := to_duration x r) in *. set (G := from_duration D r) in *.
  unfold second in *. lia.
Qed.

(* "so that the origin of track t is equal to ts": the origin ends at ts or
   one tick before it; the sample that opens the file gets timestamp 0 *)
Lemma adjust_origin_hits c i ts t o :
  nth_error (tc_tracks c) i = Some t -> tt_origin t = Some o ->
  rate_ok (tt_rate t) -> 0 <= i32 (ts - o) -> 0 <= ts < 4294967296 ->
  exists o', origin_of (adjust_origin c i ts) i = Some o' /\
             (o' = ts \/ w32 (ts - o') = 1) /\
             before_origin o' ts = false /\
             (2000 <= tt_rate t -> tm_of o' (tt_rate t) ts = 0).
Proof.
  intros Hn Ho Hr Hx Hts. unfold adjust_origin, origin_of. rewrite Hn, Ho.
  destruct (o =? ts) eqn:E.
  - rewrite Hn, Ho. exists o. assert (o = ts) by lia. subst o.
    split; [reflexivity|]. split; [left; reflexivity|].
    unfold before_origin, tm_of. rewrite Z.sub_diag. split; [reflexivity|].
    intros _. reflexivity.
  - cbn [tc_tracks]. rewrite nth_error_map, Hn. cbn [option_map]. rewrite Ho.
    cbn [tt_origin].
    pose proof (i32_range (ts - o)) as Hi.
    pose proof (fd_td (i32 (ts - o)) (tt_rate t) Hr ltac:(lia)) as F.
    set (g := from_duration (to_duration (i32 (ts - o)) (tt_rate t)) (tt_rate t)) in *.
    exists (w32 (o + w32 g)). split; [reflexivity|].
    assert (D : w32 (ts - w32 (o + w32 g)) = i32 (ts - o) - g).
    { revert F Hx. unfold i32, w32.
      destruct ((ts - o) mod 4294967296 <? 2147483648) eqn:E1; lia. }
    split; [|split].
    + rewrite D. assert (g = i32 (ts - o) \/ g = i32 (ts - o) - 1) as [G|G] by lia.
      * left. revert G Hx Hts. unfold i32, w32.
        destruct ((ts - o) mod 4294967296 <? 2147483648) eqn:E1; lia.
      * right. lia.
    + unfold before_origin. unfold i32 at 1. rewrite D.
      replace (i32 (ts - o) - g <? 2147483648) with true by lia. lia.
    + intros H2. unfold tm_of. rewrite D.
      assert (2 <= tt_rate t / 1000) by (apply Z.div_le_lower_bound; lia).
      apply Z.div_small. lia.
Qed.

(* ... and "equal to ts" is false: origin 0, clock rate 90000, ts = 1 *)
Lemma adjust_origin_one_tick_short :
  origin_of (adjust_origin (mkTC (Some 0) 0 [mkTT (Some 0) 0 0 90000]) 0 1) 0 = Some 0.
Proof. vm_compute. reflexivity. Qed.

(* ------------------------------------------------------------------ *)
(* (c) a sender report that moves the origin of a track (setTimeOffset
   with an origin and originRemote known) by dl ticks: the container
   timestamp of every later sample changes by dl ticks *)

Lemma tm_after_move O T dl rate :
  0 <= T - O + dl < 4294967296 ->
  tm_of (w32 (w32 O - w32 dl)) rate (w32 T) = (T - O + dl) / (rate / 1000).
Proof.
  intros H. replace (w32 (w32 O - w32 dl)) with (w32 (O - dl)) by (unfold w32; lia).
  rewrite tm_of_unwrapped by lia. f_equal. lia.
Qed.

(* whenever the origin moves LATER by at least one millisecond (dl <= -q)
   and the next sample comes sooner than the shift minus one millisecond:
   the later sample gets a SMALLER timestamp than the earlier one had *)
Lemma sr_move_not_monotone O T1 T2 dl rate :
  1000 <= rate -> dl < 0 ->
  0 <= T1 - O < 2147483648 -> T1 <= T2 -> T2 - T1 + rate / 1000 <= - dl ->
  0 <= T2 - O + dl ->
  before_origin (w32 (w32 O - w32 dl)) (w32 T2) = false /\
  tm_of (w32 (w32 O - w32 dl)) rate (w32 T2) < tm_of (w32 O) rate (w32 T1).
Proof.
  intros Hr Hd H1 H12 Hs H2.
  assert (Hq : 1 <= rate / 1000) by (apply Z.div_le_lower_bound; lia).
  split.
  - replace (w32 (w32 O - w32 dl)) with (w32 (O - dl)) by (unfold w32; lia).
    apply before_origin_false. lia.
  - rewrite tm_after_move by lia. rewrite tm_of_unwrapped by lia.
    set (q := rate / 1000) in *.
    assert ((T2 - O + dl) / q + 1 <= (T1 - O) / q); [|lia].
    replace ((T2 - O + dl) / q + 1) with ((T2 - O + dl + 1 * q) / q)
      by (rewrite Z.div_add by lia; lia).
    apply Z.div_le_mono; lia.
Qed.

(* what a sender report does to the origin of its own track, exactly *)
Definition sr_delta (c : tconn) (t : ttrack) (o ntp rtp : Z) : Z :=
  from_duration
    (i64 (time_sub (ntp_to_time ntp) (ntp_to_time (tc_remote c))
          - to_duration (i32 (rtp - o)) (tt_rate t))) (tt_rate t).

Lemma sr_effect c i ntp rtp t :
  nth_error (tc_tracks c) i = Some t ->
  origin_of (ostep c (OSR i ntp rtp)) i =
  match tt_origin t with
  | None => None
  | Some o => if tc_remote c =? 0 then Some o
              else Some (w32 (o - w32 (sr_delta c t o ntp rtp)))
  end.
Proof.
  intros Hn. cbn [ostep]. unfold set_time_offset, rate_at, origin_of, sr_delta. rewrite Hn.
  destruct (tt_origin t) as [o|].
  - destruct (tc_remote c =? 0); cbn [tc_tracks];
      rewrite (nth_error_set_nth_eq _ _ _ _ Hn); reflexivity.
  - cbn [tc_tracks]. rewrite (nth_error_set_nth_eq _ _ _ _ Hn). reflexivity.
Qed.

(* ------------------------------------------------------------------ *)
(* N4: conn.close() from inside initWriter                             *)

Lemma close_origins_spec c :
  tc_local (close_origins c) = None /\ tc_remote (close_origins c) = 0 /\
  forall i, origin_of (close_origins c) i = None.
Proof.
  unfold close_origins, origin_of. cbn [tc_local tc_remote tc_tracks].
  split; [reflexivity|]. split; [reflexivity|]. intros i.
  rewrite nth_error_map. destruct (nth_error (tc_tracks c) i); reflexivity.
Qed.

(* whatever the state: the keyframe with the new dimensions is not written
   ("Invalid origin"), and afterwards no track has an origin and the
   connection has no local origin: nothing is written (container_time is
   None) until some track gets a new origin *)
Lemma resize_keyframe_dropped c i ts :
  snd (resize_sample c i ts) = None /\
  fst (resize_sample c i ts) = close_origins c /\
  forall j s, container_time (fst (resize_sample c i ts)) j s = None.
Proof.
  destruct (close_origins_spec c) as [_ [_ O]].
  assert (E : adjust_origin (close_origins c) i ts = close_origins c).
  { unfold adjust_origin. pose proof (O i) as Oi. unfold origin_of in Oi.
    destruct (nth_error (tc_tracks (close_origins c)) i) as [t|]; [|reflexivity].
    rewrite Oi. reflexivity. }
  unfold resize_sample. cbn [fst snd]. rewrite E, (O i).
  split; [reflexivity|]. split; [reflexivity|].
  intros j s. unfold container_time. pose proof (O j) as Oj. unfold origin_of in Oj.
  destruct (nth_error (tc_tracks (close_origins c)) j) as [t|]; [|reflexivity].
  rewrite Oj. reflexivity.
Qed.

(* and a new origin needs a keyframe: in a connection with a video track
   and without local origin, writeRTP of a packet that is not the start of
   a keyframe (any audio packet, any other video packet) leaves the time
   state as it is *)
Lemma no_origin_before_keyframe cn i now p t :
  nth_error (cn_tracks cn) i = Some t ->
  cn_hasVideo cn = true -> tc_local (cn_time cn) = None ->
  origin_of (cn_time cn) i = None ->
  (cd_video (k_cd t) = true -> cd_kf (k_cd t) p = false) ->
  cn_time (fst (write_rtp_pre cn i now p)) = cn_time cn.
Proof.
  intros Hn Hv Hl Ho Hk. unfold write_rtp_pre. rewrite Hn.
  destruct (cd_video (k_cd t)) eqn:Ev.
  - rewrite (Hk eq_refl).
    destruct (match k_lastKf t with
              | Some l => ms 4000 <? sat64 (now - l)
              | None => true
              end).
    + destruct (request_keyframe now (k_kfreq t)) as [r called].
      cbn [upd_trk cn_time cn_hasVideo]. rewrite Ho, Hv, Hl. reflexivity.
    + rewrite Ho, Hv, Hl. reflexivity.
  - rewrite Ho, Hv, Hl. reflexivity.
Qed.

(* ------------------------------------------------------------------ *)
(* (a) the orders in which both sender reports are known before the second
   origin is set                                                       *)

Section TwoTracks.
  Variables r0 r1 ts0 now0 ts1 now1 ntp0 rtp0 ntp1 rtp1 : Z.
  Hypothesis R0 : rate_ok r0.
  Hypothesis R1 : rate_ok r1.
  Hypothesis Z0 : ntp0 <> 0.
  Hypothesis Z1 : ntp1 <> 0.
  Hypothesis U0 : 0 <= ntp0 < 18446744073709551616.
  Hypothesis U1 : 0 <= ntp1 < 18446744073709551616.
  Hypothesis N0 : near (i32 (ts0 - rtp0)).
  Hypothesis N1 : near (i32 (ts1 - rtp1)).
  Hypothesis E0 : era_ok (cap ntp0 rtp0 r0 ts0).
  Hypothesis E1 : era_ok (cap ntp1 rtp1 r1 ts1).
  Hypothesis SK : - (999 * second) <= cap ntp0 rtp0 r0 ts0 - cap ntp1 rtp1 r1 ts1 <= 999 * second.

  Let c0 := conn2 r0 r1.
  Let goods := good_orders ts0 now0 ts1 now1 ntp0 rtp0 ntp1 rtp1.

  Lemma goods_eq : goods =
   [[OFirst 1 ts1 now1; OSR 0 ntp0 rtp0; OSR 1 ntp1 rtp1; OFirst 0 ts0 now0];
    [OSR 0 ntp0 rtp0; OFirst 1 ts1 now1; OSR 1 ntp1 rtp1; OFirst 0 ts0 now0];
    [OFirst 0 ts0 now0; OSR 0 ntp0 rtp0; OSR 1 ntp1 rtp1; OFirst 1 ts1 now1];
    [OSR 0 ntp0 rtp0; OFirst 0 ts0 now0; OSR 1 ntp1 rtp1; OFirst 1 ts1 now1];
    [OSR 0 ntp0 rtp0; OSR 1 ntp1 rtp1; OFirst 0 ts0 now0; OFirst 1 ts1 now1];
    [OSR 0 ntp0 rtp0; OSR 1 ntp1 rtp1; OFirst 1 ts1 now1; OFirst 0 ts0 now0];
    [OFirst 1 ts1 now1; OSR 1 ntp1 rtp1; OSR 0 ntp0 rtp0; OFirst 0 ts0 now0];
    [OSR 1 ntp1 rtp1; OFirst 1 ts1 now1; OSR 0 ntp0 rtp0; OFirst 0 ts0 now0];
    [OFirst 0 ts0 now0; OSR 1 ntp1 rtp1; OSR 0 ntp0 rtp0; OFirst 1 ts1 now1];
    [OSR 1 ntp1 rtp1; OFirst 0 ts0 now0; OSR 0 ntp0 rtp0; OFirst 1 ts1 now1];
    [OSR 1 ntp1 rtp1; OSR 0 ntp0 rtp0; OFirst 0 ts0 now0; OFirst 1 ts1 now1];
    [OSR 1 ntp1 rtp1; OSR 0 ntp0 rtp0; OFirst 1 ts1 now1; OFirst 0 ts0 now0]].
  Proof. reflexivity. Qed.

  (* derived facts *)
  Let C0 := cap ntp0 rtp0 r0 ts0.
  Let C1 := cap ntp1 rtp1 r1 ts1.

  Lemma opp_facts n R r ts :
    rate_ok r -> near (i32 (ts - R)) ->
    near (i32 (R - ts)) /\
    ntp_to_time n - to_duration (i32 (R - ts)) r = cap n R r ts /\
    ntp_to_time n + i64 (- to_duration (i32 (R - ts)) r) = cap n R r ts.
  Proof.
    intros Hr Hn.
    assert (O : i32 (R - ts) = - i32 (ts - R)) by (apply i32_opp; unfold near in Hn; lia).
    split; [rewrite O; unfold near in *; lia|].
    destruct (td_spec (i32 (R - ts)) r ltac:(unfold rate_ok in Hr; lia)
                      ltac:(rewrite O; unfold near in Hn; lia)) as [_ [_ [_ T]]].
    rewrite i64_small by (unfold second in T; lia).
    unfold cap, tsub. rewrite O, td_opp. lia.
  Qed.

  Lemma nz_facts x : era_ok x -> (time_to_ntp x =? 0) = false.
  Proof. intros H. destruct (ntp_roundtrip x H) as [_ [B _]]. lia. Qed.

  Ltac norm :=
    cbn [orun fold_left ostep origin_of set_origin set_time_offset rate_at conn2 tt0
         nth_error tc_tracks tc_local tc_remote tt_origin tt_ntp tt_rtp tt_rate set_nth
         negb andb Z.eqb hist_ok ev_ok capture_time].


  Ltac normg :=
    cbn [orun fold_left ostep origin_of set_origin set_time_offset rate_at conn2 tt0
         nth_error tc_tracks tc_local tc_remote tt_origin tt_ntp tt_rtp tt_rate set_nth
         negb andb orb Z.eqb hist_ok ev_ok capture_time
         origin_moved origin_trace origins map trace_moved any2 opt_moved].

  Lemma good_order_run es :
    In es goods ->
    hist_ok c0 es /\ origin_moved c0 es = false /\
    opens es = 0 /\
    exists o0 o1,
      tc_tracks (orun c0 es) = [mkTT (Some o0) ntp0 rtp0 r0; mkTT (Some o1) ntp1 rtp1 r1] /\
      (o0 = ts0 \/ o1 = ts1).
  Proof.
    destruct (opp_facts ntp0 rtp0 r0 ts0 R0 N0) as [N0' [X0a X0b]].
    destruct (opp_facts ntp1 rtp1 r1 ts1 R1 N1) as [N1' [X1a X1b]].
    pose proof (nz_facts _ E0) as NZ0. pose proof (nz_facts _ E1) as NZ1.
    assert (B0 : (ntp0 =? 0) = false) by lia. assert (B1 : (ntp1 =? 0) = false) by lia.
    assert (S01 : skew_ok (cap ntp0 rtp0 r0 ts0 - ntp_to_time (time_to_ntp (cap ntp1 rtp1 r1 ts1)))).
    { destruct (ntp_roundtrip _ E1) as [A _]. unfold skew_ok, second in *. lia. }
    assert (S10 : skew_ok (cap ntp1 rtp1 r1 ts1 - ntp_to_time (time_to_ntp (cap ntp0 rtp0 r0 ts0)))).
    { destruct (ntp_roundtrip _ E0) as [A _]. unfold skew_ok, second in *. lia. }
    unfold cap in *.
    intros Hin. rewrite goods_eq in Hin. subst c0.
    repeat (destruct Hin as [<-|Hin]); [..|destruct Hin].
    all: normg; rewrite ?B0, ?B1; normg; rewrite ?X0a, ?X0b, ?X1a, ?X1b, ?NZ0, ?NZ1; normg.
    all: rewrite ?Z.eqb_refl; normg.
    all: split; [|split; [reflexivity|split; [reflexivity|eexists; eexists; split;
                     [reflexivity|first [left; reflexivity|right; reflexivity]]]]].
    all: repeat match goal with |- _ /\ _ => split end.
    all: try exact I; try assumption; try lia.
    all: intros;
      repeat match goal with H : Some _ = Some _ |- _ => injection H as <- end;
      unfold capture_time; cbn [tt0 tt_origin tt_ntp tt_rtp tt_rate] in *;
      try congruence;
      repeat match goal with H : Some _ = Some _ |- _ => injection H as <- end;
      rewrite ?X0a, ?X1a; repeat match goal with |- _ /\ _ => split end; assumption.
  Qed.
End TwoTracks.

(* Two tracks (clock rates r0, r1), their first samples (ts, now), their
   sender reports (ntp, rtp): in each of the 12 orders in which no sender
   report comes after the second first sample,
     - no origin is ever changed after it was set,
     - the track that came first keeps the timestamp of its first sample as
       its origin,
     - the two origins were sampled at the same publisher time up to one
       tick of each clock and 6 ns, and
     - two samples that are written get container timestamps whose
       difference is the difference of their capture times up to 1 ms of
       rounding down, one tick of each clock and 8 ns. *)
Lemma good_orders_common_origin :
  forall r0 r1 ts0 now0 ts1 now1 ntp0 rtp0 ntp1 rtp1,
  rate_ok r0 -> rate_ok r1 -> ntp0 <> 0 -> ntp1 <> 0 ->
  0 <= ntp0 < 18446744073709551616 -> 0 <= ntp1 < 18446744073709551616 ->
  near (i32 (ts0 - rtp0)) -> near (i32 (ts1 - rtp1)) ->
  era_ok (cap ntp0 rtp0 r0 ts0) -> era_ok (cap ntp1 rtp1 r1 ts1) ->
  - (999 * second) <= cap ntp0 rtp0 r0 ts0 - cap ntp1 rtp1 r1 ts1 <= 999 * second ->
  forall es, In es (good_orders ts0 now0 ts1 now1 ntp0 rtp0 ntp1 rtp1) ->
  origin_moved (conn2 r0 r1) es = false /\
  exists o0 o1,
    origins (orun (conn2 r0 r1) es) = [Some o0; Some o1] /\ (o0 = ts0 \/ o1 = ts1) /\
    Z.abs (cap ntp0 rtp0 r0 o0 - cap ntp1 rtp1 r1 o1) <= sync_bound 1 r0 + sync_bound 1 r1 /\
    forall q0 q1 s0 s1,
      r0 = 1000 * q0 -> 1 <= q0 <= 1000 -> r1 = 1000 * q1 -> 1 <= q1 <= 1000 ->
      near (i32 (s0 - rtp0)) -> near (i32 (o0 - rtp0)) -> before_origin o0 s0 = false ->
      near (i32 (s1 - rtp1)) -> near (i32 (o1 - rtp1)) -> before_origin o1 s1 = false ->
      Z.abs ((tm_of o0 r0 s0 - tm_of o1 r1 s1) * 1000000
             - (cap ntp0 rtp0 r0 s0 - cap ntp1 rtp1 r1 s1))
      <= 1000002 + sync_bound 1 r0 + sync_bound 1 r1.
Proof.
  intros r0 r1 ts0 now0 ts1 now1 ntp0 rtp0 ntp1 rtp1 R0 R1 Z0 Z1 U0 U1 N0 N1 E0 E1 SK es Hin.
  destruct (good_order_run r0 r1 ts0 now0 ts1 now1 ntp0 rtp0 ntp1 rtp1
              R0 R1 Z0 Z1 U0 U1 N0 N1 E0 E1 SK es Hin)
    as [Hh [Hm [Hop [o0 [o1 [Ht Hor]]]]]].
  split; [exact Hm|]. exists o0, o1.
  pose proof (run_inv es 1 (conn2 r0 r1) ltac:(lia) (conn2_Inv r0 r1 R0 R1) Hh) as I.
  rewrite Hop in I. change (1 + 0) with 1 in I.
  set (c := orun (conn2 r0 r1) es) in *.
  set (t0 := mkTT (Some o0) ntp0 rtp0 r0) in *. set (t1 := mkTT (Some o1) ntp1 rtp1 r1) in *.
  assert (In0 : In t0 (tc_tracks c)) by (rewrite Ht; left; reflexivity).
  assert (In1 : In t1 (tc_tracks c)) by (rewrite Ht; right; left; reflexivity).
  split; [unfold origins; rewrite Ht; reflexivity|]. split; [exact Hor|]. split.
  - exact (common_origin 1 c t0 t1 o0 o1 I In0 In1 eq_refl Z0 eq_refl Z1).
  - intros q0 q1 s0 s1 Hr0 Hq0 Hr1 Hq1 A1 A2 A3 B1 B2 B3.
    exact (two_track_container_times 1 c t0 t1 o0 o1 s0 s1 q0 q1 I In0 In1
             eq_refl Z0 eq_refl Z1 Hr0 Hq0 Hr1 Hq1 A1 A2 A3 B1 B2 B3).
Qed.

(* ------------------------------------------------------------------ *)
(* an executable form of the range conditions (for concrete histories) *)

Definition nearb (x : Z) : bool := (-1073741824 <=? x) && (x <=? 1073741824).
Definition skewb (d : Z) : bool := (- (1000 * second) <=? d) && (d <=? 1000 * second).
Definition erab (x : Z) : bool := (second <=? x) && (x <? 4294967296 * second).

Lemma nearb_ok x : nearb x = true -> near x.
Proof. unfold nearb, near. lia. Qed.
Lemma skewb_ok x : skewb x = true -> skew_ok x.
Proof. unfold skewb, skew_ok. lia. Qed.
Lemma erab_ok x : erab x = true -> era_ok x.
Proof. unfold erab, era_ok. lia. Qed.

Definition ev_okb (c : tconn) (e : oev) : bool :=
  match e with
  | OFirst i ts now =>
    match nth_error (tc_tracks c) i with
    | None => true
    | Some t =>
      match tt_origin t with
      | Some _ => true
      | None =>
        if tt_ntp t =? 0 then true else
        nearb (i32 (ts - tt_rtp t)) &&
        match tc_local c with
        | None => erab (capture_time t ts)
        | Some l =>
          if tc_remote c =? 0
          then skewb (now - l) && erab (capture_time t ts - (now - l))
          else skewb (capture_time t ts - ntp_to_time (tc_remote c))
        end
      end
    end
  | OSR i ntp rtp =>
    negb (ntp =? 0) && (0 <=? ntp) && (ntp <? 18446744073709551616) &&
    match nth_error (tc_tracks c) i with
    | None => true
    | Some t =>
      match tt_origin t with
      | None => true
      | Some o =>
        nearb (i32 (rtp - o)) &&
        if tc_remote c =? 0
        then erab (ntp_to_time ntp - to_duration (i32 (rtp - o)) (tt_rate t))
        else skewb (ntp_to_time ntp - ntp_to_time (tc_remote c)
                    - to_duration (i32 (rtp - o)) (tt_rate t))
      end
    end
  | OOpen i ts =>
    match nth_error (tc_tracks c) i with
    | None => true
    | Some t =>
      match tt_origin t with
      | None => true
      | Some o =>
        if o =? ts then true else
        skewb (to_duration (i32 (ts - o)) (tt_rate t)) &&
        (if tc_remote c =? 0 then true
         else erab (ntp_to_time (tc_remote c) + to_duration (i32 (ts - o)) (tt_rate t))) &&
        forallb (fun tk => match tt_origin tk with
                           | None => true
                           | Some ok => if tt_ntp tk =? 0 then true
                                        else nearb (i32 (ok - tt_rtp tk))
                           end) (tc_tracks c)
      end
    end
  | OClose => true
  end.

Fixpoint hist_okb (c : tconn) (es : list oev) : bool :=
  match es with
  | [] => true
  | e :: es' => ev_okb c e && hist_okb (ostep c e) es'
  end.

Lemma ev_okb_sound c e : ev_okb c e = true -> ev_ok c e.
Proof.
  destruct e as [i ts now|i ntp rtp|i ts|]; cbn [ev_okb ev_ok]; intros H.
  - intros t Hn Ho Hz. rewrite Hn, Ho in H.
    replace (tt_ntp t =? 0) with false in H by lia.
    apply andb_true_iff in H. destruct H as [H1 H2].
    split; [apply nearb_ok; exact H1|].
    destruct (tc_local c) as [l|].
    + destruct (tc_remote c =? 0).
      * apply andb_true_iff in H2. destruct H2 as [H2 H3].
        split; [apply skewb_ok; exact H2|apply erab_ok; exact H3].
      * apply skewb_ok; exact H2.
    + apply erab_ok; exact H2.
  - apply andb_true_iff in H. destruct H as [H H4].
    split; [lia|]. split; [lia|].
    intros t o Hn Ho. rewrite Hn, Ho in H4.
    apply andb_true_iff in H4. destruct H4 as [H5 H6].
    split; [apply nearb_ok; exact H5|].
    destruct (tc_remote c =? 0); [apply erab_ok|apply skewb_ok]; exact H6.
  - intros t o Hn Ho Hne. rewrite Hn, Ho in H.
    replace (o =? ts) with false in H by lia.
    apply andb_true_iff in H. destruct H as [H H3].
    apply andb_true_iff in H. destruct H as [H1 H2].
    split; [apply skewb_ok; exact H1|]. split.
    + intros Hr. replace (tc_remote c =? 0) with false in H2 by lia.
      apply erab_ok; exact H2.
    + apply Forall_forall. intros tk Htk ok Hok Hnz.
      rewrite forallb_forall in H3. specialize (H3 tk Htk). rewrite Hok in H3.
      replace (tt_ntp tk =? 0) with false in H3 by lia.
      apply nearb_ok; exact H3.
  - exact I.
Qed.

Lemma hist_okb_sound es : forall c, hist_okb c es = true -> hist_ok c es.
Proof.
  induction es as [|e es IH]; intros c H; [exact I|].
  cbn [hist_okb] in H. apply andb_true_iff in H. destruct H as [H1 H2].
  split; [apply ev_okb_sound; exact H1|apply IH; exact H2].
Qed.


(* ------------------------------------------------------------------ *)
(* (b) all 24 orders, on concrete values: Opus track 0 (48000), video track
   1 (90000); the video keyframe (ts 90000) arrives at local time T, the
   first audio packet (ts 48000) 20 ms later; the sender reports say that
   audio ts 52800 and video ts 90000 were sampled at the same instant.  *)

Definition w_conn : tconn := conn2 48000 90000.
Definition w_ntp : Z := 3900000123 * 4294967296.
Definition w_orders : list (list oev) :=
  all_orders 48000 3900000000020000000 90000 3900000000000000000 w_ntp 52800 w_ntp 90000.

Definition both_origins (c : tconn) : bool :=
  match origins c with [Some _; Some _] => true | _ => false end.

Lemma w_orders_check :
  length w_orders = 24%nat /\
  length (filter reports_before_second_origin w_orders) = 12%nat /\
  forallb (fun es => hist_okb w_conn es && (opens es =? 0)
                     && both_origins (orun w_conn es)
                     && Bool.eqb (origin_moved w_conn es)
                                 (negb (reports_before_second_origin es))) w_orders = true.
Proof. vm_compute. repeat split; reflexivity. Qed.

(* every one of the 24 orders satisfies the range conditions and ends with
   two origins that are in sync (the invariant); an origin is moved after it
   was set in exactly the 12 orders in which a sender report comes after the
   second first sample *)
Lemma all_orders_characterised es :
  In es w_orders ->
  hist_ok w_conn es /\ Inv 1 (orun w_conn es) /\
  both_origins (orun w_conn es) = true /\
  origin_moved w_conn es = negb (reports_before_second_origin es).
Proof.
  intros Hin. destruct w_orders_check as [_ [_ H]].
  rewrite forallb_forall in H. specialize (H es Hin).
  apply andb_true_iff in H. destruct H as [H H4].
  apply andb_true_iff in H. destruct H as [H H3].
  apply andb_true_iff in H. destruct H as [H1 H2].
  pose proof (hist_okb_sound es w_conn H1) as Hh.
  split; [exact Hh|]. split.
  - pose proof (run_inv es 1 w_conn ltac:(lia)
                  (conn2_Inv 48000 90000 ltac:(unfold rate_ok; lia) ltac:(unfold rate_ok; lia)) Hh) as I.
    replace (1 + opens es) with 1 in I by lia. exact I.
  - split; [exact H3|]. apply eqb_prop. exact H4.
Qed.

(* N3 on the FIRST track.  The audio sender report is known early; the
   video keyframe (ts 90000) arrives at T and sets the connection's origin;
   the first audio packet (ts 48000, sampled 200 ms after the keyframe by
   the sender reports) arrives 20 ms later: originRemote is derived from
   the audio track and the local delay.  Video frame ts 93000 is written
   with timestamp 33.  Then the first VIDEO sender report arrives: the video
   origin moves from 90000 to 106199; frame ts 96000 is dropped as "before
   the origin", frame ts 108000 is written with timestamp 20. *)
Definition n3v_ntp_audio : Z := 3900000123 * 4294967296 + 858993459.
Definition n3v_pre : list oev :=
  [OSR 0 n3v_ntp_audio 48000; OFirst 1 90000 3900000000000000000;
   OFirst 0 48000 3900000000020000000].
Definition n3v_all : list oev := n3v_pre ++ [OSR 1 w_ntp 90000].

Lemma n3v_witness :
  reports_before_second_origin n3v_all = false /\
  hist_okb w_conn n3v_all = true /\
  origins (orun w_conn n3v_pre) = [Some 47040; Some 90000] /\
  origins (orun w_conn n3v_all) = [Some 47040; Some 106199] /\
  container_time (orun w_conn n3v_pre) 1 93000 = Some 33 /\
  container_time (orun w_conn n3v_all) 1 96000 = None /\
  container_time (orun w_conn n3v_all) 1 108000 = Some 20.
Proof. vm_compute. repeat split; reflexivity. Qed.

(* the invariant for a new two-track connection, every history *)
Lemma fresh_run_inv r0 r1 es :
  rate_ok r0 -> rate_ok r1 -> hist_ok (conn2 r0 r1) es ->
  Inv (1 + opens es) (orun (conn2 r0 r1) es).
Proof.
  intros R0 R1 H. apply run_inv; [lia|apply conn2_Inv; assumption|exact H].
Qed.

(* non-vacuity: the hypotheses of good_orders_common_origin hold of the
   concrete values above, and in the final state of the order
   SR0 SR1 F1 F0 the samples 100 ms after the common origin are both
   written with timestamp 100 *)
Lemma origin_example :
  (rate_ok 48000 /\ rate_ok 90000 /\ w_ntp <> 0 /\ 0 <= w_ntp < 18446744073709551616 /\
   near (i32 (48000 - 52800)) /\ near (i32 (90000 - 90000)) /\
   era_ok (cap w_ntp 52800 48000 48000) /\ era_ok (cap w_ntp 90000 90000 90000) /\
   - (999 * second) <= cap w_ntp 52800 48000 48000 - cap w_ntp 90000 90000 90000
   <= 999 * second) /\
  (let es := [OSR 0 w_ntp 52800; OSR 1 w_ntp 90000;
              OFirst 1 90000 3900000000000000000; OFirst 0 48000 3900000000020000000] in
   In es (good_orders 48000 3900000000020000000 90000 3900000000000000000
                      w_ntp 52800 w_ntp 90000) /\
   origins (orun w_conn es) = [Some 52800; Some 90000] /\
   near (i32 (57600 - 52800)) /\ near (i32 (52800 - 52800)) /\
   before_origin 52800 57600 = false /\
   near (i32 (99000 - 90000)) /\ near (i32 (90000 - 90000)) /\
   before_origin 90000 99000 = false /\
   tm_of 52800 48000 57600 = 100 /\ tm_of 90000 90000 99000 = 100 /\
   cap w_ntp 52800 48000 57600 - cap w_ntp 90000 90000 99000 = 0) /\
  hist_ok w_conn n3v_all.
Proof.
  split; [|split].
  - unfold rate_ok, near, era_ok. vm_compute. repeat split; intros; congruence.
  - cbv zeta. split; [vm_compute; tauto|]. unfold near. vm_compute.
    repeat split; intros; congruence.
  - apply hist_okb_sound. vm_compute. reflexivity.
Qed.

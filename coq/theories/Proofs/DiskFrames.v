(* What reaches the file, relative to a specification of the sample builder
   (Model/Disk.v: write_rtp_pre, process_sample(s)), for a connection with one
   video track.  The builder is an oracle: a run is a list of steps
   (packet pushed, local time, samples the builder hands out after that push)
   followed by the samples of the final forced flush. *)
From Coq Require Import ZArith List Bool Lia.
From Galene Require Import Lib.Word Model.Disk Proofs.DiskTime.
Import ListNotations.
Open Scope Z_scope.
Ltac Zify.zify_post_hook ::= Z.div_mod_to_equations.

Definition stepT := (pkt * Z * list sample)%type.

(* writeRTP for every pushed packet, with the builder's answers given *)
Fixpoint sink_run (cn : conn) (steps : list stepT) : conn * list fev * flow :=
  match steps with
  | [] => (cn, [], FlContinue)
  | (p, now, ss) :: rest =>
    let '(cn1, _) := write_rtp_pre cn 0 now p in
    let '(cn2, e1, fl) := process_samples cn1 0 ss in
    match fl with
    | FlContinue =>
      let '(cn3, e2, fl2) := sink_run cn2 rest in (cn3, e1 ++ e2, fl2)
    | _ => (cn2, e1, fl)
    end
  end.

Section Video.
  Variable cd : codec.
  Hypothesis Hvid : cd_video cd = true.
  Hypothesis Hrate : 1000 <= cd_rate cd.
  Variables w h : Z.

  (* the connection states that occur *)
  Definition mk (t : trk) (loc org : option Z) (op : bool) (cw ch : Z) : conn :=
    mkConn true (mkTC loc 0 [mkTT org 0 0 (cd_rate cd)]) op cw ch [t].

  (* org: the track's origin; cur: timestamp of savedKf; op: file open *)
  Definition St (cn : conn) (org cur : option Z) (op : bool) : Prop :=
    exists last kr lk sk loc cw ch,
      cn = mk (mkTrk cd last kr lk sk) loc org op cw ch /\
      match sk with None => None | Some q => Some (p_ts q) end = cur /\
      (forall q, sk = Some q -> cd_dims cd q = (w, h)) /\
      (org = None -> loc = None /\ sk = None /\ op = false) /\
      (org <> None -> loc <> None /\ sk <> None) /\
      (op = true -> cw = w /\ ch = h).

  Definition akf (cur : option Z) (p : pkt) : option Z :=
    if cd_kf cd p then Some (p_ts p) else cur.
  Definition aorg (org : option Z) (p : pkt) : option Z :=
    match org with
    | Some _ => org
    | None => if cd_kf cd p then Some (p_ts p) else None
    end.

  Lemma second_block t loc org op cw ch now p :
    (org = None -> loc = None) ->
    (let cn1 := mkConn true (mkTC loc 0 [mkTT org 0 0 (cd_rate cd)]) op cw ch [t] in
     match origin_of (cn_time cn1) 0 with
     | Some _ => cn1
     | None =>
       if negb (cn_hasVideo cn1) ||
          match tc_local (cn_time cn1) with None => false | Some _ => true end
       then upd_time cn1 (set_origin (cn_time cn1) 0 (p_ts p) now (cd_rate cd))
       else cn1
     end) = mk t loc org op cw ch.
  Proof.
    intros H. cbv zeta. unfold origin_of, mk.
    cbn [cn_time tc_tracks nth_error tt_origin cn_hasVideo tc_local].
    destruct org; [reflexivity|]. rewrite (H eq_refl). reflexivity.
  Qed.

  Lemma pre_step cn org cur op now p :
    St cn org cur op ->
    (cd_kf cd p = true -> cd_dims cd p = (w, h)) ->
    exists cn' n, write_rtp_pre cn 0 now p = (cn', n) /\ St cn' (aorg org p) (akf cur p) op.
  Proof.
    intros (last & kr & lk & sk & loc & cw & ch & -> & Hcur & Hd & Hn & Hs & Ho) Hdp.
    unfold write_rtp_pre, mk. cbn [cn_tracks nth_error k_cd]. rewrite Hvid.
    unfold akf, aorg. destruct (cd_kf cd p) eqn:Ek.
    - (* keyframe start *)
      unfold origin_of. cbn [cn_time tc_tracks nth_error tt_origin upd_trk set_nth
                             cn_hasVideo cn_open cn_w cn_h cn_tracks upd_time].
      destruct org as [o|].
      + cbn [cn_time tc_tracks nth_error tt_origin].
        eexists _, _. split; [reflexivity|].
        exists last, kr, (Some now), (Some p), loc, cw, ch. unfold mk.
        split; [reflexivity|]. split; [reflexivity|].
        split; [intros q Hq; inversion Hq; subst; auto|].
        split; [discriminate|]. split; [|exact Ho].
        intros _. split; [apply Hs; discriminate|discriminate].
      + destruct (Hn eq_refl) as (-> & -> & ->).
        unfold set_origin. cbn [tc_tracks nth_error tc_local tt_ntp Z.eqb set_nth tt_rtp tt_rate].
        cbn [cn_time tc_tracks nth_error tt_origin].
        eexists _, _. split; [reflexivity|].
        exists last, kr, (Some now), (Some p), (Some now), cw, ch. unfold mk.
        split; [reflexivity|]. split; [reflexivity|].
        split; [intros q Hq; inversion Hq; subst; auto|].
        split; [discriminate|]. split; [intros _; split; discriminate|discriminate].
    - (* not a keyframe start: possibly a keyframe request, nothing else *)
      cbn [k_lastKf k_kfreq k_last k_savedKf].
      assert (Eo : match org with Some _ => org | None => None end = org)
        by (destruct org; reflexivity).
      rewrite Eo.
      assert (HS : forall kr', St (mk (mkTrk cd last kr' lk sk) loc org op cw ch) org cur op).
      { intros kr'. exists last, kr', lk, sk, loc, cw, ch. auto 10. }
      destruct (match lk with None => true | Some l => ms 4000 <? sat64 (now - l) end).
      + destruct (request_keyframe now kr) as [r called]. cbv beta iota zeta.
        unfold upd_trk, origin_of.
        cbn [cn_hasVideo cn_time cn_open cn_w cn_h cn_tracks set_nth tc_tracks nth_error
             tt_origin tc_local].
        destruct org as [o|].
        * eexists _, _. split; [reflexivity|]. apply HS.
        * destruct (Hn eq_refl) as (-> & -> & ->). cbn [negb orb].
          eexists _, _. split; [reflexivity|]. apply HS.
      + cbv beta iota zeta. unfold origin_of.
        cbn [cn_hasVideo cn_time cn_open cn_w cn_h cn_tracks set_nth tc_tracks nth_error
             tt_origin tc_local].
        destruct org as [o|].
        * eexists _, _. split; [reflexivity|]. apply HS.
        * destruct (Hn eq_refl) as (-> & -> & ->). cbn [negb orb].
          eexists _, _. split; [reflexivity|]. apply HS.
  Qed.

  (* the file, abstractly: each sample annotated with the origin and the
     savedKf timestamp at the moment it is popped.  None: the run leaves the
     domain of the model (conn.close() from inside the loop, or a first
     keyframe that is not at the origin) *)
  Definition asample := (option Z * option Z * sample)%type.

  Fixpoint asink (op : bool) (al : list asample) : option (list fev) :=
    match al with
    | [] => Some []
    | (org, cur, s) :: rest =>
      match org with
      | None => asink op rest
      | Some o =>
        if before_origin o (sm_ts s) then
          (if w32 (o - sm_ts s) <? 65536 then asink op rest else None)
        else
          let kf := match cur with Some c => sm_ts s =? c | None => false end in
          let wr := FWrite 0 kf (tm_of o (cd_rate cd) (sm_ts s)) (sm_data s) in
          if op then
            match asink true rest with Some e => Some (wr :: e) | None => None end
          else if kf then
            (if sm_ts s =? o then
               match asink true rest with
               | Some e => Some (FOpen w h :: wr :: e) | None => None end
             else None)
          else asink false rest
      end
    end.

  Lemma rate_div : cd_rate cd / 1000 =? 0 = false.
  Proof.
    assert (1 <= cd_rate cd / 1000) by (apply Z.div_le_lower_bound; lia). lia.
  Qed.

  Lemma sample_step cn org cur op s rest evs :
    St cn org cur op ->
    asink op ((org, cur, s) :: rest) = Some evs ->
    exists cn' op' e1 e2,
      process_sample cn 0 s = (cn', e1, FlContinue) /\ St cn' org cur op' /\
      evs = e1 ++ e2 /\ asink op' rest = Some e2.
  Proof.
    intros (last & kr & lk & sk & loc & cw & ch & -> & Hcur & Hd & Hn & Hs & Ho) Ha.
    assert (HSt : St (mk (mkTrk cd last kr lk sk) loc org op cw ch) org cur op).
    { exists last, kr, lk, sk, loc, cw, ch. auto 10. }
    cbn [asink] in Ha.
    unfold process_sample, mk. cbn [cn_tracks nth_error k_cd k_savedKf].
    unfold origin_of. cbn [cn_time tc_tracks nth_error tt_origin]. rewrite Hvid.
    destruct org as [o|].
    - destruct (before_origin o (sm_ts s)) eqn:Eb.
      + destruct (w32 (o - sm_ts s) <? 65536) eqn:E6; [|discriminate].
        cbn [Z.eqb]. exists (mk (mkTrk cd last kr lk sk) loc (Some o) op cw ch), op, [], evs.
        auto.
      + cbn [Z.eqb].
        destruct (Hs ltac:(discriminate)) as (Hloc & Hsk).
        destruct sk as [q|]; [|congruence]. cbn in Hcur. subst cur.
        cbn [cn_open] in *.
        destruct op.
        * (* file open *)
          destruct (Ho eq_refl) as (-> & ->).
          destruct (asink true rest) as [e|] eqn:Er; [|discriminate]. inversion Ha; subst evs.
          destruct (sm_ts s =? p_ts q) eqn:Ek.
          -- rewrite (Hd q eq_refl). unfold init_writer. cbn [cn_open cn_w cn_h].
             rewrite !Z.eqb_refl. cbn [andb negb cn_open cn_time tc_tracks nth_error tt_origin].
             rewrite rate_div.
             eexists (mk (mkTrk cd last kr lk (Some q)) loc (Some o) true w h), true, _, e.
             split; [reflexivity|]. split; [exact HSt|]. split; [reflexivity|exact Er].
          -- cbn [negb cn_open cn_time tc_tracks nth_error tt_origin]. rewrite rate_div.
             eexists (mk (mkTrk cd last kr lk (Some q)) loc (Some o) true w h), true, _, e.
             split; [reflexivity|]. split; [exact HSt|]. split; [reflexivity|exact Er].
        * (* no file yet *)
          destruct (sm_ts s =? p_ts q) eqn:Ek.
          -- destruct (sm_ts s =? o) eqn:Eo; [|discriminate].
             destruct (asink true rest) as [e|] eqn:Er; [|discriminate]. inversion Ha; subst evs.
             rewrite (Hd q eq_refl). unfold init_writer. cbn [cn_open cn_hasVideo cn_time cn_tracks].
             unfold adjust_origin. cbn [tc_tracks nth_error tt_origin].
             assert (o = sm_ts s) by lia. subst o. rewrite Z.eqb_refl.
             cbn [cn_open negb cn_time tc_tracks nth_error tt_origin]. rewrite rate_div.
             eexists (mk (mkTrk cd last kr lk (Some q)) loc (Some (sm_ts s)) true w h), true, _, e.
             split; [reflexivity|]. split.
             { exists last, kr, lk, (Some q), loc, w, h.
               split; [reflexivity|]. split; [reflexivity|]. split; [exact Hd|].
               split; [discriminate|]. split; [intros _; split; assumption|auto]. }
             split; [reflexivity|exact Er].
          -- cbn [negb cn_open].
             exists (mk (mkTrk cd last kr lk (Some q)) loc (Some o) false cw ch), false, [], evs.
             split; [reflexivity|]. split; [exact HSt|]. split; [reflexivity|exact Ha].
    - destruct (Hn eq_refl) as (-> & -> & ->). cbn [Z.eqb cn_open negb].
      exists (mk (mkTrk cd last kr lk None) None None false cw ch), false, [], evs.
      split; [reflexivity|]. split; [exact HSt|]. split; [reflexivity|exact Ha].
  Qed.

  Lemma samples_steps : forall ss cn org cur op rest evs,
    St cn org cur op ->
    asink op (map (fun s => (org, cur, s)) ss ++ rest) = Some evs ->
    exists cn' op' e1 e2,
      process_samples cn 0 ss = (cn', e1, FlContinue) /\ St cn' org cur op' /\
      evs = e1 ++ e2 /\ asink op' rest = Some e2.
  Proof.
    induction ss as [|s ss IH]; intros cn org cur op rest evs HS Ha.
    - exists cn, op, [], evs. cbn. auto.
    - cbn [map app] in Ha.
      destruct (sample_step _ _ _ _ _ _ _ HS Ha) as (cn1 & op1 & e1 & e2 & Hp & HS1 & -> & Ha1).
      destruct (IH _ _ _ _ _ _ HS1 Ha1) as (cn2 & op2 & e3 & e4 & Hp2 & HS2 & -> & Ha2).
      exists cn2, op2, (e1 ++ e3), e4. cbn [process_samples]. rewrite Hp, Hp2.
      split; [reflexivity|]. split; [exact HS2|]. split; [apply app_assoc|exact Ha2].
  Qed.

  Fixpoint annot (org cur : option Z) (steps : list stepT) : list asample :=
    match steps with
    | [] => []
    | (p, _, ss) :: rest =>
      map (fun s => (aorg org p, akf cur p, s)) ss ++ annot (aorg org p) (akf cur p) rest
    end.
  Fixpoint final_org (org : option Z) (steps : list stepT) : option Z :=
    match steps with [] => org | (p, _, _) :: rest => final_org (aorg org p) rest end.
  Fixpoint final_cur (cur : option Z) (steps : list stepT) : option Z :=
    match steps with [] => cur | (p, _, _) :: rest => final_cur (akf cur p) rest end.

  Definition DimsOK (steps : list stepT) : Prop :=
    Forall (fun st : stepT => cd_kf cd (fst (fst st)) = true -> cd_dims cd (fst (fst st)) = (w, h)) steps.

  (* the recorder's sink refines the abstract file *)
  Lemma sink_refines : forall steps cn org cur op tail evs,
    St cn org cur op -> DimsOK steps ->
    asink op (annot org cur steps ++ tail) = Some evs ->
    exists cn' op' e1 e2,
      sink_run cn steps = (cn', e1, FlContinue) /\
      St cn' (final_org org steps) (final_cur cur steps) op' /\
      evs = e1 ++ e2 /\ asink op' tail = Some e2.
  Proof.
    induction steps as [|[[p now] ss] steps IH]; intros cn org cur op tail evs HS HD Ha.
    - exists cn, op, [], evs. cbn. auto.
    - inversion HD as [|? ? Hd1 HD']; subst. cbn [fst] in Hd1.
      cbn [annot] in Ha. rewrite <- app_assoc in Ha.
      destruct (pre_step cn org cur op now p HS Hd1) as (cn1 & n & Hpre & HS1).
      destruct (samples_steps _ _ _ _ _ _ _ HS1 Ha) as (cn2 & op2 & e1 & e2 & Hp & HS2 & -> & Ha2).
      destruct (IH _ _ _ _ _ _ HS2 HD' Ha2) as (cn3 & op3 & e3 & e4 & Hr & HS3 & -> & Ha3).
      exists cn3, op3, (e1 ++ e3), e4. cbn [sink_run final_org final_cur].
      rewrite Hpre, Hp, Hr. split; [reflexivity|]. split; [exact HS3|].
      split; [apply app_assoc|exact Ha3].
  Qed.

  (* ---------------------------------------------------------------- *)
  (* the stream and the builder specification                          *)

  Record sframe := mkSF { sf_T : Z; sf_kf : bool; sf_data : list Z }.
  Definition sample_of (f : sframe) : sample := mkSample (w32 (sf_T f)) (sf_data f).

  (* frames before the first keyframe: popped before any keyframe packet was
     pushed, or less than 65536 ticks before the keyframe *)
  Definition PreOK (TK : Z) (a : asample) (f : sframe) : Prop :=
    snd a = sample_of f /\
    (fst (fst a) = None \/ (fst (fst a) = Some (w32 TK) /\ 0 < TK - sf_T f < 65536)).
  (* the first keyframe is popped when savedKf is its own first packet and
     the origin is its timestamp *)
  Definition KeyOK (TK : Z) (a : asample) (f : sframe) : Prop :=
    snd a = sample_of f /\ sf_T f = TK /\ sf_kf f = true /\
    fst (fst a) = Some (w32 TK) /\ snd (fst a) = Some (w32 TK).
  (* later frames: strictly after the keyframe, less than 2^31 ticks; the
     keyframe test of writeBuffered (ts == savedKf.Timestamp) gives the right
     answer: no keyframe is overtaken by the first packet of a later one *)
  Definition PostOK (TK : Z) (a : asample) (f : sframe) : Prop :=
    snd a = sample_of f /\ 0 < sf_T f - TK < 2147483648 /\
    fst (fst a) = Some (w32 TK) /\
    exists c, snd (fst a) = Some c /\ (w32 (sf_T f) =? c) = sf_kf f.

  Definition written (TK : Z) (f : sframe) : fev :=
    FWrite 0 (sf_kf f) ((sf_T f - TK) / (cd_rate cd / 1000)) (sf_data f).

  Lemma asink_pre TK : forall al fs rest,
    Forall2 (PreOK TK) al fs -> asink false (al ++ rest) = asink false rest.
  Proof.
    induction al as [|[[org cur] s] al IH]; intros fs rest HF; inversion HF; subst; [reflexivity|].
    cbn [app asink]. destruct H1 as (Hs & [Ho|(Ho & Hr)]); cbn [fst snd] in *; subst.
    - eapply IH; eauto.
    - cbn [sample_of sm_ts]. rewrite before_origin_true by lia.
      assert (E : w32 (w32 TK - w32 (sf_T y)) = TK - sf_T y) by (unfold w32; lia).
      rewrite E. replace (TK - sf_T y <? 65536) with true by lia. eapply IH; eauto.
  Qed.

  Lemma asink_post TK : forall al fs,
    Forall2 (PostOK TK) al fs -> asink true al = Some (map (written TK) fs).
  Proof.
    induction al as [|[[org cur] s] al IH]; intros fs HF; inversion HF; subst; [reflexivity|].
    destruct H1 as (Hs & Hr & Ho & c & Hc & Hk). cbn [fst snd] in *. subst.
    cbn [asink sample_of sm_ts sm_data map].
    rewrite before_origin_false by lia. rewrite (IH _ H3).
    rewrite Hk. unfold written. rewrite tm_of_unwrapped by lia. reflexivity.
  Qed.

  Lemma asink_stream TK al_pre pre ak K al_post post :
    Forall2 (PreOK TK) al_pre pre -> KeyOK TK ak K -> Forall2 (PostOK TK) al_post post ->
    asink false (al_pre ++ ak :: al_post) =
    Some (FOpen w h :: map (written TK) (K :: post)).
  Proof.
    intros Hpre (Hs & HT & Hkf & Ho & Hc) Hpost.
    rewrite (asink_pre TK _ _ _ Hpre).
    destruct ak as [[org cur] s]. cbn [fst snd] in *. subst.
    cbn [asink sample_of sm_ts sm_data].
    rewrite before_origin_false by lia. rewrite !Z.eqb_refl.
    rewrite (asink_post _ _ _ Hpost). cbn [map]. unfold written at 2.
    rewrite Hkf, tm_of_unwrapped by lia. reflexivity.
  Qed.

  (* C20_frames.  A connection with one video track; any builder whose
     answers (after each push, and at the final flush) are, concatenated, the
     frames of the stream complete, in order, once; keyframes recognised as
     described above.  Then the file is opened with the first keyframe and
     contains exactly the frames from the first keyframe on, byte-identical,
     in order, once, none missing, with the stated timestamps. *)
  Theorem frames_written steps final al_pre pre ak K al_post post TK :
    DimsOK steps ->
    annot None None steps
      ++ map (fun s => (final_org None steps, final_cur None steps, s)) final
      = al_pre ++ ak :: al_post ->
    Forall2 (PreOK TK) al_pre pre -> KeyOK TK ak K -> Forall2 (PostOK TK) al_post post ->
    exists cn1 e1 cn2 e2,
      sink_run (new_conn [cd]) steps = (cn1, e1, FlContinue) /\
      process_samples cn1 0 final = (cn2, e2, FlContinue) /\
      e1 ++ e2 = FOpen w h :: map (written TK) (K :: post).
  Proof.
    intros HD Heq Hpre Hkey Hpost.
    pose proof (asink_stream TK _ _ _ _ _ _ Hpre Hkey Hpost) as Ha. rewrite <- Heq in Ha.
    assert (HS0 : St (new_conn [cd]) None None false).
    { exists None, None, None, None, None, 0, 0. unfold new_conn, mk. cbn. rewrite Hvid.
      repeat split; auto; try discriminate; congruence. }
    destruct (sink_refines steps _ _ _ _ _ _ HS0 HD Ha) as (cn1 & op1 & e1 & e2 & Hr & HS1 & He & Ha1).
    rewrite <- (app_nil_r (map _ final)) in Ha1.
    destruct (samples_steps _ _ _ _ _ _ _ HS1 Ha1) as (cn2 & op2 & e3 & e4 & Hp & _ & -> & Ha2).
    cbn in Ha2. inversion Ha2; subst e4. rewrite app_nil_r in He.
    exists cn1, e1, cn2, e3. auto.
  Qed.

  (* consequence: the container timestamps of the written frames do not
     decrease when the stream's timestamps do not *)
  Lemma written_monotone TK f g :
    TK <= sf_T f <= sf_T g ->
    (sf_T f - TK) / (cd_rate cd / 1000) <= (sf_T g - TK) / (cd_rate cd / 1000).
  Proof.
    intros H. apply Z.div_le_mono; [|lia].
    assert (1 <= cd_rate cd / 1000) by (apply Z.div_le_lower_bound; lia). lia.
  Qed.
End Video.

(* ------------------------------------------------------------------ *)
(* the recorder's pipeline is sink_run over the builder's answers       *)

Section PipeIsSink.
  Variable B : Type.
  Variable bpush : codec -> B -> pkt -> B.
  Variable bdrain : codec -> B -> list sample * B.
  Variable b0 : B.
  Variable cd : codec.

  (* the answers of the builder along the pushes of track 0 *)
  Fixpoint answers (b : B) (now : Z) (ps : list (list Z * pkt)) : list stepT * B :=
    match ps with
    | [] => ([], b)
    | (_, p) :: ps' =>
      let '(ss, b') := bdrain cd (bpush cd b p) in
      let '(rest, b'') := answers b' now ps' in
      ((p, now, ss) :: rest, b'')
    end.

  Definition one_track (cn : conn) : Prop :=
    exists t, cn_tracks cn = [t] /\ k_cd t = cd.

  Lemma write_rtp_pre_one cn now p :
    one_track cn -> one_track (fst (write_rtp_pre cn 0 now p)).
  Proof.
    intros (t & Ht & Hc). unfold write_rtp_pre. rewrite Ht. cbn [nth_error]. rewrite Hc.
    assert (U : forall c t', cn_tracks c = [t] -> k_cd t' = cd ->
                             one_track (upd_trk c 0 t')).
    { intros c t' H1 H2. exists t'. unfold upd_trk. cbn [cn_tracks]. rewrite H1. auto. }
    assert (V : forall c tc, one_track c -> one_track (upd_time c tc)).
    { intros c tc (t1 & H1 & H2). exists t1. unfold upd_time. cbn [cn_tracks]. auto. }
    assert (W : forall c, one_track c ->
      one_track (match origin_of (cn_time c) 0 with
                 | Some _ => c
                 | None => if negb (cn_hasVideo c) ||
                              match tc_local (cn_time c) with None => false | Some _ => true end
                           then upd_time c (set_origin (cn_time c) 0 (p_ts p) now (cd_rate cd))
                           else c
                 end)).
    { intros c Hc1. destruct (origin_of (cn_time c) 0); [exact Hc1|].
      destruct (_ || _); [apply V|]; exact Hc1. }
    destruct (cd_video cd).
    - destruct (cd_kf cd p).
      + destruct (origin_of (cn_time cn) 0); cbn [fst].
        * apply W. apply U; auto.
        * apply W. apply V. apply U; auto.
      + destruct (match k_lastKf t with None => true | Some l => ms 4000 <? sat64 (now - l) end).
        * destruct (request_keyframe now (k_kfreq t)). cbn [fst]. apply W. apply U; auto.
        * cbn [fst]. apply W. exists t. auto.
    - cbn [fst]. apply W. exists t. auto.
  Qed.

  Lemma process_sample_one cn s :
    one_track cn -> one_track (fst (fst (process_sample cn 0 s))).
  Proof.
    intros (t & Ht & Hc). unfold process_sample. rewrite Ht. cbn [nth_error]. rewrite Hc.
    assert (HI : forall c a b' ts, one_track c -> one_track (fst (fst (init_writer c 0 a b' ts)))).
    { intros c a b' ts (t1 & H1 & H2). unfold init_writer.
      destruct (cn_open c); [destruct (_ && _); cbn; exists t1; auto|].
      cbn. exists t1. auto. }
    assert (H0 : one_track cn) by (exists t; auto).
    destruct (match origin_of (cn_time cn) 0 with
              | Some o => if before_origin o (sm_ts s) then if w32 (o - sm_ts s) <? 65536 then 1 else 2 else 0
              | None => 0 end =? 1); [exact H0|].
    destruct (_ =? 2); [exact H0|].
    match goal with |- context [let '(_, _) := ?X in _] => set (x := X) end.
    assert (Hx : one_track (fst (fst (snd x)))).
    { subst x. destruct (cd_video cd).
      - destruct (k_savedKf t) as [k|]; [|exact H0].
        destruct (sm_ts s =? p_ts k); [|exact H0]. cbn [snd]. destruct (cd_dims cd k). apply HI, H0.
      - cbn [snd]. destruct (_ && _); [apply HI, H0|exact H0]. }
    destruct x as [kf [[cn1 evs] fl]]. cbn [snd fst] in Hx.
    destruct fl; try exact Hx.
    destruct (negb (cn_open cn1)); [exact Hx|].
    destruct (origin_of (cn_time cn1) 0); [|exact Hx].
    destruct (_ =? 0); exact Hx.
  Qed.

  Lemma process_samples_one : forall ss cn,
    one_track cn -> one_track (fst (fst (process_samples cn 0 ss))).
  Proof.
    induction ss as [|s ss IH]; intros cn H; [exact H|].
    cbn [process_samples].
    pose proof (process_sample_one cn s H) as H1.
    destruct (process_sample cn 0 s) as [[cn1 e1] fl]. cbn [fst] in H1.
    destruct fl; try exact H1.
    pose proof (IH cn1 H1) as H2. destruct (process_samples cn1 0 ss) as [[cn2 e2] fl2]. exact H2.
  Qed.

  (* gpush_all is sink_run over the builder's answers, as long as the flow
     is Continue *)
  Lemma gpush_all_sink : forall ps r now b r' n evs,
    one_track (r_conn B r) -> r_builders B r = [b] ->
    gpush_all B bpush bdrain b0 r 0 now ps = (r', n, evs, FlContinue) ->
    sink_run (r_conn B r) (fst (answers b now ps)) = (r_conn B r', evs, FlContinue) /\
    r_builders B r' = [snd (answers b now ps)] /\ one_track (r_conn B r').
  Proof.
    induction ps as [|[bb p] ps IH]; intros r now b r' n evs H1 Hb Hg.
    - cbn in Hg. inversion Hg; subst. cbn. auto.
    - cbn [gpush_all] in Hg. cbn [answers].
      pose proof (write_rtp_pre_one (r_conn B r) now p H1) as H2.
      destruct (write_rtp_pre (r_conn B r) 0 now p) as [cn1 n1] eqn:Ew. cbn [fst] in H2.
      assert (Ecd : codec_at cn1 0 = cd).
      { destruct H2 as (t & Ht & Hc). unfold codec_at. rewrite Ht. exact Hc. }
      rewrite Ecd, Hb in Hg. cbn [nth set_nth] in Hg.
      destruct (bdrain cd (bpush cd b p)) as [ss b1] eqn:Ed.
      pose proof (process_samples_one ss cn1 H2) as H3.
      destruct (process_samples cn1 0 ss) as [[cn2 e1] fl1] eqn:Ep. cbn [fst] in H3.
      destruct (answers b1 now ps) as [rest b2] eqn:Ea. cbn [fst snd].
      cbn [sink_run]. rewrite Ew, Ep.
      destruct fl1; try (inversion Hg; fail).
      destruct (gpush_all B bpush bdrain b0 (mkRec B cn2 [b1]) 0 now ps)
        as [[[r2 n2] e2] fl2] eqn:Eg.
      inversion Hg; subst.
      destruct (IH (mkRec B cn2 [b1]) now b1 r' n2 e2 H3 eq_refl Eg) as (Hs & Hbs & Ho).
      cbn [r_conn] in Hs. rewrite Ea in Hs, Hbs. cbn [fst snd] in Hs, Hbs.
      rewrite Hs. auto.
  Qed.
End PipeIsSink.

Lemma sink_run_app : forall s1 s2 cn cn1 e1,
  sink_run cn s1 = (cn1, e1, FlContinue) ->
  sink_run cn (s1 ++ s2) =
  (let '(cn2, e2, fl) := sink_run cn1 s2 in (cn2, e1 ++ e2, fl)).
Proof.
  induction s1 as [|[[p now] ss] s1 IH]; intros s2 cn cn1 e1 H.
  - cbn in H. inversion H; subst. cbn [app]. destruct (sink_run cn1 s2) as [[? ?] ?]. reflexivity.
  - cbn [app sink_run] in *.
    destruct (write_rtp_pre cn 0 now p) as [c1 n1].
    destruct (process_samples c1 0 ss) as [[c2 ea] fl].
    destruct fl; try discriminate.
    destruct (sink_run c2 s1) as [[c3 eb] fl3] eqn:E. inversion H; subst.
    rewrite (IH s2 c2 cn1 eb E).
    destruct (sink_run cn1 s2) as [[c4 ec] fl4]. rewrite app_assoc. reflexivity.
Qed.

(* ------------------------------------------------------------------ *)
(* concrete runs of the executable recorder (reference builder)         *)

Definition rtp_bytes (marker : bool) (seq ts : Z) (payload : list Z) : list Z :=
  [128; if marker then 224 else 96; seq / 256; seq mod 256;
   ts / 16777216; (ts / 65536) mod 256; (ts / 256) mod 256; ts mod 256;
   18; 52; 171; 205] ++ payload.
(* a VP8 keyframe of three packets: 320x240 *)
Definition kf_first (tag : Z) : list Z := [16; 0; tag; 0; 157; 1; 42; 64; 1; 240; 0].
Definition df_first (tag : Z) : list Z := [16; 1; tag; 3].
Definition mid (tag : Z) : list Z := [0; tag; 7].

Definition no_cache : Z -> option (list Z) := fun _ => None.

Fixpoint deliver (r : rec) (ps : list (list Z)) : rec * list fev :=
  match ps with
  | [] => (r, [])
  | b :: ps' =>
    let '(r1, o) := rec_write r 0 0 no_cache b in
    let '(r2, e2) := deliver r1 ps' in
    (r2, match o with mkWout _ _ _ fe _ => fe end ++ e2)
  end.
Definition record (ps : list (list Z)) : list fev :=
  let '(r, e1) := deliver (new_rec [vp8_codec]) ps in
  let '(_, e2, _) := rec_close r in e1 ++ e2.

(* two keyframes K0 = 1000..1002 (ts 9000) and K1 = 1003..1005 (ts 12000)
   and a delta frame 1006 (ts 15000) *)
Definition pk (i : Z) : list Z :=
  nth (Z.to_nat (i - 1000))
      [rtp_bytes false 1000 9000 (kf_first 1); rtp_bytes false 1001 9000 (mid 2);
       rtp_bytes true 1002 9000 (mid 3);
       rtp_bytes false 1003 12000 (kf_first 4); rtp_bytes false 1004 12000 (mid 5);
       rtp_bytes true 1005 12000 (mid 6);
       rtp_bytes true 1006 15000 (df_first 7)] [].
Definition dataK0 : list Z := [0; 1; 0; 157; 1; 42; 64; 1; 240; 0; 2; 7; 3; 7].
Definition dataK1 : list Z := [0; 4; 0; 157; 1; 42; 64; 1; 240; 0; 5; 7; 6; 7].
Definition dataD : list Z := [1; 7; 3].

(* in order: everything is recorded *)
Lemma record_in_order :
  record (map pk [1000; 1001; 1002; 1003; 1004; 1005; 1006]) =
  [FOpen 320 240; FWrite 0 true 0 dataK0; FWrite 0 true 33 dataK1; FWrite 0 false 66 dataD; FClose].
Proof. vm_compute. reflexivity. Qed.

(* N2: the last packet of K0 arrives after the first packet of K1: K0 is not
   recognised as a keyframe and, there being no file yet, is dropped; the
   recording starts at K1 *)
Lemma record_keyframe_overtaken :
  record (map pk [1000; 1001; 1003; 1002; 1004; 1005; 1006]) =
  [FOpen 320 240; FWrite 0 true 0 dataK1; FWrite 0 false 33 dataD; FClose].
Proof. vm_compute. reflexivity. Qed.

(* non-vacuity of frames_written: the in-order run above, as steps *)
Definition ex_pkt (i : Z) : pkt :=
  match rtp_parse (pk i) with Some p => p | None => mkPkt 0 0 false [] end.
Definition ex_steps : list stepT :=
  [(ex_pkt 1000, 0, []); (ex_pkt 1001, 0, []); (ex_pkt 1002, 0, [mkSample 9000 dataK0]);
   (ex_pkt 1003, 0, []); (ex_pkt 1004, 0, []); (ex_pkt 1005, 0, [mkSample 12000 dataK1]);
   (ex_pkt 1006, 0, [mkSample 15000 dataD])].

Lemma frames_example :
  DimsOK vp8_codec 320 240 ex_steps /\
  exists ak al_post,
    annot vp8_codec None None ex_steps
      ++ map (fun s => (final_org vp8_codec None ex_steps, final_cur vp8_codec None ex_steps, s)) []
    = [] ++ ak :: al_post /\
    KeyOK 9000 ak (mkSF 9000 true dataK0) /\
    Forall2 (PostOK 9000) al_post [mkSF 12000 true dataK1; mkSF 15000 false dataD].
Proof.
  split.
  - unfold DimsOK, ex_steps. repeat constructor; vm_compute; intros; congruence.
  - eexists _, _. split; [vm_compute; reflexivity|]. split.
    + vm_compute. repeat split; reflexivity.
    + constructor; [|constructor; [|constructor]].
      * unfold PostOK. cbn [fst snd]. split; [reflexivity|]. split; [cbn; lia|].
        split; [reflexivity|]. exists 12000. split; reflexivity.
      * unfold PostOK. cbn [fst snd]. split; [reflexivity|]. split; [cbn; lia|].
        split; [reflexivity|]. exists 12000. split; reflexivity.
Qed.

(* C08 isolation (finding F10): with Init copying the permission list, every
   client owns its array; a moderation action or login of one client changes
   neither another client's permissions nor the role table nor the
   descriptions' raw arrays -- over all histories.  Model: Model/AuthHeap.v. *)
From Coq Require Import ZArith List Bool String Arith Lia.
From Galene Require Import Generated.Roles Model.Auth Model.AuthHeap Proofs.AuthRoles.
Import ListNotations.
Close Scope Z_scope.
Open Scope string_scope.
Open Scope list_scope.
Local Notation length := List.length.

(* ------------------------------------------------------------------- lists *)

Lemma upd_length {A} : forall n (x : A) l, length (upd n x l) = length l.
Proof. induction n; destruct l; cbn; auto. Qed.

Lemma nth_upd_neq {A} : forall n m (x d : A) l, n <> m -> nth m (upd n x l) d = nth m l d.
Proof.
  induction n; destruct l, m; cbn; intros; auto; try congruence.
Qed.

Lemma nth_upd_eq {A} : forall n (x d : A) l, n < length l -> nth n (upd n x l) d = x.
Proof.
  induction n; destruct l; cbn; intros; try lia; auto. apply IHn. lia.
Qed.

Lemma index_of_lt : forall v l i, index_of v l = Some i -> i < length l.
Proof.
  induction l as [|x t IH]; cbn; intros i H; [discriminate|].
  destruct (v =? x); [inversion H; lia|].
  destruct (index_of v t) as [j|]; [|discriminate]. inversion H. specialize (IH j eq_refl). lia.
Qed.

Lemma NoDup_map_inj {A B} (f : A -> B) : forall l x y,
  NoDup (map f l) -> In x l -> In y l -> f x = f y -> x = y.
Proof.
  induction l as [|a t IH]; cbn; intros x y Hn Hx Hy E; [contradiction|].
  inversion Hn as [|? ? Hna Hnt]; subst.
  destruct Hx as [->|Hx], Hy as [->|Hy]; auto.
  - exfalso. apply Hna. rewrite E. now apply in_map.
  - exfalso. apply Hna. rewrite <- E. now apply in_map.
Qed.

Lemma map_nth_seq {A} (d : A) : forall l, map (fun i => nth i l d) (seq 0 (length l)) = l.
Proof.
  induction l as [|a t IH]; [reflexivity|].
  cbn [length seq map nth]. f_equal.
  rewrite <- seq_shift, map_map. exact IH.
Qed.

Lemma combine_fst_snd {A B} : forall l : list (A * B), combine (map fst l) (map snd l) = l.
Proof. induction l as [|[a b] t IH]; cbn; [reflexivity|now rewrite IH]. Qed.

(* ------------------------------------------------------------- client lists *)

Lemma cl_get_In : forall c l s, cl_get c l = Some s -> In (c, s) l.
Proof.
  induction l as [|[c' s'] t IH]; cbn; intros s H; [discriminate|].
  destruct (Nat.eqb_spec c c') as [->|N].
  - inversion H. now left.
  - right. now apply IH.
Qed.

Lemma cl_remove_In : forall c l c' s, In (c', s) (cl_remove c l) -> In (c', s) l /\ c' <> c.
Proof.
  induction l as [|[c1 s1] t IH]; cbn; intros c' s H; [contradiction|].
  destruct (Nat.eqb_spec c c1) as [->|N].
  - destruct (IH _ _ H). split; auto.
  - destruct H as [H|H].
    + inversion H; subst. split; auto.
    + destruct (IH _ _ H). split; auto.
Qed.

Lemma cl_remove_NoDup {B} (f : nat * slice -> B) : forall c l,
  NoDup (map f l) -> NoDup (map f (cl_remove c l)).
Proof.
  induction l as [|[c1 s1] t IH]; cbn; intros H; [constructor|].
  inversion H as [|? ? Hn Ht]; subst.
  destruct (Nat.eqb c c1); [auto|].
  cbn. constructor; [|auto].
  intros Hin. apply Hn. apply in_map_iff in Hin. destruct Hin as ([c2 s2] & E & Hin).
  apply cl_remove_In in Hin. destruct Hin as (Hin & _).
  rewrite <- E. now apply in_map.
Qed.

Lemma cl_get_other : forall x y s l, y <> x -> cl_get y ((x, s) :: cl_remove x l) = cl_get y l.
Proof.
  intros x y s l N. cbn. destruct (Nat.eqb_spec y x); [contradiction|].
  induction l as [|[c1 s1] t IH]; cbn; [reflexivity|].
  destruct (Nat.eqb_spec x c1) as [->|N1].
  - destruct (Nat.eqb_spec y c1); [contradiction|]. exact IH.
  - cbn. destruct (Nat.eqb y c1); [reflexivity|exact IH].
Qed.

Lemma cl_get_remove_other : forall x y l, y <> x -> cl_get y (cl_remove x l) = cl_get y l.
Proof.
  intros x y l N.
  induction l as [|[c1 s1] t IH]; cbn; [reflexivity|].
  destruct (Nat.eqb_spec x c1) as [->|N1].
  - destruct (Nat.eqb_spec y c1); [contradiction|]. exact IH.
  - cbn. destruct (Nat.eqb y c1); [reflexivity|exact IH].
Qed.

(* ------------------------------------------------------------- heap steps *)

Definition wf (h : heap) (s : slice) : Prop :=
  s_arr s < length h /\ s_len s <= length (cells h (s_arr s)).

(* h' has all arrays of h, unchanged except possibly array a *)
Definition ext (a : nat) (h h' : heap) : Prop :=
  length h <= length h' /\ forall b, b < length h -> b <> a -> cells h' b = cells h b.

(* the outcome of an operation on a slice over array a *)
Definition ok_step (h : heap) (a : nat) (r : heap * slice) : Prop :=
  ext a h (fst r) /\ wf (fst r) (snd r) /\ (s_arr (snd r) = a \/ length h <= s_arr (snd r)).

Lemma cells_app_old : forall h x b, b < length h -> cells (h ++ [x]) b = cells h b.
Proof. intros. unfold cells. now apply app_nth1. Qed.

Lemma cells_app_new : forall h x, cells (h ++ [x]) (length h) = x.
Proof. intros. unfold cells. rewrite app_nth2, Nat.sub_diag by lia. reflexivity. Qed.

Lemma ext_refl : forall a h, ext a h h.
Proof. intros. split; auto. Qed.

Lemma ext_app : forall a h x, ext a h (h ++ [x]).
Proof.
  intros. split; [rewrite app_length; lia|]. intros. now apply cells_app_old.
Qed.

Lemma ok_step_trans : forall h a h1 s1 r,
  ok_step h a (h1, s1) -> ok_step h1 (s_arr s1) r -> ok_step h a r.
Proof.
  intros h a h1 s1 [h2 s2] H1 H2. unfold ok_step, ext in *. cbn [fst snd] in *.
  destruct H1 as ((L1 & E1) & W1 & A1). destruct H2 as ((L2 & E2) & W2 & A2).
  split; [split|split].
  - lia.
  - intros b Hb Hn. rewrite E2; [apply E1; auto|lia|]. destruct A1; lia.
  - exact W2.
  - destruct A2 as [A2|A2]; [rewrite A2; destruct A1; auto|right; lia].
Qed.

Section Heap.
Variable slack : nat -> nat.
Variable raws : list (list string).

Notation alloc := (alloc slack).
Notation go_addnew := (go_addnew slack).
Notation apply_action := (apply_action slack).
Notation heap_permissions := (heap_permissions slack raws).
Notation step := (step slack raws).
Notation run := (run slack raws).
Notation statics := (statics raws).
Notation n_static := (n_static raws).
Notation init_world := (init_world raws).

Lemma view_alloc : forall h l, view (fst (alloc h l)) (snd (alloc h l)) = l.
Proof.
  intros. unfold view, AuthHeap.alloc. cbn [fst snd s_arr s_len]. rewrite cells_app_new.
  rewrite firstn_app, Nat.sub_diag, firstn_all. cbn [firstn]. now rewrite app_nil_r.
Qed.

Lemma alloc_ok : forall h l a, ok_step h a (alloc h l).
Proof.
  intros h l a. unfold ok_step, AuthHeap.alloc. cbn [fst snd]. split; [apply ext_app|]. split.
  - unfold wf. cbn [s_arr s_len]. rewrite app_length, cells_app_new, app_length. cbn [length]. lia.
  - right. cbn [s_arr]. lia.
Qed.

Lemma alloc_nil_ok : forall h a, ok_step h a (alloc_nil h).
Proof.
  intros h a. unfold ok_step, alloc_nil. cbn [fst snd]. split; [apply ext_app|]. split.
  - unfold wf. cbn [s_arr s_len]. rewrite app_length. cbn [length]. lia.
  - right. cbn [s_arr]. lia.
Qed.

Lemma go_remove_one_ok : forall h v s, wf h s -> ok_step h (s_arr s) (go_remove_one h v s).
Proof.
  intros h v s (Wa & Wl). unfold go_remove_one.
  destruct (index_of v (view h s)) as [i|] eqn:E.
  - apply index_of_lt in E. unfold view in E. rewrite firstn_length in E.
    unfold ok_step. cbn [fst snd s_arr s_len]. split; [split|split].
    + rewrite upd_length. lia.
    + intros b Hb Hn. unfold cells. apply nth_upd_neq. auto.
    + unfold wf. cbn [fst snd s_arr s_len]. rewrite upd_length. split; [exact Wa|].
      unfold cells at 1. rewrite nth_upd_eq by exact Wa.
      rewrite !app_length, !firstn_length, !skipn_length. lia.
    + now left.
  - unfold ok_step. cbn [fst snd s_arr s_len]. split; [apply ext_refl|]. split; [split; assumption|now left].
Qed.

Lemma go_remove_loop_ok : forall fuel h v s, wf h s ->
  ok_step h (s_arr s) (go_remove_loop fuel h v s).
Proof.
  induction fuel as [|f IH]; intros h v s W; cbn [go_remove_loop].
  - unfold ok_step. cbn [fst snd]. split; [apply ext_refl|]. split; [exact W|now left].
  - destruct (index_of v (view h s)).
    + pose proof (go_remove_one_ok h v s W) as H1.
      destruct (go_remove_one h v s) as [h1 s1].
      eapply ok_step_trans; [exact H1|]. apply IH. apply H1.
    + unfold ok_step. cbn [fst snd]. split; [apply ext_refl|]. split; [exact W|now left].
Qed.

Lemma go_remove_ok : forall h v s, wf h s -> ok_step h (s_arr s) (go_remove h v s).
Proof. intros. unfold go_remove. now apply go_remove_loop_ok. Qed.

Lemma go_addnew_ok : forall h v s, wf h s -> ok_step h (s_arr s) (go_addnew h v s).
Proof.
  intros h v s (Wa & Wl). unfold AuthHeap.go_addnew.
  destruct (has v (view h s)).
  - unfold ok_step. cbn [fst snd s_arr s_len]. split; [apply ext_refl|]. split; [split; assumption|now left].
  - destruct (Nat.ltb_spec (s_len s) (length (cells h (s_arr s)))) as [Hlt|Hge].
    + unfold ok_step. cbn [fst snd s_arr s_len]. split; [split|split].
      * rewrite upd_length. lia.
      * intros b Hb Hn. unfold cells. apply nth_upd_neq. auto.
      * unfold wf. cbn [fst snd s_arr s_len]. rewrite upd_length. split; [exact Wa|].
        unfold cells at 1. rewrite nth_upd_eq by exact Wa. rewrite upd_length. lia.
      * now left.
    + apply alloc_ok.
Qed.

Lemma apply_action_ok : forall h k ar s, wf h s -> ok_step h (s_arr s) (apply_action h k ar s).
Proof.
  intros h k ar s W. destruct k; cbn [AuthHeap.apply_action];
    try (apply go_addnew_ok; assumption); try (apply go_remove_ok; assumption).
  - pose proof (go_addnew_ok h "op" s W) as H1.
    destruct (go_addnew h "op" s) as [h1 s1]. destruct ar; [|exact H1].
    eapply ok_step_trans; [exact H1|]. apply go_addnew_ok. apply H1.
  - pose proof (go_remove_ok h "op" s W) as H1.
    destruct (go_remove h "op" s) as [h1 s1].
    eapply ok_step_trans; [exact H1|]. apply go_remove_ok. apply H1.
Qed.

(* what the OWNER sees: remove deletes every occurrence (one per round of its
   loop), addnew appends unless present -- whether or not the append happens in place *)
Definition remove_first (v : string) (l : list string) : list string :=
  match index_of v l with
  | None => l
  | Some i => firstn i l ++ skipn (S i) l
  end.

Lemma view_go_remove_one : forall h v s, wf h s ->
  view (fst (go_remove_one h v s)) (snd (go_remove_one h v s)) = remove_first v (view h s).
Proof.
  intros h v s (Wa & Wl). unfold go_remove_one, remove_first.
  destruct (index_of v (view h s)) as [i|] eqn:E; [|reflexivity].
  apply index_of_lt in E. unfold view in *. rewrite firstn_length in E.
  cbn [fst snd s_arr s_len].
  unfold cells at 1. rewrite nth_upd_eq by exact Wa.
  set (cs := cells h (s_arr s)) in *.
  rewrite app_assoc, firstn_app.
  assert (L : length (firstn i cs ++ firstn (s_len s - S i) (skipn (S i) cs)) = s_len s - 1).
  { rewrite app_length, !firstn_length, skipn_length. lia. }
  rewrite L, Nat.sub_diag, firstn_O, app_nil_r.
  rewrite firstn_all2 by lia.
  rewrite firstn_firstn, skipn_firstn_comm.
  replace (Init.Nat.min i (s_len s)) with i by lia. reflexivity.
Qed.

(* all occurrences are gone, everything else stays in order *)
Definition neqb (v x : string) : bool := negb (v =? x).

Lemma filter_no_occurrence : forall v l, index_of v l = None -> filter (neqb v) l = l.
Proof.
  induction l as [|x t IH]; cbn [index_of filter]; intros H; [reflexivity|].
  unfold neqb at 1.
  destruct (v =? x); [discriminate|]. cbn [negb].
  destruct (index_of v t); [discriminate|]. now rewrite IH.
Qed.

Lemma filter_remove_first : forall v l i, index_of v l = Some i ->
  filter (neqb v) (firstn i l ++ skipn (S i) l) = filter (neqb v) l /\
  S (length (firstn i l ++ skipn (S i) l)) = length l.
Proof.
  induction l as [|x t IH]; cbn [index_of]; intros i H; [discriminate|].
  destruct (v =? x) eqn:E.
  - inversion H; subst.
    assert (N : neqb v x = false) by (unfold neqb; rewrite E; reflexivity).
    change (firstn 0 (x :: t) ++ skipn 1 (x :: t)) with t.
    cbn [filter length]. rewrite N. auto.
  - destruct (index_of v t) as [j|]; [|discriminate]. inversion H; subst.
    destruct (IH j eq_refl) as (F & L).
    assert (N : neqb v x = true) by (unfold neqb; rewrite E; reflexivity).
    change (firstn (S j) (x :: t)) with (x :: firstn j t).
    change (skipn (S (S j)) (x :: t)) with (skipn (S j) t).
    rewrite <- app_comm_cons. cbn [filter length]. rewrite N, F.
    split; [reflexivity|lia].
Qed.

Lemma view_go_remove_loop : forall fuel h v s, wf h s -> length (view h s) <= fuel ->
  view (fst (go_remove_loop fuel h v s)) (snd (go_remove_loop fuel h v s)) =
  filter (neqb v) (view h s).
Proof.
  induction fuel as [|f IH]; intros h v s W L; cbn [go_remove_loop].
  - cbn [fst snd]. destruct (view h s); [reflexivity|cbn in L; lia].
  - destruct (index_of v (view h s)) as [i|] eqn:E.
    + pose proof (go_remove_one_ok h v s W) as H1.
      pose proof (view_go_remove_one h v s W) as V1.
      destruct (go_remove_one h v s) as [h1 s1]. cbn [fst snd] in V1.
      unfold remove_first in V1. rewrite E in V1.
      destruct (filter_remove_first _ _ _ E) as (F & Ln).
      rewrite IH; [rewrite V1; exact F|apply H1|rewrite V1; lia].
    + cbn [fst snd]. symmetry. now apply filter_no_occurrence.
Qed.

Lemma view_go_remove : forall h v s, wf h s ->
  view (fst (go_remove h v s)) (snd (go_remove h v s)) = filter (neqb v) (view h s).
Proof.
  intros h v s W. unfold go_remove. apply view_go_remove_loop; [exact W|].
  unfold view. rewrite firstn_length. lia.
Qed.

Lemma view_go_addnew : forall h v s, wf h s ->
  view (fst (go_addnew h v s)) (snd (go_addnew h v s)) =
  if has v (view h s) then view h s else view h s ++ [v].
Proof.
  intros h v s (Wa & Wl). unfold AuthHeap.go_addnew.
  destruct (has v (view h s)); [reflexivity|].
  destruct (Nat.ltb_spec (s_len s) (length (cells h (s_arr s)))) as [Hlt|Hge].
  - unfold view. cbn [fst snd s_arr s_len].
    unfold cells at 1. rewrite nth_upd_eq by exact Wa.
    set (cs := cells h (s_arr s)) in *.
    clearbody cs. clear Wl Wa. revert cs Hlt.
    induction (s_len s) as [|n IH]; intros [|x t] Hlt; cbn in Hlt; try lia.
    + reflexivity.
    + cbn [upd firstn app]. f_equal. apply IH. lia.
  - apply view_alloc.
Qed.

(* Permissions.Permissions only allocates: no existing array is written *)
Definition grow (h h' : heap) : Prop :=
  length h <= length h' /\ forall b, b < length h -> cells h' b = cells h b.

Lemma grow_refl : forall h, grow h h.
Proof. split; auto. Qed.

Lemma grow_trans : forall h1 h2 h3, grow h1 h2 -> grow h2 h3 -> grow h1 h3.
Proof.
  intros h1 h2 h3 (L1 & E1) (L2 & E2). split; [lia|].
  intros b Hb. rewrite E2 by lia. auto.
Qed.

Lemma grow_app : forall h x, grow h (h ++ [x]).
Proof. intros. split; [rewrite app_length; lia|]. intros. now apply cells_app_old. Qed.

Lemma heap_permissions_grow : forall h src, grow h (fst (heap_permissions h src)).
Proof.
  intros h src. destruct src as [name ar ut|k]; cbn [AuthHeap.heap_permissions].
  - assert (G0 : grow h (fst (role_slice h name))).
    { unfold role_slice. destruct (index_of_key name roles); cbn; [apply grow_refl|apply grow_app]. }
    destruct (role_slice h name) as [h0 s]. cbn [fst] in G0.
    set (c1 := ar && _). set (c2 := ut && _).
    destruct c1; cbn [AuthHeap.alloc]; destruct c2; cbn [fst AuthHeap.alloc].
    + eapply grow_trans; [exact G0|]. eapply grow_trans; apply grow_app.
    + eapply grow_trans; [exact G0|]. apply grow_app.
    + eapply grow_trans; [exact G0|]. apply grow_app.
    + exact G0.
  - destruct (Nat.ltb k (length raws)); cbn; [apply grow_refl|apply grow_app].
Qed.

(* ---------------------------------------------------------------- invariant *)

Record Inv (w : world) : Prop := mkInv {
  inv_stat_len : n_static <= length (w_heap w);
  inv_stat : forall b, b < n_static -> cells (w_heap w) b = nth b statics [];
  (* every client's list lives in an array of its own, allocated after the
     static ones *)
  inv_own : forall c s, In (c, s) (w_clients w) -> n_static <= s_arr s /\ wf (w_heap w) s;
  inv_dist : NoDup (map (fun p => s_arr (snd p)) (w_clients w)) }.

Lemma Inv_init : Inv init_world.
Proof.
  constructor; cbn.
  - unfold AuthHeap.n_static. lia.
  - reflexivity.
  - contradiction.
  - constructor.
Qed.

Definition others_unchanged (w w' : world) (x : nat) : Prop :=
  forall y, y <> x -> perms_of w' y = perms_of w y.

Lemma step_Inv : forall w o, Inv w -> Inv (step true w o) /\ others_unchanged w (step true w o) (acts_on o).
Proof.
  intros [h cl] o [SL ST OWN DIST]. cbn [w_heap w_clients] in *.
  destruct o as [c src|c k ar|c]; cbn [AuthHeap.step acts_on w_heap w_clients].
  - (* Login *)
    pose proof (heap_permissions_grow h src) as (GL & GE).
    destruct (heap_permissions h src) as [h1 s]. cbn [fst] in GL, GE.
    cbn [init_perms AuthHeap.alloc].
    set (x := (view h1 s ++ repeat "" (slack (length h1)))%list).
    assert (E2 : forall b, b < length h -> cells (h1 ++ [x]) b = cells h b).
    { intros b Hb. rewrite cells_app_old by lia. auto. }
    split; [constructor; cbn [w_heap w_clients]|].
    + rewrite app_length. lia.
    + intros b Hb. rewrite E2 by lia. auto.
    + intros c' s' [H|H].
      * inversion H; subst. cbn [s_arr s_len]. split; [lia|].
        unfold wf. cbn [s_arr s_len]. rewrite app_length, cells_app_new. unfold x.
        rewrite app_length. cbn [length]. lia.
      * apply cl_remove_In in H. destruct H as (H & _).
        destruct (OWN _ _ H) as (O1 & O2 & O3). split; [exact O1|].
        unfold wf. rewrite app_length, E2 by exact O2. lia.
    + cbn. constructor; [|apply cl_remove_NoDup; exact DIST].
      intros Hin. apply in_map_iff in Hin. destruct Hin as ([c2 s2] & E & Hin). cbn in E.
      apply cl_remove_In in Hin. destruct Hin as (Hin & _).
      destruct (OWN _ _ Hin) as (_ & O2 & _). lia.
    + intros y Hy. unfold perms_of. cbn [w_heap w_clients].
      rewrite cl_get_other by exact Hy.
      destruct (cl_get y cl) as [sy|] eqn:Ey; [|reflexivity]. cbn.
      apply cl_get_In in Ey. destruct (OWN _ _ Ey) as (_ & O2 & _).
      unfold view. rewrite E2 by exact O2. reflexivity.
  - (* Act *)
    destruct (cl_get c cl) as [s|] eqn:Ec.
    2:{ split; [constructor; assumption|]. intros y Hy. reflexivity. }
    pose proof (cl_get_In _ _ _ Ec) as Hin.
    destruct (OWN _ _ Hin) as (O1 & W).
    pose proof (apply_action_ok h k ar s W) as ((EL & EE) & W' & A').
    destruct (apply_action h k ar s) as [h' s']. cbn [fst snd] in *.
    assert (OTH : forall y sy, In (y, sy) cl -> y <> c -> s_arr sy <> s_arr s).
    { intros y sy Hy Hn E.
      assert (X : (y, sy) = (c, s)).
      { apply (NoDup_map_inj (fun p => s_arr (snd p)) cl); auto. }
      inversion X. contradiction. }
    split; [constructor; cbn [w_heap w_clients]|].
    + lia.
    + intros b Hb. rewrite EE by lia. auto.
    + intros c' sy [H|H].
      * inversion H; subst. split; [destruct A'; lia|exact W'].
      * apply cl_remove_In in H. destruct H as (H & Hn).
        destruct (OWN _ _ H) as (P1 & P2 & P3). split; [exact P1|].
        unfold wf. rewrite EE; [lia|exact P2|]. eapply OTH; eauto.
    + cbn. constructor; [|apply cl_remove_NoDup; exact DIST].
      intros Hi. apply in_map_iff in Hi. destruct Hi as ([c2 s2] & E & Hi). cbn in E.
      apply cl_remove_In in Hi. destruct Hi as (Hi & Hn).
      destruct (OWN _ _ Hi) as (_ & P2 & _).
      destruct A' as [A'|A']; [|lia].
      apply (OTH _ _ Hi Hn). congruence.
    + intros y Hy. unfold perms_of. cbn [w_heap w_clients].
      rewrite cl_get_other by exact Hy.
      destruct (cl_get y cl) as [sy|] eqn:Ey; [|reflexivity]. cbn.
      apply cl_get_In in Ey. destruct (OWN _ _ Ey) as (_ & P2 & _).
      unfold view. rewrite EE; [reflexivity|exact P2|]. eapply OTH; eauto.
  - (* Leave *)
    split; [constructor; cbn [w_heap w_clients]; auto|].
    + intros c' s H. apply cl_remove_In in H. destruct H as (H & _). apply (OWN _ _ H).
    + apply cl_remove_NoDup. exact DIST.
    + intros y Hy. unfold perms_of. cbn [w_heap w_clients].
      now rewrite cl_get_remove_other by exact Hy.
Qed.

Lemma run_Inv : forall ops w, Inv w -> Inv (run true w ops).
Proof.
  induction ops as [|o ops IH]; intros w H; [exact H|].
  cbn. apply IH. apply step_Inv. exact H.
Qed.

(* -------------------------------------------------------------- theorems *)

(* an operation of client x (login, moderation action, leave) after any
   history leaves every other client's permissions as they were *)
Lemma isolation_clients : forall ops o y,
  acts_on o <> y ->
  perms_of (step true (run true init_world ops) o) y = perms_of (run true init_world ops) y.
Proof.
  intros ops o y H.
  apply (proj2 (step_Inv _ o (run_Inv ops _ Inv_init))). auto.
Qed.

(* the role table is never modified *)
Lemma isolation_roles : forall ops, role_table (run true init_world ops) = roles.
Proof.
  intros ops. destruct (run_Inv ops _ Inv_init) as [SL ST _ _].
  unfold role_table.
  transitivity (combine (map fst roles) (map snd roles)); [f_equal|apply combine_fst_snd].
  etransitivity; [|apply (map_nth_seq [] (map snd roles))]. rewrite map_length.
  apply map_ext_in. intros b Hb. apply in_seq in Hb.
  rewrite ST.
  - unfold AuthHeap.statics. apply app_nth1. rewrite map_length. lia.
  - unfold AuthHeap.n_static, AuthHeap.statics. rewrite app_length, map_length. lia.
Qed.

(* nor are the raw permission arrays of the descriptions *)
Lemma isolation_raws : forall ops k, k < length raws ->
  cells (w_heap (run true init_world ops)) (length roles + k) = nth k raws [].
Proof.
  intros ops k Hk. destruct (run_Inv ops _ Inv_init) as [SL ST _ _].
  rewrite ST.
  - unfold AuthHeap.statics. rewrite app_nth2; rewrite map_length; [|lia].
    f_equal. lia.
  - unfold AuthHeap.n_static, AuthHeap.statics. rewrite app_length, map_length. lia.
Qed.

(* ------------------------------------- the two layers agree on what a login grants *)

Lemma index_of_key_assoc : forall name (l : list (string * list string)),
  match index_of_key name l with
  | Some i => i < length l /\ assoc name l = Some (nth i (map snd l) [])
  | None => assoc name l = None
  end.
Proof.
  induction l as [|[k v] t IH]; cbn; [reflexivity|].
  destruct (name =? k); [split; [lia|reflexivity]|].
  destruct (index_of_key name t) as [i|]; cbn; [|exact IH].
  destruct IH. split; [lia|assumption].
Qed.

Lemma login_grants_role : forall w c name ar ut us wd l,
  Inv w -> name <> "" ->
  perms_of (step true w (Login c (SrcRole name ar ut))) c =
  Some (permissions (Some (mkDesc us wd ar ut)) (mkPerms name l)).
Proof.
  intros [h cl] c name ar ut us wd l [SL ST _ _] Hn. cbn [w_heap w_clients] in *.
  unfold perms_of. cbn [AuthHeap.step w_heap w_clients AuthHeap.heap_permissions].
  assert (R : view (fst (role_slice h name)) (snd (role_slice h name)) = role_perms name).
  { unfold role_slice, role_perms. pose proof (index_of_key_assoc name roles) as K.
    destruct (index_of_key name roles) as [i|].
    - destruct K as (Ki & Ka). rewrite Ka. unfold view. cbn [fst snd s_arr s_len].
      rewrite ST.
      + unfold AuthHeap.statics. rewrite app_nth1 by (rewrite map_length; lia).
        apply firstn_all.
      + unfold AuthHeap.n_static, AuthHeap.statics. rewrite app_length, map_length. lia.
    - rewrite K. unfold view, alloc_nil. cbn [fst snd s_arr s_len firstn]. reflexivity. }
  destruct (role_slice h name) as [h0 s]. cbn [fst snd] in R.
  unfold permissions. cbn [ps_name ps_perms d_allowRecording d_unrestrictedTokens].
  destruct (String.eqb_spec name "") as [->|_]; [congruence|].
  rewrite R. set (P := role_perms name) in *.
  set (c1 := ar && (has "op" P && negb (has "record" P))).
  set (c2 := ut && (has "present" P && negb (has "token" P))).
  assert (V1 : forall hh ss, (hh, ss) = (if c1 then alloc h0 ("record" :: P) else (h0, s)) ->
                             view hh ss = if c1 then "record" :: P else P).
  { intros hh ss E. destruct c1.
    - pose proof (view_alloc h0 ("record" :: P)) as V. rewrite <- E in V. exact V.
    - inversion E; subst. exact R. }
  destruct (if c1 then alloc h0 ("record" :: P) else (h0, s)) as [h1 s1] eqn:E1.
  specialize (V1 h1 s1 eq_refl). rewrite V1.
  assert (V2 : forall hh ss,
             (hh, ss) = (if c2 then alloc h1 ("token" :: (if c1 then "record" :: P else P)) else (h1, s1)) ->
             view hh ss = if c2 then "token" :: (if c1 then "record" :: P else P)
                          else (if c1 then "record" :: P else P)).
  { intros hh ss E. destruct c2.
    - pose proof (view_alloc h1 ("token" :: (if c1 then "record" :: P else P))) as V.
      rewrite <- E in V. exact V.
    - inversion E; subst. exact V1. }
  destruct (if c2 then alloc h1 ("token" :: (if c1 then "record" :: P else P)) else (h1, s1))
    as [h2 s2] eqn:E2.
  specialize (V2 h2 s2 eq_refl).
  unfold init_perms.
  pose proof (view_alloc h2 (view h2 s2)) as V3.
  destruct (alloc h2 (view h2 s2)) as [h3 s3]. cbn [fst snd] in V3.
  cbn [w_heap w_clients cl_get]. rewrite Nat.eqb_refl. cbn [option_map].
  rewrite V3, V2. destruct c1, c2; reflexivity.
Qed.

Lemma login_grants_raw : forall w c k,
  Inv w -> k < length raws ->
  perms_of (step true w (Login c (SrcRaw k))) c = Some (nth k raws []).
Proof.
  intros [h cl] c k [SL ST _ _] Hk. cbn [w_heap w_clients] in *.
  unfold perms_of. cbn [AuthHeap.step w_heap w_clients AuthHeap.heap_permissions].
  destruct (Nat.ltb_spec k (length raws)); [|lia].
  unfold init_perms.
  set (s := mkSlice (length roles + k) (length (nth k raws []))).
  assert (V : view h s = nth k raws []).
  { unfold view, s. cbn [s_arr s_len]. rewrite ST.
    - unfold AuthHeap.statics. rewrite app_nth2; rewrite map_length; [|lia].
      replace (length roles + k - length roles) with k by lia. apply firstn_all.
    - unfold AuthHeap.n_static, AuthHeap.statics. rewrite app_length, map_length. lia. }
  pose proof (view_alloc h (view h s)) as V3.
  destruct (alloc h (view h s)) as [h3 s3]. cbn [fst snd] in V3.
  cbn [w_heap w_clients cl_get]. rewrite Nat.eqb_refl. cbn [option_map].
  rewrite V3, V. reflexivity.
Qed.

Lemma login_grants_after_history : forall ops c name ar ut us wd l,
  name <> "" ->
  perms_of (step true (run true init_world ops) (Login c (SrcRole name ar ut))) c =
  Some (permissions (Some (mkDesc us wd ar ut)) (mkPerms name l)).
Proof.
  intros ops c name ar ut us wd l.
  exact (login_grants_role _ c name ar ut us wd l (run_Inv ops _ Inv_init)).
Qed.

Lemma owner_view : forall h v s, wf h s ->
  view (fst (go_remove h v s)) (snd (go_remove h v s)) = filter (neqb v) (view h s) /\
  view (fst (go_addnew h v s)) (snd (go_addnew h v s)) =
  (if has v (view h s) then view h s else view h s ++ [v]).
Proof. intros h v s W. split; [now apply view_go_remove|now apply view_go_addnew]. Qed.

End Heap.

(* --------------------------------------------- why Init has to copy (F10) *)

(* Before 7db3860 Init kept the slice it was given.  Two operators log in,
   one of them is demoted: the other one and the role table lose "op". *)
Definition f10_history : list op :=
  [Login 1 (SrcRole "op" false false); Login 2 (SrcRole "op" false false); Act 1 AUnop false].

Lemma shared_slices_break_isolation :
  let w := run (fun _ => 0) [] false (init_world []) f10_history in
  perms_of w 2 = Some ["present"; "message"; "caption"; "token"; "token"] /\
  assoc "op" (role_table w) = Some ["present"; "message"; "caption"; "token"; "token"].
Proof. vm_compute. split; reflexivity. Qed.

Lemma owned_copies_keep_isolation :
  let w := run (fun _ => 0) [] true (init_world []) f10_history in
  perms_of w 1 = Some ["present"; "message"; "caption"; "token"] /\
  perms_of w 2 = Some ["op"; "present"; "message"; "caption"; "token"] /\
  assoc "op" (role_table w) = Some ["op"; "present"; "message"; "caption"; "token"].
Proof. vm_compute. repeat split; reflexivity. Qed.

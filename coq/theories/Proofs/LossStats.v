(* C06, part 3: the reception statistics.  A ghost run keeps the UNBOUNDED
   counters next to the uint32 counters of the cache model:
     g_E, g_R    expected / received in the current interval,
     g_TE, g_TR  totals at the last reset,
     g_X         the extended highest sequence number without the uint32 wrap.
   The cache's counters are always the ghosts modulo 2^32 (SI), R <= E and
   TR <= TE hold unconditionally on the ghosts, hence on the reported numbers
   as long as the expected counts stay below 2^32. *)
From Coq Require Import ZArith List Bool Lia.
From Coq Require Import ZifyBool.
From Galene Require Import Lib.Word Model.Cache Model.Loss Proofs.LossBits Proofs.LossTrack.
Import ListNotations.
Open Scope Z_scope.
Ltac Zify.zify_post_hook ::= Z.div_mod_to_equations.

Record gst := mkG {
  g_c : cache; g_E : Z; g_R : Z; g_TE : Z; g_TR : Z; g_X : Z }.

Definition sg_cache (g : gst) (c' : cache) : gst :=
  mkG c' (g_E g) (g_R g) (g_TE g) (g_TR g) (g_X g).

Definition sg_store (g : gst) (s : Z) (kf : bool) : gst :=
  let c := g_c g in
  let c' := snd (store c s 0 kf false payload) in
  if negb (c_lastValid c) || seqno_invalid s (c_last c)
  then mkG c' (g_E g + 1) (g_R g + 1) (g_TE g) (g_TR g) (g_X g + (s - c_last c))
  else
    let cmp := cmp16 (c_last c) s in
    if cmp <? 0
    then mkG c' (g_E g + w16 (s - c_last c)) (g_R g + 1) (g_TE g) (g_TR g)
             (g_X g + w16 (s - c_last c))
    else if 0 <? cmp
    then mkG c' (g_E g) (if c_received c <? c_expected c then g_R g + 1 else g_R g)
             (g_TE g) (g_TR g) (g_X g)
    else sg_cache g c'.

Definition sg_expect (g : gst) (n : Z) : gst :=
  mkG (expect (g_c g) n) (if n <=? 0 then g_E g else g_E g + w32 n)
      (g_R g) (g_TE g) (g_TR g) (g_X g).

Definition sg_stats (g : gst) (reset : bool) : gst :=
  let c' := snd (get_stats (g_c g) reset) in
  if reset then mkG c' 0 0 (g_TE g + g_E g) (g_TR g + g_R g) (g_X g)
  else sg_cache g c'.

Definition sg_read (g : gst) (s : Z) (kf : bool) (rate : Z) (ok : bool) : gst :=
  let g1 := sg_store g s kf in
  let first := fst (fst (store (g_c g) s 0 kf false payload)) in
  let packets := rl_packets rate in
  let unnacked := rl_unnacked packets in
  if packets <? rl_delta s first then
    let '((found, f, bm), c2) := bitmap_get (g_c g1) (w16 (s - unnacked)) in
    if found && ok then sg_expect (sg_cache g1 c2) (1 + popcount16 bm)
    else sg_cache g1 c2
  else g1.

Definition sg_step (g : gst) (o : lop) : gst :=
  match o with
  | LStore s kf => sg_store g s kf
  | LBitmapGet n => sg_cache g (snd (bitmap_get (g_c g) n))
  | LRead s kf rate ok => sg_read g s kf rate ok
  | LExpect n => sg_expect g n
  | LGetStats r => sg_stats g r
  end.

Definition sg_init (cap : Z) : gst := mkG (new_cache cap) 0 0 0 0 0.
Definition sg_from (g : gst) (h : list lop) : gst := fold_left sg_step h g.
Definition sg_run (cap : Z) (h : list lop) : gst := sg_from (sg_init cap) h.

(* ---------- the ghost's cache is the model's cache ---------- *)
Lemma sg_store_cache g s kf : g_c (sg_store g s kf) = snd (store (g_c g) s 0 kf false payload).
Proof.
  unfold sg_store. destruct (_ || _); [reflexivity|].
  destruct (_ <? 0); [reflexivity|]. destruct (0 <? _); reflexivity.
Qed.

Lemma sg_step_cache g o : g_c (sg_step g o) = fst (lstep (g_c g) o).
Proof.
  destruct o as [s kf|n|s kf rate ok|n|r]; cbn [sg_step lstep].
  - rewrite sg_store_cache. destruct (store _ _ _ _ _ _) as [[f i] c']. reflexivity.
  - cbn. destruct (bitmap_get (g_c g) n) as [[[fd f] m] c']. reflexivity.
  - unfold sg_read, read_loop_step.
    pose proof (sg_store_cache g s kf) as H1.
    destruct (store (g_c g) s 0 kf false payload) as [[f i] c1]. cbn [fst snd] in *.
    destruct (_ <? _); [|exact H1]. rewrite H1.
    destruct (bitmap_get c1 _) as [[[fd f'] m] c2].
    destruct (fd && ok); reflexivity.
  - reflexivity.
  - unfold sg_stats. destruct (get_stats (g_c g) r) as [st c'] eqn:E. cbn [fst snd].
    destruct r; reflexivity.
Qed.

Lemma sg_from_cache h : forall g, g_c (sg_from g h) = lrun (g_c g) h.
Proof.
  induction h as [|o h IH]; intros g; [reflexivity|].
  unfold sg_from, lrun in *. cbn [fold_left]. rewrite IH, sg_step_cache. reflexivity.
Qed.
Lemma sg_run_cache cap h : g_c (sg_run cap h) = lrun (new_cache cap) h.
Proof. apply sg_from_cache. Qed.
Lemma sg_from_app g h1 h2 : sg_from g (h1 ++ h2) = sg_from (sg_from g h1) h2.
Proof. unfold sg_from. apply fold_left_app. Qed.

(* ---------- projections of Store on the statistics ---------- *)
Definition stat_fields (c : cache) : Z * Z * bool * Z * Z * Z * Z :=
  (c_last c, c_cycle c, c_lastValid c, c_expected c, c_received c,
   c_totalExpected c, c_totalReceived c).

Lemma store_stats c s ts kf m buf :
  stat_fields (snd (store c s ts kf m buf)) =
  if negb (c_lastValid c) || seqno_invalid s (c_last c)
  then (s, c_cycle c, true, w32 (c_expected c + 1), w32 (c_received c + 1),
        c_totalExpected c, c_totalReceived c)
  else
    let cmp := cmp16 (c_last c) s in
    if cmp <? 0
    then (s, (if s <? c_last c then w16 (c_cycle c + 1) else c_cycle c), true,
          w32 (c_expected c + w16 (s - c_last c)), w32 (c_received c + 1),
          c_totalExpected c, c_totalReceived c)
    else if 0 <? cmp
    then (c_last c, c_cycle c, true, c_expected c,
          (if c_received c <? c_expected c then w32 (c_received c + 1) else c_received c),
          c_totalExpected c, c_totalReceived c)
    else (c_last c, c_cycle c, true, c_expected c, c_received c,
          c_totalExpected c, c_totalReceived c).
Proof.
  unfold store, stat_fields.
  destruct (negb (c_lastValid c) || seqno_invalid s (c_last c)).
  - destruct kf; reflexivity.
  - cbv zeta. destruct (cmp16 (c_last c) s <? 0); [destruct kf; reflexivity|].
    destruct (0 <? cmp16 (c_last c) s); destruct kf; reflexivity.
Qed.

Lemma bitmap_get_stats c n : stat_fields (snd (bitmap_get c n)) = stat_fields c.
Proof. unfold bitmap_get. destruct (bm_get _ _). reflexivity. Qed.

(* ---------- the invariant ---------- *)
Record SI (g : gst) : Prop := mkSI {
  si_E : c_expected (g_c g) = w32 (g_E g);
  si_R : c_received (g_c g) = w32 (g_R g);
  si_TE : c_totalExpected (g_c g) = w32 (g_TE g);
  si_TR : c_totalReceived (g_c g) = w32 (g_TR g);
  si_RE : 0 <= g_R g <= g_E g;
  si_TRE : 0 <= g_TR g <= g_TE g;
  si_last : is16 (c_last (g_c g));
  si_cycle : is16 (c_cycle (g_c g));
  si_X : c_cycle (g_c g) * 65536 + c_last (g_c g) = w32 (g_X g);
  si_Xge : c_cycle (g_c g) * 65536 + c_last (g_c g) <= g_X g;
  si_fresh : c_lastValid (g_c g) = false ->
             c_last (g_c g) = 0 /\ c_cycle (g_c g) = 0 /\ g_X g = 0 }.

Lemma SI_init cap : SI (sg_init cap).
Proof. constructor; cbn; unfold is16, w32; try lia; auto. Qed.

Lemma SI_cache g c' : stat_fields c' = stat_fields (g_c g) -> SI g -> SI (sg_cache g c').
Proof.
  unfold stat_fields. intros H [? ? ? ? ? ? ? ? ? ? ?]. inversion H as [[H1 H2 H3 H4 H5 H6 H7]].
  constructor; cbn [sg_cache g_c g_E g_R g_TE g_TR g_X];
    rewrite ?H1, ?H2, ?H3, ?H4, ?H5, ?H6, ?H7; assumption.
Qed.

Lemma cmp16_neg_dist a b : is16 a -> is16 b -> (cmp16 a b <? 0) = true -> 1 <= w16 (b - a) < 32768.
Proof.
  unfold cmp16, is16, w16. intros Ha Hb H. destruct (a =? b) eqn:E; [lia|].
  destruct (32768 <=? (b - a) mod 65536) eqn:E2; lia.
Qed.

Lemma SI_store g s kf : is16 s -> SI g -> SI (sg_store g s kf).
Proof.
  intros Hs [HE HR HTE HTR HRE HTRE Hl Hc HX HXge Hfr].
  pose proof (store_stats (g_c g) s 0 kf false payload) as Hst.
  unfold sg_store. set (c := g_c g) in *. set (c' := snd (store c s 0 kf false payload)) in *.
  unfold stat_fields in Hst.
  destruct (negb (c_lastValid c) || seqno_invalid s (c_last c)) eqn:Ereb.
  - injection Hst as H1 H2 H3 H4 H5 H6 H7.
    assert (HX0 : c_lastValid c = true \/ (c_last c = 0 /\ c_cycle c = 0 /\ g_X g = 0)).
    { destruct (c_lastValid c); [left; reflexivity|right; apply Hfr; reflexivity]. }
    constructor; cbn [g_c g_E g_R g_TE g_TR g_X]; rewrite ?H1, ?H2, ?H3, ?H4, ?H5, ?H6, ?H7;
      try assumption; try discriminate;
      try (rewrite ?HE, ?HR; unfold w32, w16, is16 in *; lia).
  - cbv zeta in Hst |- *. destruct (cmp16 (c_last c) s <? 0) eqn:Ecmp.
    + injection Hst as H1 H2 H3 H4 H5 H6 H7.
      pose proof (cmp16_neg_dist _ _ Hl Hs Ecmp) as Hd.
      constructor; cbn [g_c g_E g_R g_TE g_TR g_X]; rewrite ?H1, ?H2, ?H3, ?H4, ?H5, ?H6, ?H7;
        try assumption; try discriminate;
        try (rewrite ?HE, ?HR; unfold w32, w16, is16 in *; lia);
        try (destruct (s <? c_last c) eqn:Ew; unfold w16, w32, is16 in *; lia).
    + destruct (0 <? cmp16 (c_last c) s) eqn:Ecmp2.
      * injection Hst as H1 H2 H3 H4 H5 H6 H7.
        constructor; cbn [g_c g_E g_R g_TE g_TR g_X]; rewrite ?H1, ?H2, ?H3, ?H4, ?H5, ?H6, ?H7;
          try assumption; try discriminate; try lia.
        -- destruct (c_received c <? c_expected c); [rewrite HR; unfold w32; lia|exact HR].
        -- destruct (c_received c <? c_expected c) eqn:Elt; [|lia].
           rewrite HE, HR in Elt. assert (g_R g <> g_E g) by (intros Heq; rewrite Heq in Elt; lia). lia.
      * apply SI_cache; [|constructor; assumption].
        unfold stat_fields. rewrite Hst.
        apply orb_false_iff in Ereb. destruct Ereb as [Ev _]. apply negb_false_iff in Ev.
        fold c. rewrite Ev. reflexivity.
Qed.

Lemma SI_expect g n : SI g -> SI (sg_expect g n).
Proof.
  intros [HE HR HTE HTR HRE HTRE Hl Hc HX HXge Hfr]. unfold sg_expect, expect.
  destruct (n <=? 0) eqn:En.
  - constructor; cbn [g_c g_E g_R g_TE g_TR g_X]; assumption.
  - constructor; cbn [g_c g_E g_R g_TE g_TR g_X c_expected c_received c_totalExpected
                      c_totalReceived c_last c_cycle c_lastValid]; try assumption.
    + rewrite HE. unfold w32. lia.
    + unfold w32. lia.
Qed.

Lemma SI_stats g r : SI g -> SI (sg_stats g r).
Proof.
  intros [HE HR HTE HTR HRE HTRE Hl Hc HX HXge Hfr]. unfold sg_stats, get_stats.
  destruct r; cbn [snd].
  - constructor; cbn [g_c g_E g_R g_TE g_TR g_X c_expected c_received c_totalExpected
                      c_totalReceived c_last c_cycle c_lastValid]; try assumption;
      rewrite ?HTE, ?HE, ?HTR, ?HR; unfold w32; lia.
  - apply SI_cache; [reflexivity|constructor; assumption].
Qed.

Lemma SI_step g o : wf_lop o -> SI g -> SI (sg_step g o).
Proof.
  intros Hwf HS. destruct o as [s kf|n|s kf rate ok|n|r]; cbn [sg_step wf_lop] in *.
  - apply SI_store; assumption.
  - apply SI_cache; [apply bitmap_get_stats|exact HS].
  - destruct Hwf as [Hs _]. unfold sg_read.
    pose proof (SI_store g s kf Hs HS) as H1. destruct (_ <? _); [|exact H1].
    pose proof (bitmap_get_stats (g_c (sg_store g s kf))
                  (w16 (s - rl_unnacked (rl_packets rate)))) as Hb.
    destruct (bitmap_get _ _) as [[[fd f] m] c2]. cbn [snd] in Hb.
    destruct (fd && ok); [apply SI_expect|]; apply SI_cache; assumption.
  - apply SI_expect; exact HS.
  - apply SI_stats; exact HS.
Qed.

Lemma SI_from h : forall g, Forall wf_lop h -> SI g -> SI (sg_from g h).
Proof.
  induction h as [|o h IH]; intros g Hwf HS; [exact HS|].
  inversion Hwf; subst. unfold sg_from. cbn [fold_left]. apply IH; [assumption|].
  apply SI_step; assumption.
Qed.
Lemma SI_run cap h : Forall wf_lop h -> SI (sg_run cap h).
Proof. intros H. apply SI_from; [exact H|apply SI_init]. Qed.

(* ---------- C06_received_le_expected ---------- *)
Theorem received_le_expected cap h reset :
  Forall wf_lop h ->
  let g := sg_run cap h in
  let s := fst (get_stats (lrun (new_cache cap) h) reset) in
  (0 <= g_R g <= g_E g /\ 0 <= g_TR g <= g_TE g) /\
  (s_received s = w32 (g_R g) /\ s_expected s = w32 (g_E g) /\
   s_totalReceived s = w32 (g_TR g + g_R g) /\ s_totalExpected s = w32 (g_TE g + g_E g)) /\
  (g_E g < 2 ^ 32 -> s_received s <= s_expected s) /\
  (g_TE g + g_E g < 2 ^ 32 -> s_totalReceived s <= s_totalExpected s).
Proof.
  intros Hwf g s. pose proof (SI_run cap h Hwf) as HS. fold g in HS.
  destruct HS as [HE HR HTE HTR HRE HTRE Hl Hc HX HXge Hfr].
  unfold g in HE, HR, HTE, HTR. rewrite sg_run_cache in HE, HR, HTE, HTR. fold g in HE, HR, HTE, HTR.
  assert (Hs : s_received s = w32 (g_R g) /\ s_expected s = w32 (g_E g) /\
               s_totalReceived s = w32 (g_TR g + g_R g) /\
               s_totalExpected s = w32 (g_TE g + g_E g)).
  { unfold s, get_stats. destruct reset; cbn [fst s_received s_expected s_totalReceived s_totalExpected];
      rewrite ?HE, ?HR, ?HTE, ?HTR; unfold w32; repeat split; lia. }
  split; [split; assumption|]. split; [exact Hs|].
  destruct Hs as (-> & -> & -> & ->). change (2 ^ 32) with 4294967296.
  split; intros Hlt; unfold w32; lia.
Qed.

(* the unrestricted statement is false: the uint32 counters wrap *)
Theorem received_le_expected_wrap_refuted :
  exists h, Forall wf_lop h /\
    let s := fst (get_stats (lrun (new_cache 4) h) false) in
    s_expected s < s_received s /\ s_totalExpected s < s_totalReceived s.
Proof.
  exists [LStore 7 false; LExpect 4294967295]. split.
  - repeat constructor. unfold is16; lia.
  - vm_compute. split; reflexivity.
Qed.

(* ---------- C06_eseqno_monotone ---------- *)
Definition eseqno (c : cache) : Z := s_eseqno (fst (get_stats c false)).

Lemma eseqno_eq c : eseqno c = c_cycle c * 65536 + c_last c.
Proof. reflexivity. Qed.

(* the op is a restart: a packet more than 256 behind the highest one *)
Definition restart (c : cache) (o : lop) : bool :=
  match o with
  | LStore s _ | LRead s _ _ _ => c_lastValid c && seqno_invalid s (c_last c)
  | _ => false
  end.
Fixpoint restart_free (c : cache) (h : list lop) : bool :=
  match h with
  | [] => true
  | o :: h' => negb (restart c o) && restart_free (fst (lstep c o)) h'
  end.

Lemma sg_store_X g s kf : is16 s -> SI g ->
  c_lastValid (g_c g) && seqno_invalid s (c_last (g_c g)) = false ->
  g_X g <= g_X (sg_store g s kf) <= g_X g + 65535.
Proof.
  intros Hs HS Hnr. unfold sg_store.
  destruct (c_lastValid (g_c g)) eqn:Ev; cbn [negb orb andb] in *.
  - rewrite Hnr. cbv zeta. destruct (_ <? 0) eqn:E1; cbn [g_X].
    + pose proof (w16_range (s - c_last (g_c g))). lia.
    + destruct (0 <? _); cbn [g_X sg_cache]; lia.
  - destruct (si_fresh _ HS Ev) as (-> & _ & ->). cbn [g_X]. unfold is16 in Hs. lia.
Qed.

Lemma sg_step_X g o : wf_lop o -> SI g -> restart (g_c g) o = false ->
  g_X g <= g_X (sg_step g o) <= g_X g + 65535.
Proof.
  intros Hwf HS Hnr. destruct o as [s kf|n|s kf rate ok|n|r]; cbn [sg_step wf_lop restart] in *.
  - apply sg_store_X; assumption.
  - cbn. lia.
  - destruct Hwf as [Hs _]. pose proof (sg_store_X g s kf Hs HS Hnr) as H.
    unfold sg_read. destruct (_ <? _); [|exact H].
    destruct (bitmap_get _ _) as [[[fd f] m] c2]. destruct (fd && ok); cbn; exact H.
  - cbn. lia.
  - unfold sg_stats. destruct r; cbn; lia.
Qed.

Lemma sg_from_X h : forall g, Forall wf_lop h -> SI g -> restart_free (g_c g) h = true ->
  g_X g <= g_X (sg_from g h).
Proof.
  induction h as [|o h IH]; intros g Hwf HS Hrf; [cbn; lia|].
  inversion Hwf; subst. cbn [restart_free] in Hrf. apply andb_true_iff in Hrf.
  destruct Hrf as [Hr Hrf]. apply negb_true_iff in Hr.
  unfold sg_from. cbn [fold_left].
  pose proof (sg_step_X g o H1 HS Hr).
  specialize (IH (sg_step g o) H2 (SI_step g o H1 HS)).
  rewrite sg_step_cache in IH. specialize (IH Hrf). unfold sg_from in IH. lia.
Qed.

Theorem eseqno_monotone cap h1 h2 :
  Forall wf_lop h1 -> Forall wf_lop h2 ->
  let c1 := lrun (new_cache cap) h1 in
  let c2 := lrun (new_cache cap) (h1 ++ h2) in
  eseqno c1 = w32 (g_X (sg_run cap h1)) /\
  eseqno c2 = w32 (g_X (sg_run cap (h1 ++ h2))) /\
  (restart_free c1 h2 = true ->
     g_X (sg_run cap h1) <= g_X (sg_run cap (h1 ++ h2)) /\
     (g_X (sg_run cap (h1 ++ h2)) < 2 ^ 32 -> eseqno c1 <= eseqno c2)).
Proof.
  intros Hw1 Hw2 c1 c2.
  assert (Hw : Forall wf_lop (h1 ++ h2)) by (apply Forall_app; split; assumption).
  pose proof (SI_run cap h1 Hw1) as S1. pose proof (SI_run cap (h1 ++ h2) Hw) as S2.
  assert (E1 : eseqno c1 = w32 (g_X (sg_run cap h1))).
  { rewrite eseqno_eq. unfold c1. rewrite <- sg_run_cache. apply (si_X _ S1). }
  assert (E2 : eseqno c2 = w32 (g_X (sg_run cap (h1 ++ h2)))).
  { rewrite eseqno_eq. unfold c2. rewrite <- sg_run_cache. apply (si_X _ S2). }
  split; [exact E1|]. split; [exact E2|]. intros Hrf.
  assert (Hmono : g_X (sg_run cap h1) <= g_X (sg_run cap (h1 ++ h2))).
  { unfold sg_run at 2. rewrite sg_from_app. apply sg_from_X; [exact Hw2|exact S1|].
    fold (sg_run cap h1). rewrite sg_run_cache. exact Hrf. }
  split; [exact Hmono|]. intros Hlt. rewrite E1, E2.
  pose proof (si_Xge _ S1) as Hge. pose proof (si_last _ S1) as Hl1. pose proof (si_cycle _ S1) as Hc1.
  change (2 ^ 32) with 4294967296 in Hlt. unfold w32, is16 in *. lia.
Qed.

(* ---------- C06_fraction_range: the reception report ---------- *)
Theorem rr_stats_range s :
  let '(fl, tl, es) := rr_stats s in
  0 <= fl <= 255 /\ 0 <= tl < 2 ^ 32 /\ es = s_eseqno s.
Proof.
  unfold rr_stats. change (2 ^ 32) with 4294967296. split; [unfold w8; lia|]. split; [|reflexivity].
  destruct (s_totalReceived s <? s_totalExpected s); unfold w32; lia.
Qed.

(* for uint32 statistics: the uint8 conversion truncates nothing, and while
   fewer than 2^24 packets are lost in the interval the value is the RFC 3550
   fraction (lost * 256 / expected), clamped to 255 *)
Theorem rr_stats_fraction s :
  0 <= s_received s < 2 ^ 32 -> 0 <= s_expected s < 2 ^ 32 ->
  let fl := fst (fst (rr_stats s)) in
  (s_expected s <= s_received s -> fl = 0) /\
  (s_received s < s_expected s ->
     fl = Z.min 255 (w32 ((s_expected s - s_received s) * 256) / s_expected s) /\
     (s_expected s - s_received s < 2 ^ 24 ->
        fl = Z.min 255 ((s_expected s - s_received s) * 256 / s_expected s))).
Proof.
  change (2 ^ 32) with 4294967296. change (2 ^ 24) with 16777216.
  intros HR HE. unfold rr_stats. cbn [fst]. split.
  - intros Hle. destruct (s_received s <? s_expected s) eqn:E; [lia|reflexivity].
  - intros Hlt. destruct (s_received s <? s_expected s) eqn:E; [|lia].
    replace (w32 (s_expected s - s_received s)) with (s_expected s - s_received s)
      by (unfold w32; lia).
    set (q := w32 ((s_expected s - s_received s) * 256) / s_expected s).
    assert (Hq : 0 <= q).
    { unfold q. apply Z.div_pos; [unfold w32; lia|lia]. }
    split.
    + destruct (255 <=? q) eqn:Eq; unfold w8; lia.
    + intros H24. fold q.
      assert (q = (s_expected s - s_received s) * 256 / s_expected s).
      { unfold q. f_equal. unfold w32. apply Z.mod_small. lia. }
      destruct (255 <=? q) eqn:Eq; unfold w8; lia.
Qed.

(* TotalLost is a 24-bit field on the wire (pion/rtcp refuses values >= 2^25
   and drops bit 24 of the others): nothing in sendUpRTCP keeps it below 2^24.
   Witness: a publisher whose numbers jump forward by 30000 per packet. *)
Definition jump_history (n : nat) : list lop :=
  map (fun i => LStore (w16 (Z.of_nat i * 30000)) false) (seq 0 n).
Theorem total_lost_exceeds_field :
  Forall wf_lop (jump_history 1200) /\
  let s := fst (get_stats (lrun (new_cache 1) (jump_history 1200)) true) in
  2 ^ 25 <= snd (fst (rr_stats s)).
Proof.
  split.
  - unfold jump_history. apply Forall_forall. intros o Hin. apply in_map_iff in Hin.
    destruct Hin as (i & <- & _). cbn. apply w16_range.
  - vm_compute. discriminate.
Qed.

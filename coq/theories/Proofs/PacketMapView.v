(* L0 refines L1: the ring of intervals of packetmap.Map, read backwards from
   lastEntry, is the newest-first list of Model/PacketMapL1.v, and every
   operation commutes with that reading. *)
From Coq Require Import ZArith List Bool Lia Arith.
From Coq Require Import ZifyBool.
From Galene Require Import Lib.Word Lib.Ring Generated.Consts Model.PacketMap Model.PacketMapL1.
Import ListNotations.
Open Scope Z_scope.
Ltac Zify.zify_post_hook ::= Z.div_mod_to_equations.

Lemma maxEntries_pos : 1 <= maxEntries.
Proof. unfold maxEntries. lia. Qed.

(* ---- modular arithmetic with a variable modulus (lia cannot do these) ---- *)
Lemma mod_shift a k N : 0 < N -> ((a + 1) mod N + N - 1 - k) mod N = (a - k) mod N.
Proof.
  intros HN. replace ((a + 1) mod N + N - 1 - k) with ((a + 1) mod N + (N - 1 - k)) by lia.
  rewrite Zplus_mod_idemp_l. replace (a + 1 + (N - 1 - k)) with (a - k + 1 * N) by lia.
  apply Z_mod_plus_full.
Qed.
Lemma mod_pred x N : 0 < N ->
  (if 0 <? x mod N then x mod N - 1 else N - 1) = (x - 1) mod N.
Proof.
  intros HN. pose proof (Z.mod_pos_bound x N HN) as Hb.
  pose proof (Z.div_mod x N ltac:(lia)) as Hd.
  destruct (0 <? x mod N) eqn:E.
  - apply (Z.mod_unique_pos _ _ (x / N)); lia.
  - apply (Z.mod_unique_pos _ _ (x / N - 1)); [lia|].
    assert (x mod N = 0) by lia. nia.
Qed.
Lemma mod_back_iff a j N : 0 < N -> 0 <= a < N -> 0 < j <= N ->
  ((a - j) mod N =? a) = (j =? N).
Proof.
  intros HN Ha Hj. destruct (j =? N) eqn:E.
  - assert (j = N) by lia. subst j.
    replace (a - N) with (a + (-1) * N) by lia. rewrite Z_mod_plus_full.
    rewrite Z.mod_small by lia. lia.
  - assert (Hne : (a - j) mod N <> a); [|lia].
    intros Heq.
    destruct (Z_le_gt_dec j a) as [Hle|Hgt].
    + rewrite Z.mod_small in Heq by lia. lia.
    + replace (a - j) with (a - j + N + (-1) * N) in Heq by lia.
      rewrite Z_mod_plus_full in Heq. rewrite Z.mod_small in Heq by lia. lia.
Qed.
Lemma mod_newest a N : 0 < N -> 0 <= a < N -> ((a + 1) mod N + N - 1) mod N = a.
Proof.
  intros HN Ha. replace ((a + 1) mod N + N - 1) with ((a + 1) mod N + N - 1 - 0) by lia.
  rewrite mod_shift by exact HN. rewrite Z.sub_0_r. apply Z.mod_small. exact Ha.
Qed.
Lemma mod_succ_nat j n : (0 < n)%nat -> 0 <= j ->
  Z.to_nat ((j + 1) mod Z.of_nat n) = (S (Z.to_nat j) mod n)%nat.
Proof.
  intros Hn Hj. apply Nat2Z.inj. rewrite Nat2Z.inj_mod.
  rewrite Z2Nat.id by (apply Z.mod_pos_bound; lia).
  f_equal. lia.
Qed.

(* position of the oldest entry *)
Definition oldest (m : pmap) : nat :=
  Z.to_nat ((m_lastEntry m + 1) mod zlen (entries_of m)).
Definition view (m : pmap) : list entry := ring (oldest m) (entries_of m).

Definition is_nil (m : pmap) : bool :=
  match m_entries m with None => true | Some _ => false end.

Definition abs (m : pmap) : l1 :=
  mkL (m_started m) (m_next m) (m_nextPid m) (m_delta m) (m_pidDelta m) (is_nil m) (view m).

(* shape of the ring *)
Definition WfRing (m : pmap) : Prop :=
  let es := entries_of m in
  (es = [] -> m_lastEntry m = 0) /\
  (es <> [] -> 0 <= m_lastEntry m < zlen es /\ zlen es <= maxEntries /\
               (zlen es < maxEntries -> m_lastEntry m = zlen es - 1)) /\
  (m_entries m = Some [] -> False).

Lemma view_nil m : entries_of m = [] -> view m = [].
Proof. unfold view. intros ->. unfold ring. destruct (oldest _); reflexivity. Qed.

Lemma view_length m : length (view m) = length (entries_of m).
Proof. apply ring_length. Qed.

Lemma view_nil_iff m : view m = [] <-> entries_of m = [].
Proof.
  split; [|apply view_nil]. intros H. apply (f_equal (@length entry)) in H.
  rewrite view_length in H. destruct (entries_of m); [reflexivity|discriminate].
Qed.

(* ---- nth of a ring ---- *)
Lemma nth_skipn' {A} (d : A) (l : list A) n i : nth i (skipn n l) d = nth (n + i) l d.
Proof.
  revert l. induction n as [|n IH]; intros l; [reflexivity|].
  destruct l as [|x l]; cbn [skipn plus nth]; [destruct i; reflexivity|apply IH].
Qed.
Lemma nth_firstn' {A} (d : A) (l : list A) n i : (i < n)%nat -> nth i (firstn n l) d = nth i l d.
Proof.
  revert l i. induction n as [|n IH]; intros l i Hi; [lia|].
  destruct l as [|x l]; [destruct i; reflexivity|].
  destruct i; [reflexivity|]. cbn [firstn nth]. apply IH. lia.
Qed.

Lemma nth_ring {A} (d : A) (l : list A) t k :
  (t < length l)%nat -> (k < length l)%nat ->
  nth k (ring t l) d = nth ((t + length l - 1 - k) mod length l) l d.
Proof.
  intros Ht Hk. unfold ring.
  assert (Hlen : length (skipn t l ++ firstn t l) = length l).
  { rewrite app_length, skipn_length, firstn_length. lia. }
  rewrite rev_nth by (rewrite Hlen; lia). rewrite Hlen.
  set (j := (length l - S k)%nat).
  assert (Hj : (j < length l)%nat) by (unfold j; lia).
  destruct (Nat.lt_ge_cases j (length l - t)) as [Hlt|Hge].
  - rewrite app_nth1 by (rewrite skipn_length; lia).
    rewrite nth_skipn'.
    f_equal. unfold j.
    replace (t + length l - 1 - k)%nat with (t + (length l - S k))%nat by lia.
    symmetry. apply Nat.mod_small. lia.
  - rewrite app_nth2 by (rewrite skipn_length; lia).
    rewrite skipn_length.
    rewrite nth_firstn' by lia.
    f_equal. unfold j.
    replace (t + length l - 1 - k)%nat with ((t + (length l - S k) - length l) + 1 * length l)%nat by lia.
    rewrite Nat.mod_add by lia.
    rewrite Nat.mod_small by lia. lia.
Qed.

Lemma skipn_nth_cons {A} (d : A) (l : list A) k : (k < length l)%nat ->
  skipn k l = nth k l d :: skipn (S k) l.
Proof.
  revert k. induction l as [|x l IH]; intros k Hk; [cbn in Hk; lia|].
  destruct k; [reflexivity|]. cbn [skipn nth]. apply IH. cbn in Hk. lia.
Qed.

(* ---- the backwards walk over the ring is the walk over the view ---- *)
Lemma walk_view_aux es last s base res :
  es <> [] -> 0 <= last < zlen es ->
  forall fuel k, (fuel + k = length es)%nat -> (1 <= fuel)%nat ->
  walk fuel es last ((last - Z.of_nat k) mod zlen es) s base res =
  lwalk (skipn k (ring (Z.to_nat ((last + 1) mod zlen es)) es)) s base res.
Proof.
  intros Hne Hlast.
  set (n := length es). assert (Hn : zlen es = Z.of_nat n) by reflexivity.
  assert (Hn1 : (1 <= n)%nat) by (unfold n; destruct es; [congruence|cbn; lia]).
  set (t := Z.to_nat ((last + 1) mod zlen es)).
  assert (Ht : (t < n)%nat) by (unfold t; lia).
  induction fuel as [|fuel IH]; intros k Hk Hf; [lia|].
  cbn [walk].
  assert (Hkn : (k < n)%nat) by lia.
  rewrite (skipn_nth_cons (mkE 0 0 0 0) (ring t es) k) by (rewrite ring_length; exact Hkn).
  cbn [lwalk].
  assert (Hnth : nth_e es ((last - Z.of_nat k) mod zlen es) = nth k (ring t es) (mkE 0 0 0 0)).
  { unfold nth_e. rewrite (nth_ring _ es t k Ht Hkn). f_equal. fold n.
    unfold t. rewrite Hn.
    assert (E : ((last - Z.of_nat k) mod Z.of_nat n) =
                Z.of_nat ((Z.to_nat ((last + 1) mod Z.of_nat n) + n - 1 - k) mod n)).
    { rewrite Nat2Z.inj_mod.
      replace (Z.of_nat (Z.to_nat ((last + 1) mod Z.of_nat n) + n - 1 - k))
        with ((last + 1) mod Z.of_nat n + Z.of_nat n - 1 - Z.of_nat k)
        by (pose proof (Z.mod_pos_bound (last + 1) (Z.of_nat n) ltac:(lia)); lia).
      symmetry. apply mod_shift. lia. }
    rewrite E. rewrite Nat2Z.id. reflexivity. }
  rewrite Hnth. set (e := nth k (ring t es) (mkE 0 0 0 0)).
  destruct (0 <=? cmp16 s (base e)); [reflexivity|].
  set (i := (last - Z.of_nat k) mod zlen es).
  assert (Hi' : (if 0 <? i then i - 1 else zlen es - 1) = (last - Z.of_nat (S k)) mod zlen es).
  { unfold i. rewrite Hn. rewrite mod_pred by lia. f_equal. lia. }
  rewrite Hi'.
  destruct (Nat.eq_dec fuel 0) as [->|Hf0].
  - (* last entry visited: the walk is back at lastEntry *)
    replace ((last - Z.of_nat (S k)) mod zlen es =? last) with true
      by (rewrite Hn, mod_back_iff by lia; lia).
    replace (S k) with n by lia.
    rewrite skipn_all2 by (rewrite ring_length; lia). reflexivity.
  - replace ((last - Z.of_nat (S k)) mod zlen es =? last) with false
      by (rewrite Hn, mod_back_iff by lia; lia).
    apply IH; lia.
Qed.

Lemma walk_view m s base res : WfRing m -> entries_of m <> [] ->
  walk (length (entries_of m)) (entries_of m) (m_lastEntry m) (m_lastEntry m) s base res =
  lwalk (view m) s base res.
Proof.
  intros (_ & Hw & _) Hne. destruct (Hw Hne) as (Hl & _).
  pose proof (walk_view_aux (entries_of m) (m_lastEntry m) s base res Hne Hl
                (length (entries_of m)) 0%nat) as H.
  cbn [Z.of_nat] in H. rewrite Z.sub_0_r in H.
  rewrite Z.mod_small in H by exact Hl.
  rewrite H; [reflexivity|lia|].
  destruct (entries_of m); [congruence|cbn; lia].
Qed.

Lemma direct_view m s : WfRing m -> pm_direct m s = l1_direct (abs m) s.
Proof.
  intros Hw. unfold pm_direct, l1_direct, abs; cbn [l_view].
  destruct (entries_of m) as [|e es] eqn:E.
  - cbn. rewrite view_nil by exact E. reflexivity.
  - replace (zlen (e :: es) =? 0) with false by (unfold zlen; cbn [length]; lia).
    rewrite <- E. apply walk_view; [exact Hw|rewrite E; discriminate].
Qed.

Lemma reverse_raw_view m s : WfRing m -> pm_reverse_raw m s = l1_reverse_raw (abs m) s.
Proof.
  intros Hw. unfold pm_reverse_raw, l1_reverse_raw, abs, is_nil; cbn [l_nil l_delta l_view].
  destruct (m_entries m) as [es|] eqn:E; [|reflexivity].
  destruct es as [|e es].
  - exfalso. destruct Hw as (_ & _ & H). apply H. exact E.
  - replace (zlen (e :: es) =? 0) with false by (unfold zlen; cbn [length]; lia).
    assert (He : entries_of m = e :: es) by (unfold entries_of; rewrite E; reflexivity).
    rewrite <- He. f_equal. apply walk_view; [exact Hw|rewrite He; discriminate].
Qed.

Lemma reverse_view m s : WfRing m -> pm_reverse m s = l1_reverse (abs m) s.
Proof.
  intros Hw. unfold pm_reverse, l1_reverse. rewrite (reverse_raw_view m s Hw).
  destruct (l1_reverse_raw (abs m) s) as [[ok s'] p'].
  unfold pm_recent, l1_recent, abs; cbn [l_started l_next]. reflexivity.
Qed.

(* ---- head of the view = entry at lastEntry ---- *)
Lemma view_head m : WfRing m -> entries_of m <> [] ->
  exists rest, view m = nth_e (entries_of m) (m_lastEntry m) :: rest.
Proof.
  intros (_ & Hw & _) Hne. destruct (Hw Hne) as (Hl & _).
  set (es := entries_of m) in *. set (n := length es).
  assert (Hn : zlen es = Z.of_nat n) by reflexivity.
  assert (Hn1 : (1 <= n)%nat) by (unfold n; destruct es; [congruence|cbn; lia]).
  exists (skipn 1 (view m)).
  assert (Ht : (oldest m < n)%nat)
    by (unfold oldest; fold es; pose proof (Z.mod_pos_bound (m_lastEntry m + 1) (zlen es) ltac:(lia)); lia).
  assert (Hv : view m = nth 0 (view m) (mkE 0 0 0 0) :: skipn 1 (view m)).
  { apply (skipn_nth_cons (mkE 0 0 0 0) (view m) 0). rewrite view_length. fold es. fold n. lia. }
  rewrite Hv at 1. f_equal.
  unfold view. fold es. rewrite (nth_ring _ es (oldest m) 0 Ht) by (fold n; lia).
  unfold nth_e. f_equal. fold n. unfold oldest. fold es. rewrite Hn.
  assert (E : m_lastEntry m =
    Z.of_nat ((Z.to_nat ((m_lastEntry m + 1) mod Z.of_nat n) + n - 1 - 0) mod n)).
  { rewrite Nat2Z.inj_mod.
    replace (Z.of_nat (Z.to_nat ((m_lastEntry m + 1) mod Z.of_nat n) + n - 1 - 0))
      with ((m_lastEntry m + 1) mod Z.of_nat n + Z.of_nat n - 1)
      by (pose proof (Z.mod_pos_bound (m_lastEntry m + 1) (Z.of_nat n) ltac:(lia)); lia).
    symmetry. apply mod_newest; lia. }
  rewrite E at 2. rewrite Nat2Z.id. reflexivity.
Qed.

(* replacing the newest slot replaces the head of the view *)
Lemma ring_set_newest {A} (l : list A) t x : (t < length l)%nat ->
  ring t (set_nth ((t + length l - 1) mod length l) x l) = x :: tl (ring t l).
Proof.
  intros Ht.
  destruct t as [|t].
  - replace ((0 + length l - 1) mod length l)%nat with (length l - 1)%nat
      by (symmetry; apply Nat.mod_small; lia).
    unfold ring. cbn [skipn firstn]. rewrite !app_nil_r.
    destruct (exists_last (l := l)) as (l' & y & ->); [destruct l; [cbn in Ht; lia|discriminate]|].
    rewrite app_length. cbn [length].
    replace (length l' + 1 - 1)%nat with (length l') by lia.
    rewrite set_nth_app. rewrite !rev_app_distr. reflexivity.
  - replace ((S t + length l - 1) mod length l)%nat with t.
    2:{ replace (S t + length l - 1)%nat with (t + 1 * length l)%nat by lia.
        rewrite Nat.mod_add by lia. symmetry. apply Nat.mod_small. lia. }
    destruct (split_at (S t) l Ht) as (a & y & b & -> & Ha).
    destruct (exists_last (l := a)) as (a' & z & ->); [destruct a; [cbn in Ha; lia|discriminate]|].
    rewrite app_length in Ha. cbn [length] in Ha.
    assert (Ha' : length a' = t) by lia.
    subst t.
    rewrite <- app_assoc. cbn [app]. rewrite set_nth_app.
    replace (S (length a')) with (length (a' ++ [x])) at 1 by (rewrite app_length; cbn; lia).
    replace (a' ++ x :: y :: b) with ((a' ++ [x]) ++ y :: b) by (rewrite <- app_assoc; reflexivity).
    rewrite ring_split.
    replace (S (length a')) with (length (a' ++ [z])) by (rewrite app_length; cbn; lia).
    replace (a' ++ z :: y :: b) with ((a' ++ [z]) ++ y :: b) by (rewrite <- app_assoc; reflexivity).
    rewrite ring_split. rewrite !rev_app_distr. reflexivity.
Qed.

Definition set_entries (m : pmap) (last : Z) (es : list entry) : pmap :=
  mkM (m_started m) (m_next m) (m_nextPid m) (m_delta m) (m_pidDelta m) last (Some es).

(* the three ways add_mapping changes the ring *)
Lemma view_set_last m e' : WfRing m -> entries_of m <> [] ->
  let m' := set_entries m (m_lastEntry m) (set_nth (Z.to_nat (m_lastEntry m)) e' (entries_of m)) in
  view m' = e' :: tl (view m) /\ WfRing m'.
Proof.
  intros Hw Hne m'. destruct Hw as (H0 & Hw & H2). destruct (Hw Hne) as (Hl & Hmax & Hlt).
  set (es := entries_of m) in *. set (n := length es).
  assert (Hn : zlen es = Z.of_nat n) by reflexivity.
  assert (Hn1 : (1 <= n)%nat) by (unfold n; destruct es; [congruence|cbn; lia]).
  assert (Hes' : entries_of m' = set_nth (Z.to_nat (m_lastEntry m)) e' es) by reflexivity.
  split.
  - unfold view. rewrite Hes'. unfold oldest. rewrite Hes'.
    unfold zlen at 1. rewrite set_nth_length. fold es. fold n.
    change (m_lastEntry m') with (m_lastEntry m).
    set (t := Z.to_nat ((m_lastEntry m + 1) mod Z.of_nat n)).
    assert (Ht : (t < n)%nat) by (unfold t; lia).
    replace (Z.to_nat (m_lastEntry m)) with ((t + n - 1) mod n)%nat.
    + rewrite Hn. fold t. apply ring_set_newest. exact Ht.
    + apply Nat2Z.inj. rewrite Nat2Z.inj_mod.
      replace (Z.of_nat (t + n - 1)) with ((m_lastEntry m + 1) mod Z.of_nat n + Z.of_nat n - 1)
        by (unfold t; pose proof (Z.mod_pos_bound (m_lastEntry m + 1) (Z.of_nat n) ltac:(lia)); lia).
      rewrite mod_newest by lia. lia.
  - unfold WfRing. rewrite Hes'. unfold zlen. rewrite set_nth_length. fold es. fold n.
    change (m_lastEntry m') with (m_lastEntry m).
    assert (Hne' : set_nth (Z.to_nat (m_lastEntry m)) e' es <> []).
    { intros E. apply (f_equal (@length entry)) in E. rewrite set_nth_length in E. fold n in E. cbn in E. lia. }
    split; [intros E; contradiction|]. split.
    + intros _. unfold zlen in *. fold n in Hl, Hmax, Hlt. auto.
    + cbn [m_entries m' set_entries]. intros E. inversion E as [E']. apply Hne'. exact E'.
Qed.

Lemma view_append m e : WfRing m -> entries_of m <> [] -> zlen (entries_of m) < maxEntries ->
  let m' := set_entries m (zlen (entries_of m)) (entries_of m ++ [e]) in
  view m' = e :: view m /\ WfRing m'.
Proof.
  intros Hw Hne Hlen m'. destruct Hw as (H0 & Hw & H2). destruct (Hw Hne) as (Hl & Hmax & Hlt).
  set (es := entries_of m) in *. set (n := length es).
  assert (Hn : zlen es = Z.of_nat n) by reflexivity.
  assert (Hn1 : (1 <= n)%nat) by (unfold n; destruct es; [congruence|cbn; lia]).
  assert (Hes' : entries_of m' = es ++ [e]) by reflexivity.
  split.
  - unfold view, oldest. rewrite Hes'. change (m_lastEntry m') with (zlen es).
    unfold zlen. rewrite app_length. cbn [length]. fold es. fold n.
    replace ((Z.of_nat n + 1) mod Z.of_nat (n + 1)) with 0
      by (replace (Z.of_nat (n + 1)) with (Z.of_nat n + 1) by lia; symmetry; apply Z_mod_same_full).
    rewrite (Hlt Hlen). rewrite Hn.
    replace ((Z.of_nat n - 1 + 1) mod Z.of_nat n) with 0
      by (replace (Z.of_nat n - 1 + 1) with (Z.of_nat n) by lia; symmetry; apply Z_mod_same_full).
    change (Z.to_nat 0) with 0%nat. unfold ring. cbn [skipn firstn].
    rewrite !app_nil_r, rev_app_distr. reflexivity.
  - unfold WfRing. rewrite Hes'. change (m_lastEntry m') with (zlen es).
    unfold zlen. rewrite app_length. cbn [length]. fold es. fold n.
    assert (Hne' : es ++ [e] <> []) by (destruct es; discriminate).
    split; [intros E; contradiction|]. split; [intros _; lia|].
    cbn [m_entries m' set_entries]. intros E. inversion E as [E']. apply Hne'. exact E'.
Qed.

Lemma view_overwrite m e : WfRing m -> entries_of m <> [] -> ~ zlen (entries_of m) < maxEntries ->
  let j := (m_lastEntry m + 1) mod maxEntries in
  let m' := set_entries m j (set_nth (Z.to_nat j) e (entries_of m)) in
  view m' = e :: removelast (view m) /\ WfRing m'.
Proof.
  intros Hw Hne Hlen j m'. destruct Hw as (H0 & Hw & H2). destruct (Hw Hne) as (Hl & Hmax & Hlt).
  set (es := entries_of m) in *. set (n := length es).
  assert (Hn : zlen es = Z.of_nat n) by reflexivity.
  assert (Hfull : Z.of_nat n = maxEntries) by lia.
  assert (Hn1 : (1 <= n)%nat) by (unfold n; destruct es; [congruence|cbn; lia]).
  assert (Hes' : entries_of m' = set_nth (Z.to_nat j) e es) by reflexivity.
  assert (Hj : j = (m_lastEntry m + 1) mod Z.of_nat n) by (unfold j; rewrite Hfull; reflexivity).
  split.
  - unfold view, oldest. rewrite Hes'. unfold zlen. rewrite set_nth_length. fold es. fold n.
    change (m_lastEntry m') with j. rewrite <- Hj.
    assert (Hjb : 0 <= j < Z.of_nat n) by (rewrite Hj; apply Z.mod_pos_bound; lia).
    rewrite mod_succ_nat by lia.
    apply ring_store. lia.
  - unfold WfRing. rewrite Hes'. unfold zlen. rewrite set_nth_length. fold es. fold n.
    change (m_lastEntry m') with j.
    assert (Hne' : set_nth (Z.to_nat j) e es <> []).
    { intros E. apply (f_equal (@length entry)) in E. rewrite set_nth_length in E. fold n in E. cbn in E. lia. }
    split; [intros E; contradiction|]. split; [intros _; lia|].
    cbn [m_entries m' set_entries]. intros E. inversion E as [E']. apply Hne'. exact E'.
Qed.

Lemma view_single m e last : last = 0 ->
  let m' := set_entries m last [e] in view m' = [e] /\ WfRing m'.
Proof.
  intros -> m'. split.
  - unfold view, oldest, m', set_entries, entries_of, zlen; cbn.
    reflexivity.
  - unfold WfRing, m', set_entries, entries_of, zlen; cbn [m_entries m_lastEntry length].
    pose proof maxEntries_pos.
    split; [discriminate|]. split; [intros _; cbn; lia|discriminate].
Qed.

(* ---- each operation commutes with abs ---- *)
Lemma abs_set_entries m last es :
  abs (set_entries m last es) = with_view (abs m) (view (set_entries m last es)).
Proof. reflexivity. Qed.

Lemma retire_view m : WfRing m ->
  abs (pm_retire m) = l1_retire (abs m) /\ WfRing (pm_retire m).
Proof.
  intros Hw. unfold pm_retire, l1_retire. cbn [l_view abs].
  destruct (entries_of m) as [|e0 es0] eqn:E.
  - cbn. rewrite (view_nil m E). auto.
  - replace (zlen (e0 :: es0) =? 0) with false by (unfold zlen; cbn [length]; lia).
    assert (Hne : entries_of m <> []) by (rewrite E; discriminate).
    destruct (view_head m Hw Hne) as (rest & Hv). rewrite Hv. rewrite E in Hv.
    change (l_next (abs m)) with (m_next m).
    change (l_delta (abs m)) with (m_delta m).
    change (l_pidDelta (abs m)) with (m_pidDelta m).
    rewrite E.
    destruct (w16 (m_next m - e_first (nth_e (e0 :: es0) (m_lastEntry m))) <? retireAge); [auto|].
    set (e' := if cmp16 _ _ <=? 0 then _ else _).
    change (mkM (m_started m) (m_next m) (m_nextPid m) (m_delta m) (m_pidDelta m) 0 (Some [e']))
      with (set_entries m 0 [e']).
    destruct (view_single m e' 0 eq_refl) as (Hv' & Hw').
    split; [|exact Hw']. rewrite abs_set_entries, Hv'. reflexivity.
Qed.

Lemma add_mapping_view m s d p : WfRing m ->
  abs (add_mapping m s d p) = l1_add_mapping (abs m) s d p /\ WfRing (add_mapping m s d p).
Proof.
  intros Hw. unfold add_mapping, l1_add_mapping. cbn [l_view abs].
  destruct (entries_of m) as [|e0 es0] eqn:E.
  - cbn. rewrite (view_nil m E). auto.
  - replace (zlen (e0 :: es0) =? 0) with false by (unfold zlen; cbn [length]; lia).
    assert (Hne : entries_of m <> []) by (rewrite E; discriminate).
    destruct (view_head m Hw Hne) as (rest & Hv). rewrite Hv. rewrite <- E.
    set (ei := nth_e (entries_of m) (m_lastEntry m)) in *.
    destruct ((d =? e_delta ei) && (p =? e_pidDelta ei)).
    + set (ei' := mkE _ _ _ _).
      destruct (view_set_last m ei' Hw Hne) as (Hv' & Hw').
      split; [|exact Hw'].
      change (mkM (m_started m) (m_next m) (m_nextPid m) (m_delta m) (m_pidDelta m)
                  (m_lastEntry m) (Some (set_nth (Z.to_nat (m_lastEntry m)) ei' (entries_of m))))
        with (set_entries m (m_lastEntry m) (set_nth (Z.to_nat (m_lastEntry m)) ei' (entries_of m))).
      rewrite abs_set_entries, Hv', Hv. reflexivity.
    + set (e := mkE _ _ d p).
      assert (Hzl : zlen (ei :: rest) = zlen (entries_of m)).
      { unfold zlen. rewrite <- Hv, view_length. reflexivity. }
      rewrite Hzl.
      destruct (zlen (entries_of m) <? maxEntries) eqn:El.
      * destruct (view_append m e Hw Hne ltac:(lia)) as (Hv' & Hw').
        split; [|exact Hw'].
        change (mkM (m_started m) (m_next m) (m_nextPid m) (m_delta m) (m_pidDelta m)
                    (zlen (entries_of m)) (Some (entries_of m ++ [e])))
          with (set_entries m (zlen (entries_of m)) (entries_of m ++ [e])).
        rewrite abs_set_entries, Hv', Hv. reflexivity.
      * destruct (view_overwrite m e Hw Hne ltac:(lia)) as (Hv' & Hw').
        split; [|exact Hw'].
        change (mkM (m_started m) (m_next m) (m_nextPid m) (m_delta m) (m_pidDelta m)
                    ((m_lastEntry m + 1) mod maxEntries)
                    (Some (set_nth (Z.to_nat ((m_lastEntry m + 1) mod maxEntries)) e (entries_of m))))
          with (set_entries m ((m_lastEntry m + 1) mod maxEntries)
                    (set_nth (Z.to_nat ((m_lastEntry m + 1) mod maxEntries)) e (entries_of m))).
        rewrite abs_set_entries, Hv', Hv. reflexivity.
Qed.

Lemma WfRing_scalars m st nx np dl pd :
  WfRing m -> WfRing (mkM st nx np dl pd (m_lastEntry m) (m_entries m)).
Proof. intros H. exact H. Qed.

Lemma WfRing_reset st nx np dl pd : WfRing (mkM st nx np dl pd 0 None).
Proof.
  unfold WfRing, entries_of; cbn. split; [reflexivity|]. split; [congruence|discriminate].
Qed.

Lemma map_view m s p : WfRing m ->
  fst (pm_map m s p) = fst (l1_map (abs m) s p) /\
  abs (snd (pm_map m s p)) = snd (l1_map (abs m) s p) /\
  WfRing (snd (pm_map m s p)).
Proof.
  intros Hw. unfold pm_map, l1_map. cbn [l_delta l_nil l_started l_next abs].
  replace (match m_entries m with Some _ => false | None => true end) with (is_nil m) by reflexivity.
  destruct ((m_delta m =? 0) && is_nil m).
  - destruct (negb (m_started m) || (cmp16 (m_next m) s <=? 0) || (window <? w16 (m_next m - s))); cbn [fst snd].
    + split; [reflexivity|]. split; [reflexivity|]. apply WfRing_scalars. exact Hw.
    + auto.
  - destruct (cmp16 (m_next m) s <=? 0).
    + destruct (window <? w16 (s - m_next m)); cbn [fst snd].
      * split; [reflexivity|]. split; [|apply WfRing_reset].
        unfold abs, l1_reset, is_nil, view, pm_reset; cbn. reflexivity.
      * destruct (retire_view m Hw) as (Hr & Hwr).
        destruct (add_mapping_view (pm_retire m) s (m_delta (pm_retire m)) (m_pidDelta (pm_retire m)) Hwr)
          as (Ha & Hwa).
        set (m1 := add_mapping (pm_retire m) s (m_delta (pm_retire m)) (m_pidDelta (pm_retire m))) in *.
        rewrite <- Hr.
        change (l_delta (abs (pm_retire m))) with (m_delta (pm_retire m)).
        change (l_pidDelta (abs (pm_retire m))) with (m_pidDelta (pm_retire m)).
        rewrite <- Ha.
        split; [reflexivity|]. split; [reflexivity|]. apply WfRing_scalars. exact Hwa.
    + destruct (window <? w16 (m_next m - s)); cbn [fst snd].
      * split; [reflexivity|]. split; [|apply WfRing_reset].
        unfold abs, l1_reset, is_nil, view, pm_reset; cbn. reflexivity.
      * rewrite (direct_view m s Hw). auto.
Qed.

Lemma drop_view m s p : WfRing m ->
  fst (pm_drop m s p) = fst (l1_drop (abs m) s p) /\
  abs (snd (pm_drop m s p)) = snd (l1_drop (abs m) s p) /\
  WfRing (snd (pm_drop m s p)).
Proof.
  intros Hw. unfold pm_drop, l1_drop. cbn [l_started l_next l_view abs].
  destruct (negb (m_started m) || negb (s =? m_next m)); cbn [fst snd]; [auto|].
  set (m0 := mkM (m_started m) (m_next m) (m_nextPid m) (m_delta m) (m_pidDelta m) (m_lastEntry m)
                 (if zlen (entries_of m) =? 0 then Some [mkE (w16 (s - window)) window 0 0] else m_entries m)).
  assert (H0 : abs m0 = match view m with
                        | [] => with_view (abs m) [mkE (w16 (s - window)) window 0 0]
                        | _ => abs m end /\ WfRing m0).
  { destruct (entries_of m) as [|e0 es0] eqn:E.
    - assert (Hl : m_lastEntry m = 0) by (destruct Hw as (H & _); apply H; exact E).
      rewrite (view_nil m E).
      unfold m0. rewrite ?E. cbn [zlen length Z.of_nat Z.eqb].
      rewrite Hl.
      change (mkM (m_started m) (m_next m) (m_nextPid m) (m_delta m) (m_pidDelta m) 0
                  (Some [mkE (w16 (s - window)) window 0 0]))
        with (set_entries m 0 [mkE (w16 (s - window)) window 0 0]).
      destruct (view_single m (mkE (w16 (s - window)) window 0 0) 0 eq_refl) as (Hv & Hw').
      split; [|exact Hw']. rewrite abs_set_entries, Hv. reflexivity.
    - unfold m0. rewrite ?E.
      replace (zlen (e0 :: es0) =? 0) with false by (unfold zlen; cbn [length]; lia).
      assert (Hm : mkM (m_started m) (m_next m) (m_nextPid m) (m_delta m) (m_pidDelta m)
                       (m_lastEntry m) (m_entries m) = m) by (destruct m; reflexivity).
      rewrite Hm.
      assert (Hne : entries_of m <> []) by (rewrite E; discriminate).
      destruct (view m) eqn:Ev; [apply view_nil_iff in Ev; contradiction|].
      auto. }
  destruct H0 as (Ha0 & Hw0).
  destruct (retire_view m0 Hw0) as (Hr & Hwr).
  fold m0.
  split; [reflexivity|]. split.
  - rewrite <- Ha0. rewrite <- Hr. reflexivity.
  - apply WfRing_scalars. exact Hwr.
Qed.

Lemma WfRing_init : WfRing pm_init.
Proof. apply WfRing_reset. Qed.
Lemma abs_init : abs pm_init = l1_init.
Proof. reflexivity. Qed.

(* ---- the refinement theorem: L0 and L1 produce the same outputs ---- *)
Lemma step_view m o : WfRing m ->
  snd (step m o) = snd (l1_step (abs m) o) /\
  abs (fst (step m o)) = fst (l1_step (abs m) o) /\
  WfRing (fst (step m o)).
Proof.
  intros Hw. destruct o as [s p|s p|s]; cbn [step l1_step].
  - destruct (map_view m s p Hw) as (H1 & H2 & H3).
    destruct (pm_map m s p) as [[[ok s'] p'] m']. destruct (l1_map (abs m) s p) as [[[ok2 s2] p2] a'].
    cbn [fst snd] in *. inversion H1; subst. auto.
  - destruct (drop_view m s p Hw) as (H1 & H2 & H3).
    destruct (pm_drop m s p) as [ok m']. destruct (l1_drop (abs m) s p) as [ok2 a'].
    cbn [fst snd] in *. subst. auto.
  - rewrite (reverse_view m s Hw).
    destruct (l1_reverse (abs m) s) as [[ok s'] p']. cbn [fst snd]. auto.
Qed.

Fixpoint run0 (m : pmap) (ops : list op) : list out :=
  match ops with [] => [] | o :: ops' => snd (step m o) :: run0 (fst (step m o)) ops' end.
Fixpoint run1 (a : l1) (ops : list op) : list out :=
  match ops with [] => [] | o :: ops' => snd (l1_step a o) :: run1 (fst (l1_step a o)) ops' end.

Lemma L0_refines_L1 ops : forall m, WfRing m -> run0 m ops = run1 (abs m) ops.
Proof.
  induction ops as [|o ops IH]; intros m Hw; cbn [run0 run1]; [reflexivity|].
  destruct (step_view m o Hw) as (H1 & H2 & H3).
  rewrite H1, <- H2. f_equal. apply IH. exact H3.
Qed.

(* C14, part 2: steps that are NEUTRAL for the user lists.  A world step is
   neutral if no client changes identity, group, username, permissions or
   closed flag, every queue grows by actions the fold ignores, every outbox
   grows by messages the fold ignores, and no group changes its name,
   members or recording flag.  Most of the signalling code is neutral;
   the tactic [ntl] proves it by following the structure of the term. *)
From Coq Require Import ZArith List Bool String Arith Lia.
From Galene Require Import Generated.Guards Model.Signal Model.SignalUsers
  Proofs.SignalFrame Proofs.SignalSafe Proofs.SignalUsersBase.
Import ListNotations.
Open Scope string_scope.
Open Scope list_scope.

Definition core (c : client) : str * option str * str * list str * bool :=
  (c_id c, c_group c, c_username c, c_perms c, c_closed c).

Definition cext (c c' : client) : Prop :=
  core c' = core c /\
  exists qa oa, c_queue c' = c_queue c ++ qa /\ forallb nact qa = true /\
                c_out c' = c_out c ++ oa /\ forallb nmsg oa = true.

Definition gkey (g : group) : str * list nat * bool := (g_name g, g_members g, g_recording g).

Definition gsame (w w' : world) : Prop := map gkey (w_groups w') = map gkey (w_groups w).

Definition neutral (w w' : world) : Prop :=
  (forall i, match get_client w i with
             | Some c => exists c', get_client w' i = Some c' /\ cext c c'
             | None => get_client w' i = None
             end) /\ gsame w w'.

Lemma cext_refl : forall c, cext c c.
Proof.
  intros c. split; [reflexivity|]. exists [], []. rewrite !app_nil_r. auto.
Qed.

Lemma cext_trans : forall a b c, cext a b -> cext b c -> cext a c.
Proof.
  intros a b c [Hc1 (q1 & o1 & Hq1 & Hn1 & Ho1 & Hm1)] [Hc2 (q2 & o2 & Hq2 & Hn2 & Ho2 & Hm2)].
  split; [congruence|]. exists (q1 ++ q2), (o1 ++ o2).
  rewrite Hq2, Hq1, Ho2, Ho1, !app_assoc, !forallb_app, Hn1, Hn2, Hm1, Hm2. auto.
Qed.

Lemma neutral_refl : forall w, neutral w w.
Proof.
  intros w. split; [|reflexivity]. intros i. destruct (get_client w i) as [c|]; [|reflexivity].
  exists c. split; [reflexivity | apply cext_refl].
Qed.

Lemma neutral_trans : forall a b c, neutral a b -> neutral b c -> neutral a c.
Proof.
  intros a b c [H1 G1] [H2 G2]. split; [|unfold gsame in *; congruence].
  intros i. specialize (H1 i). specialize (H2 i).
  destruct (get_client a i) as [ca|].
  - destruct H1 as (cb & Hb & E1). rewrite Hb in H2. destruct H2 as (cc & Hc & E2).
    exists cc. split; [exact Hc | eapply cext_trans; eauto].
  - rewrite H1 in H2. exact H2.
Qed.

(* a change of one client *)
Lemma neutral_upd : forall w h f, (forall c, cext c (f c)) -> neutral w (upd w h f).
Proof.
  intros w h f Hf. split; [|reflexivity]. intros i. rewrite get_client_upd.
  destruct (get_client w i) as [c|]; destruct (Nat.eqb i h); cbn [option_map]; try reflexivity.
  - exists (f c). split; [reflexivity | apply Hf].
  - exists c. split; [reflexivity | apply cext_refl].
Qed.

Lemma neutral_enq : forall w h a, nact a = true -> neutral w (enq w h a).
Proof.
  intros w h a Ha. apply neutral_upd. intros c. split; [reflexivity|].
  exists [a], []. cbn. rewrite Ha, app_nil_r. auto.
Qed.

Lemma neutral_send : forall w h m, nmsg m = true -> neutral w (send w h m).
Proof.
  intros w h m Hm. apply neutral_upd. intros c. split; [reflexivity|].
  exists [], [m]. cbn. rewrite Hm, app_nil_r. auto.
Qed.

Lemma cext_fields : forall c c',
  core c' = core c -> c_queue c' = c_queue c -> c_out c' = c_out c -> cext c c'.
Proof.
  intros c c' H1 H2 H3. split; [exact H1|]. exists [], []. rewrite !app_nil_r. auto.
Qed.

Lemma neutral_upd_fields : forall w h f,
  (forall c, core (f c) = core c) -> (forall c, c_queue (f c) = c_queue c) ->
  (forall c, c_out (f c) = c_out c) -> neutral w (upd w h f).
Proof. intros. apply neutral_upd. intros c. apply cext_fields; auto. Qed.

Lemma neutral_fold : forall (A : Type) (F : world -> A -> world) l w,
  (forall w a, In a l -> neutral w (F w a)) -> neutral w (fold_left F l w).
Proof.
  intros A F l. induction l as [|a l IH]; intros w H; cbn [fold_left].
  - apply neutral_refl.
  - eapply neutral_trans; [apply H; left; reflexivity|].
    apply IH. intros. apply H. right. assumption.
Qed.

Lemma neutral_enq_all : forall w hs a, nact a = true -> neutral w (enq_all w hs a).
Proof. intros. unfold enq_all. apply neutral_fold. intros. apply neutral_enq. assumption. Qed.
Lemma neutral_send_all : forall w hs m, nmsg m = true -> neutral w (send_all w hs m).
Proof. intros. unfold send_all. apply neutral_fold. intros. apply neutral_send. assumption. Qed.

(* a change of groups that keeps name, members and recording flag *)
Lemma neutral_upd_group : forall w g f, (forall gr, gkey (f gr) = gkey gr) -> neutral w (upd_group w g f).
Proof.
  intros w g f Hf. split.
  - intros i. unfold upd_group, get_client. cbn.
    destruct (nth_error (w_clients w) i) as [c|]; [|reflexivity].
    exists c. split; [reflexivity | apply cext_refl].
  - unfold gsame, upd_group. cbn. rewrite map_map. apply map_ext.
    intros gr. destruct (String.eqb (g_name gr) g); [apply Hf | reflexivity].
Qed.

Lemma neutral_tokens : forall w ts n, neutral w (wset_tokens w ts n).
Proof.
  intros. split; [|reflexivity]. intros i. unfold get_client. cbn.
  destruct (nth_error (w_clients w) i) as [c|]; [|reflexivity].
  exists c. split; [reflexivity | apply cext_refl].
Qed.

Lemma neutral_send_error : forall w h c v, neutral w (send_error w h c v).
Proof. intros. apply neutral_send. reflexivity. Qed.
Lemma neutral_terror : forall w h k e v, neutral w (terror w h k e v).
Proof. intros. apply neutral_send. reflexivity. Qed.

Lemma neutral_peel : forall w w1 w2, neutral w1 w2 -> neutral w w1 -> neutral w w2.
Proof. intros. eapply neutral_trans; eauto. Qed.

Lemma neutral_del_up_conn : forall w h id push, neutral w (fst (del_up_conn w h id push)).
Proof.
  intros. unfold del_up_conn.
  destruct (get_client w h) as [c|]; [|apply neutral_refl].
  destruct (find_up c id); [|apply neutral_refl]. cbn [fst].
  assert (H : neutral w (upd w h (fun c0 => set_up c0 (del_up_list (c_up c0) id)))).
  { apply neutral_upd_fields; reflexivity. }
  destruct (c_group c); [destruct push|]; try exact H.
  eapply neutral_trans; [exact H | apply neutral_enq_all; reflexivity].
Qed.

Lemma neutral_del_down_conn : forall w h id, neutral w (del_down_conn w h id).
Proof. intros. apply neutral_upd_fields; reflexivity. Qed.
Lemma neutral_close_down_conn : forall w h id, neutral w (close_down_conn w h id).
Proof.
  intros. eapply neutral_trans; [apply neutral_del_down_conn | apply neutral_send; reflexivity].
Qed.
Lemma neutral_fail_up_connection : forall w h c id m, neutral w (fail_up_connection w h c id m).
Proof.
  intros. unfold fail_up_connection. destruct (is_empty id), (is_empty m).
  - apply neutral_refl.
  - apply neutral_send_error.
  - apply neutral_send; reflexivity.
  - eapply neutral_peel; [apply neutral_send_error | apply neutral_send; reflexivity].
Qed.

Lemma neutral_del_all_ups : forall l w h, neutral w (del_all_ups l w h).
Proof.
  intros l. induction l as [|u l IH]; intros w h; cbn [del_all_ups].
  - apply neutral_refl.
  - eapply neutral_trans; [apply neutral_del_up_conn | apply IH].
Qed.

Lemma neutral_drop_all_ups : forall l w h c, neutral w (drop_all_ups l w h c).
Proof.
  intros l. induction l as [|u l IH]; intros w h c; cbn [drop_all_ups].
  - apply neutral_refl.
  - destruct (del_up_conn w h (up_id u) true) as [w1 found] eqn:E.
    assert (H1 : neutral w w1).
    { replace w1 with (fst (del_up_conn w h (up_id u) true)) by now rewrite E.
      apply neutral_del_up_conn. }
    destruct found.
    + eapply neutral_trans; [exact H1|].
      eapply neutral_trans; [apply neutral_fail_up_connection | apply IH].
    + eapply neutral_trans; [exact H1 | apply IH].
Qed.

Lemma neutral_request_conns : forall w t g id, neutral w (request_conns w t g id).
Proof. intros. apply neutral_enq_all. reflexivity. Qed.

Lemma neutral_push_conn_notracks : forall w h id r, neutral w (push_conn_notracks w h id r).
Proof.
  intros. unfold push_conn_notracks. destruct (is_empty r).
  - apply neutral_close_down_conn.
  - eapply neutral_trans; [apply neutral_del_down_conn|].
    eapply neutral_trans; [apply neutral_close_down_conn | apply neutral_close_down_conn].
Qed.

(* the side conditions: a constructor application computes *)
Ltac ntl_side := first [reflexivity | cbn; reflexivity | assumption].

Ltac ntl_one :=
  lazymatch goal with
  | |- neutral ?w ?w => apply neutral_refl
  | |- neutral _ (enq _ _ _) => eapply neutral_peel; [apply neutral_enq; ntl_side|]
  | |- neutral _ (send _ _ _) => eapply neutral_peel; [apply neutral_send; ntl_side|]
  | |- neutral _ (send_error _ _ _ _) => eapply neutral_peel; [apply neutral_send_error|]
  | |- neutral _ (terror _ _ _ _ _) => eapply neutral_peel; [apply neutral_terror|]
  | |- neutral _ (enq_all _ _ _) => eapply neutral_peel; [apply neutral_enq_all; ntl_side|]
  | |- neutral _ (send_all _ _ _) => eapply neutral_peel; [apply neutral_send_all; ntl_side|]
  | |- neutral _ (upd_group _ _ _) =>
      eapply neutral_peel; [apply neutral_upd_group; intro; reflexivity|]
  | |- neutral _ (wset_tokens _ _ _) => eapply neutral_peel; [apply neutral_tokens|]
  | |- neutral _ (close_down_conn _ _ _) => eapply neutral_peel; [apply neutral_close_down_conn|]
  | |- neutral _ (del_down_conn _ _ _) => eapply neutral_peel; [apply neutral_del_down_conn|]
  | |- neutral _ (fail_up_connection _ _ _ _ _) => eapply neutral_peel; [apply neutral_fail_up_connection|]
  | |- neutral _ (request_conns _ _ _ _) => eapply neutral_peel; [apply neutral_request_conns|]
  | |- neutral _ (push_conn_notracks _ _ _ _) => eapply neutral_peel; [apply neutral_push_conn_notracks|]
  | |- neutral _ (fst (del_up_conn _ _ _ _)) => eapply neutral_peel; [apply neutral_del_up_conn|]
  | |- neutral _ (del_all_ups _ _ _) => eapply neutral_peel; [apply neutral_del_all_ups|]
  | |- neutral _ (drop_all_ups _ _ _ _) => eapply neutral_peel; [apply neutral_drop_all_ups|]
  | |- neutral _ (fold_left _ _ _) => eapply neutral_peel; [apply neutral_fold; intros|]
  | |- neutral _ (upd _ _ _) =>
      eapply neutral_peel; [apply neutral_upd_fields; intro; reflexivity|]
  | |- neutral _ (if ?b then _ else _) => destruct b
  | |- neutral _ (match ?x with _ => _ end) => destruct x
  end.
Ltac ntl := repeat ntl_one.

(* ------------------------------------------------------------------ *)
(* What neutrality preserves                                           *)

Lemma find_group_in_gkey : forall gs gs' name,
  map gkey gs' = map gkey gs ->
  option_map gkey (find_group_in gs' name) = option_map gkey (find_group_in gs name).
Proof.
  induction gs as [|g gs IH]; intros [|g' gs'] name H; cbn in H; try discriminate; [reflexivity|].
  inversion H as [[H1 H2 H3 H4]]. cbn [find_group_in]. rewrite H1.
  destruct (String.eqb (g_name g) name).
  - cbn. unfold gkey. congruence.
  - apply IH. exact H4.
Qed.

Lemma gsame_members : forall w w' g, gsame w w' -> members w' g = members w g.
Proof.
  intros w w' g H. unfold members, find_group.
  pose proof (find_group_in_gkey _ _ g H) as E.
  destruct (find_group_in (w_groups w') g), (find_group_in (w_groups w) g); cbn in E;
    try discriminate; [|reflexivity].
  unfold gkey in E. congruence.
Qed.

Lemma gsame_recording : forall w w' g, gsame w w' -> recording w' g = recording w g.
Proof.
  intros w w' g H. unfold recording, find_group.
  pose proof (find_group_in_gkey _ _ g H) as E.
  destruct (find_group_in (w_groups w') g), (find_group_in (w_groups w) g); cbn in E;
    try discriminate; [|reflexivity].
  unfold gkey in E. congruence.
Qed.

Lemma gsame_names : forall w w', gsame w w' -> map g_name (w_groups w') = map g_name (w_groups w).
Proof.
  intros w w' H. unfold gsame in H.
  assert (E : forall gs, map g_name gs = map (fun k => fst (fst k)) (map gkey gs)).
  { intros. rewrite map_map. reflexivity. }
  rewrite !E, H. reflexivity.
Qed.

Lemma neutral_client : forall w w' i c, neutral w w' -> get_client w i = Some c ->
  exists c', get_client w' i = Some c' /\ cext c c'.
Proof. intros w w' i c [H _] Hc. specialize (H i). rewrite Hc in H. exact H. Qed.

Lemma neutral_client_inv : forall w w' i c', neutral w w' -> get_client w' i = Some c' ->
  exists c, get_client w i = Some c /\ cext c c'.
Proof.
  intros w w' i c' [H _] Hc. specialize (H i).
  destruct (get_client w i) as [c|].
  - destruct H as (c'' & E & Hx). exists c. split; [reflexivity|]. congruence.
  - congruence.
Qed.

Lemma core_id : forall c c', core c' = core c -> c_id c' = c_id c.
Proof. unfold core. intros. congruence. Qed.
Lemma core_group : forall c c', core c' = core c -> c_group c' = c_group c.
Proof. unfold core. intros. congruence. Qed.
Lemma core_user : forall c c', core c' = core c -> c_username c' = c_username c.
Proof. unfold core. intros. congruence. Qed.
Lemma core_perms : forall c c', core c' = core c -> c_perms c' = c_perms c.
Proof. unfold core. intros. congruence. Qed.
Lemma core_closed : forall c c', core c' = core c -> c_closed c' = c_closed c.
Proof. unfold core. intros. congruence. Qed.

(* C17, finite part: every row of the route table extracted from
   webserver/api.go (Generated/Routes.v, regenerated on every run) has an
   admissible guard.  [routes_ok] is checked by computation; adding a branch
   whose effect is not dominated by the right check makes it fail. *)
From Coq Require Import List String Bool.
From Galene Require Import Generated.Routes.
Import ListNotations.
Open Scope string_scope.

Definition admin_guard (g : guard) : bool :=
  match g with g_server_admin | g_group_admin => true | _ => false end.

Definition guard_eqb (a b : guard) : bool :=
  match a, b with
  | g_none, g_none | g_server_admin, g_server_admin | g_group_admin, g_group_admin
  | g_admin_or_own_password, g_admin_or_own_password | g_notfound_only, g_notfound_only
  | g_unknown, g_unknown => true
  | _, _ => false
  end.

Definition is_delegation (r : route) : bool := prefix "handler:" (rt_effect r).
Definition callee (r : route) : string := substring 8 (length (rt_effect r) - 8) (rt_effect r).
Definition is_notfound (r : route) : bool := String.eqb (rt_effect r) "notFound".

Fixpoint smem (x : string) (l : list string) : bool :=
  match l with [] => false | y :: t => String.eqb x y || smem x t end.

(* what a row must satisfy *)
Definition route_ok (r : route) : bool :=
  match rt_guard r with
  | g_unknown => false
  | g =>
      if is_notfound r then
        (* a 404 leaf: before any check, or after the admin check *)
        match g with g_notfound_only | g_server_admin | g_group_admin => true | _ => false end
      else if is_delegation r then
        (* the callee is in the table (it is checked on its own, from no
           guard), and the group it checks is the caller's *)
        smem (callee r) handlers &&
        match rt_scope r with sc_none | sc_group => true | _ => false end
      else
        match rt_scope r with
        | sc_global => guard_eqb g g_server_admin
        | sc_group =>
            admin_guard g ||
            (guard_eqb g g_admin_or_own_password && String.eqb (rt_effect r) "group.SetUserPassword"
             && rt_nonwild r)
        | sc_token_read => admin_guard g && String.eqb (rt_effect r) "token.Get"
        | sc_token_checked => admin_guard g
        | sc_token_unchecked => false
        | sc_none =>
            admin_guard g ||
            (guard_eqb g g_admin_or_own_password && String.eqb (rt_effect r) "methodNotAllowed"
             && rt_nonwild r)
        | sc_other => admin_guard g
        end
  end.

(* every effect / read (not a 404 leaf, not a delegation) comes after the CORS
   short-cut, so that a preflight never reaches it *)
Definition cors_ok (r : route) : bool :=
  if is_notfound r || is_delegation r then true else rt_cors r.

Definition handler_has_rows (h : string) : bool :=
  existsb (fun r => String.eqb (rt_handler r) h) routes.

Definition api_mounts : list (string * string) :=
  filter (fun m => prefix "/galene-api" (fst m)) mounts.

Definition updates_atomic : bool :=
  forallb snd update_functions &&
  forallb (fun n => existsb (fun u => String.eqb n (fst u)) update_functions)
    ["UpdateDescription"; "DeleteDescription"; "UpdateUser"; "DeleteUser"; "SetUserPassword"; "SetKeys"].

Definition table_ok : bool :=
  forallb route_ok routes && forallb cors_ok routes &&
  forallb handler_has_rows handlers &&
  smem "apiHandler" handlers &&
  (* the table is about the handler that is mounted *)
  match api_mounts with
  | [(p, h)] => String.eqb p "/galene-api/" && String.eqb h "apiHandler"
  | _ => false
  end &&
  (* checkAdmin asks for no user, the password check for the addressed user *)
  match check_defs with
  | [(c1, a1); (c2, a2)] =>
      String.eqb c1 "checkAdmin" && String.eqb a1 """""" &&
      String.eqb c2 "checkAdminOrExplicitPassword" && String.eqb a2 "user"
  | _ => false
  end &&
  (* every function of description.go that rewrites or removes a group file
     does its whole read-modify-write under the description lock: the
     requests are atomic steps, as the model takes them *)
  updates_atomic.

Lemma table_ok_true : table_ok = true.
Proof. vm_compute. reflexivity. Qed.

Lemma routes_ok : forall r, In r routes -> route_ok r = true /\ cors_ok r = true.
Proof.
  intros r Hr.
  pose proof table_ok_true as T. unfold table_ok in T.
  apply andb_prop in T; destruct T as [T _].
  apply andb_prop in T; destruct T as [T _].
  apply andb_prop in T; destruct T as [T _].
  apply andb_prop in T; destruct T as [T _].
  apply andb_prop in T; destruct T as [T _].
  apply andb_prop in T; destruct T as [T1 T2].
  split.
  - exact (proj1 (forallb_forall route_ok routes) T1 r Hr).
  - exact (proj1 (forallb_forall cors_ok routes) T2 r Hr).
Qed.

(* the reading of [route_ok] used in the property statement *)
Lemma route_ok_meaning : forall r, route_ok r = true ->
  rt_guard r <> g_unknown /\
  (is_notfound r = true \/ is_delegation r = true \/
   admin_guard (rt_guard r) = true \/
   (rt_guard r = g_admin_or_own_password /\ rt_nonwild r = true /\
    (rt_effect r = "group.SetUserPassword" \/ rt_effect r = "methodNotAllowed"))).
Proof.
  intros r H. unfold route_ok in H.
  destruct (rt_guard r) eqn:G; try discriminate; (split; [discriminate|]);
    destruct (is_notfound r); auto; destruct (is_delegation r); auto;
    destruct (rt_scope r); cbn in H; try discriminate; auto.
  all: try (right; right; right; split; [reflexivity|];
            apply andb_prop in H; destruct H as [H1 H2];
            split; [exact H2|]; apply String.eqb_eq in H1; auto).
Qed.

Lemma updates_atomic_true : updates_atomic = true.
Proof. vm_compute. reflexivity. Qed.

Lemma update_functions_locked : forall n l, In (n, l) update_functions -> l = true.
Proof.
  intros n l Hin. pose proof updates_atomic_true as T. unfold updates_atomic in T.
  apply andb_prop in T. destruct T as [T _].
  exact (proj1 (forallb_forall snd update_functions) T (n, l) Hin).
Qed.

Lemma routes_nonempty : (10 <= List.length routes)%nat.
Proof. vm_compute. repeat constructor. Qed.

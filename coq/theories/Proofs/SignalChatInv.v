(* Membership invariant of Model/Signal.v over ALL operation sequences:
   the member list of a group and the c_group fields of the clients describe
   the same relation, member lists have no duplicates, and the ids of the
   members of one group are pairwise different.  C15_addressing needs it to
   say "exactly the members" and "THE member with id d". *)
From Coq Require Import ZArith List Bool String Arith Lia Permutation.
From Galene Require Import Generated.Guards Model.Signal Proofs.SignalFrame Proofs.SignalSafe
  Proofs.SignalChatFrame.
Import ListNotations.
Open Scope string_scope.
Open Scope list_scope.

Definition reach (ops : list op) (w : world) : Prop := run_ops empty_world ops = Some w.

Record MInv (w : world) : Prop := {
  mi_mem_group : forall g j, In j (members w g) ->
    exists c, get_client w j = Some c /\ c_group c = Some g;
  mi_group_mem : forall j c g, get_client w j = Some c -> c_group c = Some g -> In j (members w g);
  mi_nodup : forall g, NoDup (members w g);
  mi_ids : forall g j1 j2 c1 c2, In j1 (members w g) -> In j2 (members w g) ->
    get_client w j1 = Some c1 -> get_client w j2 = Some c2 -> c_id c1 = c_id c2 -> j1 = j2 }.

Definition ig_same (w w' : world) : Prop :=
  forall i, option_map ig (get_client w' i) = option_map ig (get_client w i).

Lemma ig_get : forall w w' i c', ig_same w w' -> get_client w' i = Some c' ->
  exists c, get_client w i = Some c /\ c_id c = c_id c' /\ c_group c = c_group c'.
Proof.
  intros w w' i c' H Hc. specialize (H i). rewrite Hc in H. cbn in H.
  destruct (get_client w i) as [c|]; [|discriminate]. cbn in H. unfold ig in H.
  exists c. inversion H. auto.
Qed.

Lemma ig_same_sym : forall w w', ig_same w w' -> ig_same w' w.
Proof. intros w w' H i. symmetry. apply H. Qed.

Lemma minv_stable : forall w w', MInv w -> ig_same w w' ->
  (forall g, members w' g = members w g) -> MInv w'.
Proof.
  intros w w' [M1 M2 M3 M4] Hig Hm. split.
  - intros g j Hj. rewrite Hm in Hj. destruct (M1 g j Hj) as (c & Hc & Hg).
    destruct (ig_get w' w j c (ig_same_sym _ _ Hig) Hc) as (c' & Hc' & _ & Hg').
    exists c'. split; [exact Hc' | congruence].
  - intros j c' g Hc' Hg. rewrite Hm.
    destruct (ig_get w w' j c' Hig Hc') as (c & Hc & _ & Hgc).
    eapply M2; [exact Hc | congruence].
  - intros g. rewrite Hm. apply M3.
  - intros g j1 j2 c1' c2' H1 H2 Hc1 Hc2 Hid. rewrite Hm in H1, H2.
    destruct (ig_get w w' j1 c1' Hig Hc1) as (c1 & Hd1 & Hi1 & _).
    destruct (ig_get w w' j2 c2' Hig Hc2) as (c2 & Hd2 & Hi2 & _).
    eapply M4; eauto. congruence.
Qed.

Lemma fr_ig_same : forall E {B} (q : group -> B) w w', Fr E q None w w' -> ig_same w w'.
Proof. intros E B q w w' (A & _ & _) i. apply A. discriminate. Qed.

Lemma minv_fr : forall E w w', MInv w -> Fr E q_mem None w w' -> MInv w'.
Proof.
  intros E w w' Hi Hf. eapply minv_stable; [exact Hi | eapply fr_ig_same; eauto |].
  eapply fr_members; eauto.
Qed.

(* ------------------------------------------------------------------ *)
(* group table                                                        *)

Definition q_id (g : group) : group := g.

Lemma fr_groups_eq : forall E x w w', Fr E q_id x w w' -> w_groups w' = w_groups w.
Proof. intros E x w w' (_ & H & _). unfold q_id in H. rewrite !map_id in H. exact H. Qed.

Lemma find_group_upd_group : forall w g f g',
  (forall gr, g_name (f gr) = g_name gr) ->
  find_group (upd_group w g f) g' =
  option_map (fun gr => if String.eqb (g_name gr) g then f gr else gr) (find_group w g').
Proof.
  intros w g f g' Hf. unfold find_group, upd_group. cbn [w_groups wset_groups].
  induction (w_groups w) as [|a gs IH]; cbn; [reflexivity|].
  assert (Hn : g_name (if String.eqb (g_name a) g then f a else a) = g_name a)
    by (destruct (String.eqb (g_name a) g); [apply Hf | reflexivity]).
  rewrite Hn. destruct (String.eqb (g_name a) g'); [reflexivity | exact IH].
Qed.

Lemma find_group_name : forall w n g, find_group w n = Some g -> g_name g = n.
Proof. intros w n g. apply find_group_in_name. Qed.

Lemma members_upd_group : forall w g f g',
  (forall gr, g_name (f gr) = g_name gr) ->
  members (upd_group w g f) g' =
  if String.eqb g' g
  then match find_group w g' with Some gr => g_members (f gr) | None => [] end
  else members w g'.
Proof.
  intros w g f g' Hf. unfold members. rewrite find_group_upd_group by exact Hf.
  destruct (find_group w g') as [gr|] eqn:Eg; cbn.
  - rewrite (find_group_name _ _ _ Eg). destruct (String.eqb g' g); reflexivity.
  - destruct (String.eqb g' g); reflexivity.
Qed.

Lemma members_groups_eq : forall w w', w_groups w' = w_groups w -> forall g, members w' g = members w g.
Proof. intros w w' H g. unfold members, find_group. rewrite H. reflexivity. Qed.

Lemma get_member_same : forall w w' g id, ig_same w w' -> members w' g = members w g ->
  get_member w' g id = get_member w g id.
Proof.
  intros w w' g id Hig Hm. unfold get_member. rewrite Hm. clear Hm.
  induction (members w g) as [|j l IH]; cbn; [reflexivity|].
  assert (Hj : match get_client w' j with Some c => String.eqb (c_id c) id | None => false end =
               match get_client w j with Some c => String.eqb (c_id c) id | None => false end).
  { specialize (Hig j). destruct (get_client w' j) as [a|], (get_client w j) as [b|];
      cbn in Hig; try discriminate; [|reflexivity].
    unfold ig in Hig. inversion Hig. reflexivity. }
  rewrite Hj, IH. reflexivity.
Qed.

Lemma get_member_none : forall w g id j c,
  get_member w g id = None -> In j (members w g) -> get_client w j = Some c -> c_id c <> id.
Proof.
  intros w g id j c Hn Hj Hc Heq. unfold get_member in Hn.
  eapply find_none in Hn; [|exact Hj]. cbn in Hn. rewrite Hc in Hn.
  subst. rewrite String.eqb_refl in Hn. discriminate.
Qed.

Lemma get_member_some : forall w g id j,
  get_member w g id = Some j ->
  In j (members w g) /\ exists c, get_client w j = Some c /\ c_id c = id.
Proof.
  intros w g id j H. unfold get_member in H. apply find_some in H. destruct H as [Hin Hp].
  split; [exact Hin|]. destruct (get_client w j) as [c|]; [|discriminate].
  exists c. split; [reflexivity | apply eqb_true; exact Hp].
Qed.

(* ------------------------------------------------------------------ *)
(* leaveGroup                                                         *)

Lemma leave_group_groups : forall w h c g,
  get_client w h = Some c -> c_group c = Some g ->
  w_groups (leave_group w h) =
  w_groups (upd_group w g (fun gr =>
     gset_members gr (filter (fun x => negb (Nat.eqb x h)) (g_members gr)))).
Proof.
  intros w h c g Hc Hg. unfold leave_group. rewrite Hc, Hg. cbv zeta.
  match goal with |- w_groups ?a = _ => assert (Hf : Fr none q_id (Some h)
     (upd_group (upd (del_all_ups (c_up c) w h) h (fun c => set_down c [])) g (fun gr =>
        gset_members gr (filter (fun x => negb (Nat.eqb x h)) (g_members gr)))) a) by frm end.
  apply fr_groups_eq in Hf. rewrite Hf.
  assert (Hd : w_groups (del_all_ups (c_up c) w h) = w_groups w).
  { apply (fr_groups_eq none None). apply fr_del_all_ups. }
  unfold upd_group. cbn [w_groups wset_groups upd wset_clients]. rewrite Hd. reflexivity.
Qed.

Lemma leave_group_members : forall w h c g,
  get_client w h = Some c -> c_group c = Some g ->
  forall g', members (leave_group w h) g' =
    if String.eqb g' g then filter (fun x => negb (Nat.eqb x h)) (members w g') else members w g'.
Proof.
  intros w h c g Hc Hg g'.
  rewrite (members_groups_eq _ _ (leave_group_groups w h c g Hc Hg)).
  rewrite members_upd_group by (intro; reflexivity).
  unfold members. destruct (String.eqb g' g); [|reflexivity].
  destruct (find_group w g'); reflexivity.
Qed.

Lemma leave_group_self : forall w h c g,
  get_client w h = Some c -> c_group c = Some g ->
  exists c', get_client (leave_group w h) h = Some c' /\ c_group c' = None /\ c_id c' = c_id c.
Proof.
  intros w h c g Hc Hg. unfold leave_group. rewrite Hc, Hg. cbv zeta.
  rewrite get_client_upd, Nat.eqb_refl.
  match goal with |- exists c', option_map _ (get_client ?a h) = _ /\ _ =>
    assert (Hf : Fr none q_hist None w a) by frm;
    destruct (get_client a h) as [c1|] eqn:E1 end.
  - eexists. split; [reflexivity|]. cbn. split; [reflexivity|].
    destruct Hf as (A & _ & _). specialize (A h). rewrite E1, Hc in A. cbn in A.
    unfold ig in A. assert (Hn : Some h <> None) by discriminate.
    specialize (A Hn). inversion A. reflexivity.
  - exfalso. destruct Hf as (A & _ & _). specialize (A h). rewrite E1, Hc in A.
    cbn in A. assert (Hn : Some h <> None) by discriminate. specialize (A Hn). discriminate.
Qed.

Lemma leave_group_others : forall w h i, i <> h ->
  option_map ig (get_client (leave_group w h) i) = option_map ig (get_client w i).
Proof.
  intros w h i Hi. destruct (leave_group_fr none w h) as (A & _ & _). apply A. congruence.
Qed.

Lemma leave_group_nogroup : forall w h c,
  get_client w h = Some c -> c_group c = None -> leave_group w h = w.
Proof. intros w h c Hc Hg. unfold leave_group. rewrite Hc, Hg. reflexivity. Qed.

Lemma leave_group_noclient : forall w h, get_client w h = None -> leave_group w h = w.
Proof. intros w h Hc. unfold leave_group. rewrite Hc. reflexivity. Qed.

Lemma filter_neq_In : forall h j l, In j (filter (fun x => negb (Nat.eqb x h)) l) <-> In j l /\ j <> h.
Proof.
  intros. rewrite filter_In. split; intros [H1 H2]; split; auto.
  - intro; subst. rewrite Nat.eqb_refl in H2. discriminate.
  - apply negb_true_iff. apply Nat.eqb_neq. exact H2.
Qed.

Lemma leave_group_minv : forall w h, MInv w -> MInv (leave_group w h).
Proof.
  intros w h Hi. destruct (get_client w h) as [c|] eqn:Hc;
    [|rewrite leave_group_noclient by exact Hc; exact Hi].
  destruct (c_group c) as [g|] eqn:Hg;
    [|erewrite leave_group_nogroup by eauto; exact Hi].
  pose proof (leave_group_members w h c g Hc Hg) as Hm.
  destruct (leave_group_self w h c g Hc Hg) as (ch & Hch & Hgh & Hidh).
  destruct Hi as [M1 M2 M3 M4].
  (* a member of a group other than g is not h *)
  assert (Hother : forall g' j, In j (members (leave_group w h) g') -> In j (members w g') /\ j <> h).
  { intros g' j Hj. rewrite Hm in Hj. destruct (String.eqb g' g) eqn:Eg.
    - apply filter_neq_In. exact Hj.
    - split; [exact Hj|]. intro; subst j.
      destruct (M1 g' h Hj) as (c0 & Hc0 & Hg0). rewrite Hc in Hc0. inversion Hc0; subst c0.
      rewrite Hg in Hg0. inversion Hg0; subst. rewrite String.eqb_refl in Eg. discriminate. }
  assert (Hget : forall j, j <> h -> forall c', get_client (leave_group w h) j = Some c' ->
            exists c0, get_client w j = Some c0 /\ c_id c0 = c_id c' /\ c_group c0 = c_group c').
  { intros j Hj c' Hc'. pose proof (leave_group_others w h j Hj) as Ho. rewrite Hc' in Ho. cbn in Ho.
    destruct (get_client w j) as [c0|]; [|discriminate]. cbn in Ho. unfold ig in Ho. inversion Ho.
    exists c0. auto. }
  assert (Hget' : forall j, j <> h -> forall c0, get_client w j = Some c0 ->
            exists c', get_client (leave_group w h) j = Some c' /\ c_id c0 = c_id c' /\ c_group c0 = c_group c').
  { intros j Hj c0 Hc0. pose proof (leave_group_others w h j Hj) as Ho. rewrite Hc0 in Ho. cbn in Ho.
    destruct (get_client (leave_group w h) j) as [c'|]; [|discriminate]. cbn in Ho. unfold ig in Ho.
    inversion Ho. exists c'. auto. }
  split.
  - intros g' j Hj. destruct (Hother g' j Hj) as [Hin Hne].
    destruct (M1 g' j Hin) as (c0 & Hc0 & Hg0).
    destruct (Hget' j Hne c0 Hc0) as (c' & Hc' & _ & Hgg). exists c'. split; [exact Hc' | congruence].
  - intros j c' g' Hc' Hg'. destruct (Nat.eq_dec j h) as [->|Hne].
    + rewrite Hch in Hc'. inversion Hc'; subst. congruence.
    + destruct (Hget j Hne c' Hc') as (c0 & Hc0 & _ & Hgg).
      assert (Hin : In j (members w g')) by (eapply M2; [exact Hc0 | congruence]).
      rewrite Hm. destruct (String.eqb g' g); [apply filter_neq_In; auto | exact Hin].
  - intros g'. rewrite Hm. destruct (String.eqb g' g); [apply NoDup_filter|]; apply M3.
  - intros g' j1 j2 c1 c2 H1 H2 Hc1 Hc2 Hid.
    destruct (Hother g' j1 H1) as [Hi1 Hn1]. destruct (Hother g' j2 H2) as [Hi2 Hn2].
    destruct (Hget j1 Hn1 c1 Hc1) as (d1 & Hd1 & Hid1 & _).
    destruct (Hget j2 Hn2 c2 Hc2) as (d2 & Hd2 & Hid2 & _).
    eapply M4; eauto. congruence.
Qed.

Lemma error_close_minv : forall w h e, MInv w -> MInv (error_close w h e).
Proof.
  intros w h e Hi. unfold error_close.
  destruct (get_client w h) as [c|]; [|exact Hi]. cbv zeta.
  apply (leave_group_minv w h) in Hi.
  eapply (minv_fr none); [exact Hi|].
  eapply fr_peel; [apply fr_upd_pres; intro; reflexivity|].
  eapply fr_peel; [apply fr_send, ok_server; reflexivity|].
  destruct e; frm.
Qed.

(* ------------------------------------------------------------------ *)
(* AddClient                                                          *)

(* a successful admission: the group exists, no member has the id, the
   handle is appended to the member list, nothing else changes in the
   group table, and every (id, group) pair is as before *)
Lemma add_client_ok : forall w h c g u pw tk w',
  add_client w h c g u pw tk = (w', None) ->
  find_group w g <> None /\ get_member w g (c_id c) = None /\
  w_groups w' = w_groups (upd_group w g (fun gr => gset_members gr (g_members gr ++ [h]))) /\
  ig_same w w'.
Proof.
  intros w h c g u pw tk w' H.
  pose proof (add_client_fr none _ _ _ _ _ _ _ _ _ H) as Hfr.
  split; [|split; [|split; [|eapply fr_ig_same; exact Hfr]]].
  - unfold add_client in H. destruct (find_group w g); [discriminate | inversion H].
  - unfold add_client in H. cbv zeta in H. destruct (find_group w g) as [gr|]; [|inversion H].
    repeat break_eq; inv_eqs;
    first [ assumption |
    match goal with
    | Hm : get_member ?w1 ?g0 ?id = None |- get_member ?w0 ?g0 _ = None =>
        erewrite <- (get_member_same w0 w1 g0) ; [exact Hm | |]
    end ].
    all: try (apply (fr_ig_same none q_id); frm).
    all: try (apply members_groups_eq; apply (fr_groups_eq none None); frm).
  - unfold add_client in H. cbv zeta in H. destruct (find_group w g) as [gr|]; [|inversion H].
    repeat break_eq; inv_eqs.
    all: match goal with |- w_groups ?a = w_groups (upd_group ?w0 ?g0 ?f) =>
      match a with context [upd_group ?w1 g0 f] =>
        transitivity (w_groups (upd_group w1 g0 f));
        [ apply (fr_groups_eq none None); frm
        | unfold upd_group; cbn [w_groups wset_groups]; f_equal;
          apply (fr_groups_eq none None); frm ] end end.
Qed.

Lemma add_client_fail : forall w h c g u pw tk w' e,
  add_client w h c g u pw tk = (w', Some e) -> w_groups w' = w_groups w /\ ig_same w w'.
Proof.
  intros w h c g u pw tk w' e H.
  pose proof (add_client_fr none _ _ _ _ _ _ _ _ _ H) as Hfr.
  split; [|eapply fr_ig_same; exact Hfr].
  unfold add_client in H. cbv zeta in H.
  repeat break_eq; inv_eqs; try reflexivity.
Qed.

(* ------------------------------------------------------------------ *)
(* join                                                               *)

Lemma minv_join : forall w w' h c g,
  MInv w -> get_client w h = Some c -> c_group c = None ->
  get_member w g (c_id c) = None ->
  (forall g', members w' g' = if String.eqb g' g then members w g' ++ [h] else members w g') ->
  (forall i, i <> h -> option_map ig (get_client w' i) = option_map ig (get_client w i)) ->
  (exists c', get_client w' h = Some c' /\ c_id c' = c_id c /\ c_group c' = Some g) ->
  MInv w'.
Proof.
  intros w w' h c g [M1 M2 M3 M4] Hc Hg Hnone Hm Hig (ch & Hch & Hidh & Hgh).
  assert (Hnot : forall g', ~ In h (members w g')).
  { intros g' Hin. destruct (M1 g' h Hin) as (c0 & Hc0 & Hg0). congruence. }
  assert (Hget : forall j, j <> h -> forall c', get_client w' j = Some c' ->
            exists c0, get_client w j = Some c0 /\ c_id c0 = c_id c' /\ c_group c0 = c_group c').
  { intros j Hj c' Hc'. pose proof (Hig j Hj) as Ho. rewrite Hc' in Ho. cbn in Ho.
    destruct (get_client w j) as [c0|]; [|discriminate]. cbn in Ho. unfold ig in Ho. inversion Ho.
    exists c0. auto. }
  assert (Hget' : forall j, j <> h -> forall c0, get_client w j = Some c0 ->
            exists c', get_client w' j = Some c' /\ c_id c0 = c_id c' /\ c_group c0 = c_group c').
  { intros j Hj c0 Hc0. pose proof (Hig j Hj) as Ho. rewrite Hc0 in Ho. cbn in Ho.
    destruct (get_client w' j) as [c'|]; [|discriminate]. cbn in Ho. unfold ig in Ho.
    inversion Ho. exists c'. auto. }
  assert (Hmem : forall g' j, In j (members w' g') ->
            (In j (members w g') /\ j <> h) \/ (j = h /\ g' = g)).
  { intros g' j Hj. rewrite Hm in Hj. destruct (String.eqb g' g) eqn:Eg.
    - apply in_app_or in Hj. destruct Hj as [Hj|[Hj|[]]].
      + left. split; [exact Hj|]. intro; subst. eapply Hnot; eauto.
      + right. split; [auto | apply eqb_true; exact Eg].
    - left. split; [exact Hj|]. intro; subst. eapply Hnot; eauto. }
  split.
  - intros g' j Hj. destruct (Hmem g' j Hj) as [[Hin Hne] | [-> ->]].
    + destruct (M1 g' j Hin) as (c0 & Hc0 & Hg0).
      destruct (Hget' j Hne c0 Hc0) as (c' & Hc' & _ & Hgg). exists c'. split; [exact Hc' | congruence].
    + exists ch. auto.
  - intros j c' g' Hc' Hg'. rewrite Hm. destruct (Nat.eq_dec j h) as [->|Hne].
    + rewrite Hch in Hc'. inversion Hc'; subst c'. rewrite Hgh in Hg'. inversion Hg'; subst g'.
      rewrite String.eqb_refl. apply in_or_app. right. left. reflexivity.
    + destruct (Hget j Hne c' Hc') as (c0 & Hc0 & _ & Hgg).
      assert (Hin : In j (members w g')) by (eapply M2; [exact Hc0 | congruence]).
      destruct (String.eqb g' g); [apply in_or_app; left|]; exact Hin.
  - intros g'. rewrite Hm. destruct (String.eqb g' g); [|apply M3].
    assert (Hp : Permutation (h :: members w g') (members w g' ++ [h])).
    { apply Permutation_cons_append. }
    eapply Permutation_NoDup; [exact Hp|]. constructor; [apply Hnot | apply M3].
  - intros g' j1 j2 c1 c2 H1 H2 Hc1 Hc2 Hid.
    destruct (Hmem g' j1 H1) as [[Hi1 Hn1] | [E1 E1']];
    destruct (Hmem g' j2 H2) as [[Hi2 Hn2] | [E2 E2']]; subst.
    + destruct (Hget j1 Hn1 c1 Hc1) as (d1 & Hd1 & Hid1 & _).
      destruct (Hget j2 Hn2 c2 Hc2) as (d2 & Hd2 & Hid2 & _).
      eapply M4; eauto. congruence.
    + exfalso. destruct (Hget j1 Hn1 c1 Hc1) as (d1 & Hd1 & Hid1 & _).
      rewrite Hch in Hc2. inversion Hc2; subst c2.
      eapply (get_member_none w g (c_id c) j1 d1); eauto. congruence.
    + exfalso. destruct (Hget j2 Hn2 c2 Hc2) as (d2 & Hd2 & Hid2 & _).
      rewrite Hch in Hc1. inversion Hc1; subst c1.
      eapply (get_member_none w g (c_id c) j2 d2); eauto. congruence.
    + reflexivity.
Qed.

Lemma handle_join_minv : forall w h c m r,
  MInv w -> get_client w h = Some c ->
  handle_join w h c m = Ok r -> MInv (r_world r).
Proof.
  intros w h c m r Hi Hc H. unfold handle_join in H.
  destruct (String.eqb (m_kind m) "leave").
  { repeat break_hyp H; finish_ok H; try exact Hi. apply leave_group_minv. exact Hi. }
  destruct (negb (String.eqb (m_kind m) "join")); [finish_ok H; exact Hi|].
  destruct (c_group c) eqn:Eg; [finish_ok H; exact Hi|].
  cbv zeta in H.
  match type of H with (if ?b then _ else _) = _ => destruct b end.
  { finish_ok H. eapply (minv_fr none); [exact Hi | frm]. }
  destruct (add_client _ _ _ _ _ _ _) as [w1 oe] eqn:Ea.
  set (w0 := upd w h (fun c => set_data c (m_data m))) in *.
  assert (H0 : ig_same w w0).
  { apply (fr_ig_same none q_id). unfold w0. frm. }
  destruct oe as [e|].
  - apply add_client_fail in Ea. destruct Ea as [Hg1 Hig1].
    destruct (join_fail_text e) as [ec v]. finish_ok H.
    eapply minv_stable; [exact Hi | |].
    + intros i. etransitivity; [|apply H0]. etransitivity; [|apply Hig1].
      apply (fr_ig_same none q_id). frm.
    + apply members_groups_eq. etransitivity; [|exact Hg1].
      apply (fr_groups_eq none None). frm.
  - apply add_client_ok in Ea. destruct Ea as (Hfg & Hgm & Hgr & Hig1).
    finish_ok H.
    assert (Hig : ig_same w w1) by (intro i; etransitivity; [apply Hig1 | apply H0]).
    eapply (minv_join w _ h c (m_group m)); [exact Hi | exact Hc | exact Eg | | | |].
    + rewrite <- Hgm. symmetry. apply get_member_same; [exact H0 | reflexivity].
    + intros g'.
      transitivity (members (upd_group w0 (m_group m)
                      (fun gr => gset_members gr (g_members gr ++ [h]))) g').
      { apply members_groups_eq. exact Hgr. }
      rewrite members_upd_group by (intro; reflexivity).
      destruct (String.eqb g' (m_group m)) eqn:Eq; [|reflexivity].
      apply eqb_true in Eq. subst g'.
      unfold members. change (find_group w0 (m_group m)) with (find_group w (m_group m)) in *.
      destruct (find_group w (m_group m)); [reflexivity | congruence].
    + intros i Hne. rewrite get_client_upd.
      destruct (Nat.eqb_spec i h); [congruence | apply Hig].
    + rewrite get_client_upd, Nat.eqb_refl.
      pose proof (Hig h) as Hh. rewrite Hc in Hh. cbn in Hh.
      destruct (get_client w1 h) as [c1|]; [|discriminate]. cbn in Hh. unfold ig in Hh. inversion Hh.
      eexists. split; [reflexivity|]. cbn. auto.
Qed.

(* ------------------------------------------------------------------ *)
(* every other message, actions, steps                                *)

Definition anyE : outmsg -> Prop := fun _ => True.

Lemma handle_chat_frT : forall w h c m r,
  handle_chat w h c m = Ok r -> Fr anyE q_mem None w (r_world r).
Proof.
  intros w h c m r H. unfold handle_chat in H. cbv zeta in H.
  repeat break_eq; inv_eqs; finish_ok H; unfold anyE; frm.
Qed.

Lemma handle_client_message_minv : forall w h c m r,
  MInv w -> get_client w h = Some c ->
  handle_client_message w h c m = Ok r -> MInv (r_world r).
Proof.
  intros w h c m r Hi Hc H. unfold handle_client_message in H.
  match type of H with (if ?b then _ else _) = _ => destruct b end; [finish_ok H; exact Hi|].
  match type of H with (if ?b then _ else _) = _ => destruct b end; [finish_ok H; exact Hi|].
  cbv zeta in H.
  destruct (String.eqb (m_type m) "join"); [eapply handle_join_minv; eauto|].
  destruct (String.eqb (m_type m) "request");
    [eapply (minv_fr none); [exact Hi | eapply fr_all_mem, handle_request_fr; eauto]|].
  destruct (String.eqb (m_type m) "requestStream");
    [eapply (minv_fr none); [exact Hi | eapply fr_all_mem, handle_request_stream_fr; eauto]|].
  destruct (String.eqb (m_type m) "offer");
    [eapply (minv_fr none); [exact Hi | eapply fr_all_mem, handle_offer_fr; eauto]|].
  destruct (String.eqb (m_type m) "answer");
    [eapply (minv_fr none); [exact Hi | eapply fr_all_mem, handle_answer_fr; eauto]|].
  destruct (String.eqb (m_type m) "renegotiate");
    [eapply (minv_fr none); [exact Hi | eapply fr_all_mem, handle_renegotiate_fr; eauto]|].
  destruct (String.eqb (m_type m) "close");
    [eapply (minv_fr none); [exact Hi | eapply fr_all_mem, handle_close_fr; eauto]|].
  destruct (String.eqb (m_type m) "abort");
    [eapply (minv_fr none); [exact Hi | eapply fr_all_mem, handle_abort_fr; eauto]|].
  destruct (String.eqb (m_type m) "ice");
    [eapply (minv_fr none); [exact Hi | eapply fr_all_mem, handle_ice_fr; eauto]|].
  destruct (String.eqb (m_type m) "chat" || String.eqb (m_type m) "usermessage");
    [eapply minv_fr; [exact Hi | eapply handle_chat_frT; eauto]|].
  destruct (String.eqb (m_type m) "groupaction");
    [eapply (minv_fr none); [exact Hi | eapply handle_groupaction_fr; eauto]|].
  destruct (String.eqb (m_type m) "useraction");
    [eapply (minv_fr none); [exact Hi | eapply fr_all_mem, handle_useraction_fr; eauto]|].
  destruct (String.eqb (m_type m) "pong"); [finish_ok H; exact Hi|].
  destruct (String.eqb (m_type m) "ping"); [finish_ok H; eapply (minv_fr none); [exact Hi | frm]|].
  finish_ok H. exact Hi.
Qed.

Lemma handle_action_minv : forall w h c a r,
  MInv w -> handle_action w h c a = Ok r -> MInv (r_world r).
Proof.
  intros w h c a r Hi H. eapply minv_fr; [exact Hi|].
  eapply fr_all_mem, handle_action_fr; eauto.
Qed.

Lemma run_batch_minv : forall q w h r, MInv w -> run_batch q w h = Ok r -> MInv (r_world r).
Proof.
  induction q as [|a q IH]; intros w h r Hi H; cbn [run_batch] in H.
  - finish_ok H. exact Hi.
  - destruct (get_client w h) as [c|] eqn:Ec; [|finish_ok H; exact Hi].
    destruct (handle_action w h c a) as [res|] eqn:Ea; [|discriminate].
    pose proof (handle_action_minv _ _ _ _ _ Hi Ea) as Hi'.
    destruct (r_err res); try (inversion H; subst; exact Hi').
    eapply IH; eauto.
Qed.

Lemma finish_minv : forall o h wrap w' r,
  (forall res, o = Ok res -> MInv (r_world res)) ->
  finish o h wrap = Running w' r -> MInv w'.
Proof.
  intros o h wrap w' r Ho H. unfold finish in H.
  destruct o as [res|]; [|discriminate].
  specialize (Ho res eq_refl).
  destruct (r_err res); inversion H; subst; try exact Ho; apply error_close_minv; exact Ho.
Qed.

Lemma step_msg_minv : forall w h m w' r, MInv w -> step_msg w h m = Running w' r -> MInv w'.
Proof.
  intros w h m w' r Hi H. unfold step_msg in H.
  destruct (get_client w h) as [c|] eqn:Ec; [|inversion H; subst; exact Hi].
  destruct (c_closed c); [inversion H; subst; exact Hi|].
  eapply finish_minv; [|exact H]. intros res Hr. eapply handle_client_message_minv; eauto.
Qed.

Lemma step_pump_minv : forall w h w' r, MInv w -> step_pump w h = Running w' r -> MInv w'.
Proof.
  intros w h w' r Hi H. unfold step_pump in H.
  destruct (get_client w h) as [c|] eqn:Ec; [|inversion H; subst; exact Hi].
  destruct (c_closed c); [inversion H; subst; exact Hi|].
  cbv zeta in H. eapply finish_minv; [|exact H]. intros res Hr.
  eapply run_batch_minv; [|exact Hr].
  eapply (minv_fr none); [exact Hi | frm].
Qed.

Lemma pump_round_minv : forall hs w w', MInv w -> pump_round hs w = Some w' -> MInv w'.
Proof.
  induction hs as [|h hs IH]; intros w w' Hi H; cbn [pump_round] in H.
  - inversion H; subst; exact Hi.
  - destruct (get_client w h) as [c|]; [|eapply IH; eauto].
    destruct (runnable c); [|eapply IH; eauto].
    destruct (step_pump w h) as [w1 r1|] eqn:Es; [|discriminate].
    eapply IH; [|exact H]. eapply step_pump_minv; eauto.
Qed.

Lemma quiesce_minv : forall fuel w w', MInv w -> quiesce fuel w = Some w' -> MInv w'.
Proof.
  induction fuel as [|f IH]; intros w w' Hi H; cbn [quiesce] in H.
  - inversion H; subst; exact Hi.
  - destruct (existsb runnable (w_clients w)); [|inversion H; subst; exact Hi].
    destruct (pump_round _ w) as [w1|] eqn:Ep; [|discriminate].
    eapply IH; [|exact H]. eapply pump_round_minv; eauto.
Qed.

Lemma find_group_in_app_none : forall gs g n,
  find_group_in gs n = None ->
  find_group_in (gs ++ [g]) n = if String.eqb (g_name g) n then Some g else None.
Proof.
  induction gs as [|a gs IH]; intros g n H; cbn in *; [reflexivity|].
  destruct (String.eqb (g_name a) n); [discriminate | apply IH; exact H].
Qed.
Lemma find_group_in_app_some : forall gs g n x,
  find_group_in gs n = Some x -> find_group_in (gs ++ [g]) n = Some x.
Proof.
  induction gs as [|a gs IH]; intros g n x H; cbn in *; [discriminate|].
  destruct (String.eqb (g_name a) n); [exact H | apply IH; exact H].
Qed.

Lemma minv_empty : MInv empty_world.
Proof.
  split.
  - intros g j H. destruct H.
  - intros j c g H. unfold get_client in H. cbn in H. destruct j; discriminate.
  - intros g. constructor.
  - intros g j1 j2 c1 c2 H. destruct H.
Qed.

Theorem step_minv : forall w o w' r, MInv w -> step w o = Running w' r -> MInv w'.
Proof.
  intros w o w' r Hi H. destruct o; cbn [step] in H.
  - (* a new group has no member *)
    destruct (find_group w name) eqn:Ef; inversion H; subst; [exact Hi|].
    eapply minv_stable; [exact Hi | intro; reflexivity |].
    intros g. unfold members, find_group in *. cbn [w_groups wset_groups].
    destruct (find_group_in (w_groups w) g) eqn:Eg.
    + erewrite find_group_in_app_some by exact Eg. reflexivity.
    + rewrite find_group_in_app_none by exact Eg. cbn [g_name].
      destruct (String.eqb name g); reflexivity.
  - (* a new connection is in no group *)
    inversion H; subst. clear H. destruct Hi as [M1 M2 M3 M4].
    assert (Hold : forall j c, get_client w j = Some c ->
              get_client (wset_clients w (w_clients w ++ [new_client id])) j = Some c).
    { intros j c Hc. unfold get_client in *. cbn. rewrite nth_error_app1; [exact Hc|].
      apply nth_error_Some. congruence. }
    split.
    + intros g j Hj. destruct (M1 g j Hj) as (c & Hc & Hg). exists c. auto.
    + intros j c g Hc Hg. apply get_client_app_new in Hc. destruct Hc as [Hc | ->].
      * eapply M2; eauto.
      * discriminate.
    + exact M3.
    + intros g j1 j2 c1 c2 H1 H2 Hc1 Hc2 Hid.
      destruct (M1 g j1 H1) as (d1 & Hd1 & _). destruct (M1 g j2 H2) as (d2 & Hd2 & _).
      rewrite (Hold _ _ Hd1) in Hc1. rewrite (Hold _ _ Hd2) in Hc2.
      inversion Hc1; inversion Hc2; subst. eapply M4; eauto.
  - eapply step_msg_minv; eauto.
  - eapply step_pump_minv; eauto.
  - unfold step_disconnect in H.
    destruct (get_client w h) as [c|]; [|inversion H; subst; exact Hi].
    destruct (c_closed c); inversion H; subst; [exact Hi | apply error_close_minv; exact Hi].
  - destruct (quiesce 1000 w) as [w1|] eqn:Eq; [|discriminate].
    inversion H; subst. eapply quiesce_minv; eauto.
  - destruct (get_client w h) as [c|]; inversion H; subst; [|exact Hi].
    eapply minv_stable; [exact Hi | | intro; reflexivity].
    intros i. rewrite get_client_upd. destruct (Nat.eqb i h); [|reflexivity].
    destruct (get_client w i); reflexivity.
Qed.

Lemma run_ops_snoc : forall ops w o,
  run_ops w (ops ++ [o]) =
  match run_ops w ops with
  | Some w1 => match step w1 o with Running w' _ => Some w' | Crashed => None end
  | None => None
  end.
Proof.
  induction ops as [|a ops IH]; intros w o; cbn [run_ops app].
  - destruct (step w o); reflexivity.
  - destruct (step w a); [apply IH | reflexivity].
Qed.

Lemma reach_snoc : forall ops o w',
  reach (ops ++ [o]) w' <-> exists w r, reach ops w /\ step w o = Running w' r.
Proof.
  intros ops o w'. unfold reach. rewrite run_ops_snoc. split.
  - intros H. destruct (run_ops empty_world ops) as [w|]; [|discriminate].
    destruct (step w o) as [w1 r|] eqn:Es; [|discriminate]. inversion H; subst. eauto.
  - intros (w & r & Hr & Hs). rewrite Hr, Hs. reflexivity.
Qed.

(* the invariant holds in every reachable state *)
Theorem reach_minv : forall ops w, reach ops w -> MInv w.
Proof.
  induction ops as [|o ops IH] using rev_ind; intros w H.
  - unfold reach in H. cbn in H. inversion H. apply minv_empty.
  - apply reach_snoc in H. destruct H as (w0 & r & H0 & Hs).
    eapply step_minv; [apply IH; exact H0 | exact Hs].
Qed.

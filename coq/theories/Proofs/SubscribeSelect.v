(* C07, layer 1: requestedTracks selects exactly what the property says.

   The specification is written independently of the model: [first_idx] and
   [last_idx] are characterised by [is_first]/[is_last] (an index holding the
   kind with no such index before / after it), and [select_spec] is the table
   of the property text. *)
From Coq Require Import List Bool Arith PeanoNat Lia.
From Galene Require Import Model.Subscribe.
Import ListNotations.

Lemma kind_eqb_eq : forall a b, kind_eqb a b = true <-> a = b.
Proof. destruct a, b; simpl; split; intro H; try reflexivity; discriminate. Qed.

Lemma kind_eqb_refl : forall a, kind_eqb a a = true.
Proof. destruct a; reflexivity. Qed.

Lemma rk_eqb_eq : forall a b, rk_eqb a b = true <-> a = b.
Proof. destruct a, b; simpl; split; intro H; try reflexivity; discriminate. Qed.

Lemma existsb_rk : forall r req, existsb (rk_eqb r) req = true <-> In r req.
Proof.
  intros r req. rewrite existsb_exists. split.
  - intros [x [Hin Heq]]. apply rk_eqb_eq in Heq. subst. exact Hin.
  - intro H. exists r. split; [exact H|]. apply rk_eqb_eq. reflexivity.
Qed.

(* ---- the specification *)

Definition is_first (k : kind) (ks : list kind) (i : nat) : Prop :=
  nth_error ks i = Some k /\ forall j, j < i -> nth_error ks j <> Some k.

Definition is_last (k : kind) (ks : list kind) (i : nat) : Prop :=
  nth_error ks i = Some k /\ forall j, i < j -> nth_error ks j <> Some k.

Fixpoint first_idx (k : kind) (ks : list kind) : option nat :=
  match ks with
  | [] => None
  | t :: r => if kind_eqb t k then Some 0
              else match first_idx k r with Some i => Some (S i) | None => None end
  end.

Fixpoint last_idx (k : kind) (ks : list kind) : option nat :=
  match ks with
  | [] => None
  | t :: r => match last_idx k r with
              | Some i => Some (S i)
              | None => if kind_eqb t k then Some 0 else None
              end
  end.

Fixpoint count_kind (k : kind) (ks : list kind) : nat :=
  match ks with
  | [] => 0
  | t :: r => (if kind_eqb t k then 1 else 0) + count_kind k r
  end.

Lemma first_idx_spec : forall k ks i, first_idx k ks = Some i <-> is_first k ks i.
Proof.
  intros k ks. induction ks as [|t r IH]; intro i.
  - simpl. split; [discriminate|]. intros [H _]. destruct i; discriminate.
  - simpl. destruct (kind_eqb t k) eqn:E.
    + apply kind_eqb_eq in E. subst t. split.
      * intro H. inversion H. subst i. split; [reflexivity|]. intros j Hj. lia.
      * intros [H1 H2]. destruct i; [reflexivity|].
        exfalso. apply (H2 0); [lia|reflexivity].
    + assert (Hne : t <> k) by (intro; subst; rewrite kind_eqb_refl in E; discriminate).
      split.
      * intro H. destruct (first_idx k r) as [i0|] eqn:F; [|discriminate].
        inversion H. subst i. destruct (proj1 (IH i0) eq_refl) as [F1 F2].
        split; [exact F1|]. intros j Hj. destruct j; simpl.
        -- intro X. inversion X. contradiction.
        -- apply F2. lia.
      * intros [H1 H2]. destruct i; simpl in H1.
        -- inversion H1. contradiction.
        -- assert (X : first_idx k r = Some i).
           { apply IH. split; [exact H1|]. intros j Hj. apply (H2 (S j)). lia. }
           rewrite X. reflexivity.
Qed.

Lemma first_idx_none : forall k ks, first_idx k ks = None <-> ~ In k ks.
Proof.
  intros k ks. induction ks as [|t r IH]; simpl.
  - split; [intros _ H; exact H|reflexivity].
  - destruct (kind_eqb t k) eqn:E.
    + apply kind_eqb_eq in E. split; [discriminate|]. intro H. exfalso. apply H. left. exact E.
    + assert (Hne : t <> k) by (intro; subst; rewrite kind_eqb_refl in E; discriminate).
      split.
      * intro H. destruct (first_idx k r) eqn:F; [discriminate|].
        intros [Y|Y]; [contradiction|]. apply (proj1 IH eq_refl). exact Y.
      * intro H. assert (X : first_idx k r = None).
        { apply IH. intro Y. apply H. right. exact Y. }
        rewrite X. reflexivity.
Qed.

Lemma last_idx_none : forall k ks, last_idx k ks = None <-> ~ In k ks.
Proof.
  intros k ks. induction ks as [|t r IH]; simpl.
  - split; [intros _ H; exact H|reflexivity].
  - split.
    + intro H. destruct (last_idx k r) eqn:F; [discriminate|].
      destruct (kind_eqb t k) eqn:E; [discriminate|].
      assert (Hne : t <> k) by (intro; subst; rewrite kind_eqb_refl in E; discriminate).
      intros [Y|Y]; [contradiction|]. apply (proj1 IH eq_refl). exact Y.
    + intro H. assert (X : last_idx k r = None).
      { apply IH. intro Y. apply H. right. exact Y. }
      rewrite X. destruct (kind_eqb t k) eqn:E; [|reflexivity].
      apply kind_eqb_eq in E. exfalso. apply H. left. exact E.
Qed.

Lemma nth_error_not_in : forall (k : kind) ks j, ~ In k ks -> nth_error ks j <> Some k.
Proof.
  intros k ks j H X. apply H. eapply nth_error_In. exact X.
Qed.

Lemma last_idx_spec : forall k ks i, last_idx k ks = Some i <-> is_last k ks i.
Proof.
  intros k ks. induction ks as [|t r IH]; intro i.
  - simpl. split; [discriminate|]. intros [H _]. destruct i; discriminate.
  - simpl. split.
    + intro H. destruct (last_idx k r) as [i0|] eqn:F.
      * inversion H. subst i. destruct (proj1 (IH i0) eq_refl) as [F1 F2].
        split; [exact F1|]. intros j Hj. destruct j; [lia|]. simpl. apply F2. lia.
      * assert (Hn : ~ In k r) by (apply last_idx_none; exact F).
        destruct (kind_eqb t k) eqn:E; [|discriminate].
        apply kind_eqb_eq in E. subst t. inversion H. subst i. split; [reflexivity|].
        intros j Hj. destruct j; [lia|]. simpl. apply nth_error_not_in. exact Hn.
    + intros [H1 H2]. destruct i.
      * simpl in H1. inversion H1. subst t.
        assert (X : last_idx k r = None).
        { apply last_idx_none. intro Y. apply In_nth_error in Y. destruct Y as [j Y].
          apply (H2 (S j)); [lia|exact Y]. }
        rewrite X. rewrite kind_eqb_refl. reflexivity.
      * simpl in H1. assert (X : last_idx k r = Some i).
        { apply IH. split; [exact H1|]. intros j Hj. apply (H2 (S j)). lia. }
        rewrite X. reflexivity.
Qed.

(* the table of the property *)
Definition select_spec (req : list rk) (ks : list kind) : list nat * bool :=
  let audio := if existsb (rk_eqb RAudio) req then opt_list (first_idx KAudio ks) else [] in
  if existsb (rk_eqb RVideo) req then (audio ++ opt_list (first_idx KVideo ks), false)
  else if existsb (rk_eqb RVideoLow) req then
         (audio ++ opt_list (last_idx KVideo ks), Nat.ltb (count_kind KVideo ks) 2)
       else (audio, false).

(* ---- find *)

Lemma find_from_first : forall k ks i tr c,
  find_from k false ks i tr c =
  match first_idx k ks with
  | Some j => (Some (i + j), S c)
  | None => (tr, c)
  end.
Proof.
  intros k ks. induction ks as [|t r IH]; intros i tr c; simpl.
  - reflexivity.
  - destruct (kind_eqb t k).
    + rewrite Nat.add_0_r. reflexivity.
    + rewrite IH. destruct (first_idx k r).
      * f_equal. f_equal. lia.
      * reflexivity.
Qed.

Lemma find_from_last : forall k ks i tr c,
  find_from k true ks i tr c =
  (match last_idx k ks with Some j => Some (i + j) | None => tr end, c + count_kind k ks).
Proof.
  intros k ks. induction ks as [|t r IH]; intros i tr c; simpl.
  - f_equal. lia.
  - destruct (kind_eqb t k) eqn:E.
    + rewrite IH. destruct (last_idx k r); f_equal; try (f_equal; lia); try lia.
    + rewrite IH. destruct (last_idx k r); f_equal; try (f_equal; lia); try lia.
Qed.

Lemma find_first : forall k ks, fst (find k false ks) = first_idx k ks.
Proof.
  intros. unfold find. rewrite find_from_first. destruct (first_idx k ks); reflexivity.
Qed.

Lemma find_last : forall k ks,
  find k true ks = (last_idx k ks, count_kind k ks).
Proof.
  intros. unfold find. rewrite find_from_last. destruct (last_idx k ks); reflexivity.
Qed.

Lemma requested_tracks_spec : forall req ks,
  requested_tracks req ks = select_spec req ks.
Proof.
  intros req ks. unfold requested_tracks, select_spec.
  destruct req as [|r0 req']; [reflexivity|].
  set (req := r0 :: req').
  rewrite !find_first, find_last. simpl fst. simpl snd.
  reflexivity.
Qed.

(* ---- consequences in the words of the property *)

Lemma requested_tracks_empty : forall ks, requested_tracks [] ks = ([], false).
Proof. reflexivity. Qed.

(* every chosen index holds an audio or video track of a requested kind *)
Lemma requested_tracks_sound : forall req ks i,
  In i (fst (requested_tracks req ks)) ->
  (In RAudio req /\ is_first KAudio ks i) \/
  (In RVideo req /\ is_first KVideo ks i) \/
  (~ In RVideo req /\ In RVideoLow req /\ is_last KVideo ks i).
Proof.
  intros req ks i. rewrite requested_tracks_spec. unfold select_spec.
  destruct (existsb (rk_eqb RAudio) req) eqn:EA;
  destruct (existsb (rk_eqb RVideo) req) eqn:EV;
  destruct (existsb (rk_eqb RVideoLow) req) eqn:EL; simpl fst;
  try rewrite in_app_iff; intro H;
  repeat match goal with
  | H : _ \/ _ |- _ => destruct H as [H|H]
  | H : In _ (opt_list ?x) |- _ =>
      let E := fresh "E" in destruct x eqn:E; simpl in H; [destruct H as [H|[]]; subst|destruct H]
  | H : In _ [] |- _ => destruct H
  end;
  try (left; split; [apply existsb_rk; assumption|apply first_idx_spec; assumption]);
  try (right; left; split; [apply existsb_rk; assumption|apply first_idx_spec; assumption]);
  try (right; right; split; [intro X; apply existsb_rk in X; congruence|
        split; [apply existsb_rk; assumption|apply last_idx_spec; assumption]]).
Qed.

Lemma requested_tracks_length : forall req ks, length (fst (requested_tracks req ks)) <= 2.
Proof.
  intros. rewrite requested_tracks_spec. unfold select_spec.
  destruct (existsb (rk_eqb RAudio) req), (existsb (rk_eqb RVideo) req),
    (existsb (rk_eqb RVideoLow) req); simpl fst;
  repeat match goal with |- context [opt_list ?x] => destruct x; simpl opt_list end;
  simpl; lia.
Qed.

Lemma requested_tracks_limit : forall req ks,
  snd (requested_tracks req ks) = true <->
  (~ In RVideo req /\ In RVideoLow req /\ count_kind KVideo ks < 2).
Proof.
  intros. rewrite requested_tracks_spec. unfold select_spec.
  destruct (existsb (rk_eqb RVideo) req) eqn:EV; simpl snd.
  - split; [discriminate|]. intros [H _]. exfalso. apply H. apply existsb_rk. exact EV.
  - destruct (existsb (rk_eqb RVideoLow) req) eqn:EL; simpl snd.
    + rewrite Nat.ltb_lt. split.
      * intro H. split; [intro X; apply existsb_rk in X; congruence|].
        split; [apply existsb_rk; exact EL|exact H].
      * intros [_ [_ H]]. exact H.
    + split; [discriminate|]. intros [_ [H _]]. apply existsb_rk in H. congruence.
Qed.

(* indices are in range *)
Lemma requested_tracks_range : forall req ks i,
  In i (fst (requested_tracks req ks)) -> i < length ks.
Proof.
  intros req ks i H. apply requested_tracks_sound in H.
  destruct H as [[_ [H _]]|[[_ [H _]]|[_ [_ [H _]]]]];
    apply nth_error_Some; rewrite H; discriminate.
Qed.

(* C03: the picture-id delta of a source packet is as stable as its outgoing
   number.  Proofs/PacketMapSpec.v says nothing about the third component of
   Map's answer; here the invariant of Proofs/PacketMapInv.v is carried
   together with a statement about ONE tracked source number x:

     Kp gs x q : every interval that covers x carries pidDelta q
                 (and q = 0 while the map holds no interval at all).

   Kp is established by the Map call that forwards x with pidDelta q and is
   preserved by every later Map / Drop / Reverse as long as the map does not
   re-synchronise.  The three preservation lemmas of PacketMapInv.v are
   re-proved with the list of ghost intervals visible (they hide it behind an
   existential), with the extra conjunct. *)
From Coq Require Import ZArith List Bool Lia.
From Coq Require Import ZifyBool.
From Galene Require Import Lib.Word Generated.Consts Model.PacketMap Model.PacketMapL1.
From Galene Require Import Proofs.PacketMapGhost Proofs.PacketMapInv Proofs.PacketMapView.
From Galene Require Import Proofs.PacketMapSpec Proofs.PacketMapOut.
Import ListNotations.
Open Scope Z_scope.
Ltac Zify.zify_post_hook ::= Z.div_mod_to_equations.

Definition covers (g : gentry) (x : Z) : Prop := First g <= x < First g + Count g.

Definition Kp (gs : list gentry) (x q : Z) : Prop :=
  (gs = [] -> q = 0) /\ (forall g, In g gs -> covers g x -> PidD g = q).

Lemma In_removelast {A} (l : list A) x : In x (removelast l) -> In x l.
Proof.
  induction l as [|y l IH]; [intros []|].
  destruct l as [|z l]; [intros []|].
  change (removelast (y :: z :: l)) with (y :: removelast (z :: l)).
  intros [->|H]; [left; reflexivity|right; apply IH; exact H].
Qed.

(* intervals of a chain are disjoint *)
Lemma chain_cover_unique : forall gs hi g1 g2 x, chainP First hi gs ->
  In g1 gs -> In g2 gs -> covers g1 x -> covers g2 x -> PidD g1 = PidD g2.
Proof.
  unfold covers.
  induction gs as [|g gs IH]; intros hi g1 g2 x Hc H1 H2 C1 C2; [destruct H1|].
  destruct Hc as (Hcnt & Hend & Hb & Hc').
  destruct H1 as [<-|H1]; destruct H2 as [<-|H2].
  - reflexivity.
  - destruct (chain_ends First gs (First g) g2 Hc' H2). lia.
  - destruct (chain_ends First gs (First g) g1 Hc' H1). lia.
  - exact (IH _ _ _ x Hc' H1 H2 C1 C2).
Qed.

(* ---- retire ---- *)
Lemma retire_K a G : Inv a G ->
  exists gs', Inv (l1_retire a) (mkGh (gNext G) (gD G) gs') /\
              young (mkGh (gNext G) (gD G) gs') /\
              (gGs G = [] <-> gs' = []) /\
              (forall x q, Kp (gGs G) x q -> Kp gs' x q).
Proof.
  destruct G as [Next D gs0]. unfold Inv, young. cbn [gNext gD gGs].
  intros (Hst & Hn & Hd & Hnd & Hlt & Hv & Hc & Hg & Hh & Hnil & He).
  unfold l1_retire. rewrite Hv.
  destruct gs0 as [|g0 gs].
  - exists []. cbn [map]. split; [|split; [exact I|split; [tauto|auto]]].
    inv_split; auto; tauto.
  - cbn [map]. destruct (chain_head_range _ _ _ Hc) as (Hc0 & Hend & Hrange).
    unfold Bnd in Hrange.
    assert (Hdist : w16 (l_next a - e_first (erase g0)) = Next - First g0).
    { rewrite Hn. cbn [erase e_first]. rewrite w16_sub_both. apply w16_exact. lia. }
    rewrite Hdist. rewrite retireAge_val.
    destruct (Next - First g0 <? 16384) eqn:Eage.
    + exists (g0 :: gs). split; [|split; [lia|split; [tauto|auto]]].
      inv_split; auto; tauto.
    + cbn [erase e_first e_count e_delta e_pidDelta]. rewrite window_val.
      inversion Hg as [|? ? Hg0 Hgs]; subst.
      destruct Hg0 as (Hno & Hdel).
      cbn [head_ok] in Hh.
      assert (Hfirst : w16 (l_next a - 8192) = w16 (Next - 8192))
        by (rewrite Hn; unfold w16; lia).
      assert (Hendw : w16 (w16 (First g0) + Count g0) = w16 (First g0 + Count g0))
        by (unfold w16; lia).
      rewrite Hfirst, Hendw.
      rewrite (cmp16_nonpos (First g0 + Count g0) (Next - 8192)) by lia.
      destruct (First g0 + Count g0 <=? Next - 8192) eqn:Ecase.
      * set (g' := mkG (Next) 0 (- zl (D)) (l_pidDelta a)).
        exists [g'].
        assert (HK : forall x q, Kp (g0 :: gs) x q -> Kp [g'] x q).
        { intros x q _. split; [discriminate|]. intros g [<-|[]]. unfold covers, g'. cbn [First Count]. lia. }
        split; [|split; [cbn [First g']; lia|split; [split; discriminate|exact HK]]].
        unfold Inv; cbn [gNext gD gGs with_view l_started l_next l_delta l_view l_nil].
        split; [exact Hst|]. split; [exact Hn|]. split; [exact Hd|].
        split; [exact Hnd|]. split; [exact Hlt|].
        split; [cbn [map erase g' First Count Delta PidD]; rewrite Hn, Hd; reflexivity|].
        split; [cbn [chainP g' First Count]; unfold Bnd; lia|].
        split.
        { constructor; [|constructor]. split.
          - cbn [g' First Count]. intros d Hin. lia.
          - cbn [g' First Delta]. rewrite (before_all (D) (Next) Hlt). reflexivity. }
        split; [cbn [head_ok g' First Count Delta]; lia|].
        split; [split; discriminate|discriminate].
      * set (g' := mkG (Next - 8192) (First g0 + Count g0 - (Next - 8192)) (Delta g0) (PidD g0)).
        exists [g'].
        assert (HK : forall x q, Kp (g0 :: gs) x q -> Kp [g'] x q).
        { intros x q (_ & HK). split; [discriminate|]. intros g [<-|[]]. unfold covers, g'. cbn [First Count PidD].
          intros Hcov. apply (HK g0 (or_introl eq_refl)). unfold covers. lia. }
        split; [|split; [cbn [First g']; lia|split; [split; discriminate|exact HK]]].
        unfold Inv; cbn [gNext gD gGs with_view l_started l_next l_delta l_view l_nil].
        split; [exact Hst|]. split; [exact Hn|]. split; [exact Hd|].
        split; [exact Hnd|]. split; [exact Hlt|].
        split.
        { unfold g', erase. cbn [map First Count Delta PidD].
          rewrite ?w16_sub_both.
          rewrite (w16_exact (First g0 + Count g0 - (Next - 8192))) by lia. reflexivity. }
        split; [cbn [chainP g' First Count]; unfold Bnd; lia|].
        split.
        { constructor; [|constructor]. split.
          - cbn [g' First Count]. intros d Hin Hr. apply (Hno d Hin). lia.
          - cbn [g' First Delta]. rewrite Hdel. f_equal.
            symmetry. apply before_gap; [lia|]. intros d Hin Hr. apply (Hno d Hin). lia. }
        split; [cbn [head_ok g' First Count Delta]; lia|].
        split; [split; discriminate|discriminate].
Qed.

(* ---- addMapping followed by the advance of next ---- *)
Lemma add_mapping_K a G r p : Inv a G -> young G -> gGs G <> [] ->
  gNext G <= r <= gNext G + 8192 ->
  let a1 := l1_add_mapping a (w16 r) (l_delta a) (l_pidDelta a) in
  exists gs', Inv (advance a1 (w16 r) p) (mkGh (r + 1) (gD G) gs') /\ gs' <> [] /\
    (forall x q, x < gNext G -> Kp (gGs G) x q -> Kp gs' x q) /\
    Kp gs' r (l_pidDelta a).
Proof.
  destruct G as [Next D gs0]. unfold Inv, young. cbn [gNext gD gGs].
  intros (Hst & Hn & Hd & Hnd & Hlt & Hv & Hc & Hg & Hh & Hnil & He) Hy Hne Hr.
  destruct gs0 as [|g0 gs]; [congruence|]. clear Hne.
  destruct (chain_head_range _ _ _ Hc) as (Hc0 & Hend & Hrange).
  assert (Hcall := Hc).
  cbn [chainP] in Hc. destruct Hc as (_ & _ & _ & Hc').
  inversion Hg as [|? ? Hg0 Hgs]; subst. destruct Hg0 as (Hno & Hdel).
  cbn [head_ok] in Hh.
  assert (Hnext' : w16 (w16 r + 1) = w16 (r + 1)) by (unfold w16; lia).
  assert (Hlt' : forall d, In d D -> d < r + 1) by (intros d Hin; specialize (Hlt d Hin); lia).
  unfold l1_add_mapping. rewrite Hv. cbn [map].
  cbn [erase e_delta e_pidDelta e_first e_count].
  destruct ((l_delta a =? w16 (Delta g0)) && (l_pidDelta a =? PidD g0)) eqn:Esame.
  - assert (Hdd : - zl D = Delta g0).
    { apply w16_inj_near; [lia|]. rewrite <- Hd. lia. }
    set (g0' := mkG (First g0) (r - First g0 + 1) (Delta g0) (PidD g0)).
    exists (g0' :: gs). split; [|split; [discriminate|split]].
    + unfold advance. cbn [with_view l_started l_next l_delta l_pidDelta l_nil l_view].
      inv_split.
      * exact Hst.
      * exact Hnext'.
      * exact Hd.
      * exact Hnd.
      * exact Hlt'.
      * unfold g0', erase. cbn [map First Count Delta PidD]. f_equal. f_equal.
        assert (E : w16 (w16 r - w16 (First g0) + 1) = r - First g0 + 1)
          by (unfold w16; lia).
        rewrite E. reflexivity.
      * unfold g0'. cbn [chainP First Count]. unfold Bnd. split; [lia|]. split; [lia|]. split; [lia|exact Hc'].
      * constructor; [|exact Hgs]. unfold g0'. split; cbn [First Count Delta].
        -- intros d Hin Hd'. specialize (Hlt d Hin). apply (Hno d Hin). lia.
        -- exact Hdel.
      * unfold g0'. cbn [head_ok First Count Delta]. lia.
      * split; discriminate.
      * discriminate.
    + intros x q Hx (_ & HK). split; [discriminate|].
      intros g [<-|Hin] Hcov.
      * unfold covers, g0' in Hcov. cbn [First Count] in Hcov. cbn [g0' PidD].
        apply (HK g0 (or_introl eq_refl)). unfold covers. lia.
      * apply (HK g (or_intror Hin) Hcov).
    + split; [discriminate|]. intros g [<-|Hin] Hcov.
      * cbn [g0' PidD]. lia.
      * destruct (chain_ends First gs (First g0) g Hc' Hin). unfold covers in Hcov. lia.
  - set (dd := zl D + Delta g0).
    assert (Hdd : w16 (w16 (Delta g0) - l_delta a) = dd).
    { rewrite Hd. unfold dd. rewrite w16_sub_both.
      replace (Delta g0 - - zl D) with (zl D + Delta g0) by lia.
      apply w16_exact. unfold Bnd in *. lia. }
    rewrite Hdd. rewrite window_val.
    set (F' := if dd <? 8192 then Next else r).
    assert (HF' : Next <= F' <= r) by (unfold F'; destruct (dd <? 8192); lia).
    assert (Hf : (if dd <? 8192
                  then if cmp16 (w16 (w16 (First g0) + Count g0 + dd)) (w16 r) <? 0
                       then w16 (w16 (First g0) + Count g0 + dd) else w16 r
                  else w16 r) = w16 F').
    { unfold F'. destruct (dd <? 8192) eqn:Ed; [|reflexivity].
      assert (E1 : w16 (w16 (First g0) + Count g0 + dd) = w16 Next)
        by (unfold dd; unfold w16; lia).
      rewrite E1. rewrite (cmp16_neg Next r) by lia.
      destruct (Next <? r) eqn:E2; [reflexivity|]. f_equal. lia. }
    rewrite Hf. clear Hf. clearbody F'.
    set (g' := mkG F' (r - F' + 1) (- zl D) (l_pidDelta a)).
    assert (Herase : mkE (w16 F') (w16 (w16 r - w16 F' + 1)) (l_delta a) (l_pidDelta a) = erase g').
    { unfold g', erase. cbn [First Count Delta PidD]. rewrite Hd. f_equal.
      unfold w16. lia. }
    rewrite Herase.
    assert (Hgok' : gok D g').
    { unfold g'. split; cbn [First Count Delta].
      - intros d Hin Hd'. specialize (Hlt d Hin). lia.
      - rewrite (before_all D F'); [reflexivity|]. intros d Hin. specialize (Hlt d Hin). lia. }
    assert (Hchain' : forall tl, chainP First (First g0) tl ->
              chainP First (r + 1) (g' :: g0 :: tl)).
    { intros tl Htl. unfold g'. cbn [chainP First Count]. unfold Bnd.
      split; [lia|]. split; [lia|]. split; [lia|].
      split; [lia|]. split; [lia|]. split; [lia|exact Htl]. }
    (* the K part is the same for both shapes of the new list *)
    assert (HKsub : forall tl, (forall g, In g tl -> In g (g0 :: gs)) ->
              (forall x q, x < Next -> Kp (g0 :: gs) x q -> Kp (g' :: tl) x q) /\
              Kp (g' :: tl) r (l_pidDelta a)).
    { intros tl Hsub. split.
      - intros x q Hx (_ & HK). split; [discriminate|].
        intros g [<-|Hin] Hcov.
        + unfold covers, g' in Hcov. cbn [First Count] in Hcov. lia.
        + apply (HK g (Hsub g Hin) Hcov).
      - split; [discriminate|]. intros g [<-|Hin] Hcov.
        + reflexivity.
        + destruct (chain_ends First (g0 :: gs) Next g Hcall (Hsub g Hin)).
          unfold covers in Hcov. lia. }
    destruct (zlen (erase g0 :: map erase gs) <? maxEntries).
    + exists (g' :: g0 :: gs).
      destruct (HKsub (g0 :: gs) (fun g H => H)) as (HK1 & HK2).
      split; [|split; [discriminate|split; [exact HK1|exact HK2]]].
      unfold advance. cbn [with_view l_started l_next l_delta l_pidDelta l_nil l_view].
      inv_split.
      * exact Hst.
      * exact Hnext'.
      * exact Hd.
      * exact Hnd.
      * exact Hlt'.
      * reflexivity.
      * apply Hchain'. exact Hc'.
      * constructor; [exact Hgok'|]. constructor; [split; assumption|exact Hgs].
      * unfold g'. cbn [head_ok First Count Delta]. lia.
      * split; discriminate.
      * discriminate.
    + exists (g' :: removelast (g0 :: gs)).
      destruct (HKsub (removelast (g0 :: gs)) (fun g H => In_removelast _ g H)) as (HK1 & HK2).
      split; [|split; [discriminate|split; [exact HK1|exact HK2]]].
      unfold advance. cbn [with_view l_started l_next l_delta l_pidDelta l_nil l_view].
      change (erase g0 :: map erase gs) with (map erase (g0 :: gs)).
      rewrite <- map_removelast.
      inv_split.
      * exact Hst.
      * exact Hnext'.
      * exact Hd.
      * exact Hnd.
      * exact Hlt'.
      * reflexivity.
      * assert (Hrm : chainP First (r + 1) (g' :: g0 :: gs)) by (apply Hchain'; exact Hc').
        change (g' :: removelast (g0 :: gs)) with (removelast (g' :: g0 :: gs)).
        apply chainP_removelast. exact Hrm.
      * constructor; [exact Hgok'|]. apply Forall_removelast.
        constructor; [split; assumption|exact Hgs].
      * unfold g'. cbn [head_ok First Count Delta]. lia.
      * split; discriminate.
      * discriminate.
Qed.

(* ---- Drop ---- *)
Lemma drop_K a G p : Inv a G ->
  let s := w16 (gNext G) in
  fst (l1_drop a s p) = true /\
  exists gs', Inv (snd (l1_drop a s p)) (mkGh (gNext G + 1) (gD G ++ [gNext G]) gs') /\
    (forall x q, Kp (gGs G) x q -> Kp gs' x q).
Proof.
  destruct G as [Next D gs0]. cbn [gNext gD gGs]. intros HI.
  assert (HI0 := HI). unfold Inv in HI. cbn [gNext gD gGs] in HI.
  destruct HI as (Hst & Hn & Hd & Hnd & Hlt & Hv & Hc & Hg & Hh & Hnil & He).
  unfold l1_drop. rewrite Hst, Hn. cbn [negb orb].
  replace (w16 Next =? w16 Next) with true by lia. cbn [negb fst snd].
  split; [reflexivity|].
  set (a' := match l_view a with
             | [] => with_view a [mkE (w16 (w16 Next - window)) window 0 0]
             | _ :: _ => a end).
  assert (HI' : exists gs1, Inv a' (mkGh Next D gs1) /\ gs1 <> [] /\
                            (forall x q, Kp gs0 x q -> Kp gs1 x q)).
  { unfold a'. rewrite Hv. destruct gs0 as [|g0 gs].
    - cbn [map]. rewrite window_val.
      set (g := mkG (Next - 8192) 8192 0 0).
      exists [g]. split; [|split; [discriminate|]].
      + assert (HD : D = []) by (apply He; reflexivity). subst D.
        unfold Inv. cbn [gNext gD gGs with_view l_started l_next l_delta l_view l_nil].
        inv_split.
        * exact Hst.
        * exact Hn.
        * exact Hd.
        * constructor.
        * intros d [].
        * unfold g, erase. cbn [map First Count Delta PidD]. f_equal. f_equal; unfold w16; lia.
        * unfold g. cbn [chainP First Count]. unfold Bnd. lia.
        * constructor; [|constructor]. unfold g. split; cbn [First Count Delta].
          -- intros d [].
          -- reflexivity.
        * unfold g. cbn [head_ok First Count Delta]. change (zl []) with 0. lia.
        * split; discriminate.
        * discriminate.
      + intros x q (Hq & _). split; [discriminate|]. intros g1 [<-|[]] _.
        cbn [g PidD]. symmetry. apply Hq. reflexivity.
    - exists (g0 :: gs). split; [exact HI0|split; [discriminate|auto]]. }
  destruct HI' as (gs1 & HI1 & Hne1 & HK1).
  destruct (retire_K a' _ HI1) as (gs2 & HI2 & Hy2 & Hiff & HK2).
  cbn [gNext gD gGs] in HI2, Hy2, Hiff, HK2.
  assert (Hne2 : gs2 <> []) by (intros E; apply Hne1; apply Hiff; exact E).
  exists gs2. split; [|intros x q H; apply HK2, HK1, H].
  set (a0 := l1_retire a') in *.
  unfold Inv in HI2. cbn [gNext gD gGs] in HI2.
  destruct HI2 as (Hst2 & Hn2 & Hd2 & Hnd2 & Hlt2 & Hv2 & Hc2 & Hg2 & Hh2 & Hnil2 & He2).
  unfold young in Hy2. cbn [gGs gNext] in Hy2.
  destruct gs2 as [|g0 gs]; [congruence|].
  destruct (chain_head_range _ _ _ Hc2) as (Hc0 & Hend & Hrange).
  unfold Inv. cbn [gNext gD gGs l_started l_next l_delta l_view l_nil].
  assert (Hzl : zl (D ++ [Next]) = zl D + 1) by (unfold zl; rewrite app_length; cbn [length]; lia).
  inv_split.
  - exact Hst2.
  - unfold w16. lia.
  - rewrite Hd2, Hzl. unfold w16. lia.
  - apply NoDup_snoc; [exact Hnd2|]. intros Hx. specialize (Hlt2 Next Hx). lia.
  - intros d Hin. apply in_app_or in Hin. destruct Hin as [Hin|[<-|[]]]; [specialize (Hlt2 d Hin)|]; lia.
  - exact Hv2.
  - cbn [chainP] in Hc2 |- *. unfold Bnd in *. destruct Hc2 as (H1 & H2 & H3 & H4).
    split; [exact H1|]. split; [lia|]. split; [lia|exact H4].
  - rewrite Forall_forall in Hg2 |- *. intros g Hin. destruct (Hg2 g Hin) as (Hno & Hdel).
    destruct (chain_ends First _ _ g Hc2 Hin) as (Hge & Hcg).
    split.
    + intros d Hd' Hr'. apply in_app_or in Hd'. destruct Hd' as [Hd'|[<-|[]]].
      * apply (Hno d Hd' Hr').
      * lia.
    + rewrite before_app. replace (Next <? First g) with false by lia. lia.
  - cbn [head_ok] in Hh2 |- *. lia.
  - exact Hnil2.
  - intros E. congruence.
Qed.

(* ---- Map ---- *)
Definition insync (Next s : Z) : bool :=
  let r := unwrap Next s in negb ((window <? r - Next) || (window <? Next - r)).

Lemma Kp_nil x : Kp [] x 0.
Proof. split; [reflexivity|intros g []]. Qed.

Lemma map_K a Next D gs s pid : Inv a (mkGh Next D gs) -> 0 <= s < 65536 ->
  let r := unwrap Next s in
  match fst (spec_step (SRun Next D) (OMap s pid)) with
  | SInit => False
  | SRun Next' D' =>
    exists gs', Inv (snd (l1_map a s pid)) (mkGh Next' D' gs') /\
      (insync Next s = true -> forall x q, x < Next -> Kp gs x q -> Kp gs' x q) /\
      (fst (fst (fst (l1_map a s pid))) = true -> Kp gs' r (snd (fst (l1_map a s pid))))
  end.
Proof.
  intros HI Hwf. cbn zeta. unfold insync. cbn [spec_step].
  destruct (unwrap_props Next s Hwf) as (Hw & Hrange).
  set (r := unwrap Next s) in *.
  pose proof (Inv_pristine a Next D gs HI) as Hpr.
  assert (HI' := HI). unfold Inv in HI'. cbn [gNext gD gGs] in HI'.
  destruct HI' as (Hst & Hn & Hd & Hnd & Hlt & Hv & Hc & Hg & Hh & Hnil & He).
  unfold l1_map.
  destruct ((l_delta a =? 0) && l_nil a) eqn:Epr.
  - assert (Hgs : gs = []) by (apply Hpr; reflexivity). subst gs.
    assert (HD : D = []) by (apply He; reflexivity). subst D.
    rewrite Hst, Hn. cbn [negb orb]. rewrite (cmp_next_le Next s Hwf). fold r.
    assert (Hdist : Next > r -> w16 (w16 Next - s) = Next - r).
    { intros. rewrite <- Hw. rewrite w16_sub_both. apply w16_exact. lia. }
    rewrite window_val.
    assert (El : l_delta a = 0) by lia.
    assert (En : l_nil a = true) by (destruct (l_nil a); [reflexivity|rewrite andb_false_r in Epr; discriminate]).
    destruct (Next <=? r) eqn:E1.
    + cbn [orb fst snd].
      replace ((8192 <? r - Next) || (8192 <? Next - r)) with (8192 <? r - Next) by lia.
      assert (Hfresh : Inv (mkL true (w16 (s + 1)) pid (l_delta a) (l_pidDelta a) (l_nil a) (l_view a))
                           (mkGh (r + 1) [] [])).
      { rewrite Hv, El, En. cbn [map]. apply Inv_fresh. rewrite <- Hw. unfold w16. lia. }
      destruct (8192 <? r - Next); cbn [fst snd negb];
        (exists []; split; [exact Hfresh|split; [intros _ x q _ H; exact H|intros _; apply Kp_nil]]).
    + cbn [orb].
      replace ((8192 <? r - Next) || (8192 <? Next - r)) with (8192 <? Next - r) by lia.
      rewrite Hdist by lia.
      destruct (8192 <? Next - r) eqn:E2; cbn [fst snd negb].
      * exists []. split; [|split; [discriminate|intros _; apply Kp_nil]].
        rewrite Hv, El, En. cbn [map]. apply Inv_fresh. rewrite <- Hw. unfold w16. lia.
      * exists []. split; [exact HI|split; [intros _ x q _ H; exact H|intros _; apply Kp_nil]].
  - assert (Hgs : gs <> []).
    { intros E. destruct Hpr as (_ & Hpr2). pose proof (Hpr2 E) as Hx. try rewrite Hx in Epr. discriminate. }
    rewrite Hn. rewrite (cmp_next_le Next s Hwf). fold r.
    rewrite window_val.
    destruct (Next <=? r) eqn:E1.
    + assert (Hdist : w16 (s - w16 Next) = r - Next).
      { rewrite <- Hw. rewrite w16_sub_both. apply w16_exact. lia. }
      rewrite Hdist.
      replace ((8192 <? r - Next) || (8192 <? Next - r)) with (8192 <? r - Next) by lia.
      destruct (8192 <? r - Next) eqn:E2; cbn [fst snd negb].
      * exists []. split; [|split; [discriminate|intros _; apply Kp_nil]].
        unfold l1_reset. rewrite Hst. apply Inv_fresh.
        rewrite <- Hw. unfold w16. lia.
      * destruct (retire_K a _ HI) as (gs1 & HI1 & Hy1 & Hiff1 & HK1).
        cbn [gNext gD gGs] in HI1, Hy1, Hiff1, HK1.
        assert (Hgs1 : gs1 <> []) by (intros E; apply Hgs; apply Hiff1; exact E).
        destruct (retire_scalars a) as (Rd & Rp & Rs & Rn).
        pose proof (add_mapping_K (l1_retire a) (mkGh Next D gs1) r pid HI1 Hy1 Hgs1 ltac:(cbn; lia)) as Ham.
        cbn [gNext gD gGs] in Ham. rewrite Hw in Ham.
        destruct Ham as (gs2 & HI2 & Hgs2 & HK2 & HK3).
        destruct (add_mapping_scalars (l1_retire a) s (l_delta (l1_retire a)) (l_pidDelta (l1_retire a)))
          as (Ad & Ap & As & An).
        exists gs2. split; [exact HI2|]. split.
        -- intros _ x q Hx H. apply (HK2 x q Hx). apply HK1. exact H.
        -- intros _. rewrite Ap. exact HK3.
    + assert (Hdist : w16 (w16 Next - s) = Next - r).
      { rewrite <- Hw. rewrite w16_sub_both. apply w16_exact. lia. }
      rewrite Hdist.
      replace ((8192 <? r - Next) || (8192 <? Next - r)) with (8192 <? Next - r) by lia.
      destruct (8192 <? Next - r) eqn:E2; cbn [fst snd negb].
      * exists []. split; [|split; [discriminate|intros _; apply Kp_nil]].
        unfold l1_reset. rewrite Hst. apply Inv_fresh.
        rewrite <- Hw. unfold w16. lia.
      * exists gs. split; [exact HI|]. split; [intros _ x q _ H; exact H|].
        unfold l1_direct. rewrite Hv.
        pose proof (lwalk_sound First e_first (fun e => w16 (s + e_delta e))
                      (fun g => eq_refl) gs Next r Hc ltac:(lia) ltac:(lia)) as Hlw.
        rewrite Hw in Hlw.
        destruct (lwalk (map erase gs) s e_first (fun e => w16 (s + e_delta e))) as [[v q]|];
          cbn [triple fst snd]; [|discriminate].
        intros _. destruct Hlw as (g & Hin & Hcov & _ & Hq).
        split; [intros E; contradiction|].
        intros g2 Hin2 Hcov2. rewrite Hq.
        apply (chain_cover_unique gs Next g2 g r Hc Hin2 Hin Hcov2 Hcov).
Qed.

(* ---- lookups at the time of the NACK ---- *)
Lemma unwrap_near Next R : -32768 <= R - Next < 32768 -> unwrap Next (w16 R) = R.
Proof. unfold unwrap, sext16, w16. intros H. destruct (_ <? 32768) eqn:E; lia. Qed.

(* the 16-bit tests of the late path of Map, for a source number in the window *)
Lemma late_tests a Next D gs R : Inv a (mkGh Next D gs) -> Next - 8192 <= R < Next ->
  l_started a = true /\ (cmp16 (l_next a) (w16 R) <=? 0) = false /\
  (window <? w16 (l_next a - w16 R)) = false.
Proof.
  intros HI HR. unfold Inv in HI. cbn [gNext gD gGs] in HI.
  destruct HI as (Hst & Hn & _).
  split; [exact Hst|]. rewrite Hn, window_val. split.
  - rewrite (cmp16_nonpos Next R) by lia. lia.
  - rewrite w16_sub_both. rewrite (w16_exact (Next - R)) by lia. lia.
Qed.

Lemma out_window D Next R : NoDup D -> (forall d, In d D -> d < Next) -> ~ In R D ->
  Next - 8192 <= R < Next ->
  Next - zl D - 8192 <= out D R < Next - zl D.
Proof.
  intros Hnd Hlt Hn HR.
  pose proof (out_strict D R Next Hnd ltac:(lia) Hn) as H1.
  assert (H2 : out D Next = Next - zl D) by (unfold out; rewrite (before_all D Next Hlt); reflexivity).
  pose proof (before_mono D R Next ltac:(lia)) as H3. unfold out in *. lia.
Qed.

Lemma nack_lookup a Next D gs R q pid :
  Inv a (mkGh Next D gs) -> Kp gs R q -> Next - 8192 <= R < Next -> ~ In R D ->
  (forall s p, l1_reverse a (w16 (out D R)) = (true, s, p) -> s = w16 R) /\
  (l1_map a (w16 R) pid = ((true, w16 (out D R), q), a) \/
   l1_map a (w16 R) pid = ((false, 0, 0), a)).
Proof.
  intros HI HK HR HnD.
  destruct (late_tests a Next D gs R HI HR) as (T1 & T2 & T3).
  pose proof (Inv_pristine a Next D gs HI) as Hpr.
  assert (HI' := HI). unfold Inv in HI'. cbn [gNext gD gGs] in HI'.
  destruct HI' as (Hst & Hn & Hd & Hnd & Hlt & Hv & Hc & Hg & Hh & Hnil & He).
  destruct gs as [|g0 gs'] eqn:Egs.
  - (* no interval: identity *)
    assert (HD : D = []) by (apply He; reflexivity). subst D.
    assert (Enil : l_nil a = true) by (apply Hnil; reflexivity).
    assert (Edel : l_delta a = 0) by (rewrite Hd; reflexivity).
    assert (Eout : out [] R = R) by (unfold out, before; cbn; lia).
    destruct HK as (HK & _). rewrite (HK eq_refl). rewrite Eout. split.
    + intros s p. unfold l1_reverse, l1_reverse_raw. rewrite Enil, Edel. cbn [Z.eqb andb].
      destruct (l1_recent a (w16 R)); intros H; inversion H; reflexivity.
    + left. unfold l1_map. rewrite Enil, Edel, T1, T2, T3. reflexivity.
  - rewrite <- Egs in *. assert (Hne : gs <> []) by (rewrite Egs; discriminate). clear Egs g0 gs'.
    split.
    + intros s p Hrev.
      pose proof (reverse_window a (mkGh Next D gs) (out D R) HI Hne
                    (out_window D Next R Hnd Hlt HnD HR)) as Hw.
      rewrite Hrev in Hw. destruct (Hw eq_refl) as (S & HS & HnS & Hout & _).
      rewrite <- HS. f_equal. apply (out_inj D S R Hnd HnS HnD Hout).
    + assert (Epr : (l_delta a =? 0) && l_nil a = false).
      { destruct ((l_delta a =? 0) && l_nil a) eqn:E; [|reflexivity].
        exfalso. apply Hne. apply Hpr. reflexivity. }
      unfold l1_map. rewrite Epr, T2, T3. unfold l1_direct. rewrite Hv.
      pose proof (lwalk_sound First e_first (fun e => w16 (w16 R + e_delta e))
                    (fun g => eq_refl) gs Next R Hc ltac:(lia) ltac:(lia)) as Hlw.
      destruct (lwalk (map erase gs) (w16 R) e_first (fun e => w16 (w16 R + e_delta e))) as [[v q']|];
        cbn [triple]; [|right; reflexivity].
      left. destruct Hlw as (g & Hin & Hcov & Hv' & Hq).
      rewrite Forall_forall in Hg. destruct (gok_out D g R (Hg g Hin) Hcov) as (_ & Hout).
      destruct HK as (_ & HK). rewrite Hq, (HK g Hin Hcov).
      f_equal. f_equal. f_equal. rewrite Hv', Hout. cbn [erase e_delta]. unfold w16. lia.
Qed.

(* a withheld source number is refused by Map as long as it is in the window *)
Lemma withheld_lookup a Next D gs R pid :
  Inv a (mkGh Next D gs) -> Next - 8192 <= R < Next -> In R D ->
  l1_map a (w16 R) pid = ((false, 0, 0), a).
Proof.
  intros HI HR HD.
  destruct (late_tests a Next D gs R HI HR) as (T1 & T2 & T3).
  pose proof (Inv_pristine a Next D gs HI) as Hpr.
  destruct (direct_Inv a _ R HI ltac:(cbn; lia)) as (_ & Hd2). cbn [gD] in Hd2.
  assert (Hne : gs <> []).
  { intros E. unfold Inv in HI. cbn [gNext gD gGs] in HI.
    destruct HI as (_ & _ & _ & _ & _ & _ & _ & _ & _ & _ & He). rewrite (He E) in HD. destruct HD. }
  assert (Epr : (l_delta a =? 0) && l_nil a = false).
  { destruct ((l_delta a =? 0) && l_nil a) eqn:E; [|reflexivity].
    exfalso. apply Hne. apply Hpr. reflexivity. }
  unfold l1_map. rewrite Epr, T2, T3, (Hd2 HD). reflexivity.
Qed.

(* C12, WHIP trickle-ICE bodies: SDPFrag.Unmarshal never dereferences its nil
   pointer, for every byte string; the nil test of the "a=mid:" branch is
   needed; what the parser returns is determined by the lines alone. *)
From Coq Require Import ZArith List Bool Lia.
From Galene Require Import Model.SdpFrag.
Import ListNotations.
Open Scope Z_scope.

Lemma line_step_no_panic : forall f cur l, line_step f cur l <> SPanic.
Proof.
  intros f cur l. unfold line_step, line_step_gen.
  destruct (strip_prefix p_ufrag l) as [v|].
  { destruct cur; cbn; discriminate. }
  destruct (strip_prefix p_pwd l) as [v|].
  { destruct cur; cbn; discriminate. }
  destruct (strip_prefix p_m l) as [v|]; [discriminate|].
  destruct (strip_prefix p_mid l) as [v|].
  { destruct cur; cbn; discriminate. }
  destruct (strip_prefix p_cand l) as [v|]; [|discriminate].
  destruct cur; cbn; discriminate.
Qed.

Lemma run_lines_no_panic : forall ls f cur, run_lines_gen true f cur ls <> RPanic.
Proof.
  induction ls as [|l ls IH]; intros f cur; cbn [run_lines_gen]; [discriminate|].
  pose proof (line_step_no_panic f cur l) as H. unfold line_step in H.
  destruct (line_step_gen true f cur l) as [f' cur'| |]; [apply IH|discriminate|congruence].
Qed.

Theorem unmarshal_safe : forall data, unmarshal data <> RPanic.
Proof. intros data. apply run_lines_no_panic. Qed.

(* without the test the body "a=mid:0" alone is a nil dereference *)
Theorem unmarshal_unguarded_panics : unmarshal_unguarded (p_mid ++ [48]) = RPanic.
Proof. vm_compute. reflexivity. Qed.

(* "unexpected mid" is returned exactly when an "a=mid:" line comes before
   the first "m=" line (among the lines that are scanned) *)
Definition is_m (l : bytes) : bool :=
  match strip_prefix p_ufrag l, strip_prefix p_pwd l, strip_prefix p_m l with
  | None, None, Some _ => true
  | _, _, _ => false
  end.
Definition is_mid (l : bytes) : bool :=
  match strip_prefix p_ufrag l, strip_prefix p_pwd l, strip_prefix p_m l, strip_prefix p_mid l with
  | None, None, None, Some _ => true
  | _, _, _, _ => false
  end.

Fixpoint mid_before_m (ls : list bytes) : bool :=
  match ls with
  | [] => false
  | l :: ls' => if is_mid l then true else if is_m l then false else mid_before_m ls'
  end.

Lemma line_step_some : forall f m l, line_step f (Some m) l <> SErr /\
  (forall f' cur', line_step f (Some m) l = SCont f' cur' -> cur' <> None).
Proof.
  intros f m l. unfold line_step, line_step_gen.
  destruct (strip_prefix p_ufrag l); [cbn; split; [discriminate|intros ? ? H; inversion H; discriminate]|].
  destruct (strip_prefix p_pwd l); [cbn; split; [discriminate|intros ? ? H; inversion H; discriminate]|].
  destruct (strip_prefix p_m l); [split; [discriminate|intros ? ? H; inversion H; discriminate]|].
  destruct (strip_prefix p_mid l); [cbn; split; [discriminate|intros ? ? H; inversion H; discriminate]|].
  destruct (strip_prefix p_cand l); cbn; split; try discriminate; intros ? ? H; inversion H; discriminate.
Qed.

Lemma run_lines_some : forall ls f m, run_lines_gen true f (Some m) ls <> RErr.
Proof.
  induction ls as [|l ls IH]; intros f m; cbn [run_lines_gen]; [discriminate|].
  destruct (line_step_some f m l) as [H1 H2]. unfold line_step in *.
  destruct (line_step_gen true f (Some m) l) as [f' cur'| |] eqn:E; [|congruence|discriminate].
  destruct cur' as [m'|]; [apply IH|exfalso; exact (H2 _ _ eq_refl eq_refl)].
Qed.

Lemma run_lines_err_iff : forall ls f,
  run_lines_gen true f None ls = RErr <-> mid_before_m ls = true.
Proof.
  induction ls as [|l ls IH]; intros f; cbn [run_lines_gen mid_before_m].
  - split; discriminate.
  - unfold is_mid, is_m, line_step_gen.
    destruct (strip_prefix p_ufrag l); [apply IH|].
    destruct (strip_prefix p_pwd l); [apply IH|].
    destruct (strip_prefix p_m l).
    { cbn. split; [intros H; exfalso; exact (run_lines_some _ _ _ H)|discriminate]. }
    destruct (strip_prefix p_mid l); [cbn; split; reflexivity|].
    destruct (strip_prefix p_cand l); apply IH.
Qed.

Theorem unmarshal_err_iff : forall data,
  unmarshal data = RErr <-> mid_before_m (scan_lines data) = true.
Proof. intros data. apply run_lines_err_iff. Qed.

Lemma frev_rev : forall l, frev l = rev l.
Proof. intros l. unfold frev. rewrite rev_append_rev. apply app_nil_r. Qed.

(* every line the scanner hands over fits the buffer and carries no '\n' *)
Lemma raw_lines_no_nl : forall l cur, ~ In 10 cur -> Forall (fun x => ~ In 10 x) (raw_lines l cur).
Proof.
  induction l as [|x l IH]; intros cur Hc; cbn [raw_lines]; rewrite ?frev_rev.
  - destruct cur; constructor; [|constructor]. rewrite <- in_rev. exact Hc.
  - destruct (x =? 10) eqn:E.
    + constructor; [rewrite <- in_rev; exact Hc|apply IH; intros []].
    + apply IH. intros [H|H]; [apply Z.eqb_neq in E; congruence|exact (Hc H)].
Qed.

Lemma fitting_sub : forall ls x, In x (fitting ls) -> In x ls /\ zlen x < max_token.
Proof.
  induction ls as [|l ls IH]; intros x H; cbn [fitting] in H; [destruct H|].
  destruct (zlen l <? max_token) eqn:E; [|destruct H].
  destruct H as [H|H]; [subst; split; [left; reflexivity|apply Z.ltb_lt; exact E]|].
  destruct (IH x H); split; [right|]; assumption.
Qed.

Lemma drop_cr_sub : forall l x, In x (drop_cr l) -> In x l.
Proof.
  intros l x. unfold drop_cr. rewrite frev_rev. destruct (rev l) as [|y r] eqn:E; [auto|].
  destruct (y =? 13) eqn:Ey; [|auto].
  rewrite frev_rev. intros H.
  assert (l = rev r ++ [y]) by (rewrite <- (rev_involutive l), E; reflexivity).
  subst l. apply in_or_app. left. exact H.
Qed.

Theorem scan_lines_wf : forall data l, In l (scan_lines data) ->
  ~ In 10 l /\ zlen l < max_token.
Proof.
  intros data l H. unfold scan_lines in H. apply in_map_iff in H. destruct H as (r & <- & H).
  apply fitting_sub in H. destruct H as [H1 H2].
  pose proof (raw_lines_no_nl data [] (fun x => x)) as F. rewrite Forall_forall in F.
  split.
  - intros Hin. apply (F r H1). apply drop_cr_sub. exact Hin.
  - unfold zlen in *. unfold drop_cr. rewrite frev_rev. destruct (rev r) as [|y t] eqn:E; [exact H2|].
    assert (Hl : length r = S (length t)) by (rewrite <- (rev_length r), E; reflexivity).
    destruct (y =? 13); [rewrite frev_rev, rev_length; lia|exact H2].
Qed.
